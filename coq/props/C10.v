(* C10 -- CSS matcher returns the innermost rule or declaration with exact ranges.
   Property theorems only; each closed by [exact] of a lemma proved in proofs/.

   Level A (proved here, for ALL trees, no bound on depth, width or offsets): a
   stylesheet is a tree of nested rules and semicolon-terminated declarations with
   recorded offsets (model/CssTree.v: [node], [wf_forest]); such a tree denotes the
   callback sequence [events_forest f] (selector / propertyName / propertyValue /
   blockEnd with start, end, delimiter).  On that sequence the three consumers of
   css_matcher/__init__.py (model/CssMatch.v, followed function by function) return
   exactly what the tree says:
     match            = the innermost declaration or rule strictly containing pos
                        (declaration: name .. semicolon included, value as body;
                         rule: selector .. closing brace included, body between the braces)
     balanced_outward = value, declaration, then content range and full range of every
                        enclosing rule, innermost first, wherever pos is in the file
     balanced_inward  = full range and content range of the first node containing pos,
                        then of its first child, and so on.

   Level B (NOT proved; the full statement is
       forall sheet, scan (render sheet) = events_forest (tree sheet)
   over the generator grammar: pseudo-selectors, at-rules with parenthesised conditions,
   strings and comments containing braces, colons and semicolons, SCSS variables, custom
   properties) is covered by the differential correspondence run of harness/props/c10.py,
   which compares scan / match / balanced_* of the implementation with the extracted
   model on every generated stylesheet and every position, and by the ground-truth oracle.
   What IS proved about the scanner for all strings is in props/C16Css.v (ordered,
   well-formed events), which is the hypothesis under which the folds behave. *)
From Coq Require Import ZArith List.
From Emmet Require Import lib.Base model.CssScan model.CssMatch model.CssTree
     proofs.CssScanProofs proofs.CssTreeProofs.
Import ListNotations.
Local Open Scope Z_scope.

Theorem C10_match_innermost :
  forall (n : Z) (f : list node) (pos : Z),
    wf_forest n f -> match_events (events_forest f) pos = innermost_forest f pos.
Proof. exact match_tree. Qed.
Print Assumptions C10_match_innermost.

Theorem C10_outward_chain :
  forall (s : str) (f : list node) (pos : Z),
    wf_forest (Z.of_nat (length s)) f ->
    outward_events s (events_forest f) pos = Ok (pushed (chain_forest s f pos)).
Proof. exact outward_tree. Qed.
Print Assumptions C10_outward_chain.

Theorem C10_inward_first_children :
  forall (s : str) (f : list node) (pos : Z),
    wf_forest (Z.of_nat (length s)) f ->
    inward_events s (events_forest f) pos = Ok (inward_forest s f pos).
Proof. exact inward_tree. Qed.
Print Assumptions C10_inward_first_children.

(* the events of a well-formed tree satisfy the scanner's ordering invariant (so the
   theorems of C16Css.v about ordered event lists apply to them as well) *)
Theorem C10_tree_events_ordered :
  forall (n : Z) (f : list node), wf_forest n f -> events_ok 0 n (events_forest f).
Proof. exact events_ok_forest. Qed.
Print Assumptions C10_tree_events_ordered.

(* non-vacuity: the sheet  a { b: c; } d { e: f; }  (two top-level rules).  Its tree is
   well formed, the scanner produces exactly the events of the tree, and at position 18
   (inside the second rule, where the unrepaired code returned nothing) balanced_outward
   lists value, declaration and rule. *)
Example C10_nonvacuous :
  let s := [97;32;123;32;98;58;32;99;59;32;125;32;100;32;123;32;101;58;32;102;59;32;125]%N in
  let f := [Rule 0 1 2 [Decl 4 5 5 7 8 8] 10; Rule 12 13 14 [Decl 16 17 17 19 20 20] 22] in
  wf_forest (Z.of_nat (length s)) f /\
  scan s = events_forest f /\
  pushed (chain_forest s f 18) = [(19, 20); (16, 21); (12, 23)] /\
  innermost_forest f 18 = Some (mkMR true 16 21 19 20) /\
  inward_forest s f 13 = [(12, 23); (16, 21); (19, 20)].
Proof. vm_compute. repeat split; try reflexivity; intro; discriminate. Qed.
