(* C10 -- CSS matcher returns the innermost rule or declaration with exact ranges.
   Property theorems only; each closed by [exact] of a lemma proved in proofs/.

   Level A (proved here, for ALL trees, no bound on depth, width or offsets): a
   stylesheet is a tree of nested rules and semicolon-terminated declarations with
   recorded offsets (model/CssTree.v: [node], [wf_forest]); such a tree denotes the
   callback sequence [events_forest f] (selector / propertyName / propertyValue /
   blockEnd with start, end, delimiter).  On that sequence the three consumers of
   css_matcher/__init__.py (model/CssMatch.v, followed function by function) return
   exactly what the tree says:
     match            = the innermost declaration or rule strictly containing pos
                        (declaration: name .. semicolon included, value as body;
                         rule: selector .. closing brace included, body between the braces)
     balanced_outward = value, declaration, then content range and full range of every
                        enclosing rule, innermost first, wherever pos is in the file
     balanced_inward  = full range and content range of the first node containing pos,
                        then of its first child, and so on.

   Level B (proved here, for ALL sheets of the grammar of model/CssSheet.v, no bound on
   nesting, number of items, lengths or offsets): [render] writes a sheet as text, [tree] lays
   it out as the offset tree, [events] are the callbacks of that tree.
     css_scan_render  scan (render sh) = events sh          -- the scanner MODEL on the TEXT
     css_tree_wf      the layout is a well-formed tree of a document of that length
     C10_match_text / C10_outward_text / C10_inward_text    -- composition with Level A:
                      match, balanced_outward, balanced_inward applied to the TEXT return what
                      the sheet says (innermost rule or declaration, chain, first children).
   Grammar (CssSheet.v has the exact definition): nested rules and `name: value;` declarations
   at any depth (also at top level: `$x: 1;`); selectors, names and values are runs of tokens
   and gaps; a token is a plain character (anything but white space, quotes and { } ; : ( ) /,
   so letters, digits, . # - _ > + , $ @ % ! * [ ] = & \ and all non-ASCII characters), a quoted
   string (content may hold { } : ; ( ) comment markers, the other quote, and backslash + any
   character, e.g. an escaped quote), `(`, `)`, a `:` inside parentheses, two or more colons
   followed by a plain character outside parentheses, or a `/` not followed by `*`; selectors may contain delimiting single
   colons (`a:hover`, `:root`, `a:b:c`); a gap is any mix of white space and comments (comment
   bodies free of `*/`) and may stand at every place where the grammar has one: before and
   after selectors, names, values, between tokens, around `{` `:` `;` `}`, at the end.
   Core, pseudo-selectors, parenthesised at-rule conditions, strings, comments, SCSS variables
   and custom properties are all instances; CssRenderExamples.v has one sheet per construct.
   Outside the grammar, by design: `;` `{` `}` inside parentheses outside strings/comments (the
   listed finding: the scanner does treat them as delimiters), a `/` in front of `*` or at the
   end of a run, a single `:` at depth 0 inside a value, a declaration without its `;`, empty
   names/values/selectors, unterminated strings and comments.  Those remain covered by the
   differential correspondence run of harness/props/c10.py (implementation vs. extracted model
   on every generated sheet and position) and by the ground-truth oracle.
   What is proved about the scanner for ALL strings is in props/C16Css.v. *)
From Coq Require Import ZArith List String.
From Emmet Require Import lib.Base model.CssScan model.CssMatch model.CssTree model.CssSheet
     proofs.CssScanProofs proofs.CssTreeProofs proofs.CssRender proofs.CssRenderExamples.
Import ListNotations.
Local Open Scope Z_scope.

Theorem C10_match_innermost :
  forall (n : Z) (f : list node) (pos : Z),
    wf_forest n f -> match_events (events_forest f) pos = innermost_forest f pos.
Proof. exact match_tree. Qed.
Print Assumptions C10_match_innermost.

Theorem C10_outward_chain :
  forall (s : str) (f : list node) (pos : Z),
    wf_forest (Z.of_nat (length s)) f ->
    outward_events s (events_forest f) pos = Ok (pushed (chain_forest s f pos)).
Proof. exact outward_tree. Qed.
Print Assumptions C10_outward_chain.

Theorem C10_inward_first_children :
  forall (s : str) (f : list node) (pos : Z),
    wf_forest (Z.of_nat (length s)) f ->
    inward_events s (events_forest f) pos = Ok (inward_forest s f pos).
Proof. exact inward_tree. Qed.
Print Assumptions C10_inward_first_children.

(* the events of a well-formed tree satisfy the scanner's ordering invariant (so the
   theorems of C16Css.v about ordered event lists apply to them as well) *)
Theorem C10_tree_events_ordered :
  forall (n : Z) (f : list node), wf_forest n f -> events_ok 0 n (events_forest f).
Proof. exact events_ok_forest. Qed.
Print Assumptions C10_tree_events_ordered.

(* non-vacuity: the sheet  a { b: c; } d { e: f; }  (two top-level rules).  Its tree is
   well formed, the scanner produces exactly the events of the tree, and at position 18
   (inside the second rule, where the unrepaired code returned nothing) balanced_outward
   lists value, declaration and rule. *)
Example C10_nonvacuous :
  let s := [97;32;123;32;98;58;32;99;59;32;125;32;100;32;123;32;101;58;32;102;59;32;125]%N in
  let f := [Rule 0 1 2 [Decl 4 5 5 7 8 8] 10; Rule 12 13 14 [Decl 16 17 17 19 20 20] 22] in
  wf_forest (Z.of_nat (length s)) f /\
  scan s = events_forest f /\
  pushed (chain_forest s f 18) = [(19, 20); (16, 21); (12, 23)] /\
  innermost_forest f 18 = Some (mkMR true 16 21 19 20) /\
  inward_forest s f 13 = [(12, 23); (16, 21); (19, 20)].
Proof. vm_compute. repeat split; try reflexivity; intro; discriminate. Qed.

(* ------------------------------------------------------------------ Level B *)
(* the scanner on the text of a sheet produces exactly the callbacks of the sheet *)
Theorem css_scan_render :
  forall sh : sheet, wf_sheet sh = true -> scan (render sh) = events sh.
Proof. exact scan_render. Qed.
Print Assumptions css_scan_render.

(* which characters are plain tokens *)
Theorem css_plain_chars :
  forall c : char, plain c = true <->
    ~ In c [9; 10; 13; 32; 160; 34; 39; 123; 125; 59; 58; 40; 41; 47]%N.
Proof. exact plain_iff. Qed.
Print Assumptions css_plain_chars.

Theorem css_tree_wf :
  forall sh : sheet, wf_forest (Z.of_nat (length (render sh))) (tree sh).
Proof. exact tree_wf. Qed.
Print Assumptions css_tree_wf.

(* composition with Level A: the matcher on the TEXT *)
Theorem C10_match_text :
  forall (sh : sheet) (pos : Z), wf_sheet sh = true ->
    css_match (render sh) pos = innermost_forest (tree sh) pos.
Proof. exact match_text. Qed.
Print Assumptions C10_match_text.

Theorem C10_outward_text :
  forall (sh : sheet) (pos : Z), wf_sheet sh = true ->
    balanced_outward (render sh) pos = Ok (pushed (chain_forest (render sh) (tree sh) pos)).
Proof. exact outward_text. Qed.
Print Assumptions C10_outward_text.

Theorem C10_inward_text :
  forall (sh : sheet) (pos : Z), wf_sheet sh = true ->
    balanced_inward (render sh) pos = Ok (inward_forest (render sh) (tree sh) pos).
Proof. exact inward_text. Qed.
Print Assumptions C10_inward_text.

(* the excluded case (listed finding css:semicolon-or-brace-inside-parentheses-delimits), on the
   model: in  a{b:f(;);}  the value is cut at the `;` inside the parentheses and match() at
   position 7 does not return the declaration 2..9 with value 4..8; in  a{b:f({);}  the `{`
   inside the parentheses opens a block *)
Theorem C10_paren_delimiter_refuted :
  scan (T "a{b:f(;);}") =
    [mkEv Selector 0 1 1; mkEv PropertyName 2 3 3; mkEv PropertyValue 4 6 6; mkEv PropertyName 7 8 8;
     mkEv BlockEnd 9 10 9] /\
  css_match (T "a{b:f(;);}") 7 <> Some (mkMR true 2 9 4 8) /\
  scan (T "a{b:f({);}") =
    [mkEv Selector 0 1 1; mkEv Selector 2 6 6; mkEv PropertyName 7 8 8; mkEv BlockEnd 9 10 9].
Proof. exact paren_delimiter_refuted. Qed.
Print Assumptions C10_paren_delimiter_refuted.

(* non-vacuity: one well-formed sheet per construct with the text it renders to, and a sheet
   using all of them whose callbacks are those emmet.css_matcher.scan reports for its text *)
Example css_render_nonvacuous :
  (wf_sheet sh_core = true /\ render sh_core = tx_core) /\
  (wf_sheet sh_pseudo = true /\ render sh_pseudo = tx_pseudo) /\
  (wf_sheet sh_at = true /\ render sh_at = tx_at) /\
  (wf_sheet sh_str = true /\ render sh_str = tx_str) /\
  (wf_sheet sh_com = true /\ render sh_com = tx_com) /\
  (wf_sheet sh_var = true /\ render sh_var = tx_var) /\
  (wf_sheet sh_slash = true /\ render sh_slash = tx_slash) /\
  (wf_sheet sh_all = true /\ render sh_all = tx_all /\ events sh_all = ev_all) /\
  css_match tx_all 80 = Some (mkMR true 62 96 69 95) /\
  balanced_outward tx_all 80 = Ok [(69, 95); (62, 96); (62, 103); (29, 105); (0, 107)] /\
  balanced_inward tx_all 30 = Ok [(29, 105); (62, 103); (62, 96); (69, 95)].
Proof.
  pose proof ex_pseudo as (Hp1 & Hp2 & _). pose proof ex_slash as (Hs1 & Hs2 & _).
  repeat split; try apply ex_core; try apply ex_at; try apply ex_str; try apply ex_com; try apply ex_var;
    try apply ex_all; try assumption; vm_compute; reflexivity.
Qed.
