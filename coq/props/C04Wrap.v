(* C04 -- wrap text with implicit repeaters: the full statement, for ALL token trees.
   Property theorems only; each closed by [exact] of a lemma proved in proofs/WrapFull.v, WrapLines.v.

   Statement (C04, wrap clause): with `text` lines an abbreviation with an implicit repeater `X*` yields
   one copy of X per non-blank line, in order, each containing that trimmed line verbatim -- at every
   `$#` placeholder if there are any, otherwise appended once to the deepest last element; without an
   implicit repeater the whole text is inserted once into the deepest last element.

   SPEC (proofs/WrapFull.v), a pure function in the style of C02's [unroll_b]:
     unroll_w env reps node w   -- the unrolled forest of one statement under the enclosing repeater stack
                                   [reps]; [w] = (budget, inserted, text_inserted) threaded in document order.
         * a unit with a repeater gives [copies_of env r0] copies in a row: for an implicit `*` over a line
           list the number of non-blank lines, otherwise the written count (`*0`, bare `*` = 1);
         * copy i is the unit converted under (count, i, implicit?) :: reps; names, text and attribute
           values are printed by [tok_str] under that stack: `$` runs as C02 says, `$#` = the line of the
           CLOSEST implicit repeater of the stack (C04_placeholder_line), and meeting one sets both flags;
         * after copy i of an implicit repeater, if `inserted` is still unset, line i is appended to the
           deepest last element of the copy ([place_line]); when the repeater is done it sets `inserted`
           (so in `ul*2>li*` only the first `ul` receives lines: what the code does, DESIGN section 11);
         * every completed copy costs one unit of budget; a repeater stops after the copy that uses it up.
     convert_w env mr root      -- all statements, then the whole text into the deepest last element if
                                   nothing took it ([finish_w]).
   C04_wrap_implicit: convert = convert_w for EVERY tree whose tokens can be printed ([conv_node]: no
   Repeater token / unknown operator inside a name, value or attribute -- every tree the parser returns on
   tokenizer output, C02_parser_output_printable), every text (none / string / lines), every budget.
   C04_wrap_implicit_lines / _copies read the spec off for the statement's own case `X*` with X holding
   explicit repeaters at any depth. *)
From Emmet Require Import lib.Base model.MarkupTokenizer model.MarkupParser model.MarkupConvert
     proofs.ConvertProofs proofs.TextSpec proofs.TextConvert proofs.WrapFull proofs.WrapLines proofs.ParserClean.
Local Open Scope Z_scope.

(* ---- wrap_implicit, full: the converter is the spec, whole abbreviation *)
Theorem C04_wrap_implicit :
  forall (env : cenv) (max_repeat : option N) (root : list tnode),
    forallb conv_node root = true ->
    convert env max_repeat root = Ok (convert_w env max_repeat root).
Proof. exact convert_wrap_full. Qed.
Print Assumptions C04_wrap_implicit.

(* the hypothesis holds for whatever the parser returns on a tokenizer output: from the abbreviation TEXT,
   whatever it is, with every wrap text and every limit, convert is the spec *)
Theorem C04_wrap_implicit_text :
  forall (jsx : bool) (env : cenv) (max_repeat : option N) (s : str) (toks : list token) (root : list tnode),
    tokenize s = TOk toks -> parse jsx toks = POk root ->
    convert env max_repeat root = Ok (convert_w env max_repeat root).
Proof. exact convert_text_full. Qed.
Print Assumptions C04_wrap_implicit_text.

(* ... and one statement in ANY converter state: any repeater stack the converter can have built
   ([reps_ok]: copy indices of implicit repeaters are line indices), any budget, any flags *)
Theorem C04_wrap_implicit_statement :
  forall (env : cenv) (node : tnode) (st : cst),
    conv_node node = true -> reps_ok env (cs_repeaters st) ->
    conv_stmt env node st =
    Ok (fst (unroll_w env (cs_repeaters st) node (wst_of st)),
        st_r (cs_repeaters st) (snd (unroll_w env (cs_repeaters st) node (wst_of st)))).
Proof. exact conv_stmt_wrap. Qed.
Print Assumptions C04_wrap_implicit_statement.

(* ---- the parts of the spec, each for all inputs.
   (A) A tree without implicit repeaters -- explicit `*N` at any depth, `$#` anywhere -- unrolls exactly
   as C02's budgeted spec; all it does to the flags is record that a `$#` was met. *)
Theorem C04_wrap_explicit_part :
  forall (env : cenv) (node : tnode), explicit_node node = true ->
  forall (reps : list rep) (w : wst),
    unroll_w env reps node w =
    (fst (unroll_b env reps node (w_budget w)),
     w_mk (ph_node node) w (snd (unroll_b env reps node (w_budget w)))).
Proof. exact unroll_w_explicit. Qed.
Print Assumptions C04_wrap_explicit_part.

(* (B) X* with X = element or group holding explicit repeaters, numbering, attributes, text, `$#` at any
   depth; the abbreviation is this one statement; EVERY budget.  n copies are started, copy i
   (0-based) = [line_copy]: X converted once under the stack [(n, i, implicit)] with its children
   unrolled by C02's budgeted spec, and -- iff X holds no `$#` anywhere -- [wrap_line env i] appended to
   the deepest last element; completed copies cost one unit each, the repeater stops when the budget is
   used up. *)
Theorem C04_wrap_implicit_lines :
  forall (env : cenv) (mr : option N) (node : tnode) (r0 : rep),
    conv_node node = true ->
    node_rep node = Some r0 -> rimplicit r0 = true ->
    forallb explicit_node (elements_of' node) = true ->
    let n := copies_of env r0 in
    convert env mr [node] = Ok (fst (copies_b (line_copy env node n []) (N.to_nat n) 0%N (budget_of mr))).
Proof. exact wrap_implicit_lines. Qed.
Print Assumptions C04_wrap_implicit_lines.

(* ... the budget not reached: exactly n copies in order, copy i = X under (n, i) with line i *)
Theorem C04_wrap_implicit_copies :
  forall (env : cenv) (mr : option N) (node : tnode) (r0 : rep),
    conv_node node = true ->
    node_rep node = Some r0 -> rimplicit r0 = true ->
    forallb explicit_node (elements_of' node) = true ->
    let n := copies_of env r0 in
    Z.of_N n * (1 + inner_total node) <= budget_of mr ->
    convert env mr [node] =
      Ok (flat_map (fun i => piece env (ph_node node) i (once_u env node (Some (mkRep n i true)) [mkRep n i true]))
                   (nseq (N.to_nat n) 0%N)).
Proof. exact wrap_implicit_copies. Qed.
Print Assumptions C04_wrap_implicit_copies.

(* over a line list: n = the number of non-blank lines, line i = the i-th of them, trimmed *)
Theorem C04_wrap_count_is_lines :
  forall (env : cenv) (r0 : rep) (lines : list str),
    ce_text env = WList lines -> rimplicit r0 = true ->
    copies_of env r0 = N.of_nat (length (wrap_lines lines)) /\
    forall i, wrap_line env i = nth (N.to_nat i) (wrap_lines lines) [].
Proof. exact wrap_count_is_lines. Qed.
Print Assumptions C04_wrap_count_is_lines.

(* (C) inside copy i every `$#` prints line i, however many explicit repeaters lie between the place and
   the implicit one (`li*>b*2>i{$#}`): the closest implicit repeater of the stack supplies the line *)
Theorem C04_placeholder_line :
  forall (env : cenv) (t : token) (lines : list str) (expl : list rep) (n i : N) (rest : list rep),
    tk t = TRepeaterPlaceholder -> ce_text env = WList lines ->
    forallb (fun x => negb (rimplicit x)) expl = true ->
    (N.to_nat i < length (wrap_lines lines))%nat ->
    tok_str env (expl ++ mkRep n i true :: rest) t = nth (N.to_nat i) (wrap_lines lines) [].
Proof. exact placeholder_line_in_copy. Qed.
Print Assumptions C04_placeholder_line.

(* the implicit-repeater rule itself, one round of the copy loop *)
Theorem C04_place_line_rule :
  forall (env : cenv) (i : N) (x0 : anode) (xs : list anode) (w : wst),
    place_line env true i (x0 :: xs, w) =
      if w_ins w then (x0 :: xs, w)
      else (on_last_deepest (fun n => insert_text n (wrap_line env i)) (x0 :: xs), w_set_tins w).
Proof. exact place_line_rule. Qed.
Print Assumptions C04_place_line_rule.

(* ---- non-vacuity: nested explicit repeaters inside an implicit one, `$#` at two depths, a group, an
   attribute, numbering; lines that look like syntax and a blank one.  The parsed tree satisfies the
   hypotheses and both sides compute to the same forest. *)
From Coq Require Import String.
From Emmet Require Import lib.StrLit.
Definition c04w_env : cenv := mkCenv (WList [S " ul>li*3 "; S "  "; S "$$"]) [] false.
Definition c04w_parse (s : str) : list tnode :=
  match tokenize s with
  | TOk l => match parse false l with POk r => r | PErr _ => [] end
  | TErr _ => []
  end.
Example C04_wrap_full_nonvacuous :
  let root := c04w_parse (S "li.c$*>(b[t=$#]>i{$#$})*2+em") in
  List.length root = 1%nat /\ forallb conv_node root = true /\
  forallb explicit_node (flat_map elements_of' root) = true /\
  convert c04w_env None root = Ok (convert_w c04w_env None root) /\
  List.length (convert_w c04w_env None root) = 2%nat /\
  List.length (convert_w c04w_env (Some 3%N) root) = 1%nat.
Proof. vm_compute. repeat split; reflexivity. Qed.

(* `ul*2>li*`: only the first `ul` receives the lines (state.inserted stays set) -- the spec says what the
   code does *)
Definition kids_values (l : list anode) : list (list (option (list vtok))) :=
  map (fun n => map an_value (an_children n)) l.
Example C04_second_implicit_gets_nothing :
  let root := c04w_parse (S "ul*2>li*") in
  forallb conv_node root = true /\
  kids_values (convert_w (mkCenv (WList [S "a"; S "b"]) [] false) None root) =
    [[Some [VStr (S "a")]; Some [VStr (S "b")]]; [None; None]].
Proof. vm_compute. repeat split; reflexivity. Qed.
