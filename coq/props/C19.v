From Emmet Require Import lib.Base model.Math proofs.MathProofs.
Theorem C19_placeholder : True. Proof. exact placeholder_true. Qed.
Print Assumptions C19_placeholder.
