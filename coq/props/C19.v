(* C19 -- Math expressions evaluate to their arithmetic value.
   Property theorems only; each closed by [exact] of a lemma proved in proofs/.

   SPEC (proofs/MathSpec.v): [Lex s ts] the string spells the tokens, [Parses 0 ts e] the documented
   grammar derives the tree [e], [WellFormed s e] := both, [eval e : option Qc] exact rational
   arithmetic (None = division by zero), [covered e] no unparenthesised chain mixes '\' with '*' or '/'.
   MODEL (model/Math.v): [parse], [evaluate NS] generic in the number structure, [extract].
   Numbers are exact rationals ([QcNum]); the float rounding, overflow and underflow of the
   implementation are outside every theorem below. *)
From Coq Require Import QArith Qcanon.
From Emmet Require Import lib.Base model.Math gen.GenMath proofs.MathSpec proofs.MathProofs proofs.MathExtractProofs proofs.MathTables.

(* ---- the operator-ordering step: on the tokens of a tree of the grammar the priorities denote
   ('+ -' < '*' < '/ \' <= prefix '-', parentheses add 10), order_tokens yields the postfix code *)
Theorem C19_order_is_postfix :
  forall e : expr, wfL 0 e -> order_tokens (flat 0 e) = Some (postfix 0 e).
Proof. exact order_is_postfix. Qed.
Print Assumptions C19_order_is_postfix.

(* ---- parse() of a well-formed string is the postfix code of its (regrouped) tree *)
Theorem C19_parse_is_postfix :
  forall (s : str) (ts : list tok) (e : expr),
    Lex s ts -> Parses 0 ts e -> parse s = Ok (postfix 0 (regroup e)).
Proof. exact parse_is_postfix. Qed.
Print Assumptions C19_parse_is_postfix.

(* ---- the stack evaluator on postfix code computes the value of the tree, in ANY number structure *)
Theorem C19_rpn_eval :
  forall (NS : NumStruct) (e : expr) (d : nat) (rest : list rtok) (stack : list (num NS)),
    eval_loop NS (postfix d e ++ rest) stack =
    match evalG NS e with
    | Some v => eval_loop NS rest (v :: stack)
    | None => zero_div
    end.
Proof. exact rpn_eval. Qed.
Print Assumptions C19_rpn_eval.

(* ---- regrouping (x * y) / z as x * (y / z), which is what the priorities do, keeps the value *)
Theorem C19_regroup_value :
  forall e : expr, covered e -> eval (regroup e) = eval e.
Proof. exact regroup_value. Qed.
Print Assumptions C19_regroup_value.

(* ---- VALUE CLAUSE: evaluate() of a well-formed, covered expression returns its arithmetic value,
   or raises ZeroDivisionError exactly when the arithmetic divides by zero *)
Theorem C19_evaluate_correct :
  forall (s : str) (e : expr),
    WellFormed s e -> covered e ->
    evaluate QcNum s = match eval e with Some v => Ok (Some v) | None => zero_div end.
Proof. exact evaluate_correct. Qed.
Print Assumptions C19_evaluate_correct.

(* ---- ERROR CLAUSE, for ALL strings: the result is a value, the module's parse error or
   ZeroDivisionError -- never an internal error (IndexError, KeyError, bare Exception, ValueError),
   never None, never out of fuel *)
Theorem C19_parse_errors_only :
  forall s : str,
    (exists v, evaluate QcNum s = Ok (Some v)) \/ evaluate QcNum s = math_err \/ evaluate QcNum s = zero_div.
Proof. exact parse_errors_only. Qed.
Print Assumptions C19_parse_errors_only.

(* ---- malformed input raises the parse error: a string no tree of the grammar spells is rejected *)
Theorem C19_malformed_raises :
  forall s : str, (forall e, ~ WellFormed s e) -> evaluate QcNum s = math_err.
Proof. exact malformed_raises. Qed.
Print Assumptions C19_malformed_raises.

(* ---- and conversely everything parse() accepts is a well-formed expression *)
Theorem C19_parse_sound :
  forall (s : str) (r : list rtok), parse s = Ok r -> exists e, WellFormed s e.
Proof. exact parse_sound. Qed.
Print Assumptions C19_parse_sound.

(* ---- EXTRACT CLAUSE, for all texts, positions (None, negative, past the end) and options *)
Theorem C19_extract_wf :
  forall (text : str) (pos : option Z) (look_ahead whitespace : bool) (a b : Z),
    extract text pos look_ahead whitespace = Some (a, b) ->
    (0 <= a <= b)%Z /\ (b <= Z.of_nat (length text))%Z /\
    b = lookahead_end text (match pos with Some p => p | None => Z.of_nat (length text) end) look_ahead whitespace /\
    Forall (fun c => math_char c = true) (text_slice text a b) /\
    balanced (text_slice text a b).
Proof. exact extract_wf. Qed.
Print Assumptions C19_extract_wf.

(* ---- TIE: the constants of the model are the constants of the code.  The math_* tables are
   regenerated from the imported emmet modules on every run (harness/gen_math.py): operator, sign and
   white-space character sets (over all code points), keys of ops1/ops2, priorities built by op1/op2,
   ParserState bits, the nullary token, and sample applications of every ops1/ops2 entry *)
Theorem C19_tables_tie :
  (forall c, is_operator c = mem c math_operator_chars) /\
  (forall c, is_sign c = mem c math_sign_chars) /\
  (forall c, is_negative_sign c = mem c math_negative_sign_chars) /\
  (forall c, is_white_space c = mem c math_white_space_chars) /\
  (forall c, is_space c = mem c math_space_chars) /\
  (forall NS c, has_key (ops2 NS c) = mem c math_ops2_keys) /\
  (forall NS c, has_key (ops1 NS c) = mem c math_ops1_keys) /\
  forallb (prio_row_ok mk_op2) math_op2_priorities = true /\
  forallb (prio_row_ok mk_op1) math_op1_priorities = true /\
  math_parser_state_bits = [PS_Primary; PS_Operator; PS_LParen; PS_RParen; PS_Sign; PS_Nullary] /\
  math_nullary = (true, 0%Z, prio_of RNull) /\
  forallb sample2_ok math_ops2_samples = true /\
  forallb sample1_ok math_ops1_samples = true.
Proof. exact math_tables_tie. Qed.
Print Assumptions C19_tables_tie.

(* ---- non-vacuity *)
(* "2 * -3 + 6/-2" is well-formed, covered, and evaluates to -9 *)
Example C19_nonvacuous_value :
  exists e, WellFormed [50;32;42;32;45;51;32;43;32;54;47;45;50]%N e /\ covered e /\
            eval e = Some (Q2Qc (-9 # 1)) /\
            evaluate QcNum [50;32;42;32;45;51;32;43;32;54;47;45;50]%N = Ok (Some (Q2Qc (-9 # 1))).
Proof.
  exists (Bin Add (Bin Mul (Num (2%N, 0%nat)) (Neg (Num (3%N, 0%nat)))) (Bin Div (Num (6%N, 0%nat)) (Neg (Num (2%N, 0%nat))))).
  assert (W : WellFormed [50;32;42;32;45;51;32;43;32;54;47;45;50]%N
                (Bin Add (Bin Mul (Num (2%N, 0%nat)) (Neg (Num (3%N, 0%nat)))) (Bin Div (Num (6%N, 0%nat)) (Neg (Num (2%N, 0%nat)))))).
  { exists [TNum (2%N, 0%nat); TOp Mul; TOp Sub; TNum (3%N, 0%nat); TOp Add; TNum (6%N, 0%nat); TOp Div; TOp Sub; TNum (2%N, 0%nat)].
    split.
    - assert (D : forall c, is_number c = true -> NumLit [c] (digits_value [c], 0%nat)).
      { intros c Hc. apply NL_int. split; [discriminate|]. constructor; [exact Hc|constructor]. }
      apply (Lex_tok [] [50%N] (TNum (2%N, 0%nat))); [constructor|constructor; apply (D 50%N); reflexivity|split; [reflexivity|discriminate]|].
      apply (Lex_tok [32%N] [42%N] (TOp Mul)); [repeat constructor|apply (Sp_op Mul)|exact I|].
      apply (Lex_tok [32%N] [45%N] (TOp Sub)); [repeat constructor|apply (Sp_op Sub)|exact I|].
      apply (Lex_tok [] [51%N] (TNum (3%N, 0%nat))); [constructor|constructor; apply (D 51%N); reflexivity|split; [reflexivity|discriminate]|].
      apply (Lex_tok [32%N] [43%N] (TOp Add)); [repeat constructor|apply (Sp_op Add)|exact I|].
      apply (Lex_tok [32%N] [54%N] (TNum (6%N, 0%nat))); [repeat constructor|constructor; apply (D 54%N); reflexivity|split; [reflexivity|discriminate]|].
      apply (Lex_tok [] [47%N] (TOp Div)); [constructor|apply (Sp_op Div)|exact I|].
      apply (Lex_tok [] [45%N] (TOp Sub)); [constructor|apply (Sp_op Sub)|exact I|].
      apply (Lex_tok [] [50%N] (TNum (2%N, 0%nat)) []); [constructor|constructor; apply (D 50%N); reflexivity|exact I|].
      constructor.
    - apply (P_add Add [TNum (2%N, 0%nat); TOp Mul; TOp Sub; TNum (3%N, 0%nat)] [TNum (6%N, 0%nat); TOp Div; TOp Sub; TNum (2%N, 0%nat)]);
        [reflexivity| |].
      + apply P_up0. apply (P_mul Mul [TNum (2%N, 0%nat)] [TOp Sub; TNum (3%N, 0%nat)]); [reflexivity| |].
        * apply P_up1. constructor.
        * apply P_neg. constructor.
      + apply (P_mul Div [TNum (6%N, 0%nat)] [TOp Sub; TNum (2%N, 0%nat)]); [reflexivity| |].
        * apply P_up1. constructor.
        * apply P_neg. constructor. }
  split; [exact W|]. split; [cbn; tauto|]. split; [vm_compute; reflexivity|].
  rewrite (C19_evaluate_correct _ _ W); [vm_compute; reflexivity|cbn; tauto].
Qed.

(* malformed strings exist and are rejected: "1)" *)
Example C19_nonvacuous_error : evaluate QcNum [49;41]%N = math_err.
Proof. vm_compute. reflexivity. Qed.

(* extract returns a proper range: extract("foo2 * (3 + 1)", 13) = (3, 14) through the look-ahead *)
Example C19_nonvacuous_extract :
  extract [102;111;111;50;32;42;32;40;51;32;43;32;49;41]%N (Some 13%Z) true true = Some (3%Z, 14%Z).
Proof. vm_compute. reflexivity. Qed.
