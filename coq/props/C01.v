(* C01 -- Markup expansion reproduces the element tree the operators denote.
   Property theorems only; each closed by [exact] of a lemma proved in proofs/.

   Full statement (kept visible): for every abbreviation of the documented grammar, under every
   self-closing style and with formatting on or off, the element tree of expand's output is the
   tree the operators denote, every element once per repetition, in document order.
   Proved here for ALL flat statements (any number of elements, any mix of > + ^ runs) at the
   level where the tree is built -- the parser's statements() loop -- against a depth-counter
   spec; the implicit-name rule is proved over the table regenerated from the source.
   C01_parse_groups extends this to statements with parenthesised groups `( ... )`, optionally
   repeated, nested to any depth (mutual induction over statements and units); C01_convert_shape
   gives the depth list and the number of elements of the unrolled forest (the copy/budget details
   are C02: C02_limit_full, C02_convert_count).
   _partial: the formatter's tag events (every node of the final tree printed once, in order) are
   covered by the model/implementation correspondence and the denotation oracle, not by a
   theorem yet; element blocks are required to satisfy [block_ok]/[gblock_ok] (proved for bare
   names; attributes/text blocks are C03/C04's concern). *)
From Coq Require Import String.
From Emmet Require Import lib.Base lib.StrLit model.MarkupTokenizer model.MarkupParser model.MarkupConvert
     model.MarkupResolve proofs.ParserSpine proofs.ParserGroups proofs.ImplicitProofs
     proofs.ConvertProofs proofs.ConvertShape.

(* the preorder depth list of the parsed tree is the one the operators denote:
   `>` nests, `+` keeps the level, each `^` moves one level up and stops at the top *)
Theorem C01_parse_denote_partial :
  forall (jsx : bool) (xs : list (leaf * sop)) (toks : list token),
    flat jsx xs toks ->
    exists els, parse jsx toks = POk els /\ preL 0 els = denote 0 xs.
Proof. exact parse_flat_denote. Qed.
Print Assumptions C01_parse_denote_partial.

(* the same with groups.  Syntax: a statement is a list of (unit, operator after it); a unit is an
   element or a group (statement, optional repeater).  Spec [denoteG off d xs]: the list of marks --
   element with its depth, or an opening/closing bracket pair around a group's contents, the
   repeater on the closing one -- where `>` nests, `+` keeps the level, each `^` moves one level up and
   stops at the top of the group (or of the abbreviation), and a group is one unit for what follows
   it.  [preML] is the same list read off the token tree; it determines the tree. *)
Theorem C01_parse_groups :
  forall (jsx : bool) (xs : gstmt) (toks : list token),
    gflat jsx xs toks ->
    exists els, parse jsx toks = POk els /\ preML 0 els = denoteG 0 0 xs.
Proof. exact parse_group_denote. Qed.
Print Assumptions C01_parse_groups.

Theorem C01_name_is_gblock :
  forall (t : token) (v : str), tk t = TLiteral v ->
    gblock_ok false [t] (mkLeaf (Some [t]) None None None false).
Proof. exact gblock_name. Qed.
Print Assumptions C01_name_is_gblock.

(* ... and by a name followed by a repeater `*N`: the element carries that repeater *)
Theorem C01_name_rep_is_gblock :
  forall (t tr : token) (v : str) (rp : rep), tk t = TLiteral v -> rep_of tr = Some rp ->
    gblock_ok false [t; tr] (mkLeaf (Some [t]) None None (Some rp) false).
Proof. exact gblock_name_rep. Qed.
Print Assumptions C01_name_rep_is_gblock.

(* convert_shape: unrolling preserves the relative order of the written elements and multiplies
   them by the repeat counts.  For every token tree without `$#` / implicit `*` and a budget that
   does not cut (C02 treats the cut): the converter's forest has the depth list [shape] -- each unit
   contributes, once per copy and in order, its element at its depth followed by its children one
   level deeper, a group contributes its contents at its own depth -- and its number of elements
   is [size]: every written element times the repeat counts of the repeated units around it. *)
Theorem C01_convert_shape :
  forall (env : cenv) (max_repeat : option N) (root : list tnode),
    ce_text env = WNone -> forallb clean_node root = true ->
    (total_list root <= budget_of max_repeat)%Z ->
    exists forest,
      convert env max_repeat root = Ok forest /\
      apreL 0 forest = flat_map (shape env [] 0) root /\
      asizeL forest = list_sum (map size root).
Proof. exact convert_shape_model. Qed.
Print Assumptions C01_convert_shape.

(* the hypothesis [block_ok] of [flat] is met by elements written as a bare name *)
Theorem C01_name_is_block :
  forall (t : token) (v : str), tk t = TLiteral v ->
    block_ok false [t] (mkLeaf (Some [t]) None None None false).
Proof. exact block_name. Qed.
Print Assumptions C01_name_is_block.

(* implicit names: the documented table, for every configuration *)
Theorem C01_implicit_documented :
  forall (cfg : mconfig) (p n : str),
    In (p, n) documented_implicit -> implicit_name_of cfg (Some (Some p)) = n.
Proof. exact implicit_documented. Qed.
Print Assumptions C01_implicit_documented.

(* ... and span inside inline elements, div otherwise, for every parent the map does not mention *)
Theorem C01_implicit_default :
  forall (cfg : mconfig) (p : str),
    assoc_str (lower p) GenImplicit.element_map = None ->
    implicit_name_of cfg (Some (Some p)) =
      if mem_str (lower (lower p)) (mc_inline cfg) then S "span" else S "div".
Proof. exact implicit_unmapped. Qed.
Print Assumptions C01_implicit_default.

(* non-vacuity: "a>b+c^d" as tokens satisfies [flat], and its denotation has four entries *)
Example C01_nonvacuous :
  let lit c p := mkTok (TLiteral [c]) p (p + 1) in
  let op o p := mkTok (TOperator o) p (p + 1) in
  let lf t := mkLeaf (Some [t]) None None None false in
  flat false [(lf (lit 97%N 0), SChild); (lf (lit 98%N 2), SSibling); (lf (lit 99%N 4), SClimb 0); (lf (lit 100%N 6), SSibling)]
       ([lit 97%N 0] ++ [op OpChild 1] ++ [lit 98%N 2] ++ [op OpSibling 3] ++ [lit 99%N 4] ++ [op OpClimb 5] ++ [lit 100%N 6]).
Proof.
  cbv zeta.
  apply flat_cons; [eapply block_name; reflexivity|apply ot_child; reflexivity|].
  apply flat_cons; [eapply block_name; reflexivity|apply ot_sibling; reflexivity|].
  apply flat_cons; [eapply block_name; reflexivity|apply ot_climb; [reflexivity|repeat constructor]|].
  apply flat_last. eapply block_name; reflexivity.
Qed.

(* non-vacuity of C01_parse_groups: "a>(b+c)*2^d" as tokens satisfies [gflat] *)
Example C01_groups_nonvacuous :
  let lit c p := mkTok (TLiteral [c]) p (p + 1) in
  let op o p := mkTok (TOperator o) p (p + 1) in
  let br o p := mkTok (TBracket o BGroup) p (p + 1) in
  let lf t := mkLeaf (Some [t]) None None None false in
  let rp := mkTok (TRepeater 2 0 false) 7 9 in
  gflat false
    [(GE (lf (lit 97%N 0)), SChild);
     (GG [(GE (lf (lit 98%N 3)), SSibling); (GE (lf (lit 99%N 5)), SSibling)] (Some (mkRep 2 0 false)), SClimb 0);
     (GE (lf (lit 100%N 10)), SSibling)]
    ([lit 97%N 0] ++ [op OpChild 1] ++
     (br true 2 :: ([lit 98%N 3] ++ [op OpSibling 4] ++ [lit 99%N 5]) ++ br false 6 :: [rp]) ++ [op OpClimb 9] ++
     [lit 100%N 10]).
Proof. exact gflat_example. Qed.
