(* markup.href -- MODEL EXTENSION of the markup converter (no property of its own; accounted by the C07 check,
   used by C04 / C02 / C01 / C08 through model/MarkupConvert.v).

   emmet/abbreviation/convert.py: when the whole wrap text goes into the deepest last element (no implicit
   repeater, no `$#`), that element is named `a` and options['markup.href'] is on, insert_href tests the text
   against re_url / re_email and writes it -- with `http://` / `mailto:` in front -- into the href attribute,
   unless an attribute named href already holds a value.

   model/MarkupHref.v hand-compiles the three regular expressions; the tables (words of re_url, code points of
   every class under re.I, bounds, what `$` tolerates) are generated from the compiled regex objects of the
   running interpreter (harness/gen_href.py -> gen/GenHref.v).  The matchers are total boolean functions: no
   Internal / OutOfFuel outcome exists for them, and the converter's outcome class is untouched by the
   extension (Href_same_outcome).  Proofs: proofs/HrefProofs.v. *)
From Coq Require Import ZArith List Bool.
From Emmet Require Import lib.Base lib.StrLit gen.GenHref model.MarkupHref model.MarkupTokenizer model.MarkupParser model.MarkupConvert
     model.MarkupResolve model.OutStream model.FormatHtml model.MarkupExpand.
From Emmet Require Import proofs.TextForest proofs.HrefProofs.
Import ListNotations.

(* ---------------------------------------------------------------- the matchers are the regular expressions *)
(* re_url.match(text): one of the words of the pattern (generated: https:// http:// ftp:// file:// // www. ftp.)
   is a prefix of the text; nothing is asked of the rest *)
Theorem Href_url_matcher :
  forall t : str, url_match t = true <-> exists w r : str, In w href_url_words /\ t = w ++ r.
Proof. exact url_match_spec. Qed.
Print Assumptions Href_url_matcher.

(* re_email.match(text):  L+ @ D+ . T{lo,hi} $  -- all strings, both directions; [email_end]: the end of the text
   or one final line feed *)
Theorem Href_email_matcher :
  forall t : str,
    email_match t = true <->
    exists l d tl e : str,
      t = l ++ href_email_at :: d ++ href_email_dot :: tl ++ e /\
      l <> [] /\ all_in href_email_local l /\
      d <> [] /\ all_in href_email_domain d /\
      all_in href_email_tld tl /\ (href_email_tld_min <= length tl <= href_email_tld_max)%nat /\
      email_end e.
Proof. exact email_match_spec. Qed.
Print Assumptions Href_email_matcher.

(* re.match(r'\w+:', s) *)
Theorem Href_proto_matcher :
  forall s : str,
    proto_match s = true <-> exists w rest : str, w <> [] /\ all_word w /\ s = w ++ href_proto_colon :: rest.
Proof. exact proto_match_spec. Qed.
Print Assumptions Href_proto_matcher.

(* ---------------------------------------------------------------- the value *)
Theorem Href_value :
  forall t : str,
    href_value t =
      if url_match t then Some (if starts_with s_www t || starts_with s_ftpdot t then s_http ++ t else t)
      else if email_match t then Some (s_mailto ++ t)
      else None.
Proof. exact href_value_spec. Qed.
Print Assumptions Href_value.

Theorem Href_value_nonempty : forall (t h : str), href_value t = Some h -> h <> [].
Proof. exact href_value_nonempty. Qed.
Print Assumptions Href_value_nonempty.

(* ---------------------------------------------------------------- the attributes *)
(* what the code does: nothing without a URL / e-mail address; a fresh raw `href` at the end when no attribute
   is named href; otherwise only the FIRST attribute named href is looked at, and it receives the value iff its
   own value is None or the empty list *)
Theorem Href_attrs_spec :
  forall (t : str) (at_ : option (list aattr)),
    match href_value t with
    | None => href_attrs t at_ = at_
    | Some h =>
        let l := attr_list (nonempty at_) in
        (no_href l /\ href_attrs t at_ = Some (l ++ [fresh_href h])) \/
        (exists pre a post, l = pre ++ a :: post /\ no_href pre /\ named_href a = true /\
                            href_attrs t at_ = Some (pre ++ (if value_empty a then with_value a h else a) :: post))
    end.
Proof. exact href_attrs_spec. Qed.
Print Assumptions Href_attrs_spec.

(* an attribute that has a value is never touched (C03: values appear as written) *)
Theorem Href_never_overwrites :
  forall (t : str) (at_ : option (list aattr)) (a : aattr),
    In a (attr_list (nonempty at_)) -> value_empty a = false -> In a (attr_list (href_attrs t at_)).
Proof. exact href_never_overwrites. Qed.
Print Assumptions Href_never_overwrites.

(* href is only ever written into an attribute named href whose value is None / empty, or as a fresh attribute
   when no attribute is named href *)
Theorem Href_written_only_when_empty :
  forall (t : str) (at_ : option (list aattr)) (a' : aattr),
    In a' (attr_list (href_attrs t at_)) ->
    In a' (attr_list at_) \/
    exists h, href_value t = Some h /\
      ((a' = fresh_href h /\ no_href (attr_list (nonempty at_))) \/
       (exists a, In a (attr_list (nonempty at_)) /\ named_href a = true /\ value_empty a = true /\ a' = with_value a h)).
Proof. exact href_written_only_when_empty. Qed.
Print Assumptions Href_written_only_when_empty.

(* ---------------------------------------------------------------- the converter *)
(* the text goes into the element exactly as insert_text puts it (C04); name, repeater, children, `/` mark are
   kept; the attributes change only on an `a` under markup.href *)
Theorem Href_text_as_by_insert_text :
  forall (env : cenv) (n : anode) (t : str),
    an_value (insert_wrap env n t) = an_value (insert_text n t) /\
    an_name (insert_wrap env n t) = an_name n /\ an_repeat (insert_wrap env n t) = an_repeat n /\
    an_children (insert_wrap env n t) = an_children n /\ an_self (insert_wrap env n t) = an_self n /\
    an_attrs (insert_wrap env n t) =
      if name_is (an_name n) s_a && ce_href env then href_attrs t (an_attrs n) else an_attrs n.
Proof. exact insert_wrap_fields. Qed.
Print Assumptions Href_text_as_by_insert_text.

(* PORTING LEMMA.  With markup.href off the converter IS the href-free converter ([convert_nohref] = convert() of
   the model before this extension, verbatim) *)
Theorem Href_off_is_href_free_converter :
  forall (env : cenv) (mr : option N) (root : list tnode),
    ce_href env = false -> convert env mr root = convert_nohref env mr root.
Proof. exact convert_href_off. Qed.
Print Assumptions Href_off_is_href_free_converter.

(* ... and for every configuration it is the href-free converter, possibly followed by the href step on the
   deepest last node of the result *)
Theorem Href_converter_cases :
  forall (env : cenv) (mr : option N) (root : list tnode),
    convert env mr root = convert_nohref env mr root \/
    exists l, convert_nohref env mr root = Ok l /\
              convert env mr root = Ok (on_last_deepest (href_step env (wrap_whole (ce_text env))) l).
Proof. exact convert_href_cases. Qed.
Print Assumptions Href_converter_cases.

(* same outcome class, same parse error, same internal error: markup.href adds no failure and hides none (C07) *)
Theorem Href_same_outcome :
  forall (env : cenv) (mr : option N) (root : list tnode),
    same_outcome (convert env mr root) (convert_nohref env mr root).
Proof. exact convert_href_same_outcome. Qed.
Print Assumptions Href_same_outcome.

(* "the deepest last element" with the href step, for ALL forests: in document order every node keeps its depth
   and payload except the node visited last -- value as by insert_text, attributes through href_attrs when it is
   an `a` and markup.href is on *)
Theorem Href_deepest_last_element :
  forall (env : cenv) (text : str) (items : list anode) (d : nat),
    flatL d (on_last_deepest (fun n => insert_wrap env n text) items) = map_last (pl_wrap env text) (flatL d items).
Proof. exact insert_wrap_into_deepest_last. Qed.
Print Assumptions Href_deepest_last_element.

(* ---------------------------------------------------------------- non-vacuity *)
From Coq Require Import String.
Example Href_matchers_nonvacuous :
  url_match (S "www.x") = true /\ url_match (S "//x") = true /\ url_match (S "http:/x") = false /\
  url_match (S "WWW.x") = false /\ url_match (S "file:///etc") = true /\
  email_match (S "a@b.cc") = true /\ email_match (S "a@b.c") = false /\ email_match (S "a@b.cccccc") = false /\
  email_match (S "x y@z.cc") = false /\ email_match (S "A@B.CC" ++ [c_nl])%list = true /\
  email_match (S "A@B.CC" ++ [c_nl; c_nl])%list = false /\
  email_match ([383; 64; 8490; 46; 304; 305]%N) = true /\             (* U+017F @ U+212A . U+0130 U+0131 under re.I *)
  proto_match (S "http://x") = true /\ proto_match (S "www.x:") = false /\ proto_match (S ":x") = false /\
  href_value (S "www.x") = Some (S "http://www.x") /\ href_value (S "ftp.x.y") = Some (S "http://ftp.x.y") /\
  href_value (S "//x") = Some (S "//x") /\ href_value (S "ftp://h") = Some (S "ftp://h") /\
  href_value (S "a@b.cc") = Some (S "mailto:a@b.cc") /\ href_value (S "http:/x") = None /\ href_value (S "a@b.c") = None.
Proof. vm_compute. repeat split. Qed.

(* the whole pipeline: `a` with text ' www.x ' gives <a href="http://www.x">www.x</a>; a written value stays;
   with markup.href off the snippet's empty href stays *)
Definition href_ocfg : oconfig :=
  mkOconfig (mkOfmt [c_tab] [] [c_nl]) [] [] [] true false [] [] 3 false [] (S "html") [S "a"] false [] [] [] false None None.
Definition href_mcfg (text : wtext) (href : bool) : mconfig :=
  mkMConfig (S "html") [(S "a", S "a[href]")] [] text None None false None [S "a"] false href false [] [] None.
Example Href_pipeline_nonvacuous :
  expand_markup_str (mkX (href_mcfg (WStr (S " www.x ")) true) href_ocfg) (S "a") = Ok (S "<a href=""http://www.x"">www.x</a>") /\
  expand_markup_str (mkX (href_mcfg (WStr (S "www.x")) true) href_ocfg) (S "a[href=y]") = Ok (S "<a href=""y"">www.x</a>") /\
  expand_markup_str (mkX (href_mcfg (WStr (S "a@b.cc")) true) href_ocfg) (S "p>a") = Ok (S "<p><a href=""mailto:a@b.cc"">a@b.cc</a></p>") /\
  expand_markup_str (mkX (href_mcfg (WStr (S "www.x")) false) href_ocfg) (S "a") = Ok (S "<a href="""">www.x</a>") /\
  expand_markup_str (mkX (href_mcfg (WList [S "www.x"; S "y"]) true) href_ocfg) (S "li*>a") =
    Ok (S "<li><a href="""">www.x</a></li>" ++ [c_nl] ++ S "<li><a href="""">y</a></li>")%list.
Proof. vm_compute. repeat split. Qed.
