(* C01 -- implicit names, end to end, at STRING level, about the whole `expand` model
   (property theorems only; each closed by [exact] of a lemma proved in proofs/).

   Statement's sentence: "an element written with attributes but no name receives the documented
   implicit name for its parent (li in ul/ol, tr in table/tbody/thead/tfoot, td in tr, option in
   select/optgroup, span inside p and inside inline elements, div otherwise)".

   C01_expand_tree_implicit: ONE theorem through tokenizer, parser, converter, snippet
   resolution, transform (implicit tag, attribute merge, lorem / xsl / label addons) and the HTML
   formatter.  Syntax [istmt]: a unit is an element  name | name.cls | name#id | .cls | #id
   (name, cls, id: a letter, then letters, ASCII digits, `-`, `_`, `:`), optionally followed by `*`
   and a digit run, or `( statement )`, optionally followed by `*` and a digit run; units are
   separated by `>`, `+` and runs of `^` ([render4]).  For every such text and every configuration
   of the domain below, `expand_markup x (render4 xs)` succeeds and the tag chunks pushed into
   the output stream, read as open/close events ([nestT]), nest to exactly [idenote inline ctx xs]:

     unrollI xs   = the unrolled preorder (depth, WRITTEN name) list of the text (depth-counter
                    marks [imarks], unrolled by ExpandGroups.unrollM: an element stands for k
                    copies of itself followed by everything written deeper right after it, a
                    bracket pair for k copies of its contents); the empty name = no name written;
     idenote      = that list read left to right keeping the FINAL names of the open ancestors
                    ([resolve_names]): an element written without a name gets
                    [implicit_spec inline P] where P is the final name of its parent in the
                    denoted tree -- the configuration's context name (or "") at top level.

   [implicit_spec] is the documented rule, table-free; C01_implicit_spec_is_lookup proves it
   equal to the model's lookup over ELEMENT_MAP regenerated from the source for every parent that
   is not one of the UNDOCUMENTED map entries ([undocumented_keys]: colgroup, audio, video,
   object, map -- shown by C01_undocumented_keys).

   Domain [impl_ok x xs] (decidable):
     configuration: as C01Expand ([cfg_ok]: HTML-family formatter, no wrapped text, comments
       off, indent / newline strings not starting with '<', attribute-name / value-prefix tables
       free of '<'; quotes, case, self-closing style, format on/off, inline lists, JSX, snippets,
       variables, maxRepeat ... arbitrary); the BEM addon is off (it rewrites class values);
       the context name is not an undocumented parent;
     statement: well-formed ([iwfb]: wide names, digit runs, a nameless element has its
       shorthand, `>` never directly after a group); under JSX no unit is `Cap.Cap` (that is a
       component path: ONE name); every written name is not the key of a non-empty snippet
       definition, does not match `lorem...`, is not an undocumented parent;
     element copies + group copies of the unrolled statement within the repeat budget.

   C01_expand_implicit_attributes: every element carries the class / id it was written with, at
   chunk level.  Reading the chunks in order ([open_tags] of [xread]: a chunk `<name` opens a
   tag, every later chunk up to the first one ending with `>` is its attribute text), the open
   tags are, in document order, the elements of [idenote] by name, and their attribute text is
   [sh_attr_text c t] for the shorthand t written on the element ([unrollS]: the same marks
   labelled `.cls` / `#id` / nothing, unrolled the same way): the text AttrProofs.attr_out_spec
   (C03's decision table) prescribes for that attribute -- ` class="cls"` / ` id="x"` under the
   default tables and quotes (C01_implicit_attr_text_default).  Extra domain: the two written
   forms of every value are free of line breaks and of '>' ([ivalue_fine_c]; decidable; it
   constrains the attribute-name / value-prefix table entries for class and id, nothing else).

   _partial w.r.t. the sentence: ONE class or id shorthand per element (no `.a.b`, no `[attr]`
   blocks, no `{text}`). *)
From Coq Require Import String.
From Emmet Require Import lib.Base lib.StrLit model.MarkupTokenizer model.MarkupParser model.MarkupConvert
     model.MarkupResolve model.OutStream model.FormatHtml model.FormatIndent model.MarkupExpand
     gen.GenMarkupSnippets gen.GenImplicit
     proofs.ParserSpine proofs.TokenizeRender proofs.ConvertProofs proofs.HtmlEvents
     proofs.ExpandTree proofs.ExpandRepeat proofs.ExpandGroupsTok proofs.ExpandGroups
     proofs.AttrProofs proofs.FormatAttrChunks
     proofs.ImplicitProofs proofs.ImplicitSpec proofs.ExpandImplicit proofs.ExpandImplicitTok proofs.ExpandImplicitStr
     proofs.ExpandImplicitAttr.

Theorem C01_expand_tree_implicit :
  forall (x : xconfig) (xs : istmt),
    impl_ok x xs = true ->
    exists st,
      expand_markup x (render4 xs) = Ok st /\
      nestT 0 (tags st) =
        map (fun p => (fst p, tag_name (xc_o x) (snd p)))
            (idenote (mc_inline (xc_m x)) (mc_context_name (xc_m x)) xs).
Proof. exact expand_tree_implicit. Qed.
Print Assumptions C01_expand_tree_implicit.

(* every element carries its class / id attribute: the open tags of the output, read off the chunks *)
Theorem C01_expand_implicit_attributes :
  forall (x : xconfig) (xs : istmt),
    impl_attr_ok x xs = true ->
    exists st,
      expand_markup x (render4 xs) = Ok st /\
      map fst (open_tags (fst (xread st))) =
        map (fun p => tag_name (xc_o x) (snd p)) (idenote (mc_inline (xc_m x)) (mc_context_name (xc_m x)) xs) /\
      map snd (open_tags (fst (xread st))) =
        map (fun p => sh_attr_text (xc_o x) (snd p)) (unrollS xs).
Proof. exact expand_implicit_attrs. Qed.
Print Assumptions C01_expand_implicit_attributes.

(* the formatter level it rests on (all trees of elements without text, all attribute lists with
   plain forms): the chunks read to the open/close sequence of the forest, every open tag with
   the attribute text of the decision table *)
Theorem C01_format_open_tags :
  forall (c : oconfig), cfg_clean c = true ->
  forall (forest : list anode), forallb (fnode c) forest = true ->
    xread (html_format c forest) = (flat_map (xtree c) forest, None).
Proof. exact format_xtags. Qed.
Print Assumptions C01_format_open_tags.

(* the documented rule = the model's lookup (emmet/markup/implicit_tag.py over the regenerated
   ELEMENT_MAP and the configuration's inline list), for every parent that is not an undocumented
   map entry; [implicit_name_of cfg (Some (Some p))] is what transform() gives a nameless child of p *)
Theorem C01_implicit_spec_is_lookup :
  forall (cfg : mconfig) (p : str),
    documented_parent p = true ->
    implicit_name_of cfg (Some (Some p)) = implicit_spec (mc_inline cfg) p.
Proof. exact (fun cfg p H => implicit_spec_ok cfg p H). Qed.
Print Assumptions C01_implicit_spec_is_lookup.

(* ... and at top level the context name plays the parent *)
Theorem C01_implicit_spec_top :
  forall (cfg : mconfig),
    documented_parent (ctx_str cfg) = true ->
    implicit_name_of cfg None = implicit_spec (mc_inline cfg) (ctx_str cfg).
Proof. exact (fun cfg H => implicit_spec_ok cfg (ctx_str cfg) H). Qed.
Print Assumptions C01_implicit_spec_top.

(* the tree level the string theorem rests on, independent of how the text is tokenized: whenever
   the text tokenizes and parses to a tree whose elements are a literal name and/or one class / id
   attribute with a literal value (written repeaters only), within the budget, expand succeeds and
   the tag chunks nest to the unrolled preorder list with the model's implicit names *)
Theorem C01_expand_tree_implicit_tree :
  forall (P Pv : str -> bool) (x : xconfig) (s : str) (toks : list token) (root : list tnode),
    (forall n, P n = true -> name_sem x n = true) ->
    (forall w, Pv w = true -> value_sem w = true) ->
    cfg_ok x = true -> mc_bem (xc_m x) = false ->
    tokenize s = TOk toks -> parse (mc_jsx (xc_m x)) toks = POk root ->
    forallb (inamed P Pv) root = true ->
    (total_list root <= budget_of (mc_max_repeat (xc_m x)))%Z ->
    exists st,
      expand_markup x s = Ok st /\
      nestT 0 (tags st) =
        map (fun p => (fst p, tag_name (xc_o x) (snd p)))
            (resolve_names (imp_model (xc_m x)) [] (flat_map (xshape [] 0) root)).
Proof. exact expand_tree_I. Qed.
Print Assumptions C01_expand_tree_implicit_tree.

(* ================================================================ non-vacuity *)
(* the default html configuration (built-in snippet table regenerated from the source, tab indent,
   "\n" newline, formatting on) with `em`, `a`, `span` as inline elements *)
Definition exi_m (ctx : option str) : mconfig :=
  mkMConfig (S "html") markup_snippets [] WNone None None false ctx [S "a"; S "em"; S "span"] false false false [] [] None.
Definition exi_o (format : bool) (style : string) : oconfig :=
  mkOconfig (mkOfmt [c_tab] [] [c_nl]) [] [] [] format false [] [] 3 false [] (S style) [] false [] [] [] false None None.
Definition exi (ctx : option str) (format : bool) : xconfig := mkX (exi_m ctx) (exi_o format "html").

Definition cls (w : string) : option (bool * str) := Some (true, S w).
Definition idn (w : string) : option (bool * str) := Some (false, S w).

(* the keys excluded from the domain *)
Example C01_undocumented_keys :
  undocumented_keys = [S "colgroup"; S "audio"; S "video"; S "object"; S "map"].
Proof. vm_compute. reflexivity. Qed.

(* "ul>.item*2" *)
Example C01_implicit_ul_item :
  let xs := [(IE (S "ul") None None, SChild); (IE [] (cls "item") (Some (S "2")), SSibling)] in
  impl_ok (exi None true) xs = true /\
  render4 xs = S "ul>.item*2" /\
  unrollI xs = [(0, S "ul"); (1, []); (1, [])] /\
  idenote (mc_inline (exi_m None)) None xs = [(0, S "ul"); (1, S "li"); (1, S "li")] /\
  match expand_markup (exi None true) (render4 xs) with
  | Ok st => nestT 0 (tags st) = [(0, S "ul"); (1, S "li"); (1, S "li")] /\
             os_value (fs_out st) =
               S "<ul>" ++ [c_nl; c_tab] ++ S "<li class=""item""></li>" ++ [c_nl; c_tab] ++ S "<li class=""item""></li>" ++ [c_nl] ++ S "</ul>"
  | _ => False
  end.
Proof. vm_compute. repeat split; reflexivity. Qed.

(* "table>.row>.col" *)
Example C01_implicit_table :
  let xs := [(IE (S "table") None None, SChild); (IE [] (cls "row") None, SChild); (IE [] (cls "col") None, SSibling)] in
  impl_ok (exi None false) xs = true /\
  render4 xs = S "table>.row>.col" /\
  idenote (mc_inline (exi_m None)) None xs = [(0, S "table"); (1, S "tr"); (2, S "td")] /\
  match expand_markup (exi None false) (render4 xs) with
  | Ok st => nestT 0 (tags st) = [(0, S "table"); (1, S "tr"); (2, S "td")] /\
             os_value (fs_out st) = S "<table><tr class=""row""><td class=""col""></td></tr></table>"
  | _ => False
  end.
Proof. vm_compute. repeat split; reflexivity. Qed.

(* "em>.c" (em is an inline element of the configuration), "p>.c", "optgroup>#x", ".top"
   (`select` itself is a snippet key of the built-in table, so outside the domain of written names) *)
Example C01_implicit_inline_p_select_top :
  let e1 := [(IE (S "em") None None, SChild); (IE [] (cls "c") None, SSibling)] in
  let e2 := [(IE (S "p") None None, SChild); (IE [] (cls "c") None, SSibling)] in
  let e3 := [(IE (S "optgroup") None None, SChild); (IE [] (idn "x") None, SSibling)] in
  let e4 := [(IE [] (cls "top") None, SSibling)] in
  impl_ok (exi None true) e1 = true /\ impl_ok (exi None true) e2 = true /\
  impl_ok (exi None true) e3 = true /\ impl_ok (exi None true) e4 = true /\
  render4 e1 = S "em>.c" /\ render4 e3 = S "optgroup>#x" /\ render4 e4 = S ".top" /\
  idenote (mc_inline (exi_m None)) None e1 = [(0, S "em"); (1, S "span")] /\
  idenote (mc_inline (exi_m None)) None e2 = [(0, S "p"); (1, S "span")] /\
  idenote (mc_inline (exi_m None)) None e3 = [(0, S "optgroup"); (1, S "option")] /\
  idenote (mc_inline (exi_m None)) None e4 = [(0, S "div")] /\
  match expand_markup (exi None false) (render4 e1), expand_markup (exi None false) (render4 e3),
        expand_markup (exi None false) (render4 e4) with
  | Ok s1, Ok s3, Ok s4 =>
      os_value (fs_out s1) = S "<em><span class=""c""></span></em>" /\
      os_value (fs_out s3) = S "<optgroup><option id=""x""></option></optgroup>" /\
      os_value (fs_out s4) = S "<div class=""top""></div>"
  | _, _, _ => False
  end.
Proof. vm_compute. repeat split; reflexivity. Qed.

(* the context name plays the parent at top level; implicit names chain (`.a>.b` under ul: li, then div);
   a named element with a class keeps its name; groups and repeaters: "ol>(.a>em.x>.y)*2+#z" *)
Example C01_implicit_context_groups :
  let e1 := [(IE [] (cls "a") None, SChild); (IE [] (cls "b") None, SSibling)] in
  let e2 := [(IE (S "ol") None None, SChild);
             (IG [(IE [] (cls "a") None, SChild); (IE (S "em") (cls "x") None, SChild); (IE [] (cls "y") None, SSibling)] (Some (S "2")), SSibling);
             (IE [] (idn "z") None, SSibling)] in
  impl_ok (exi (Some (S "ul")) true) e1 = true /\
  idenote (mc_inline (exi_m None)) (Some (S "ul")) e1 = [(0, S "li"); (1, S "div")] /\
  impl_ok (exi None true) e2 = true /\
  render4 e2 = S "ol>(.a>em.x>.y)*2+#z" /\
  idenote (mc_inline (exi_m None)) None e2 =
    [(0, S "ol"); (1, S "li"); (2, S "em"); (3, S "span"); (1, S "li"); (2, S "em"); (3, S "span"); (1, S "li")] /\
  match expand_markup (exi None false) (render4 e2) with
  | Ok st => os_value (fs_out st) =
      S "<ol><li class=""a""><em class=""x""><span class=""y""></span></em></li><li class=""a""><em class=""x""><span class=""y""></span></em></li><li id=""z""></li></ol>"
  | _ => False
  end.
Proof. vm_compute. repeat split; reflexivity. Qed.

(* the attribute text: ` class="item"`, ` id="x"`; with single quotes and upper-case attribute names: ` CLASS='item'` *)
Example C01_implicit_attr_text_default :
  sh_attr_text (exi_o true "html") (S ".item") = S " class=""item""" /\
  sh_attr_text (exi_o true "html") (S "#x") = S " id=""x""" /\
  sh_attr_text (exi_o true "html") [] = [] /\
  sh_attr_text (mkOconfig (mkOfmt [c_tab] [] [c_nl]) [] (S "upper") (S "single") true false [] [] 3 false [] (S "xhtml") [] false [] [] [] false None None)
               (S ".item") = S " CLASS='item'".
Proof. vm_compute. repeat split; reflexivity. Qed.

(* "ol>(.a>em.x>.y)*2+#z": open tags with their attribute text, read off the chunks *)
Example C01_implicit_attrs_nonvacuous :
  let e2 := [(IE (S "ol") None None, SChild);
             (IG [(IE [] (cls "a") None, SChild); (IE (S "em") (cls "x") None, SChild); (IE [] (cls "y") None, SSibling)] (Some (S "2")), SSibling);
             (IE [] (idn "z") None, SSibling)] in
  impl_attr_ok (exi None true) e2 = true /\
  unrollS e2 = [(0, []); (1, S ".a"); (2, S ".x"); (3, S ".y"); (1, S ".a"); (2, S ".x"); (3, S ".y"); (1, S "#z")] /\
  match expand_markup (exi None true) (render4 e2) with
  | Ok st => open_tags (fst (xread st)) =
      [(S "ol", []); (S "li", S " class=""a"""); (S "em", S " class=""x"""); (S "span", S " class=""y""");
       (S "li", S " class=""a"""); (S "em", S " class=""x"""); (S "span", S " class=""y"""); (S "li", S " id=""z""")]
  | _ => False
  end.
Proof. vm_compute. repeat split; reflexivity. Qed.

(* outside the domain: an undocumented parent; a nameless element without shorthand; `Cap.Cap` under JSX *)
Example C01_implicit_domain_excludes :
  impl_ok (exi None true) [(IE (S "audio") None None, SChild); (IE [] (cls "c") None, SSibling)] = false /\
  impl_ok (exi None true) [(IE [] None None, SSibling)] = false /\
  ijsx true [(IE (S "Foo") (cls "Bar") None, SSibling)] = false /\
  ijsx true [(IE (S "Foo") (cls "bar") None, SSibling)] = true.
Proof. vm_compute. repeat split; reflexivity. Qed.
