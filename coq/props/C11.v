From Emmet Require Import lib.Base model.Extract proofs.ExtractProofs.
Theorem C11_tables : ex_default_look_ahead = true.
Proof. exact (proj1 (proj2 (proj2 (proj2 (proj2 (proj2 tables_ok)))))). Qed.
Print Assumptions C11_tables.
