(* C11 -- extract finds exactly the abbreviation that ends at the caret.
   Property theorems only; each closed by [exact] of a lemma proved in proofs/.
   Vocabulary (grammar, contexts, tags): lib/ExtractLib.v.  Model: model/Extract.v. *)
From Coq Require Import ZArith List Bool.
From Emmet Require Import lib.Base lib.ExtractLib model.Extract
  proofs.ExtractProofs proofs.ExtractHtml proofs.ExtractRoundtrip proofs.ExtractExamples.
Import ListNotations.
Local Open Scope N_scope.

(* ---------------------------------------------------------------- consistency (full)
   For every line, every position (None, negative, beyond the end) and all
   options, extract returns None or a result x with  (see ExtractProofs.consistent)
     0 <= start <= location <= end <= len(line),
     abbreviation = line[location:end],
     abbreviation does not begin with > + ^ *,
     with a prefix configured: line[start : start+len(prefix)] = prefix and start+len(prefix) <= location,
     clamp(pos) <= end, end = clamp(pos) without look-ahead, and line[clamp(pos):end] is at most one
     quote followed by closing brackets.
   An empty abbreviation is not excluded (the statement does not exclude it). *)
Theorem C11_extract_consistent :
  forall (line : str) (pos : option Z) (o : opts) (x : extracted),
    extract_abbreviation line pos o = Some x -> consistent line pos o x.
Proof. exact extract_consistent. Qed.
Print Assumptions C11_extract_consistent.

(* the tables regenerated from the source agree with the constants of the model *)
Theorem C11_tables :
  ex_brackets = [c_lbrack; c_rbrack; c_lparen; c_rparen; c_lbrace; c_rbrace] /\
  ex_brace_pairs = [(c_lbrack, c_rbrack); (c_lparen, c_rparen); (c_lbrace, c_rbrace)] /\
  (forall c, In c [c_lbrack; c_lparen; c_lbrace] -> assoc_N c ex_brace_pairs = Some (brace_pair c)) /\
  ex_html_chars = [c_tab; c_space; c_dash; c_slash; c_colon; c_eq; c_lt; c_gt] /\
  ex_default_type = s_markup /\ ex_default_look_ahead = true /\ ex_default_prefix = [] /\
  ex_trim_chars = [c_star; c_plus; c_gt; c_caret].
Proof. exact tables_ok. Qed.
Print Assumptions C11_tables.

(* ---------------------------------------------------------------- round trip
   FULL STATEMENT (not provable, refuted below): for EVERY valid abbreviation A,
   every left context L that is empty, ends with whitespace or ends with a
   complete HTML tag, and every right context, extracting at the end of A in
   L ++ A ++ R returns exactly A.

   PROVED (partial): the same for every A of the grammar [abbr] of lib/ExtractLib.v:
     characters  a-z A-Z digits # . * : $ - _ ! @ % ^ + > /  outside brackets, groups ( ),
     and in markup attribute sets [ ] and text { } whose content has
       - balanced brackets (inside {} only curly braces count), and
       - paired quotes with no '<' and no backslash outside quoted strings ([items]);
   left context: start of line | L ++ [whitespace] with [safe (rev L)] (walking left from the
   abbreviation a '>' or the line start comes before any '<', backslash or unpaired quote) |
   anything ++ a complete HTML tag ([tag_ok]: <name attr* ws? /?> or </name ws?>, attributes
   name, name=ident, name=<double-quoted>, name=<single-quoted>);
   right context: anything without look-ahead; with look-ahead anything that does not start
   with a closing bracket / a quote, and the caret may stand before an auto-closed tail
   (one quote + closing brackets) of the abbreviation;  markup and stylesheet.

   MISSING, each refuted on the model below and on the code (known findings):
     (a) bracket characters that are unbalanced inside quoted attribute values or text,
     (b) '<' (or a backslash / an unpaired quote) inside attributes or text,
     (c) characters outside the extractor's alphabet (e.g. ',' and ' ' inside stylesheet
         function arguments, non-ASCII letters in names),
     (d) a complete tag to the left whose names contain a character outside letters, digits, `-`, `:`
         ([tag_ok] demands exactly that class). *)
Theorem C11_extract_roundtrip_partial :
  forall (o : opts) (L A1 C R : str),
    let mk := is_markup o in
    let A := A1 ++ C in
    o_prefix o = [] ->
    abbr mk A -> A <> [] -> (forall c r, A = c :: r -> ~ dangling c) ->
    left_ctx L -> right_ctx mk (o_look o) C R ->
    extract_abbreviation (L ++ A ++ R) (Some (Z.of_nat (length L + length A1))) o =
    Some (mkExtracted A (Z.of_nat (length L)) (Z.of_nat (length L)) (Z.of_nat (length L + length A))).
Proof. exact extract_roundtrip. Qed.
Print Assumptions C11_extract_roundtrip_partial.

(* with a configured prefix pf = pf0 ++ [x] directly left of the abbreviation (anything may
   precede it): x is not ] } or a backslash, does not occur in A, and every ] / } of A has a
   [ / { somewhere to its left (the prefix search skips such pairs without nesting) *)
Theorem C11_extract_roundtrip_prefix_partial :
  forall (o : opts) (L1 pf0 : str) (x : char) (A1 C R : str),
    let mk := is_markup o in
    let A := A1 ++ C in
    let pf := pf0 ++ [x] in
    o_prefix o = pf ->
    x <> c_rbrack -> x <> c_rbrace -> x <> c_bslash -> ~ In x A ->
    opener_left c_rbrack c_lbrack A -> opener_left c_rbrace c_lbrace A ->
    abbr mk A -> A <> [] -> (forall c r, A = c :: r -> ~ dangling c) ->
    right_ctx mk (o_look o) C R ->
    extract_abbreviation (L1 ++ pf ++ A ++ R) (Some (Z.of_nat (length L1 + length pf + length A1))) o =
    Some (mkExtracted A (Z.of_nat (length L1 + length pf)) (Z.of_nat (length L1))
                      (Z.of_nat (length L1 + length pf + length A))).
Proof. exact extract_roundtrip_prefix. Qed.
Print Assumptions C11_extract_roundtrip_prefix_partial.

(* the tag heuristic: True at the end of every complete HTML tag, False when no '<' can be reached *)
Theorem C11_is_html_complete_tag :
  forall (L : str) (t : tag), tag_ok t -> is_html false (rev (L ++ render_tag t)) = true.
Proof. exact is_html_tag. Qed.
Print Assumptions C11_is_html_complete_tag.

Theorem C11_is_html_no_tag :
  forall (c : char) (r : str), safe r -> is_html false (c :: r) = false.
Proof. exact is_html_safe. Qed.
Print Assumptions C11_is_html_no_tag.

(* ---------------------------------------------------------------- refutations of the full round trip
   (valid abbreviations outside the grammar; the same inputs are replayed on the code: corpus/C11) *)
Definition whole (a : str) : option extracted :=
  Some (mkExtracted a 0%Z 0%Z (Z.of_nat (length a))).

(* (a)  a[b=Q(Q]  where Q is a double quote *)
Example C11_extract_roundtrip_refuted_bracket_in_quotes :
  extract_abbreviation [97; 91; 98; 61; 34; 40; 34; 93] None default_opts <> whole [97; 91; 98; 61; 34; 40; 34; 93].
Proof. vm_compute. discriminate. Qed.

(* (b)  p{<b x=1}>c  is cut at the '>' operator: only  c  is returned *)
Example C11_extract_roundtrip_refuted_angle_in_text :
  extract_abbreviation [112; 123; 60; 98; 32; 120; 61; 49; 125; 62; 99] None default_opts <> whole [112; 123; 60; 98; 32; 120; 61; 49; 125; 62; 99] /\
  extract_abbreviation [112; 123; 60; 98; 32; 120; 61; 49; 125; 62; 99] None default_opts = Some (mkExtracted [99] 10%Z 10%Z 11%Z).
Proof. split; [vm_compute; discriminate|vm_compute; reflexivity]. Qed.

(* (c)  stylesheet  lg(a,b)  *)
Example C11_extract_roundtrip_refuted_stylesheet_arguments :
  extract_abbreviation [108; 103; 40; 97; 44; 98; 41] None (mkOpts [115; 116; 121; 108; 101; 115; 104; 101; 101; 116] true []) <> whole [108; 103; 40; 97; 44; 98; 41].
Proof. vm_compute. discriminate. Qed.

(* (d)  <a data_x>p : the complete tag to the left spells an attribute name with `_`, which the tag heuristic's
   identifier class (letters, digits, `-`, `:`) does not contain: `data_x>p` is returned instead of `p`
   (listed finding roundtrip:tag-name-character-outside-letters-digits-dash-colon) *)
Example C11_extract_roundtrip_refuted_tag_name_character :
  extract_abbreviation [60; 97; 32; 100; 97; 116; 97; 95; 120; 62; 112] None default_opts = Some (mkExtracted [100; 97; 116; 97; 95; 120; 62; 112] 3%Z 3%Z 11%Z).
Proof. vm_compute. reflexivity. Qed.

(* before the repair of is_html (commit d686cc9) the model returned only  a  for  li[title=x]*3>a ;
   now it is inside the grammar and round-trips *)
Example C11_repaired_unquoted_attribute :
  extract_abbreviation [108; 105; 91; 116; 105; 116; 108; 101; 61; 120; 93; 42; 51; 62; 97] None default_opts = whole [108; 105; 91; 116; 105; 116; 108; 101; 61; 120; 93; 42; 51; 62; 97].
Proof. vm_compute. reflexivity. Qed.
(* <div title=x>a>b  (commit 8d75b72) *)
Example C11_repaired_unquoted_value_angle :
  extract_abbreviation [60; 100; 105; 118; 32; 116; 105; 116; 108; 101; 61; 120; 62; 97; 62; 98] None default_opts = Some (mkExtracted [97; 62; 98] 13%Z 13%Z 16%Z).
Proof. vm_compute. reflexivity. Qed.

(* ---------------------------------------------------------------- non-vacuity *)
(* consistency: a result exists ( x <ul>li[a=QbQ] y , caret 15, prefix < ) *)
Example C11_consistent_nonvacuous :
  exists x, extract_abbreviation [120; 32; 60; 117; 108; 62; 108; 105; 91; 97; 61; 34; 98; 34; 93; 32; 121] (Some 15%Z) (mkOpts s_markup true [60]) = Some x /\
            x_abbr x = [117; 108; 62; 108; 105; 91; 97; 61; 34; 98; 34; 93].
Proof. eexists. split; vm_compute; reflexivity. Qed.

(* round trip: the hypotheses are satisfiable (derivations in proofs/ExtractExamples.v):
   <a href=QxQ> then li[title=x]*3>a[b=QcQ] with the caret before the auto-closed Q] , then a space and x *)
Example C11_roundtrip_nonvacuous :
  extract_abbreviation ([60; 97; 32; 104; 114; 101; 102; 61; 34; 120; 34; 62] ++ ([108; 105; 91; 116; 105; 116; 108; 101; 61; 120; 93; 42; 51; 62; 97; 91; 98; 61; 34; 99] ++ [34; 93]) ++ [32; 120]) (Some (Z.of_nat (length [60; 97; 32; 104; 114; 101; 102; 61; 34; 120; 34; 62] + length [108; 105; 91; 116; 105; 116; 108; 101; 61; 120; 93; 42; 51; 62; 97; 91; 98; 61; 34; 99]))) default_opts =
  Some (mkExtracted ([108; 105; 91; 116; 105; 116; 108; 101; 61; 120; 93; 42; 51; 62; 97; 91; 98; 61; 34; 99] ++ [34; 93]) 12%Z 12%Z 34%Z).
Proof. exact roundtrip_instance. Qed.

(* whitespace context, stylesheet:  x  m10+p5 *)
Example C11_roundtrip_stylesheet_nonvacuous :
  extract_abbreviation (([120] ++ [32]) ++ ([109; 49; 48; 43; 112; 53] ++ []) ++ []) (Some (Z.of_nat (length ([120] ++ [32]) + length [109; 49; 48; 43; 112; 53])))
                       (mkOpts [115; 116; 121; 108; 101; 115; 104; 101; 101; 116] false []) =
  Some (mkExtracted ([109; 49; 48; 43; 112; 53] ++ []) 2%Z 2%Z 8%Z).
Proof. exact roundtrip_instance_stylesheet. Qed.

(* prefix:  foo<  then  ul>li[a]  *)
Example C11_roundtrip_prefix_nonvacuous :
  extract_abbreviation ([102; 111; 111] ++ [60] ++ ([117; 108; 62; 108; 105; 91; 97; 93] ++ []) ++ []) (Some (Z.of_nat (3 + 1 + length [117; 108; 62; 108; 105; 91; 97; 93])))
                       (mkOpts s_markup false [60]) =
  Some (mkExtracted ([117; 108; 62; 108; 105; 91; 97; 93] ++ []) 4%Z 3%Z 12%Z).
Proof. exact roundtrip_prefix_instance. Qed.
