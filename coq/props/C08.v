(* C08 -- Expansion is a pure function of its arguments.
   Property theorems only; each closed by [exact] of a lemma proved in proofs/HistoryProofs.v.

   Model (model/History.v): [lib_state] = the three places where a call of emmet.expand can
   leave something behind (the 'text' entry of each caller dict, the caller's cache dicts,
   the default lookup of bem.get_block_name); [step] = the code path of expand() over that
   state, as the code is now; [run h s] = the state after the calls [h]; [outcome_in s c] =
   what call [c] returns or raises when made in state [s]; [fresh texts] = a fresh
   interpreter (caller dicts as written, empty cache dicts, empty lookup).  [W : world]
   = the pure parts of the pipeline (parsing, snippet resolution, output; convert_snippets,
   stylesheet resolution): ANY functions -- the theorems hold for all of them, hence for the
   real ones.  The only assumption is that == on the merged snippets dict decides equality.

   All histories, of any length; all configurations; all probes. *)
From Coq Require Import List.
From Emmet Require Import model.History proofs.HistoryProofs.
Import ListNotations.

Definition eq_decides (W : world) : Prop :=
  forall a b : w_snips W, w_snips_eqb W a b = true <-> a = b.

(* equal arguments give equal results whatever calls came before: the probe after any
   history returns what it returns in a fresh interpreter state *)
Theorem C08_history_independent :
  forall (W : world), eq_decides W ->
  forall (texts : nat -> slot W) (h : list (call W)) (c : call W),
    outcome_in W (run W h (fresh W texts)) c = outcome_in W (fresh W texts) c.
Proof. exact history_independent. Qed.
Print Assumptions C08_history_independent.

(* the same from any state whose cache dicts hold valid entries (e.g. caches the caller
   filled in an earlier session) *)
Theorem C08_history_independent_from_valid_state :
  forall (W : world), eq_decides W ->
  forall s0, inv W s0 -> forall (h : list (call W)) (c : call W),
    outcome_in W (run W h s0) c = outcome_in W s0 c.
Proof. exact history_independent_gen. Qed.
Print Assumptions C08_history_independent_from_valid_state.

(* every call inside a history -- not only the last -- returns what it returns alone *)
Theorem C08_every_call_independent :
  forall (W : world), eq_decides W ->
  forall (h : list (call W)) s0, inv W s0 -> outcomes W h s0 = map (outcome_in W s0) h.
Proof. exact outcomes_independent. Qed.
Print Assumptions C08_every_call_independent.

(* the caller's configuration is what it was after any history, calls that raised included *)
Theorem C08_caller_cfg_preserved :
  forall (W : world) (h : list (call W)) (s0 : lib_state W) (i : nat),
    cfg_text W (run W h s0) i = cfg_text W s0 i.
Proof. exact caller_cfg_preserved. Qed.
Print Assumptions C08_caller_cfg_preserved.

(* ... and keeps producing the same results: a function of the call and the caller's text *)
Theorem C08_caller_cfg_same_results :
  forall (W : world), eq_decides W ->
  forall (h : list (call W)) s0 (c : call W), inv W s0 ->
    outcome_in W (run W h s0) c = pure_outcome W (cfg_text W s0) c.
Proof. exact caller_cfg_same_results. Qed.
Print Assumptions C08_caller_cfg_same_results.

(* a cache never changes a result: the call through a cache dict shared with any earlier
   calls = the same call without cache = the same call without cache in the initial state *)
Theorem C08_cache_transparent :
  forall (W : world), eq_decides W ->
  forall s0, inv W s0 -> forall (h : list (call W)) (c : call W),
    outcome_in W (run W h s0) c = outcome_in W (run W h s0) (without_cache W c)
    /\ outcome_in W (run W h s0) c = outcome_in W s0 (without_cache W c).
Proof. exact cache_transparent. Qed.
Print Assumptions C08_cache_transparent.

(* what a cache dict holds after any history is convert_snippets of the snippets it is keyed by *)
Theorem C08_cache_entries_valid :
  forall (W : world) (h : list (call W)) s0, inv W s0 -> inv W (run W h s0).
Proof. exact cache_entries_valid. Qed.
Print Assumptions C08_cache_entries_valid.

(* nothing accumulates in the library: the default lookup of get_block_name is as it was.
   (The statement's clause "keeps no per-call data alive" is about the CPython heap; the model
   expresses it for the containers it names, the harness measures the rest: see DESIGN C08.) *)
Theorem C08_no_growth :
  forall (W : world) (h : list (call W)) (s0 : lib_state W),
    bem_default W (run W h s0) = bem_default W s0.
Proof. exact no_growth. Qed.
Print Assumptions C08_no_growth.

(* non-vacuity: a concrete world and a history with a failing markup call on a configuration
   with text, a cache dict filled, re-keyed by other snippets, a failing convert_snippets;
   afterwards the probes give the fresh results.  The five defective settings of [flags]
   (the code before 1c30c03, 0dd2ca9 and the three C08 repairs) each violate a statement
   above: proofs/HistoryProofs.v, Toy.defect_*. *)
Example C08_nonvacuous :
  eq_decides Toy.toy
  /\ outcomes Toy.toy Toy.h0 Toy.s0 =
       [Raised Toy.toy 1; Returned Toy.toy (1, Some 7); Returned Toy.toy (2, Some 8); Raised Toy.toy 2;
        Returned Toy.toy (4, None)]
  /\ outcome_in Toy.toy (run Toy.toy Toy.h0 Toy.s0) (CMarkup Toy.toy 0 4) = Returned Toy.toy (4, Some 5)
  /\ outcome_in Toy.toy (run Toy.toy Toy.h0 Toy.s0) (CCss Toy.toy (Some 0) 1 9) = Returned Toy.toy (1, Some 9).
Proof.
  split; [exact Toy.toy_eqb|]. destruct Toy.nonvacuous as [A [_ [B C]]]. repeat split; assumption.
Qed.
