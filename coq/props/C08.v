(* C08 -- Expansion is a pure function of its arguments.
   Property theorems only; each closed by [exact] of a lemma proved in proofs/HistoryProofs.v.

   Model (model/History.v): [lib_state] = the three places where a call of emmet.expand can
   leave something behind (the 'text' entry of each caller dict, the caller's cache dicts,
   the default lookup of bem.get_block_name); [step] = the code path of expand() over that
   state, as the code is now; [run h s] = the state after the calls [h]; [outcome_in s c] =
   what call [c] returns or raises when made in state [s]; [fresh texts] = a fresh
   interpreter (caller dicts as written, empty cache dicts, empty lookup).  [W : world]
   = the pure parts of the pipeline (parsing, snippet resolution, output; convert_snippets,
   stylesheet resolution): ANY functions -- the theorems hold for all of them, hence for the
   real ones.  The only assumption is that == on the merged snippets dict decides equality.

   All histories, of any length; all configurations; all probes. *)
From Coq Require Import String List.
From Emmet Require Import lib.Base lib.StrLit model.MarkupConvert model.MarkupResolve model.FormatHtml
     model.OutStream model.MarkupExpand gen.GenMarkupSnippets
     model.History proofs.HistoryProofs run.HistoryRun proofs.HistoryMarkup proofs.HistoryBound.
Import ListNotations.
Notation run := History.run.

Definition eq_decides (W : world) : Prop :=
  forall a b : w_snips W, w_snips_eqb W a b = true <-> a = b.

(* equal arguments give equal results whatever calls came before: the probe after any
   history returns what it returns in a fresh interpreter state *)
Theorem C08_history_independent :
  forall (W : world), eq_decides W ->
  forall (texts : nat -> slot W) (h : list (call W)) (c : call W),
    outcome_in W (run W h (fresh W texts)) c = outcome_in W (fresh W texts) c.
Proof. exact history_independent. Qed.
Print Assumptions C08_history_independent.

(* the same from any state whose cache dicts hold valid entries (e.g. caches the caller
   filled in an earlier session) *)
Theorem C08_history_independent_from_valid_state :
  forall (W : world), eq_decides W ->
  forall s0, inv W s0 -> forall (h : list (call W)) (c : call W),
    outcome_in W (run W h s0) c = outcome_in W s0 c.
Proof. exact history_independent_gen. Qed.
Print Assumptions C08_history_independent_from_valid_state.

(* every call inside a history -- not only the last -- returns what it returns alone *)
Theorem C08_every_call_independent :
  forall (W : world), eq_decides W ->
  forall (h : list (call W)) s0, inv W s0 -> outcomes W h s0 = map (outcome_in W s0) h.
Proof. exact outcomes_independent. Qed.
Print Assumptions C08_every_call_independent.

(* the caller's configuration is what it was after any history, calls that raised included *)
Theorem C08_caller_cfg_preserved :
  forall (W : world) (h : list (call W)) (s0 : lib_state W) (i : nat),
    cfg_text W (run W h s0) i = cfg_text W s0 i.
Proof. exact caller_cfg_preserved. Qed.
Print Assumptions C08_caller_cfg_preserved.

(* ... and keeps producing the same results: a function of the call and the caller's text *)
Theorem C08_caller_cfg_same_results :
  forall (W : world), eq_decides W ->
  forall (h : list (call W)) s0 (c : call W), inv W s0 ->
    outcome_in W (run W h s0) c = pure_outcome W (cfg_text W s0) c.
Proof. exact caller_cfg_same_results. Qed.
Print Assumptions C08_caller_cfg_same_results.

(* a cache never changes a result: the call through a cache dict shared with any earlier
   calls = the same call without cache = the same call without cache in the initial state *)
Theorem C08_cache_transparent :
  forall (W : world), eq_decides W ->
  forall s0, inv W s0 -> forall (h : list (call W)) (c : call W),
    outcome_in W (run W h s0) c = outcome_in W (run W h s0) (without_cache W c)
    /\ outcome_in W (run W h s0) c = outcome_in W s0 (without_cache W c).
Proof. exact cache_transparent. Qed.
Print Assumptions C08_cache_transparent.

(* what a cache dict holds after any history is convert_snippets of the snippets it is keyed by *)
Theorem C08_cache_entries_valid :
  forall (W : world) (h : list (call W)) s0, inv W s0 -> inv W (run W h s0).
Proof. exact cache_entries_valid. Qed.
Print Assumptions C08_cache_entries_valid.

(* nothing accumulates in the library: the default lookup of get_block_name is as it was.
   (The statement's clause "keeps no per-call data alive" is about the CPython heap; the model
   expresses it for the containers it names, the harness measures the rest: see DESIGN C08.) *)
Theorem C08_no_growth :
  forall (W : world) (h : list (call W)) (s0 : lib_state W),
    bem_default W (run W h s0) = bem_default W s0.
Proof. exact no_growth. Qed.
Print Assumptions C08_no_growth.

(* ---- the model-level reading of "keeps no per-call data alive" (proofs/HistoryBound.v): the SIZE of
   what the library holds after a history does not depend on the length of the history.
   [state_size m st] = number of filled cache dicts among the first m + entries of the default lookup.
   A cache dict holds at most one entry (a refill replaces it); if the calls of the history pass only
   the caller's cache dicts 0..n-1 and nothing else was filled before, then after ANY history at most
   n entries are held -- counted over any range m >= n -- plus what the lookup held before. *)
Theorem C08_state_size_bounded :
  forall (W : world) (n : nat) (h : list (call W)) (s0 : lib_state W) (m : nat),
    uses_below W n h -> empty_from W n s0 -> n <= m ->
    state_size W m (run W h s0) <= n + bem_default W s0.
Proof. exact size_bounded_total. Qed.
Print Assumptions C08_state_size_bounded.

(* ... and WHAT is held: a cache dict holds either what it held before the history or the merged
   snippets and their table of ONE call of the history that passed this very dict; nothing else of
   any call (abbreviation, options, tree, output) is part of the state *)
Theorem C08_cache_entry_origin :
  forall (W : world) (h : list (call W)) (s0 : lib_state W) (k : nat) (e : cache_entry W),
    caches W (run W h s0) k = Some e ->
    caches W s0 k = Some e
    \/ exists sn a, In (CCss W (Some k) sn a) h /\ ce_source W e = sn /\ w_convert W sn = inr (ce_table W e).
Proof. exact entry_origin. Qed.
Print Assumptions C08_cache_entry_origin.

(* ---- the link to the pipeline model (proofs/HistoryMarkup.v).  [mk_world_with ...] is the world
   whose markup parts ARE the markup pipeline model (parse_abbr, walk_resolve + transform_list with the
   text the state slot holds WHILE resolution runs -- cleared when truthy --, stringify_markup) and
   whose stylesheet parts are ANY functions (the real stylesheet model: proofs/HistoryFull.v).
   [run/HistoryRun.mk_world], which the harness executes against the implementation on every run, is
   this world (mk_world_is, by reflexivity).
   After ANY history of markup and stylesheet calls -- succeeding and failing, on any caller dicts and
   cache dicts, shared or not -- a markup probe on caller dict i returns exactly what the STATELESS
   pipeline model [expand_markup_str] (the subject of C01-C04, C07, C12-C15) returns for the caller's
   configuration: [with_caller_text x s] = the record x with the 'text' entry s of the caller's dict.
   The proof needs that snippet resolution with the text slot cleared is what [markup_parse] does with
   [snippet_env] (a congruence of walk_resolve in the configuration fields it reads). *)
Theorem C08_markup_history_is_expand_markup :
  forall (sargs snips table : Type) (snips_eqb : snips -> snips -> bool) (convert : snips -> rerr + table)
         (css_expand : sargs -> table -> rerr + str) (css_touch : sargs -> table -> table),
  let W := mk_world_with sargs snips table snips_eqb convert css_expand css_touch in
  forall (texts : nat -> slot W) (h : list (call W)) (i : nat) (x : xconfig) (abbr : str),
    outcome_in W (run W h (fresh W texts)) (CMarkup W i (x, abbr))
    = of_res sargs snips table snips_eqb convert css_expand css_touch
             (expand_markup_str (with_caller_text x (texts i)) abbr).
Proof. exact markup_history_is_expand_markup. Qed.
Print Assumptions C08_markup_history_is_expand_markup.

(* the same from any state (cache dicts filled in an earlier session, a lookup that is not empty) *)
Theorem C08_markup_history_is_expand_markup_from_any_state :
  forall (sargs snips table : Type) (snips_eqb : snips -> snips -> bool) (convert : snips -> rerr + table)
         (css_expand : sargs -> table -> rerr + str) (css_touch : sargs -> table -> table),
  let W := mk_world_with sargs snips table snips_eqb convert css_expand css_touch in
  forall (s0 : lib_state W) (h : list (call W)) (i : nat) (x : xconfig) (abbr : str),
    outcome_in W (run W h s0) (CMarkup W i (x, abbr))
    = of_res sargs snips table snips_eqb convert css_expand css_touch
             (expand_markup_str (with_caller_text x (cfg_text W s0 i)) abbr).
Proof. exact markup_history_is_expand_markup_gen. Qed.
Print Assumptions C08_markup_history_is_expand_markup_from_any_state.

(* for the executed world: *)
Theorem C08_executed_world_is_expand_markup :
  forall (texts : nat -> slot mk_world) (h : list (call mk_world)) (i : nat) (x : xconfig) (abbr : str),
    mc_text (xc_m x) = slot_text (texts i) ->
    exists r, expand_markup_str x abbr = r /\
      outcome_in mk_world (run mk_world h (fresh mk_world texts)) (CMarkup mk_world i (x, abbr))
      = match r with
        | Ok s => Returned mk_world s
        | ParseErr k p => Raised mk_world (RParse k p)
        | Internal k => Raised mk_world (RInternal k)
        | OutOfFuel => Raised mk_world RFuel
        end.
Proof. exact executed_world_is_expand_markup. Qed.
Print Assumptions C08_executed_world_is_expand_markup.

(* non-vacuity of the link: the default html configuration with the user snippet bad = "a)" (a
   malformed abbreviation) and the caller's text "hi".  History: the call expand('bad', c) RAISES
   during snippet resolution (while the slot is cleared), then expand('p', c).  Afterwards the slot is
   "hi" again and the probe expand('ul>li', c) returns what the pipeline model returns, with the text. *)
Definition ex_x : xconfig :=
  mkX (mkMConfig (S "html") ((S "bad", S "a)") :: markup_snippets) [] (WStr (S "hi")) None None false None
                 [S "a"; S "em"; S "span"] false false false [] [] None)
      (mkOconfig (mkOfmt [c_tab] [] [c_nl]) [] [] [] true false [] [] 3 false [] (S "html") [S "a"; S "em"; S "span"]
                 false [] [] [] false None None).
Definition shown (o : outcome mk_world) : rerr + str :=
  match o with Returned _ s => inr s | Raised _ e => inl e end.
Example C08_link_nonvacuous :
  let texts : nat -> slot mk_world := fun _ => Some (Some (WStr (S "hi"))) in
  let h := [CMarkup mk_world 0 (ex_x, S "bad"); CMarkup mk_world 0 (ex_x, S "p")] in
  map shown (outcomes mk_world h (fresh mk_world texts)) = [inl (RParse EK_Token (Some 1%Z)); inr (S "<p>hi</p>")]
  /\ cfg_text mk_world (run mk_world h (fresh mk_world texts)) 0 = Some (Some (WStr (S "hi")))
  /\ shown (outcome_in mk_world (run mk_world h (fresh mk_world texts)) (CMarkup mk_world 0 (ex_x, S "ul>li")))
     = inr (S "<ul>" ++ [c_nl; c_tab] ++ S "<li>hi</li>" ++ [c_nl] ++ S "</ul>")
  /\ expand_markup_str ex_x (S "ul>li") = Ok (S "<ul>" ++ [c_nl; c_tab] ++ S "<li>hi</li>" ++ [c_nl] ++ S "</ul>").
Proof. vm_compute. repeat split; reflexivity. Qed.

(* non-vacuity: a concrete world and a history with a failing markup call on a configuration
   with text, a cache dict filled, re-keyed by other snippets, a failing convert_snippets;
   afterwards the probes give the fresh results.  The five defective settings of [flags]
   (the code before 1c30c03, 0dd2ca9 and the three C08 repairs) each violate a statement
   above: proofs/HistoryProofs.v, Toy.defect_*. *)
Example C08_nonvacuous :
  eq_decides Toy.toy
  /\ outcomes Toy.toy Toy.h0 Toy.s0 =
       [Raised Toy.toy 1; Returned Toy.toy (1, Some 7); Returned Toy.toy (2, Some 8); Raised Toy.toy 2;
        Returned Toy.toy (4, None)]
  /\ outcome_in Toy.toy (run Toy.toy Toy.h0 Toy.s0) (CMarkup Toy.toy 0 4) = Returned Toy.toy (4, Some 5)
  /\ outcome_in Toy.toy (run Toy.toy Toy.h0 Toy.s0) (CCss Toy.toy (Some 0) 1 9) = Returned Toy.toy (1, Some 9).
Proof.
  split; [exact Toy.toy_eqb|]. destruct Toy.nonvacuous as [A [_ [B C]]]. repeat split; assumption.
Qed.
