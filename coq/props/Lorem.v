(* lorem text -- MODEL EXTENSION of the markup pipeline (no property of its own; accounted by the C07 check, used by
   C01 / C02 / C04 / C08 ... through model/MarkupResolve.v).

   emmet/markup/lorem/__init__.py: a node whose name matches  ^lorem([a-z]* )(\d* )(-\d* )?$  (re.I) becomes a text node
   whose value is a generated paragraph: word_count = randint(min, max) from the header, sentences of vocabulary
   words (latin / ru / sp), the first one the common opening unless the node is a later copy of a repeater.

   RANDOMNESS is an explicit ORACLE (model/MarkupLorem.v): the configuration carries a stream of RAW integers
   ([mc_draws]); randint(a, b) consumes one raw draw d and returns a + d mod (b - a + 1); every function returns the
   rest of the stream.  Outcomes of the generator ([lres]): LOk value rest | LExhausted (a draw was requested from
   the empty stream) | LFuel (fuel of the `while total_words < word_count` loop; unreachable) | LInternal (a Python
   operation that raises).  In the pipeline LExhausted / LFuel are OutOfFuel, LInternal is Internal.
   The theorems below hold for EVERY stream (no side condition on the draws).  Proofs: proofs/LoremProofs.v (generator),
   proofs/LoremFill.v (the pass over the tree).  The vocabularies, the sentence ends and what str.capitalize() makes
   of the first character of every vocabulary word are generated from the imported module (harness/gen_lorem.py ->
   gen/GenLorem.v); facts about these tables are complete sweeps by vm_compute (finite domains).

   Specification vocabulary (definitions in proofs/LoremProofs.v):
     decorated w' w      := w' = w \/ w' = w ++ ","                          what insert_commas may do to an entry
     cap w               := the capitalised form of a vocabulary word (table lookup on its first character)
     cap_head ws         := first entry capitalised
     sent = (entries as insert_commas left them, sentence end);  sent_text (ws, e) := join " " (cap_head ws) ++ e
     para_text sents     := join " " (map sent_text sents);   sent_count sents := total number of entries
     from_vocab voc ws   := ws is, entry by entry, [decorated] from a list of words of voc, the LAST entry undecorated
     sent_ok voc (ws, e) := from_vocab voc ws /\ ws <> [] /\ e = one character of lorem_sentence_ends ('?!...')
     is_paragraph db wc common t :=
        exists sents, t = para_text sents /\ sent_count sents = wc /\ Forall (sent_ok (common ++ words of db)) sents /\
                      (common = true -> db has a common list cm ->
                       first sentence = (ws, ".") with Forall2 decorated ws (first min(wc, len cm) entries of cm)) *)
From Coq Require Import ZArith List Bool.
From Emmet Require Import lib.Base lib.StrLit gen.GenLorem model.MarkupTokenizer model.MarkupParser model.MarkupConvert
     model.MarkupLorem model.MarkupResolve model.OutStream model.FormatHtml model.MarkupExpand.
From Emmet Require Import proofs.LoremProofs proofs.LoremFill proofs.LoremExpand proofs.LoremStream.
Import ListNotations.
Local Open Scope Z_scope.

(* ---------------------------------------------------------------- (a) safety of every function, for every stream *)
(* randint(a, b) with a <= b: one raw draw consumed, the value lies in [a, b] *)
Theorem Lorem_randint : forall a b s, a <= b ->
  match randint a b s with
  | LOk v r => a <= v <= b /\ exists d, s = d :: r /\ v = a + d mod (b - a + 1)
  | LExhausted => s = []
  | LFuel => False
  | LInternal _ => False
  end.
Proof. exact randint_outcome. Qed.
Print Assumptions Lorem_randint.

(* sample(arr, count), ANY list and count: min(len(arr), count) entries of arr (none for a negative count), or the
   stream ran out (a stream that keeps repeating indices never yields a silently shortened list);
   arr[randint(0, l - 1)] is never out of range *)
Theorem Lorem_sample_safe : forall arr count s,
  match sample arr count s with
  | LOk res r => Forall (fun w => In w arr) res /\ zlen res = Z.max (Z.min (zlen arr) count) 0 /\ (length r <= length s)%nat
  | LExhausted => True
  | LFuel => False
  | LInternal _ => False
  end.
Proof. exact sample_outcome. Qed.
Print Assumptions Lorem_sample_safe.

(* insert_commas(words) on non-empty table words ([good_word]: not empty, first character in the capitalisation
   table): words[pos][-1] and words[pos] never raise; same entries, some with one comma appended, never the last *)
Theorem Lorem_insert_commas_safe : forall words s, Forall (fun w => good_word w = true) words ->
  match insert_commas words s with
  | LOk ws r => Forall2 decorated ws words /\ (forall d, last ws d = last words d) /\ (length r <= length s)%nat
  | LExhausted => True
  | LFuel => False
  | LInternal _ => False
  end.
Proof. exact insert_commas_outcome. Qed.
Print Assumptions Lorem_insert_commas_safe.

(* every vocabulary of the generated table: >= 30 words, every word (and every word of the common opening, which is not
   empty) non-empty with its first character in the capitalisation table -- COMPLETE sweep; 'latin' is present *)
Theorem Lorem_vocabularies_ok :
  forallb (fun kv => db_ok (snd kv)) lorem_vocabularies = true /\ assoc_str s_latin lorem_vocabularies <> None.
Proof. exact vocabularies_sweep. Qed.
Print Assumptions Lorem_vocabularies_ok.

(* THE GENERATOR, for EVERY header (language letters, counts) and EVERY stream: a text with at least one draw consumed,
   or the stream ran out.  Never Internal: no index out of range in db['words'][randint(0, l - 1)], in
   '?!...'[randint(0, 4)], in words[pos][-1]; randint is never called on an empty range (min <= max, l >= 2);
   never LFuel: the loop fuel 1 + |stream| outlasts the stream, so OutOfFuel of the pipeline means exactly that a
   draw was requested from the empty stream. *)
Theorem Lorem_generator_safe : forall lang minw maxw common s,
  match lorem_text lang minw maxw common s with
  | LOk _ rest => (length rest < length s)%nat
  | LExhausted => True
  | LFuel => False
  | LInternal _ => False
  end.
Proof. exact lorem_text_safe. Qed.
Print Assumptions Lorem_generator_safe.

(* THE ORACLE IS READ LEFT TO RIGHT.  [streams f]: whenever f returns on a stream, it consumed a prefix [used] of it,
   and on ANY other continuation of that prefix it returns the same value and leaves exactly that continuation:
     streams f := forall s v r, f s = LOk v r -> exists used, s = used ++ r /\ forall x, f (used ++ x) = LOk v x.
   So the text depends only on the draws consumed (the harness hands the model exactly the recorded draws, or more),
   the fuel the generator derives from the length of the stream influences nothing, and an exhausted stream stays
   exhausted on every prefix: OutOfFuel means exactly "more draws are needed". *)
Theorem Lorem_generator_reads_stream : forall lang minw maxw common, streams (lorem_text lang minw maxw common).
Proof. exact lorem_text_streams. Qed.
Print Assumptions Lorem_generator_reads_stream.

Theorem Lorem_exhausted_on_every_prefix : forall lang minw maxw common p q,
  lorem_text lang minw maxw common (p ++ q) = LExhausted -> lorem_text lang minw maxw common p = LExhausted.
Proof. exact lorem_text_exhausted_prefix. Qed.
Print Assumptions Lorem_exhausted_on_every_prefix.

(* the same for the pass over a whole forest, hence for expand(): draws that are not consumed do not matter *)
Theorem Lorem_pass_reads_stream : forall l draws l' rest,
  lorem_fill_list l draws = LOk l' rest ->
  exists used, draws = used ++ rest /\ forall other, lorem_fill (used ++ other) l = Ok l'.
Proof. exact lorem_fill_unread. Qed.
Print Assumptions Lorem_pass_reads_stream.

(* ---------------------------------------------------------------- (b) (c) the text *)
(* paragraph(db, word_count, start_with_common) for a table vocabulary and word_count >= 1, any fuel above the length
   of the stream: EXACTLY word_count entries, each a vocabulary word (modulo capitalisation of the first word of a
   sentence, a comma -- never on the last word of a sentence --, the sentence end), the first sentence the common
   opening when start_with_common *)
Theorem Lorem_paragraph_words : forall db wc common fuel s,
  db_ok db = true -> 1 <= wc -> (length s < fuel)%nat ->
  match paragraph fuel db wc common s with
  | LOk t r => is_paragraph db wc common t /\ (length r <= length s)%nat
  | LExhausted => True
  | LFuel => False
  | LInternal _ => False
  end.
Proof. exact paragraph_outcome. Qed.
Print Assumptions Lorem_paragraph_words.

(* the same text as a list of WORDS: the join, by single blanks, of EXACTLY word_count tokens, each a vocabulary
   entry w -- as it is or capitalised -- followed by an optional comma and an optional sentence end:
     token_ok voc tok := exists w base d1 d2, In w voc /\ (base = w \/ base = cap w) /\ (d1 = "" \/ d1 = ",") /\
                         (d2 = "" \/ d2 = one character of lorem_sentence_ends) /\ tok = base ++ d1 ++ d2 *)
Theorem Lorem_paragraph_exact_words : forall db wc common t,
  db_ok db = true -> is_paragraph db wc common t ->
  exists tokens, t = join [c_space] tokens /\ zlen tokens = wc /\ Forall (token_ok (db_entries db)) tokens.
Proof. exact paragraph_tokens. Qed.
Print Assumptions Lorem_paragraph_exact_words.

(* for a vocabulary without blanks inside its entries no token contains a blank: the tokens are the maximal
   blank-free runs of the text (the words a reader counts).  latin and spanish are such vocabularies; russian has
   entries of two words ("в стране"), there the count is the count of ENTRIES (COMPLETE sweep of the tables) *)
Theorem Lorem_words_are_blank_free_runs : forall db tok,
  blank_free db = true -> token_ok (db_entries db) tok -> ~ In c_space tok.
Proof. exact token_no_blank. Qed.
Print Assumptions Lorem_words_are_blank_free_runs.

Example Lorem_blank_free_tables :
  option_map blank_free (lorem_db s_latin) = Some true /\ option_map blank_free (lorem_db [115;112]%N) = Some true /\
  option_map blank_free (lorem_db [114;117]%N) = Some false.
Proof. vm_compute. repeat split. Qed.

(* the header: 1 <= min <= max, for every header *)
Theorem Lorem_header_range : forall minw maxw, 1 <= lorem_min minw <= lorem_max minw maxw.
Proof. exact header_range. Qed.
Print Assumptions Lorem_header_range.

(* (c) + (b) for the node: whenever the generator returns, the text is a paragraph of word_count entries of the
   vocabulary of the header's language (latin when the letters are no key of the table), with
   min <= word_count <= max of the header -- for EVERY draw *)
Theorem Lorem_word_count_in_range : forall lang minw maxw common s t rest,
  lorem_text lang minw maxw common s = LOk t rest ->
  exists db wc, lorem_db lang = Some db /\ lorem_min minw <= wc <= lorem_max minw maxw /\ is_paragraph db wc common t.
Proof. exact lorem_text_result. Qed.
Print Assumptions Lorem_word_count_in_range.

(* ---------------------------------------------------------------- (d) the node *)
(* the pass over the resolved forest (preorder, the stream threaded from node to node), for EVERY forest and stream:
   only VALUES change, and only under a lorem header: [node_filled anc n n'] -- same name, repeater, attributes,
   self-closing flag, number of children; the value is unchanged when the name is no lorem header, else it is
   [VStr t] with t a paragraph as above, starting with the common opening iff the node has no repeater of its own
   nor a repeated ancestor, or that repeater's value is 0 (the first copy) *)
Theorem Lorem_pass : forall draws l,
  match lorem_fill draws l with
  | Ok l' => Forall2 (node_filled None) l l'
  | OutOfFuel => lorem_fill_list l draws = LExhausted
  | ParseErr _ _ => False
  | Internal _ => False
  end.
Proof. exact lorem_fill_safe. Qed.
Print Assumptions Lorem_pass.

(* a forest without lorem headers is left alone whatever the stream: every statement about lorem-free abbreviations
   is untouched by the extension (the porting lemma) *)
Theorem Lorem_free_forest : forall cfg l, forallb lorem_free l = true -> transform_list cfg l = transform_forest cfg l.
Proof. exact transform_list_free. Qed.
Print Assumptions Lorem_free_forest.

(* the rest of lorem() inside the transform pass: the node becomes a TEXT node -- name None, attributes None, value =
   the paragraph, children kept -- and, when it has a repeater and is not at the top level, gets the implicit tag of
   its parent (resolve_implicit_tag) *)
Theorem Lorem_text_node : forall cfg pn top nm v rp at_ ch sc lang minw maxw,
  lorem_header nm = LYes lang minw maxw ->
  fst (transform_node_pre cfg pn top (ANode nm v rp at_ ch sc)) =
  ANode (match rp with
         | Some _ => if top then None else Some (implicit_name_of cfg pn)
         | None => None
         end) v rp None ch sc.
Proof. exact transform_pre_lorem. Qed.
Print Assumptions Lorem_text_node.

(* both passes composed, BEM addon on or off: a top-level lorem leaf (any written value, attributes, repeater) becomes
   exactly the text node of the paragraph the generator returns on the stream of the configuration; with
   Lorem_word_count_in_range that paragraph has min <= word_count <= max entries of the header's vocabulary *)
Theorem Lorem_top_level_node : forall cfg nm v rp at_ sc lang minw maxw t rest,
  lorem_header nm = LYes lang minw maxw ->
  lorem_text lang minw maxw (match rp with None => true | Some r => (rvalue r =? 0)%N end) (mc_draws cfg) = LOk t rest ->
  transform_list cfg [ANode nm v rp at_ [] sc] = Ok [ANode None (Some [VStr t]) rp None [] sc].
Proof. exact lorem_top_leaf. Qed.
Print Assumptions Lorem_top_level_node.

(* the two passes test the same names: implicit_tag() never produces a lorem header *)
Theorem Lorem_test_agree : forall cfg pn nm at_,
  lorem_header (name_after_implicit cfg pn nm at_) = lorem_header nm.
Proof. exact lorem_test_agree. Qed.
Print Assumptions Lorem_test_agree.

(* ---------------------------------------------------------------- non-vacuity on concrete streams *)
From Coq Require Import String.
Local Open Scope string_scope.
Definition lorem_ocfg : oconfig :=
  mkOconfig (mkOfmt [c_tab] [] [c_nl]) [] [] [] true false [] [] 3 false [] (S "html") [S "a"; S "span"] false [] [] [] false None None.
Definition lorem_mcfg (draws : list Z) : mconfig :=
  mkMConfigD (S "html") [] [] WNone None None false None [S "a"; S "span"] false false false [] [] None draws.
Local Open Scope list_scope.
Local Open Scope Z_scope.
Example Lorem_pipeline_nonvacuous :
  (* lorem3: the count draw, one comma (randint(1, 4) for a 3-word list), its position: 3 draws *)
  expand_markup_str (mkX (lorem_mcfg [0; 0; 0]) lorem_ocfg) (S "lorem3") = Ok (S "Lorem, ipsum dolor.") /\
  (* one draw short: OutOfFuel, not a silently shortened text; no lorem node: the empty stream is never consulted *)
  expand_markup_str (mkX (lorem_mcfg [0; 0]) lorem_ocfg) (S "lorem3") = OutOfFuel /\
  expand_markup_str (mkX (lorem_mcfg []) lorem_ocfg) (S "p") = Ok (S "<p></p>") /\
  (* repeated below the top level: the implicit tag of the parent; only the first copy has the common opening *)
  expand_markup_str (mkX (lorem_mcfg [0; 1; 2; 3; 4; 5; 6; 7; 8; 9; 10; 11; 12; 13]) lorem_ocfg) (S "ul>lorem2*2") =
    Ok (S "<ul>" ++ [c_nl; c_tab] ++ S "<li>Lorem, ipsum.</li>" ++ [c_nl; c_tab] ++ S "<li>Iure, nam?</li>" ++ [c_nl] ++ S "</ul>") /\
  (* repeated ancestor: the second copy does not start with the common opening; a text node inside p *)
  expand_markup_str (mkX (lorem_mcfg [9; 9; 9; 9; 9; 9; 9; 9]) lorem_ocfg) (S "p*2>lorem1") =
    Ok (S "<p>Lorem.</p>" ++ [c_nl] ++ S "<p>Eum.</p>") /\
  (* the generator alone: 3 draws consumed, none left *)
  lorem_text [] (Some 3%N) None true [0; 0; 0] = LOk (S "Lorem, ipsum dolor.") [] /\
  (* sample: the rejection loop on a stream that keeps repeating index 0 runs out *)
  sample [S "a"; S "b"] 2 [0; 0; 0; 0] = LExhausted /\ sample [S "a"; S "b"] 2 [0; 0; 3] = LOk [S "a"; S "b"] [] /\
  (* randint: negative raw draws are legal *)
  randint 2 30 [-1] = LOk 30 [] /\ randint 5 3 [0] = LInternal IK_Value /\
  (* the header *)
  match_lorem (S "loremru5-10") = LYes (S "ru") (Some 5%N) (Some (Some 10%N)) /\ match_lorem (S "LOREM") = LYes [] None None /\
  match_lorem (S "lorem3-") = LYes [] (Some 3%N) (Some None) /\ match_lorem (S "lorem3x") = LNo /\ match_lorem (S "lore") = LNo.
Proof. vm_compute. repeat split. Qed.
