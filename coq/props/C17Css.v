(* C17 (CSS half) -- get_css_section and select_item_css select exactly the rule,
   declaration, value and value-token ranges.
   Property theorems only; each closed by [exact] of a lemma proved in proofs/.

   Level A (proved, for ALL well-formed trees): a stylesheet is a tree of nested rules and
   declarations with recorded offsets (model/CssTree.v); it denotes the callback sequence
   [events_forest f].  On that sequence the consumers of action_utils/css.py
   (model/CssActions.v, followed function by function) return what the tree says
   (model/CssTreeActions.v):
     css_section         get_css_section: the first rule, children before parents, that
                         contains pos (bounds included), with body = between the braces
     css_properties      parse_properties on the events of a rule body (scanned on its own,
                         last declaration possibly terminated by the end of the body, with or
                         without a value: C17_css_properties, C17_css_properties_every_tail):
                         exactly the direct declarations, in order, each with exact name and
                         value ranges, value tokens = split_value of the value text shifted to
                         the value, before = end of the previous sibling (or body start),
                         after = just after the semicolon (end of the value when there is none);
                         declarations of nested rules are skipped
     select_css_ranges   select_item_css next: the first selector / declaration name /
                         declaration value that starts at or after pos -> selector range, or
                         full + value + token ranges of the declaration (from a value: value +
                         tokens); previous: the last selector or declaration that starts before pos.
   Value tokens themselves are characterised for all strings in props/C16Css.v (inside the
   value, non-empty, ordered).

   Level B, on TEXT (proofs/CssSectionText.v, using C10 level B  scan (render sh) = events sh  of
   proofs/CssRender.v): for every sheet sh of the grammar of model/CssSheet.v (nested rules,
   `;`-terminated declarations, comments, strings, parentheses, pseudo selectors),
   C17_css_section_text / C17_css_properties_text: get_css_section on the string `render sh` returns
     section_items pos 0 (sh_items sh)   the innermost rule OF THE SHEET containing pos (children before
                                         parents, bounds included) with (start, end, body start, body end)
                                         computed from the lengths of the written parts, and the rule's
                                         body as written;
     props_spec body_text body_start (lay_items 0 body) None
                                         its direct declarations laid out from the grammar: exact name and
                                         value ranges, value tokens = split_value of the value text shifted
                                         to the value, before = end of the previous sibling (body start for
                                         the first), after = just behind the `;`.
   C17_css_properties_ranges / C17_css_declarations_text: those name / value ranges are the layout's, and in the
   body text they slice to the declaration names and values as written.
   C17_select_css_text: select_item_css on the text = next_forest / prev_forest of the sheet's layout tree.
   Declarations terminated by the END OF THE BODY, on text (model/CssSheetTail.v, proofs/CssBodyTail.v): a body is
   items of the grammar followed by a gap (STNone), by `name : value` without `;` (STValue), or by `name :` +
   blanks / comments with neither value nor `;` (STEmpty).
   C17_css_body_scan_text: the scanner on the body text yields the layout tree's events plus the tail's events;
   C17_css_properties_body_text: parse_properties -- the function get_css_section applies to the body range of the
   rule it found -- on any document whose slice [from:to] is that body text returns props_spec_tail of the layout:
   every direct declaration, the last one with after = end of its value (STValue), or with an empty value range at
   the end of the body, no value tokens and after = end of the body (STEmpty).
   NOT proved: that split_value on a rendered value list returns exactly the generator's tokens
   (value tokens are characterised for all strings in props/C16Css.v); that get_css_section on a WHOLE document
   whose rule body ends with STValue / STEmpty finds that rule with this body range (the level-B sheet grammar has
   `;`-terminated declarations only; the document-level scan of such a body reports the closing brace as the value's
   delimiter, which is the listed finding css:select-item-brace-terminated-declaration; this step is covered by the
   correspondence run / ground-truth oracle of harness/c17_css.py and the Examples below). *)
From Coq Require Import ZArith List.
From Emmet Require Import lib.Base model.CssScan model.CssMatch model.CssParse model.CssActions
     model.CssTree model.CssTreeActions model.CssSheet model.CssSheetTail
     proofs.CssActionsProofs proofs.CssRender proofs.CssSectionText proofs.CssBodyTail.
Import ListNotations.
Local Open Scope Z_scope.

Theorem C17_css_section :
  forall (n : Z) (f : list node) (pos : Z),
    wf_forest n f -> section_go pos [] (events_forest f) = section_forest f pos.
Proof. exact section_tree. Qed.
Print Assumptions C17_css_section.

Theorem C17_css_properties :
  forall (fragment : str) (from m : Z) (items : list node) (last : option (Z * Z * Z * Z * Z)),
    seq_ok wf_node 0 m items ->
    props_go fragment from (mkPP None 0 from) [] (body_events items last) = props_spec fragment from items last.
Proof. exact props_tree. Qed.
Print Assumptions C17_css_properties.

Theorem C17_select_css_ranges_next :
  forall (code : str) (n : Z) (f : list node) (pos : Z),
    wf_forest n f -> select_next_events code (events_forest f) pos = next_forest code f pos.
Proof. exact next_tree. Qed.
Print Assumptions C17_select_css_ranges_next.

Theorem C17_select_css_ranges_previous :
  forall (code : str) (n : Z) (f : list node) (pos : Z),
    wf_forest n f -> select_previous_events code (events_forest f) pos = prev_forest code f pos.
Proof. exact prev_tree. Qed.
Print Assumptions C17_select_css_ranges_previous.

(* non-vacuity: the sheet  a{b:c;d:e }  -- the tree is well formed, the scanner yields its
   events plus the unterminated declaration, get_css_section finds the rule with both
   declarations, the second one (terminated by the end of the body) with after = value end *)
Example C17_css_nonvacuous :
  let s := [97;123;98;58;99;59;100;58;101;32;125]%N in
  get_css_section s 3 true =
    Some (mkCS 0 11 2 10 (Some [mkCP (2, 3) (4, 5) [(4, 5)] 2 6; mkCP (6, 7) (8, 9) [(8, 9)] 6 9])) /\
  props_spec (py_slice s 2 10) 2 [Decl 0 1 1 2 3 3] (Some (4, 5, 5, 6, 7)) =
    [mkCP (2, 3) (4, 5) [(4, 5)] 2 6; mkCP (6, 7) (8, 9) [(8, 9)] 6 9] /\
  scan (py_slice s 2 10) = body_events [Decl 0 1 1 2 3 3] (Some (4, 5, 5, 6, 7)) /\
  select_item_css s 2 false = Some (mkSI 2 6 [(2, 6); (4, 5)]).
Proof. vm_compute. repeat split; reflexivity. Qed.

(* The same for every way a body can end (model/CssTreeActions.v, body_tail): all declarations terminated by
   `;` (TailNone), the last one `name : value` up to the end of the body (TailValue), or the last one
   `name :` followed by blanks / comments only up to the end of the body (TailEmpty: the scanner, run on the
   body without its closing brace, reports the name with the offset of the colon and nothing else).  What
   the code does for TailEmpty: when the recorded colon offset is a colon of the body text, the declaration
   is reported with its exact name range, an EMPTY value range placed at the end of the body (the offset of
   the closing brace, where `name:;` has its empty value on the `;`), no value tokens, before = end of the
   previous sibling (or body start), after = end of the body. *)
Theorem C17_css_properties_every_tail :
  forall (fragment : str) (from m : Z) (items : list node) (t : body_tail),
    seq_ok wf_node 0 m items -> tail_ok fragment t ->
    props_go fragment from (mkPP None 0 from) [] (body_events_tail items t) = props_spec_tail fragment from items t.
Proof. exact props_tree_tail. Qed.
Print Assumptions C17_css_properties_every_tail.

(* ... and a trailing name that has NO colon is not a declaration and is not reported: `a { b:c; color }`
   (the scanner reports delimiter -1) and `a { color; }` (the scanner reports the offset of the `;`) *)
Theorem C17_css_properties_bare_name_not_reported :
  forall (fragment : str) (from m : Z) (items : list node) (ns ne d : Z),
    seq_ok wf_node 0 m items -> no_colon_at fragment d ->
    props_go fragment from (mkPP None 0 from) [] (events_forest items ++ [mkEv PropertyName ns ne d]) =
    props_spec_tail fragment from items TailNone.
Proof. exact props_tree_bare_name. Qed.
Print Assumptions C17_css_properties_bare_name_not_reported.

(* non-vacuity: the sheet  a{b:c;color: }  -- the body  b:c;color:<blank>  scanned on its own yields the events
   of the tree plus the bare name event; the colon offset is a colon; get_css_section reports both declarations,
   `color` with the empty value (13, 13) on the closing brace and after = 13; select_item_css asked inside the
   name selects the same (empty) value part; `a{b:c;color }` and `a{b:c;color;}` report `b` only *)
Example C17_css_empty_tail_nonvacuous :
  let s := [97;123;98;58;99;59;99;111;108;111;114;58;32;125]%N in
  let frag := py_slice s 2 13 in
  scan frag = body_events_tail [Decl 0 1 1 2 3 3] (TailEmpty 4 9 9) /\
  tail_ok frag (TailEmpty 4 9 9) /\
  props_spec_tail frag 2 [Decl 0 1 1 2 3 3] (TailEmpty 4 9 9) =
    [mkCP (2, 3) (4, 5) [(4, 5)] 2 6; mkCP (6, 11) (13, 13) [] 6 13] /\
  get_css_section s 3 true =
    Some (mkCS 0 14 2 13 (Some [mkCP (2, 3) (4, 5) [(4, 5)] 2 6; mkCP (6, 11) (13, 13) [] 6 13])) /\
  option_map si_start (select_item_css s 8 false) = Some 13 /\
  get_css_section [97;123;98;58;99;59;99;111;108;111;114;32;125]%N 3 true =
    Some (mkCS 0 13 2 12 (Some [mkCP (2, 3) (4, 5) [(4, 5)] 2 6])) /\
  get_css_section [97;123;98;58;99;59;99;111;108;111;114;59;125]%N 3 true =
    Some (mkCS 0 13 2 12 (Some [mkCP (2, 3) (4, 5) [(4, 5)] 2 6])).
Proof. vm_compute. repeat split; try reflexivity. discriminate. Qed.

(* ================================================================== on TEXT *)
Theorem C17_css_section_text :
  forall (sh : sheet) (pos : Z) (properties : bool),
    wf_sheet sh = true ->
    get_css_section (render sh) pos properties =
    option_map (section_of_hit properties) (section_items pos 0 (sh_items sh)).
Proof. exact css_section_text. Qed.
Print Assumptions C17_css_section_text.

(* properties requested: the direct declarations of the rule found, with exact offsets *)
Theorem C17_css_properties_text :
  forall (sh : sheet) (pos : Z),
    wf_sheet sh = true ->
    get_css_section (render sh) pos true =
    match section_items pos 0 (sh_items sh) with
    | None => None
    | Some ((a, b, ba, bb), (body, g3)) =>
        Some (mkCS a b ba bb (Some (props_spec (render_items body ++ render_gap g3) ba (lay_items 0 body) None)))
    end.
Proof. exact css_properties_text. Qed.
Print Assumptions C17_css_properties_text.

(* the rule found is the one the Level A spec names on the layout tree of the sheet *)
Theorem C17_css_section_text_tree :
  forall (sh : sheet) (pos : Z),
    option_map fst (section_items pos 0 (sh_items sh)) = section_forest (tree sh) pos.
Proof. exact section_items_tree. Qed.
Print Assumptions C17_css_section_text_tree.

(* select_item_css on the text: next / previous selector or declaration of the sheet's layout tree with its
   full, value and value-token ranges *)
Theorem C17_select_css_text :
  forall (sh : sheet) (pos : Z) (is_prev : bool),
    wf_sheet sh = true ->
    select_item_css (render sh) pos is_prev =
    if is_prev then prev_forest (render sh) (tree sh) pos else next_forest (render sh) (tree sh) pos.
Proof. exact select_item_css_text. Qed.
Print Assumptions C17_select_css_text.

(* the name / value ranges of those properties are the ranges of the direct declarations of the body's layout,
   shifted to the body start, and in the body text they slice to the names and values AS WRITTEN
   (take pre = [], post = render_gap g3: the fragment get_css_section parses) *)
Theorem C17_css_properties_ranges :
  forall (frag : str) (from : Z) (l : list node),
    map (fun cp => (cp_name cp, cp_value cp)) (props_spec frag from l None) = map (shift2 from) (decl_ranges l).
Proof. exact props_spec_ranges. Qed.
Print Assumptions C17_css_properties_ranges.

Theorem C17_css_declarations_text :
  forall (l : list item) (pre post : str),
    map (slice2 (pre ++ render_items l ++ post)) (decl_ranges (lay_items (zlen pre) l)) = decl_texts l.
Proof. exact decl_ranges_text. Qed.
Print Assumptions C17_css_declarations_text.

(* non-vacuity on text: the sheet  a{b:c;e{f:g;}h:i;}  of the grammar; at position 3 the outer rule with its two
   direct declarations (the nested rule's declaration is skipped, `before` of h:i is the end of the nested rule),
   at position 9 the nested rule *)
Example C17_css_text_nonvacuous :
  let decl n v := SDecl [] [LCh n] [] [] [LCh v] [] in
  let rule n body := SRule [] (CssSheet.mkSel None [LCh n] []) [] body [] in
  let sh := mkSheet [rule 97%N [decl 98%N 99%N; rule 101%N [decl 102%N 103%N]; decl 104%N 105%N]] [] in
  wf_sheet sh = true /\
  get_css_section (render sh) 3 true =
    Some (mkCS 0 18 2 17 (Some [mkCP (2, 3) (4, 5) [(4, 5)] 2 6; mkCP (13, 14) (15, 16) [(15, 16)] 13 17])) /\
  get_css_section (render sh) 9 true =
    Some (mkCS 6 13 8 12 (Some [mkCP (8, 9) (10, 11) [(10, 11)] 8 12])).
Proof. vm_compute. repeat split; reflexivity. Qed.

(* ================================================================== the end of the body, on TEXT *)
Theorem C17_css_body_scan_text :
  forall (body : list item) (t : stail),
    body_ok body t = true ->
    scan (render_body body t) = body_events_tail (body_tree body) (body_tail_of body t).
Proof. exact scan_body_text. Qed.
Print Assumptions C17_css_body_scan_text.

Theorem C17_css_properties_body_text :
  forall (body : list item) (t : stail) (pre post : str),
    body_ok body t = true ->
    parse_properties (pre ++ render_body body t ++ post) (zlen pre) (zlen pre + zlen (render_body body t)) =
    props_spec_tail (render_body body t) (zlen pre) (body_tree body) (body_tail_of body t).
Proof. exact parse_properties_body_text. Qed.
Print Assumptions C17_css_properties_body_text.

(* non-vacuity on text: the body  b:c;color: /**/  (a terminated declaration, then `color:` followed by a blank and a
   comment) inside  a{ ... } : well formed, rendered as expected, laid out as TailEmpty 4 9 9, and parse_properties /
   get_css_section report `color` with the empty value (16, 16) at the end of the body and after = 16 *)
Example C17_css_body_text_nonvacuous :
  let decl n v := SDecl [] [LCh n] [] [] [LCh v] [] in
  let body := [decl 98%N 99%N] in
  let t := STEmpty [] [LCh 99%N; LCh 111%N; LCh 108%N; LCh 111%N; LCh 114%N] [] [GWs 32%N; GCom []] in
  let pre := [97; 123]%N in
  let post := [125]%N in
  body_ok body t = true /\
  render_body body t = [98;58;99;59;99;111;108;111;114;58;32;47;42;42;47]%N /\
  body_tail_of body t = TailEmpty 4 9 9 /\
  props_spec_tail (render_body body t) (zlen pre) (body_tree body) (body_tail_of body t) =
    [mkCP (2, 3) (4, 5) [(4, 5)] 2 6; mkCP (6, 11) (17, 17) [] 6 17] /\
  get_css_section (pre ++ render_body body t ++ post) 3 true =
    Some (mkCS 0 18 2 17 (Some [mkCP (2, 3) (4, 5) [(4, 5)] 2 6; mkCP (6, 11) (17, 17) [] 6 17])).
Proof. vm_compute. repeat split; reflexivity. Qed.
