(* C17 (CSS half) -- get_css_section and select_item_css select exactly the rule,
   declaration, value and value-token ranges.
   Property theorems only; each closed by [exact] of a lemma proved in proofs/.

   Level A (proved, for ALL well-formed trees): a stylesheet is a tree of nested rules and
   declarations with recorded offsets (model/CssTree.v); it denotes the callback sequence
   [events_forest f].  On that sequence the consumers of action_utils/css.py
   (model/CssActions.v, followed function by function) return what the tree says
   (model/CssTreeActions.v):
     css_section         get_css_section: the first rule, children before parents, that
                         contains pos (bounds included), with body = between the braces
     css_properties      parse_properties on the events of a rule body (scanned on its own,
                         last declaration possibly terminated by the end of the body):
                         exactly the direct declarations, in order, each with exact name and
                         value ranges, value tokens = split_value of the value text shifted to
                         the value, before = end of the previous sibling (or body start),
                         after = just after the semicolon (end of the value when there is none);
                         declarations of nested rules are skipped
     select_css_ranges   select_item_css next: the first selector / declaration name /
                         declaration value that starts at or after pos -> selector range, or
                         full + value + token ranges of the declaration (from a value: value +
                         tokens); previous: the last selector or declaration that starts before pos.
   Value tokens themselves are characterised for all strings in props/C16Css.v (inside the
   value, non-empty, ordered).

   NOT proved (Level B): that scan(render sheet) is the event sequence of the tree, and that
   split_value on a rendered value list returns exactly the generator's tokens.  Both are
   covered by the correspondence run and by the ground-truth oracle of harness/c17_css.py. *)
From Coq Require Import ZArith List.
From Emmet Require Import lib.Base model.CssScan model.CssMatch model.CssParse model.CssActions
     model.CssTree model.CssTreeActions proofs.CssActionsProofs.
Import ListNotations.
Local Open Scope Z_scope.

Theorem C17_css_section :
  forall (n : Z) (f : list node) (pos : Z),
    wf_forest n f -> section_go pos [] (events_forest f) = section_forest f pos.
Proof. exact section_tree. Qed.
Print Assumptions C17_css_section.

Theorem C17_css_properties :
  forall (fragment : str) (from m : Z) (items : list node) (last : option (Z * Z * Z * Z * Z)),
    seq_ok wf_node 0 m items ->
    props_go fragment from (mkPP None 0 from) [] (body_events items last) = props_spec fragment from items last.
Proof. exact props_tree. Qed.
Print Assumptions C17_css_properties.

Theorem C17_select_css_ranges_next :
  forall (code : str) (n : Z) (f : list node) (pos : Z),
    wf_forest n f -> select_next_events code (events_forest f) pos = next_forest code f pos.
Proof. exact next_tree. Qed.
Print Assumptions C17_select_css_ranges_next.

Theorem C17_select_css_ranges_previous :
  forall (code : str) (n : Z) (f : list node) (pos : Z),
    wf_forest n f -> select_previous_events code (events_forest f) pos = prev_forest code f pos.
Proof. exact prev_tree. Qed.
Print Assumptions C17_select_css_ranges_previous.

(* non-vacuity: the sheet  a{b:c;d:e }  -- the tree is well formed, the scanner yields its
   events plus the unterminated declaration, get_css_section finds the rule with both
   declarations, the second one (terminated by the end of the body) with after = value end *)
Example C17_css_nonvacuous :
  let s := [97;123;98;58;99;59;100;58;101;32;125]%N in
  get_css_section s 3 true =
    Some (mkCS 0 11 2 10 (Some [mkCP (2, 3) (4, 5) [(4, 5)] 2 6; mkCP (6, 7) (8, 9) [(8, 9)] 6 9])) /\
  props_spec (py_slice s 2 10) 2 [Decl 0 1 1 2 3 3] (Some (4, 5, 5, 6, 7)) =
    [mkCP (2, 3) (4, 5) [(4, 5)] 2 6; mkCP (6, 7) (8, 9) [(8, 9)] 6 9] /\
  scan (py_slice s 2 10) = body_events [Decl 0 1 1 2 3 3] (Some (4, 5, 5, 6, 7)) /\
  select_item_css s 2 false = Some (mkSI 2 6 [(2, 6); (4, 5)]).
Proof. vm_compute. repeat split; reflexivity. Qed.
