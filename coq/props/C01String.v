(* C01 -- string-level companion of props/C01.v (property theorems only).

   For EVERY text made of letter names separated by `>`, `+` and runs of `^` (any number of
   elements, any mix of the three operators), the tokenizer model followed by the parser model
   yields a tree whose preorder (depth, name) list is the one the operators denote:
   `>` nests, `+` keeps the level, each `^` moves one level up and stops at the top.
   The statement contains no token, position or scanner detail: it is about strings.
   Not covered here (see props/C01.v header): groups, repeaters, attributes in names. *)
From Emmet Require Import lib.Base model.MarkupTokenizer model.MarkupParser proofs.ParserSpine proofs.TokenizeRender.

Theorem C01_text_to_tree_flat_partial :
  forall xs : list (str * sop),
    Forall name_ok (map fst xs) ->
    exists toks els,
      tokenize (render xs) = TOk toks /\ parse false toks = POk els /\
      map (fun x => (fst x, leaf_text (snd x))) (preL 0 els) = sdenote 0 xs.
Proof. exact expand_front_flat. Qed.
Print Assumptions C01_text_to_tree_flat_partial.

(* non-vacuity: "ul>li+li^^p" is such a text; its denotation is [(0,ul);(1,li);(1,li);(0,p)] *)
Example C01_text_nonvacuous :
  let ul := [117;108]%N in let li := [108;105]%N in let p := [112]%N in
  let xs := [(ul, SChild); (li, SSibling); (li, SClimb 1); (p, SSibling)] in
  Forall name_ok (map fst xs) /\
  render xs = [117;108;62;108;105;43;108;105;94;94;112]%N /\
  sdenote 0 xs = [(0, ul); (1, li); (1, li); (0, p)].
Proof.
  cbv zeta. split; [|split; reflexivity].
  repeat constructor; discriminate.
Qed.
