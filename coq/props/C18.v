(* C18 -- Tokenizers are lossless: token spans tile the abbreviation.
   Property theorems only; each closed by [exact] of a lemma proved in proofs/. *)
From Emmet Require Import lib.Base model.MarkupTokenizer proofs.MarkupTokenizerProofs.

(* [tiles l a b]: the spans of [l] are defined (they are [nat]s, there is no None),
   non-empty, contiguous, start at [a] and end at [b]. *)
Theorem C18_markup_tokens_tile :
  forall (s : str) (l : list token), tokenize s = TOk l -> tiles l 0 (length s).
Proof. exact tokenize_tiles. Qed.
Print Assumptions C18_markup_tokens_tile.

(* the only failure is the scanner error, and its position lies inside the input *)
Theorem C18_markup_error_inside :
  forall (s : str) (p : nat), tokenize s = TErr p -> p <= length s.
Proof. exact tokenize_error_inside. Qed.
Print Assumptions C18_markup_error_inside.

(* every token maps back to the exact characters that produced it and every
   character belongs to exactly one token *)
Theorem C18_markup_lossless :
  forall (s : str) (l : list token),
    tokenize s = TOk l -> concat (map (fun t => slice s (tstart t) (tend t)) l) = s.
Proof. exact tokenize_lossless. Qed.
Print Assumptions C18_markup_lossless.

(* non-vacuity: a non-trivial input tokenizes successfully *)
Example C18_markup_nonvacuous :
  exists l, tokenize [117;108;62;108;105;46;97;36;42;51;123;120;125]%N = TOk l /\ length l = 10.
Proof. eexists. split; [vm_compute; reflexivity|reflexivity]. Qed.
