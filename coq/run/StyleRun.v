(* Entry point of the extracted (float-free) stylesheet models: decodes a case,
   runs the model, encodes the observable.  Command tags:
     1 <is_value> <str>     css tokenize  -> 0 <tokens> | 1 <pos> | 2 <kind>
     2 <is_value> <str>     css parse     -> res (list property)  *)
From Emmet Require Import lib.Base lib.Wire lib.StyleLib model.CssTokenizer model.CssParser.
Local Open Scope Z_scope.

(* decimals travel as sign, mantissa digits (text: may exceed an OCaml int), exponent *)
Definition enc_dec (d : dec) : wire := enc_bool (dneg d) ++ enc_str (str_of_N (dmant d)) ++ enc_nat (dexp d).

Definition enc_ckind (k : ckind) : wire :=
  match k with
  | CLiteral v => 0 :: enc_str v
  | CCustomProperty v => 1 :: enc_str v
  | CNumber v raw u => 2 :: enc_dec v ++ enc_str raw ++ enc_str u
  | CColor r g b a raw => 3 :: enc_N r ++ enc_N g ++ enc_N b ++ enc_dec a ++ enc_str raw
  | CString v s => 4 :: enc_str v ++ enc_bool s
  | CField n i => 5 :: enc_str n ++ enc_opt enc_N i
  | CBracket o => 6 :: enc_bool o
  | COperator o => 7 :: enc_N o
  | CWhiteSpace => [8]
  end.
Definition enc_ctoken (t : ctoken) : wire := enc_ckind (ck t) ++ enc_nat (cstart t) ++ enc_nat (cend t).
Definition enc_ctres (r : ctres) : wire :=
  match r with
  | CTOk l => 0 :: enc_list enc_ctoken l
  | CTErr p => 1 :: enc_nat p
  | CTInternal k => 2 :: enc_N k
  end.

Fixpoint enc_cval (v : cval) : wire :=
  match v with
  | VTok k st en => 0 :: enc_ckind k ++ enc_opt enc_nat st ++ enc_opt enc_nat en
  | VFunc n args =>
      1 :: enc_str n ++ Z.of_nat (length args) ::
        concat (map (fun a => Z.of_nat (length a) :: concat (map enc_cval a)) args)
  end.
Definition enc_cssvalue (v : cssvalue) : wire := enc_list enc_cval v.
Definition enc_prop (p : cssprop) : wire :=
  enc_opt enc_str (pname p) ++ enc_list enc_cssvalue (pvalue p) ++ enc_bool (pimportant p) ++ enc_bool (psnippet p).

Definition with_mode_str (w : wire) (f : bool -> str -> wire) : wire :=
  match dec_bool w with
  | Some (v, w') => match dec_str w' with
                    | Some (s, _) => f v s
                    | None => wire_bad
                    end
  | None => wire_bad
  end.

Definition run (w : wire) : wire :=
  match w with
  | 1 :: w' => with_mode_str w' (fun v s => enc_ctres (ctokenize v s))
  | 2 :: w' => with_mode_str w' (fun v s => enc_res (enc_list enc_prop) (css_parse v s))
  | _ => wire_bad
  end.
