(* Entry point of the extracted domain check of C12_indent_is_depth / C12_close_aligned: decodes a case
   (the configuration and the abbreviation as for MarkupRun command 2), parses and resolves the abbreviation and
   evaluates the domain predicates of the theorems on the resulting tree.
     1 domains <config> <str>  -> res (formatSkip empty, cfg_depth, depth_dom, align_dom)  *)
From Emmet Require Import lib.Base lib.Wire model.MarkupTokenizer model.MarkupParser model.MarkupConvert
     model.MarkupResolve model.OutStream model.FormatHtml model.MarkupExpand run.MarkupRun proofs.FormatDepthFull.
Local Open Scope Z_scope.

Definition run (w : wire) : wire :=
  match w with
  | 1 :: w' => match dec_config w' with
               | Some (x, w2) => match dec_str w2 with
                                 | Some (s, _) =>
                                     enc_res (fun t => enc_bool (match oc_format_skip (xc_o x) with [] => true | _ => false end)
                                                       ++ enc_bool (cfg_depth (xc_o x))
                                                       ++ enc_bool (depth_dom (xc_o x) t)
                                                       ++ enc_bool (align_dom (xc_o x) t))
                                             (markup_parse (xc_m x) s)
                                 | None => wire_bad
                                 end
               | None => wire_bad
               end
  | _ => wire_bad
  end.
