(* Entry point of the extracted markup model: decodes a case, runs the model,
   encodes the observable.  Command tags:
     1 tokenize <str>            -> 0 <tokens> | 1 <pos>
     2 expand <config> <str>     -> res str
     3 events <config> <str>     -> res (list event)   (every callback invocation, C13)
     4 tree <config> <str>       -> res (preorder list (depth, name, repeat value))  *)
From Emmet Require Import lib.Base lib.Wire model.MarkupTokenizer model.MarkupParser model.MarkupConvert
     model.MarkupResolve model.OutStream model.FormatHtml model.FormatIndent model.MarkupExpand
     gen.GenMarkupSnippets.
Local Open Scope Z_scope.

Definition enc_bctx (b : bctx) : wire := [match b with BGroup => 0 | BAttr => 1 | BExpr => 2 end].
Definition enc_optype (o : optype) : wire :=
  [match o with OpChild => 0 | OpSibling => 1 | OpClimb => 2 | OpClass => 3 | OpId => 4
              | OpClose => 5 | OpEqual => 6 | OpUnknown => 7 end].
Definition enc_tkind (k : tkind) : wire :=
  match k with
  | TLiteral v => 0 :: enc_str v
  | TWhiteSpace v => 1 :: enc_str v
  | TQuote s => 2 :: enc_bool s
  | TBracket o c => 3 :: enc_bool o ++ enc_bctx c
  | TOperator o => 4 :: enc_optype o
  | TRepeater c v i => 5 :: enc_N c ++ enc_N v ++ enc_bool i
  | TRepeaterNumber s r b p => 6 :: enc_N s ++ enc_bool r ++ enc_N b ++ enc_N p
  | TRepeaterPlaceholder => [7]
  | TField n i => 8 :: enc_str n ++ enc_opt enc_N i
  end.
Definition enc_token (t : token) : wire := enc_tkind (tk t) ++ enc_nat (tstart t) ++ enc_nat (tend t).
Definition enc_tres (r : tres) : wire :=
  match r with
  | TOk l => 0 :: enc_list enc_token l
  | TErr p => 1 :: enc_nat p
  end.


(* ---------------------------------------------------------------- config decoding *)
Definition dec_pair {A B} (da : dec A) (db : dec B) : dec (A * B) := fun w =>
  match da w with
  | Some (a, w1) => match db w1 with Some (b, w2) => Some ((a, b), w2) | None => None end
  | None => None
  end.
Definition dec_strs : dec (list str) := dec_list dec_str.
Definition dec_pairs : dec (list (str * str)) := dec_list (dec_pair dec_str dec_str).
Definition dec_text : dec wtext := fun w =>
  match w with
  | 0 :: w' => Some (WNone, w')
  | 1 :: w' => match dec_str w' with Some (s, w2) => Some (WStr s, w2) | None => None end
  | 2 :: w' => match dec_strs w' with Some (l, w2) => Some (WList l, w2) | None => None end
  | _ => None
  end.

Notation "'dlet' x ':=' d 'in' k" :=
  (match d with Some (x, w) => k w | None => None end)
  (at level 200, x name, d at level 100, k at level 200, only parsing).

Definition snippet_base (sel : Z) : list (str * str) :=
  match sel with
  | 1 => markup_snippets
  | 2 => xsl_snippets ++ markup_snippets
  | 3 => pug_snippets ++ markup_snippets
  | _ => []
  end.

Definition dec_config : dec xconfig := fun w =>
  match dec_str w with None => None | Some (syntax, w) =>
  match dec_Z w with None => None | Some (sel, w) =>
  match dec_pairs w with None => None | Some (user_snips, w) =>
  match dec_pairs w with None => None | Some (vars, w) =>
  match dec_text w with None => None | Some (text, w) =>
  match dec_opt dec_N w with None => None | Some (max_repeat, w) =>
  match dec_opt dec_N w with None => None | Some (max_repeat_snip, w) =>
  match dec_bool w with None => None | Some (jsx, w) =>
  match dec_opt dec_str w with None => None | Some (context_name, w) =>
  match dec_strs w with None => None | Some (inline, w) =>
  match dec_bool w with None => None | Some (reverse, w) =>
  match dec_bool w with None => None | Some (href, w) =>
  match dec_str w with None => None | Some (indent, w) =>
  match dec_str w with None => None | Some (base_indent, w) =>
  match dec_str w with None => None | Some (newline, w) =>
  match dec_str w with None => None | Some (tag_case, w) =>
  match dec_str w with None => None | Some (attr_case, w) =>
  match dec_str w with None => None | Some (attr_quotes, w) =>
  match dec_bool w with None => None | Some (format, w) =>
  match dec_bool w with None => None | Some (format_leaf, w) =>
  match dec_strs w with None => None | Some (format_skip, w) =>
  match dec_strs w with None => None | Some (format_force, w) =>
  match dec_N w with None => None | Some (inline_break, w) =>
  match dec_bool w with None => None | Some (compact_boolean, w) =>
  match dec_strs w with None => None | Some (boolean_attrs, w) =>
  match dec_str w with None => None | Some (self_closing_style, w) =>
  match dec_bool w with None => None | Some (comment_enabled, w) =>
  match dec_strs w with None => None | Some (comment_trigger, w) =>
  match dec_str w with None => None | Some (comment_before, w) =>
  match dec_str w with None => None | Some (comment_after, w) =>
  match dec_opt dec_pairs w with None => None | Some (markup_attributes, w) =>
  match dec_opt dec_pairs w with None => None | Some (value_prefix, w) =>
  match dec_bool w with None => None | Some (bem_enabled, w) =>
  match dec_str w with None => None | Some (bem_element, w) =>
  match dec_str w with None => None | Some (bem_modifier, w) =>
  match dec_opt dec_str w with None => None | Some (context_class, w) =>
  match dec_list dec_Z w with None => None | Some (draws, w) =>       (* the randint oracle of lorem *)
    Some (mkX (mkMConfigD syntax (user_snips ++ snippet_base sel) vars text max_repeat max_repeat_snip jsx
                         context_name inline reverse href bem_enabled bem_element bem_modifier context_class draws)
              (mkOconfig (mkOfmt indent base_indent newline) tag_case attr_case attr_quotes format format_leaf
                         format_skip format_force inline_break compact_boolean boolean_attrs self_closing_style
                         inline comment_enabled comment_trigger comment_before comment_after jsx
                         markup_attributes value_prefix), w)
  end end end end end end end end end end end end end end end end
  end end end end end end end end end end end end end end end end
  end end end end end.

Definition enc_event (e : oevent) : wire :=
  match e with
  | EvText _ s off line col => 0 :: enc_str s ++ enc_nat off ++ enc_nat line ++ enc_nat col
  | EvField idx ph off line col => 1 :: enc_N idx ++ enc_str ph ++ enc_nat off ++ enc_nat line ++ enc_nat col
  end.

(* preorder (depth, name, repeat value, repeat count) of the final abbreviation tree *)
Fixpoint preorder (d : nat) (n : anode) : list (nat * option str * option rep) :=
  match n with
  | ANode nm _ rp _ ch _ =>
      (d, nm, rp) :: (fix go (l : list anode) := match l with [] => [] | c :: r => preorder (S d) c ++ go r end) ch
  end.
Definition enc_pre (x : nat * option str * option rep) : wire :=
  let '(d, nm, rp) := x in
  enc_nat d ++ enc_opt enc_str nm ++ enc_opt (fun r => enc_N (rcount r) ++ enc_N (rvalue r) ++ enc_bool (rimplicit r)) rp.

Definition run (w : wire) : wire :=
  match w with
  | 1 :: w' => match dec_str w' with
               | Some (s, _) => enc_tres (tokenize s)
               | None => wire_bad
               end
  | 2 :: w' => match dec_config w' with
               | Some (x, w2) => match dec_str w2 with
                                 | Some (s, _) => enc_res enc_str (expand_markup_str x s)
                                 | None => wire_bad
                                 end
               | None => wire_bad
               end
  | 3 :: w' => match dec_config w' with
               | Some (x, w2) => match dec_str w2 with
                                 | Some (s, _) =>
                                     enc_res (fun st => enc_list enc_event (rev (os_events (fs_out st))))
                                             (expand_markup x s)
                                 | None => wire_bad
                                 end
               | None => wire_bad
               end
  | 4 :: w' => match dec_config w' with
               | Some (x, w2) => match dec_str w2 with
                                 | Some (s, _) =>
                                     enc_res (fun t => enc_list enc_pre (flat_map (preorder 0) t))
                                             (markup_parse (xc_m x) s)
                                 | None => wire_bad
                                 end
               | None => wire_bad
               end
  | _ => wire_bad
  end.
