(* Entry point of the extracted markup model: decodes a case, runs the model,
   encodes the observable.  Command tags:
     1 tokenize <str>            -> 0 <tokens> | 1 <pos>  *)
From Emmet Require Import lib.Base lib.Wire model.MarkupTokenizer.
Local Open Scope Z_scope.

Definition enc_bctx (b : bctx) : wire := [match b with BGroup => 0 | BAttr => 1 | BExpr => 2 end].
Definition enc_optype (o : optype) : wire :=
  [match o with OpChild => 0 | OpSibling => 1 | OpClimb => 2 | OpClass => 3 | OpId => 4
              | OpClose => 5 | OpEqual => 6 | OpUnknown => 7 end].
Definition enc_tkind (k : tkind) : wire :=
  match k with
  | TLiteral v => 0 :: enc_str v
  | TWhiteSpace v => 1 :: enc_str v
  | TQuote s => 2 :: enc_bool s
  | TBracket o c => 3 :: enc_bool o ++ enc_bctx c
  | TOperator o => 4 :: enc_optype o
  | TRepeater c v i => 5 :: enc_N c ++ enc_N v ++ enc_bool i
  | TRepeaterNumber s r b p => 6 :: enc_N s ++ enc_bool r ++ enc_N b ++ enc_N p
  | TRepeaterPlaceholder => [7]
  | TField n i => 8 :: enc_str n ++ enc_opt enc_N i
  end.
Definition enc_token (t : token) : wire := enc_tkind (tk t) ++ enc_nat (tstart t) ++ enc_nat (tend t).
Definition enc_tres (r : tres) : wire :=
  match r with
  | TOk l => 0 :: enc_list enc_token l
  | TErr p => 1 :: enc_nat p
  end.

Definition run (w : wire) : wire :=
  match w with
  | 1 :: w' => match dec_str w' with
               | Some (s, _) => enc_tres (tokenize s)
               | None => wire_bad
               end
  | _ => wire_bad
  end.
