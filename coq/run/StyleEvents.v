(* In-Coq evaluation of the full stylesheet pipeline with the CALLBACK EVENTS as observable
   (the pipeline uses PrimFloat through the scorer and is therefore not extracted; see
   run/StyleShow.v, whose configurations and groups are reused).  The harness writes case files
   that [Eval vm_compute in (run_groups_ev [...])] and parses the printed list.
     0 :: events | 1 kind 1 pos | 1 kind 0 | 2 kind | 3 | 9
     event: 0 len chars off line col | 1 idx_code len chars off line col *)
From Coq Require Import PrimFloat.
From Emmet Require Import lib.Base lib.StyleLib gen.GenCssSnippets model.CssTokenizer model.CssParser
     model.Score model.Color model.CssSnippets model.CssResolve model.MarkupConvert model.OutStream
     model.CssFormatStream model.CssExpandStream run.StyleShow.
Local Open Scope N_scope.

Definition show_str (s : str) : list N := N.of_nat (length s) :: s.
Definition show_event (e : oevent) : list N :=
  match e with
  | EvText _ s off line col => 0 :: show_str s ++ [N.of_nat off; N.of_nat line; N.of_nat col]
  | EvField idx ph off line col => 1 :: idx :: show_str ph ++ [N.of_nat off; N.of_nat line; N.of_nat col]
  end.
Definition show_ev (r : res ostream) : list N :=
  match r with
  | Ok o => 0 :: concat (map show_event (rev (os_events o)))
  | ParseErr k (Some p) => [1; k; 1; Z.to_N p]
  | ParseErr k None => [1; k; 0]
  | Internal k => [2; k]
  | OutOfFuel => [3]
  end.

Definition run_group_ev (g : option sconfig * bool * list str) : list (list N) :=
  let '(oc, builtin_table, abbrs) := g in
  match oc with
  | None => map (fun _ => [9]) abbrs
  | Some cfg =>
      match (if builtin_table then builtin_converted else convert_snippets (c_snippets cfg)) with
      | Ok sn => map (fun a => show_ev (expand_stream_with cfg sn a)) abbrs
      | ParseErr k p => map (fun _ => show_ev (ParseErr k p)) abbrs
      | Internal k => map (fun _ => show_ev (Internal k)) abbrs
      | OutOfFuel => map (fun _ => [3]) abbrs
      end
  end.

Definition run_groups_ev (gs : list (option sconfig * bool * list str)) : list (list N) :=
  concat (map run_group_ev gs).

(* run_group_ev computes expand_css_stream for every abbreviation of the group *)
Lemma run_group_ev_spec cfg abbrs :
  run_group_ev (Some cfg, false, abbrs) = map (fun a => show_ev (expand_css_stream cfg a)) abbrs.
Proof.
  unfold run_group_ev, expand_css_stream. destruct (convert_snippets (c_snippets cfg)); cbn [bind]; reflexivity.
Qed.
