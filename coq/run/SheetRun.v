(* Entry point of the extracted stylesheet GRAMMAR (model/CssSheet.v, the spec side of C10
   Level B): decodes a sheet, and reports whether it is well formed, the text it renders to and
   the callbacks it denotes.  Used by harness/props/c10.py to tie the spec of the Level B
   theorems to the generator's record and to the implementation.
     case    <sheet>            (encoding below, mirrored by harness/sheet_util.py)
     result  wf_sheet, render, events
   glex   0 c | 1 <str>          sbit  0 c | 1 c
   lex    0 c | 1 q <list sbit> | 2 | 3 | 4 | 5 k c | 6 | 7 <glex>     (LCh LStr LOpen LClose LColon LPseudo LSlash LGap)
   sel    <opt gap> <run> <list (gap gap run)>
   item   0 g1 name g2 g3 value g4 | 1 g1 sel g2 <list item> g3
   sheet  <list item> <gap> *)
From Emmet Require Import lib.Base lib.Wire model.CssScan model.CssMatch model.CssTree model.CssSheet.
Local Open Scope Z_scope.

Definition enc_ttype (t : ttype) : wire :=
  [match t with Selector => 0 | PropertyName => 1 | PropertyValue => 2 | BlockEnd => 3 end].
Definition enc_event (e : event) : wire := enc_ttype (ety e) ++ [estart e; eend e; edelim e].

Definition dbind {A B} (d : dec A) (k : A -> dec B) : dec B :=
  fun w => match d w with Some (a, w') => k a w' | None => None end.
Definition dret {A} (a : A) : dec A := fun w => Some (a, w).
Notation "'do' x '<-' d ';' k" := (dbind d (fun x => k)) (at level 200, x pattern, d at level 100, k at level 200).

Definition dec_glex : dec glex := fun w =>
  match w with
  | 0 :: w' => (do c <- dec_N; dret (GWs c)) w'
  | 1 :: w' => (do b <- dec_str; dret (GCom b)) w'
  | _ => None
  end.
Definition dec_gap : dec gap := dec_list dec_glex.
Definition dec_sbit : dec sbit := fun w =>
  match w with
  | 0 :: w' => (do c <- dec_N; dret (SC c)) w'
  | 1 :: w' => (do c <- dec_N; dret (SE c)) w'
  | _ => None
  end.
Definition dec_lex : dec lex := fun w =>
  match w with
  | 0 :: w' => (do c <- dec_N; dret (LCh c)) w'
  | 1 :: w' => (do q <- dec_N; do b <- dec_list dec_sbit; dret (LStr q b)) w'
  | 2 :: w' => Some (LOpen, w')
  | 3 :: w' => Some (LClose, w')
  | 4 :: w' => Some (LColon, w')
  | 5 :: w' => (do k <- dec_nat; do c <- dec_N; dret (LPseudo k c)) w'
  | 6 :: w' => Some (LSlash, w')
  | 7 :: w' => (do g <- dec_glex; dret (LGap g)) w'
  | _ => None
  end.
Definition dec_run : dec trun := dec_list dec_lex.
Definition dec_more : dec (gap * gap * trun) :=
  do g1 <- dec_gap; do g2 <- dec_gap; do r <- dec_run; dret (g1, g2, r).
Definition dec_sel : dec selector :=
  do l <- dec_opt dec_gap; do f <- dec_run; do m <- dec_list dec_more; dret (mkSel l f m).

Fixpoint dec_item (fuel : nat) : dec item :=
  match fuel with
  | O => fun _ => None
  | S f => fun w =>
      match w with
      | 0 :: w' => (do g1 <- dec_gap; do n <- dec_run; do g2 <- dec_gap; do g3 <- dec_gap; do v <- dec_run;
                    do g4 <- dec_gap; dret (SDecl g1 n g2 g3 v g4)) w'
      | 1 :: w' => (do g1 <- dec_gap; do s <- dec_sel; do g2 <- dec_gap; do b <- dec_list (dec_item f);
                    do g3 <- dec_gap; dret (SRule g1 s g2 b g3)) w'
      | _ => None
      end
  end.

Definition run (w : wire) : wire :=
  match (do l <- dec_list (dec_item (length w)); do g <- dec_gap; dret (mkSheet l g)) w with
  | Some (sh, []) => enc_bool (wf_sheet sh) ++ enc_str (render sh) ++ enc_list enc_event (events sh)
  | _ => wire_bad
  end.
