(* Entry point of the extracted configuration model (C20).  Values of options /
   snippets / variables travel as integer ids (built-in values >= 0 as numbered by
   the generator in gen/GenConfig.v, caller values < 0).  Command tags:

     1 <type: opt str> <syntax: opt str> <user: layer_cfg> <global: cfg_table>
       <patches: list (tag, name: str, section: str, key: str, value: Z)>
       <sections: list str>
          Config.__init__(user, global) on the GENERATED built-in tables, after the
          patches (tag 0: DEFAULT_CONFIG[section][key] = value; tag 1:
          SYNTAX_CONFIG[name][section][key] = value; missing dicts are created),
          -> <type: str> <syntax: str> then per requested section  0 | 1 <dict>
     2 <type: str> <syntax: str> <section: str> <bits: 6 x bool>
          the very cell of the sweep theorem (proofs/ConfigTables.v):
          [planted_result type syntax section bits]   -> <dict>
     3 <type: str> <syntax: str> <section: str> <key: str> <user> <global> <patches>
          [spec_lookup]: the SPEC's answer (documented order, most specific defining
          layer) for one key                          -> 0 | 1 <value>

     layer_cfg := list (section: str, dict)      cfg_table := list (name: str, layer_cfg)
     dict      := list (key: str, value: Z)                                          *)
From Emmet Require Import lib.Base lib.Wire lib.ConfigLib gen.GenLayerOrder gen.GenConfig
  model.Config proofs.ConfigProofs proofs.ConfigTables.
Local Open Scope Z_scope.

(* ---------------------------------------------------------------- decoding *)
Definition dec_pair {A B} (da : dec A) (db : dec B) : dec (A * B) := fun w =>
  match da w with
  | Some (a, w1) => match db w1 with Some (b, w2) => Some ((a, b), w2) | None => None end
  | None => None
  end.

(* a JSON-like object: pairs in order, a repeated key keeps its first position
   and takes the last value -- what building a Python dict does *)
Definition dec_dict {A} (d : dec A) : dec (dict A) := fun w =>
  match dec_list (dec_pair dec_str d) w with
  | Some (l, w') => Some (dict_of_pairs l, w')
  | None => None
  end.
Definition dec_layer_cfg : dec (layer_cfg Z) := dec_dict (dec_dict dec_Z).
Definition dec_cfg_table : dec (cfg_table Z) := dec_dict dec_layer_cfg.

Record patch : Type := { p_tag : Z; p_name : str; p_sec : str; p_key : str; p_val : Z }.
Definition dec_patch : dec patch := fun w =>
  match dec_Z w with
  | Some (t, w1) =>
      match dec_str w1 with
      | Some (n, w2) =>
          match dec_str w2 with
          | Some (s, w3) =>
              match dec_str w3 with
              | Some (k, w4) =>
                  match dec_Z w4 with
                  | Some (v, w5) => Some ({| p_tag := t; p_name := n; p_sec := s; p_key := k; p_val := v |}, w5)
                  | None => None
                  end
              | None => None
              end
          | None => None
          end
      | None => None
      end
  | None => None
  end.

(* ---------------------------------------------------------------- patched built-in tables *)
Definition plant_key_cfg (sec key : str) (v : Z) (c : layer_cfg Z) : layer_cfg Z :=
  dset sec (dset key v (section_of c sec)) c.
Definition plant_key_table (name sec key : str) (v : Z) (t : cfg_table Z) : cfg_table Z :=
  dset name (plant_key_cfg sec key v (table_get t name)) t.

Definition apply_patch (b : builtin Z) (p : patch) : builtin Z :=
  if p_tag p =? 0
  then {| b_default := plant_key_cfg (p_sec p) (p_key p) (p_val p) (b_default b);
          b_syntax_config := b_syntax_config b;
          b_default_syntaxes := b_default_syntaxes b |}
  else {| b_default := b_default b;
          b_syntax_config := plant_key_table (p_name p) (p_sec p) (p_key p) (p_val p) (b_syntax_config b);
          b_default_syntaxes := b_default_syntaxes b |}.
Definition patched (ps : list patch) : builtin Z := fold_left apply_patch ps builtin_tables.

(* ---------------------------------------------------------------- encoding *)
Definition enc_dict (d : dict Z) : wire :=
  enc_list (fun kv => enc_str (fst kv) ++ enc_Z (snd kv)) d.

Definition mk_user (ty syn : option str) (u : layer_cfg Z) : user_config Z :=
  {| u_type := ty; u_syntax := syn; u_cfg := u; u_other := [] |}.

Definition run_init (ty syn : option str) (u : layer_cfg Z) (g : cfg_table Z)
           (ps : list patch) (secs : list str) : wire :=
  let c := config_init (patched ps) (mk_user ty syn u) g in
  enc_str (cf_type c) ++ enc_str (cf_syntax c) ++
  concat (map (fun sec => enc_opt enc_dict (config_section c sec)) secs).

Definition run_spec (ty syn sec key : str) (u : layer_cfg Z) (g : cfg_table Z) (ps : list patch) : wire :=
  let b := patched ps in
  enc_opt enc_Z (spec_lookup (config_env b (mk_user (Some ty) (Some syn) u) g) ty syn sec key).

Definition run (w : wire) : wire :=
  match w with
  | 1 :: w0 =>
      match dec_opt dec_str w0 with
      | Some (ty, w1) =>
          match dec_opt dec_str w1 with
          | Some (syn, w2) =>
              match dec_layer_cfg w2 with
              | Some (u, w3) =>
                  match dec_cfg_table w3 with
                  | Some (g, w4) =>
                      match dec_list dec_patch w4 with
                      | Some (ps, w5) =>
                          match dec_list dec_str w5 with
                          | Some (secs, _) => run_init ty syn u g ps secs
                          | None => wire_bad
                          end
                      | None => wire_bad
                      end
                  | None => wire_bad
                  end
              | None => wire_bad
              end
          | None => wire_bad
          end
      | None => wire_bad
      end
  | 2 :: w0 =>
      match dec_str w0 with
      | Some (ty, w1) =>
          match dec_str w1 with
          | Some (syn, w2) =>
              match dec_str w2 with
              | Some (sec, w3) =>
                  match dec_n dec_bool 6 w3 with
                  | Some (bits, _) => enc_dict (planted_result ty syn sec bits)
                  | None => wire_bad
                  end
              | None => wire_bad
              end
          | None => wire_bad
          end
      | None => wire_bad
      end
  | 3 :: w0 =>
      match dec_str w0 with
      | Some (ty, w1) =>
          match dec_str w1 with
          | Some (syn, w2) =>
              match dec_str w2 with
              | Some (sec, w3) =>
                  match dec_str w3 with
                  | Some (key, w4) =>
                      match dec_layer_cfg w4 with
                      | Some (u, w5) =>
                          match dec_cfg_table w5 with
                          | Some (g, w6) =>
                              match dec_list dec_patch w6 with
                              | Some (ps, _) => run_spec ty syn sec key u g ps
                              | None => wire_bad
                              end
                          | None => wire_bad
                          end
                      | None => wire_bad
                      end
                  | None => wire_bad
                  end
              | None => wire_bad
              end
          | None => wire_bad
          end
      | None => wire_bad
      end
  | _ => wire_bad
  end.
