(* Entry point of the extracted math model: decodes a case, runs the model,
   encodes the observable.  Command tags:
     1 parse <str>                         -> res (list token)
     2 evaluate <str>                      -> res (option value), exact rationals
     3 extract <str> <opt pos> <la> <ws>   -> 0 | 1 start end
   Big integers (mantissas, numerators, denominators) travel as
   sign, number of limbs, limbs base 2^30 (least significant first). *)
From Coq Require Import QArith Qcanon.
From Emmet Require Import lib.Base lib.Wire model.Math.
Local Open Scope Z_scope.

Fixpoint limbs (fuel : nat) (n : N) : list Z :=
  match fuel with
  | O => []
  | S f => if (n =? 0)%N then [] else Z.of_N (n mod 1073741824)%N :: limbs f (n / 1073741824)%N
  end.
Definition enc_big (z : Z) : wire :=
  let l := limbs (S (N.size_nat (Z.abs_N z))) (Z.abs_N z) in
  Z.sgn z :: Z.of_nat (length l) :: l.

Definition enc_rtok (t : rtok) : wire :=
  match t with
  | RNum (m, k) => 0 :: enc_big (Z.of_N m) ++ enc_nat k
  | ROp1 c p => [1; Z.of_N c; p]
  | ROp2 c p => [2; Z.of_N c; p]
  | RNull => [3]
  end.

Definition enc_qc (q : Qc) : wire :=
  enc_big (Qnum (this q)) ++ enc_big (Zpos (Qden (this q))).

Definition run (w : wire) : wire :=
  match w with
  | 1 :: w' => match dec_str w' with
               | Some (s, _) => enc_res (enc_list enc_rtok) (parse s)
               | None => wire_bad
               end
  | 2 :: w' => match dec_str w' with
               | Some (s, _) => enc_res (enc_opt enc_qc) (evaluate QcNum s)
               | None => wire_bad
               end
  | 3 :: w' => match dec_str w' with
               | Some (s, w1) =>
                   match dec_opt dec_Z w1 with
                   | Some (pos, w2) =>
                       match dec_bool w2 with
                       | Some (la, w3) =>
                           match dec_bool w3 with
                           | Some (ws, _) =>
                               match extract s pos la ws with
                               | Some (a, b) => [1; a; b]
                               | None => [0]
                               end
                           | None => wire_bad
                           end
                       | None => wire_bad
                       end
                   | None => wire_bad
                   end
               | None => wire_bad
               end
  | _ => wire_bad
  end.
