(* Entry point of the extracted C15 SPEC: the short specification functions of proofs/IndentProofs.v and
   proofs/HtmlEvents.v run as an oracle next to the implementation.  Command tags:
     1 spec <config> <str>  -> res (in_domain, lines of node_lines joined by the newline string)
                               (config must name haml / slim / pug; otherwise Internal)
     2 nest <config> <str>  -> res (named_tree, clean, preorder (depth, name) from the open/close events of the tree) *)
From Emmet Require Import lib.Base lib.Wire model.MarkupTokenizer model.MarkupParser model.MarkupConvert
     model.MarkupResolve model.OutStream model.FormatHtml model.FormatIndent model.MarkupExpand
     run.MarkupRun proofs.IndentStream proofs.IndentProofs proofs.HtmlEvents.
Local Open Scope Z_scope.

Definition spec_text (x : xconfig) (abbr : str) : res (bool * str) :=
  let* tree := markup_parse (xc_m x) abbr in
  match syntax_opts (mc_syntax (xc_m x)) (xc_o x) with
  | Some o => Ok (forallb node_wf tree,
                  join (nlb (oc_fmt (xc_o x))) (flat_map (node_lines (xc_o x) o 0) tree))
  | None => Internal IK_Value
  end.

Definition spec_nest (x : xconfig) (abbr : str) : res (bool * bool * list (nat * str)) :=
  let* tree := markup_parse (xc_m x) abbr in
  Ok (forallb named_tree tree, cfg_clean (xc_o x) && forallb node_clean tree,
      nest 0 (flat_map (tree_events (xc_o x)) tree)).

Definition run (w : wire) : wire :=
  match w with
  | 1 :: w' => match dec_config w' with
               | Some (x, w2) => match dec_str w2 with
                                 | Some (s, _) => enc_res (fun p => enc_bool (fst p) ++ enc_str (snd p)) (spec_text x s)
                                 | None => wire_bad
                                 end
               | None => wire_bad
               end
  | 2 :: w' => match dec_config w' with
               | Some (x, w2) => match dec_str w2 with
                                 | Some (s, _) =>
                                     enc_res (fun p => enc_bool (fst (fst p)) ++ enc_bool (snd (fst p)) ++
                                                       enc_list (fun dn => enc_nat (fst dn) ++ enc_str (snd dn)) (snd p))
                                             (spec_nest x s)
                                 | None => wire_bad
                                 end
               | None => wire_bad
               end
  | _ => wire_bad
  end.
