(* Entry point of the extracted model for the C14 acyclicity predicates (proofs/SnippetAcyclic.v):
     1 <config> <str d>  -> [b]            acyclic_from cfg d
     2 <config>          -> [b]            acyclic_table cfg
     3 <config> <str d>  -> list of str    mentions cfg d       (definitions the text d refers to)
     4 <config> <str k>  -> option str     def_of cfg (Some k)  (the definition a name stands for)
     5 <str k>           -> [b]            key_text k
     6 <config> <str d>  -> [b]            self_free cfg d      (the hypothesis of C14_alias_eq_definition)
     7 <config> <str a>  -> res (preorder) the abbreviation a parsed and RESOLVED, before the transform pass:
                                           what the theorems about walk_resolve speak about (nodes as in run.AttrRun)
   The configuration is decoded by run.MarkupRun.dec_config (same wire format as the markup model). *)
From Emmet Require Import lib.Base lib.Wire model.MarkupTokenizer model.MarkupParser model.MarkupConvert
     model.MarkupResolve model.OutStream model.FormatHtml model.FormatIndent model.MarkupExpand run.MarkupRun run.AttrRun
     proofs.SnippetAcyclic proofs.SnippetAliasParse.
Local Open Scope Z_scope.

Definition resolved_of (cfg : mconfig) (a : str) : res (list anode) :=
  let* tree := parse_abbr (mc_jsx cfg) (outer_env cfg) (mc_max_repeat cfg) a in
  walk_resolve (full_fuel cfg) cfg [] tree.

Definition run (w : wire) : wire :=
  match w with
  | 1 :: w' => match dec_config w' with
               | Some (x, w2) => match dec_str w2 with
                                 | Some (s, _) => enc_bool (acyclic_from (xc_m x) s)
                                 | None => wire_bad
                                 end
               | None => wire_bad
               end
  | 2 :: w' => match dec_config w' with
               | Some (x, _) => enc_bool (acyclic_table (xc_m x))
               | None => wire_bad
               end
  | 3 :: w' => match dec_config w' with
               | Some (x, w2) => match dec_str w2 with
                                 | Some (s, _) => enc_list enc_str (mentions (xc_m x) s)
                                 | None => wire_bad
                                 end
               | None => wire_bad
               end
  | 4 :: w' => match dec_config w' with
               | Some (x, w2) => match dec_str w2 with
                                 | Some (s, _) => enc_opt enc_str (def_of (xc_m x) (Some s))
                                 | None => wire_bad
                                 end
               | None => wire_bad
               end
  | 5 :: w' => match dec_str w' with
               | Some (s, _) => enc_bool (key_text s)
               | None => wire_bad
               end
  | 6 :: w' => match dec_config w' with
               | Some (x, w2) => match dec_str w2 with
                                 | Some (s, _) => enc_bool (self_free (xc_m x) s)
                                 | None => wire_bad
                                 end
               | None => wire_bad
               end
  | 7 :: w' => match dec_config w' with
               | Some (x, w2) => match dec_str w2 with
                                 | Some (s, _) =>
                                     enc_res (fun t => enc_list enc_node (flat_map (pre_nodes 0) t)) (resolved_of (xc_m x) s)
                                 | None => wire_bad
                                 end
               | None => wire_bad
               end
  | _ => wire_bad
  end.
