(* Entry point of the extracted C02 spec runner: abbreviation -> converter output, computed twice,
   by the MODEL (convert) and by the SPEC of the C02 theorems (list_b (unroll_b ...)), plus whether
   the hypothesis of the theorems (clean_node) holds for the parsed tree.
     1 <max_repeat option> <str>  ->  0 <clean> <model forest> <spec forest>   (spec forest empty when not clean)
                                      | 1 <kind> <pos option>  (tokenizer / parser error)
                                      | 2 <kind> | 3 *)
From Emmet Require Import lib.Base lib.Wire model.MarkupTokenizer model.MarkupParser model.MarkupConvert
     proofs.NumberingProofs proofs.ConvertProofs.
Local Open Scope Z_scope.

Definition enc_vtok (v : vtok) : wire :=
  match v with
  | VStr s => 0 :: enc_str s
  | VField i n => 1 :: enc_N i ++ enc_str n
  end.
Definition enc_vtype (v : vtype) : wire :=
  [match v with VRaw => 0 | VSingle => 1 | VDouble => 2 | VExpr => 3 end].
Definition enc_rep (r : rep) : wire := enc_N (rcount r) ++ enc_N (rvalue r) ++ enc_bool (rimplicit r).
Definition enc_aattr (a : aattr) : wire :=
  enc_opt enc_str (aa_name a) ++ enc_opt (enc_list enc_vtok) (aa_value a) ++ enc_vtype (aa_vtype a) ++
  enc_bool (aa_boolean a) ++ enc_bool (aa_implied a) ++ enc_bool (aa_multiple a).

Fixpoint enc_anode (d : nat) (n : anode) : wire :=
  match n with
  | ANode nm v rp at_ ch sc =>
      1 :: enc_nat d ++ enc_opt enc_str nm ++ enc_opt (enc_list enc_vtok) v ++ enc_opt enc_rep rp ++
      enc_opt (enc_list enc_aattr) at_ ++ enc_bool sc ++
      (fix go (l : list anode) : wire := match l with [] => [] | c :: r => enc_anode (S d) c ++ go r end) ch
  end.
(* preorder stream of nodes, each introduced by 1, terminated by 0 *)
Definition enc_forest (l : list anode) : wire := flat_map (enc_anode 0) l ++ [0].

Definition env_plain : cenv := mkCenv WNone [] false.

Definition run (w : wire) : wire :=
  match w with
  | 1 :: w' =>
      match dec_opt dec_N w' with
      | Some (mr, w2) =>
          match dec_str w2 with
          | Some (s, _) =>
              match tokenize s with
              | TErr p => 1 :: 1 :: enc_opt enc_Z (Some (Z.of_nat p))
              | TOk toks =>
                  match parse false toks with
                  | PErr p => 1 :: 2 :: enc_opt enc_Z (match p with Some n => Some (Z.of_nat n) | None => None end)
                  | POk root =>
                      let clean := forallb clean_node root in
                      match convert env_plain mr root with
                      | Ok forest =>
                          0 :: enc_bool clean ++ enc_forest forest ++
                          (if clean then enc_forest (fst (list_b (unroll_b env_plain []) root (budget_of mr))) else [0])
                      | ParseErr k p => 1 :: Z.of_N k :: enc_opt enc_Z p
                      | Internal k => [2; Z.of_N k]
                      | OutOfFuel => [3]
                      end
                  end
              end
          | None => wire_bad
          end
      | None => wire_bad
      end
  | _ => wire_bad
  end.
