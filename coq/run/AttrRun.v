(* Entry point of the extracted model for C03/C14: the resolved, transformed abbreviation tree
   (markup.parse) with everything the two properties speak about: per node the name, value, repeater,
   self-closing mark and the attribute list (name, value, value type, boolean, implied, multiple).
     1 tree <config> <str>  -> res (preorder list of nodes with their depth)
   The configuration is decoded by run.MarkupRun.dec_config (same wire format). *)
From Emmet Require Import lib.Base lib.Wire model.MarkupTokenizer model.MarkupParser model.MarkupConvert
     model.MarkupResolve model.OutStream model.FormatHtml model.FormatIndent model.MarkupExpand run.MarkupRun.
Local Open Scope Z_scope.

Definition enc_vtok (v : vtok) : wire :=
  match v with
  | VStr s => 0 :: enc_str s
  | VField i n => 1 :: enc_N i ++ enc_str n
  end.
Definition enc_vtype (v : vtype) : wire := [match v with VRaw => 0 | VSingle => 1 | VDouble => 2 | VExpr => 3 end].
Definition enc_aattr (a : aattr) : wire :=
  enc_opt enc_str (aa_name a) ++ enc_opt (enc_list enc_vtok) (aa_value a) ++ enc_vtype (aa_vtype a)
  ++ enc_bool (aa_boolean a) ++ enc_bool (aa_implied a) ++ enc_bool (aa_multiple a).
Definition enc_rep (r : rep) : wire := enc_N (rcount r) ++ enc_N (rvalue r) ++ enc_bool (rimplicit r).

Fixpoint pre_nodes (d : nat) (n : anode) : list (nat * anode) :=
  match n with
  | ANode _ _ _ _ ch _ =>
      (d, n) :: (fix go (l : list anode) := match l with [] => [] | c :: r => pre_nodes (S d) c ++ go r end) ch
  end.
Definition enc_node (x : nat * anode) : wire :=
  let '(d, n) := x in
  enc_nat d ++ enc_opt enc_str (an_name n) ++ enc_opt (enc_list enc_vtok) (an_value n)
  ++ enc_opt enc_rep (an_repeat n) ++ enc_opt (enc_list enc_aattr) (an_attrs n) ++ enc_bool (an_self n).

Definition run (w : wire) : wire :=
  match w with
  | 1 :: w' => match dec_config w' with
               | Some (x, w2) => match dec_str w2 with
                                 | Some (s, _) =>
                                     enc_res (fun t => enc_list enc_node (flat_map (pre_nodes 0) t))
                                             (markup_parse (xc_m x) s)
                                 | None => wire_bad
                                 end
               | None => wire_bad
               end
  | _ => wire_bad
  end.
