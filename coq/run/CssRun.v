(* Entry point of the extracted CSS matcher model: decodes a case, runs the model,
   encodes the observables.  Command tags:
     1 <str>                 scan            -> events
     2 <str> <pos>           match           -> opt match
     3 <str> <pos>           balanced_outward -> res ranges
     4 <str> <pos>           balanced_inward  -> res ranges
     5 <str> <offset>        split_value     -> ranges
     6 <str> <pos> <props>   get_css_section -> opt section
     7 <str> <pos> <prev>    select_item_css -> opt item
     8 <str> <lo> <hi>       everything above (except 5) for every position lo..hi,
                             the event list being computed once *)
From Emmet Require Import lib.Base lib.Wire model.CssScan model.CssMatch model.CssParse model.CssActions.
Local Open Scope Z_scope.

Definition enc_ttype (t : ttype) : wire :=
  [match t with Selector => 0 | PropertyName => 1 | PropertyValue => 2 | BlockEnd => 3 end].
Definition enc_event (e : event) : wire := enc_ttype (ety e) ++ [estart e; eend e; edelim e].
Definition enc_range (r : range) : wire := [fst r; snd r].
Definition enc_match (m : match_result) : wire :=
  enc_bool (mr_prop m) ++ [mr_start m; mr_end m; mr_bstart m; mr_bend m].
Definition enc_ranges (l : list range) : wire := enc_list enc_range l.
Definition enc_prop (p : css_property) : wire :=
  enc_range (cp_name p) ++ enc_range (cp_value p) ++ enc_ranges (cp_tokens p) ++ [cp_before p; cp_after p].
Definition enc_section (c : css_section) : wire :=
  [cs_start c; cs_end c; cs_bstart c; cs_bend c] ++ enc_opt (enc_list enc_prop) (cs_props c).
Definition enc_item (i : select_item) : wire := [si_start i; si_end i] ++ enc_ranges (si_ranges i).

(* get_css_section / select_item_css on the precomputed event list *)
Definition section_ev := section_events.
Definition select_ev (code : str) (evs : list event) (pos : Z) (is_prev : bool) : option select_item :=
  if is_prev then select_previous_events code evs pos else select_next_events code evs pos.

Definition enc_at (code : str) (evs : list event) (pos : Z) : wire :=
  enc_opt enc_match (match_events evs pos)
  ++ enc_res enc_ranges (outward_events code evs pos)
  ++ enc_res enc_ranges (inward_events code evs pos)
  ++ enc_opt enc_section (section_ev code evs pos true)
  ++ enc_opt enc_item (select_ev code evs pos false)
  ++ enc_opt enc_item (select_ev code evs pos true).

Fixpoint zrange (lo : Z) (n : nat) : list Z :=
  match n with O => [] | S k => lo :: zrange (lo + 1) k end.

Definition run (w : wire) : wire :=
  match w with
  | 1 :: w' => match dec_str w' with
               | Some (s, _) => enc_list enc_event (scan s)
               | None => wire_bad
               end
  | 2 :: w' => match dec_str w' with
               | Some (s, [pos]) => enc_opt enc_match (css_match s pos)
               | _ => wire_bad
               end
  | 3 :: w' => match dec_str w' with
               | Some (s, [pos]) => enc_res enc_ranges (balanced_outward s pos)
               | _ => wire_bad
               end
  | 4 :: w' => match dec_str w' with
               | Some (s, [pos]) => enc_res enc_ranges (balanced_inward s pos)
               | _ => wire_bad
               end
  | 5 :: w' => match dec_str w' with
               | Some (s, [off]) => enc_ranges (split_value s off)
               | _ => wire_bad
               end
  | 6 :: w' => match dec_str w' with
               | Some (s, [pos; p]) => enc_opt enc_section (get_css_section s pos (negb (p =? 0)))
               | _ => wire_bad
               end
  | 7 :: w' => match dec_str w' with
               | Some (s, [pos; p]) => enc_opt enc_item (select_item_css s pos (negb (p =? 0)))
               | _ => wire_bad
               end
  | 8 :: w' => match dec_str w' with
               | Some (s, [lo; hi]) =>
                   let evs := scan s in
                   enc_list enc_event evs
                   ++ concat (map (enc_at s evs) (zrange lo (Z.to_nat (hi - lo + 1))))
               | _ => wire_bad
               end
  | _ => wire_bad
  end.
