(* Entry point of the extracted stylesheet FORMAT stage (float-free): decodes the options
   format.py / output_stream.py read and a list of resolved CSS properties, runs
   model/CssFormatStream.css_stream, encodes the callback events.
     1 <cssfmt> <props>  ->  0 <events>           (events: 0 text off line col | 1 idx_code text off line col)
     2 <cssfmt> <props>  ->  0 <final string>
   cssfmt = indent baseIndent newline between after shortHex json jsonDq skipUnmatched format tabstop
   props  = list of: opt name, list of list of cval, important, snippet
   cval   = 0 kind opt-start opt-end | 1 name nargs (nvals cval* )*      (kinds as in run/StyleRun.enc_ckind)
   dec    = neg, mantissa digits as text, exponent *)
From Coq Require Import String Ascii.
From Emmet Require Import lib.Base lib.Wire lib.StyleLib model.CssTokenizer model.CssParser model.Color
     model.MarkupConvert model.OutStream model.CssFormatStream.
Local Open Scope Z_scope.

(* The models write their fixed fragments as Coq string literals ([lit "rgba"], model/Color.v and
   model/CssFormatStream.v).  Extracting Coq's [string] type would clash with OCaml's in the generic driver and
   ExtrOcamlString is not in the trusted base, so the literals are evaluated to code-point lists HERE, by
   unfolding the formatter down to them; the result is convertible with the model: [css_stream_x_eq]. *)
Definition css_stream_x : cssfmt -> list cssprop -> ostream := Eval cbv beta iota delta
  [css_stream s_stringify_from s_css_property s_css_property_value s_join_values s_output_value s_output_value_from
   s_output_token s_output_important color as_rgb lit List.map list_ascii_of_string N_of_ascii N_of_digits
   N.add N.mul Pos.add Pos.mul Pos.succ Pos.add_carry] in css_stream.
Lemma css_stream_x_eq : css_stream_x = css_stream.
Proof. reflexivity. Qed.
Definition field_tabstop_x : option N -> str -> str := Eval cbv beta iota delta
  [field_tabstop lit List.map list_ascii_of_string N_of_ascii N_of_digits
   N.add N.mul Pos.add Pos.mul Pos.succ Pos.add_carry] in field_tabstop.
Lemma field_tabstop_x_eq : field_tabstop_x = field_tabstop.
Proof. reflexivity. Qed.

Definition dbind {A B} (d : option (A * wire)) (f : A -> wire -> option (B * wire)) : option (B * wire) :=
  match d with Some (a, w) => f a w | None => None end.

Definition dec_decimal : Wire.dec StyleLib.dec := fun w =>
  dbind (dec_bool w) (fun neg w =>
  dbind (dec_str w) (fun ds w =>
  dbind (dec_nat w) (fun e w =>
  match digits_value 0%N ds with
  | Some m => Some (mkDec neg m e, w)
  | None => None
  end))).

Definition dec_ckind : Wire.dec ckind := fun w =>
  match w with
  | 0 :: w => dbind (dec_str w) (fun v w => Some (CLiteral v, w))
  | 1 :: w => dbind (dec_str w) (fun v w => Some (CCustomProperty v, w))
  | 2 :: w => dbind (dec_decimal w) (fun v w => dbind (dec_str w) (fun raw w => dbind (dec_str w) (fun u w =>
              Some (CNumber v raw u, w))))
  | 3 :: w => dbind (dec_N w) (fun r w => dbind (dec_N w) (fun g w => dbind (dec_N w) (fun b w =>
              dbind (dec_decimal w) (fun a w => dbind (dec_str w) (fun raw w => Some (CColor r g b a raw, w))))))
  | 4 :: w => dbind (dec_str w) (fun v w => dbind (dec_bool w) (fun s w => Some (CString v s, w)))
  | 5 :: w => dbind (dec_str w) (fun n w => dbind (dec_opt dec_N w) (fun i w => Some (CField n i, w)))
  | 6 :: w => dbind (dec_bool w) (fun o w => Some (CBracket o, w))
  | 7 :: w => dbind (dec_N w) (fun o w => Some (COperator o, w))
  | 8 :: w => Some (CWhiteSpace, w)
  | _ => None
  end.

(* nested values: fuel = length of the wire (every constructor consumes at least one number) *)
Fixpoint dec_cval (fuel : nat) (w : wire) : option (cval * wire) :=
  match fuel with
  | O => None
  | S k =>
      match w with
      | 0 :: w => dbind (dec_ckind w) (fun kd w => dbind (dec_opt dec_nat w) (fun st w =>
                  dbind (dec_opt dec_nat w) (fun en w => Some (VTok kd st en, w))))
      | 1 :: w => dbind (dec_str w) (fun name w =>
                  dbind (dec_list (dec_list (dec_cval k)) w) (fun args w => Some (VFunc name args, w)))
      | _ => None
      end
  end.

Definition dec_prop (fuel : nat) : Wire.dec cssprop := fun w =>
  dbind (dec_opt dec_str w) (fun name w =>
  dbind (dec_list (dec_list (dec_cval fuel)) w) (fun value w =>
  dbind (dec_bool w) (fun imp w =>
  dbind (dec_bool w) (fun sn w => Some (mkProp name value imp sn, w))))).

Definition dec_cssfmt : Wire.dec cssfmt := fun w =>
  dbind (dec_str w) (fun indent w => dbind (dec_str w) (fun base w => dbind (dec_str w) (fun newline w =>
  dbind (dec_str w) (fun between w => dbind (dec_str w) (fun after w =>
  dbind (dec_bool w) (fun short_hex w => dbind (dec_bool w) (fun json w => dbind (dec_bool w) (fun json_dq w =>
  dbind (dec_bool w) (fun skip w => dbind (dec_bool w) (fun format w => dbind (dec_bool w) (fun tabstop w =>
  Some (mkCssFmt (mkOfmt indent base newline) between after short_hex json json_dq skip format
                 (if tabstop then field_tabstop_x else field_identity), w)))))))))))).

Definition enc_event (e : oevent) : wire :=
  match e with
  | EvText _ s off line col => 0 :: enc_str s ++ enc_nat off ++ enc_nat line ++ enc_nat col
  | EvField idx ph off line col => 1 :: enc_N idx ++ enc_str ph ++ enc_nat off ++ enc_nat line ++ enc_nat col
  end.

Definition with_case (w : wire) (f : cssfmt -> list cssprop -> wire) : wire :=
  match dec_cssfmt w with
  | Some (c, w1) => match dec_list (dec_prop (length w1)) w1 with
                    | Some (props, []) => f c props
                    | _ => wire_bad
                    end
  | None => wire_bad
  end.

Definition run (w : wire) : wire :=
  match w with
  | 1 :: w' => with_case w' (fun c props => 0 :: enc_list enc_event (rev (os_events (css_stream_x c props))))
  | 2 :: w' => with_case w' (fun c props => 0 :: enc_str (os_value (css_stream_x c props)))
  | _ => wire_bad
  end.
