(* Entry point of the extracted HTML matcher model.  Command tags:
     1 <opts> <str>                    scan            -> events, error option
     2 <opts> <str> <positions>        match           -> per position: res (option matched)
     3 <opts> <str> <positions>        balanced_outward-> per position: res (list balanced)
     4 <opts> <str> <positions>        balanced_inward -> per position: res (list balanced)
     5 <str> <opt name>                attributes      -> list attr
     6 <str> <positions>               get_open_tag    -> per position: res (option context_tag)
     7 <opts> <str> <is_prev> <positions>  select_item_html -> per position: res (option sel_model)
     8 <char>                          name_start_char, name_char, is_space, is_quote
     9 <str> <offset>                  token_list
   <opts> = xml, optional special dict, optional empty list (absent = module default) *)
From Emmet Require Import lib.Base lib.Wire gen.GenHtml model.HtmlScan model.HtmlMatch model.HtmlActions.
Local Open Scope Z_scope.

Definition dec_bind {A B} (d : dec A) (k : A -> dec B) : dec B := fun w =>
  match d w with
  | Some (a, w') => k a w'
  | None => None
  end.
Definition dec_ret {A} (a : A) : dec A := fun w => Some (a, w).

Definition dec_special_entry : dec (str * option (list str)) :=
  dec_bind dec_str (fun n => dec_bind (dec_opt (dec_list dec_str)) (fun v => dec_ret (n, v))).
Definition dec_opts : dec opts :=
  dec_bind dec_bool (fun xml =>
  dec_bind (dec_opt (dec_list dec_special_entry)) (fun sp =>
  dec_bind (dec_opt (dec_list dec_str)) (fun em =>
  dec_ret (mkOpts xml (opt_default default_special sp) (opt_default default_empty em))))).

Definition enc_etype (t : etype) : wire := [match t with EOpen => 1 | EClose => 2 | ESelfClose => 3 end].
Definition enc_event (e : event) : wire :=
  enc_str (ev_name e) ++ enc_etype (ev_type e) ++ enc_N (ev_start e) ++ enc_N (ev_end e).
Definition enc_nrange (r : N * N) : wire := enc_N (fst r) ++ enc_N (snd r).
Definition enc_attr (a : attr) : wire :=
  enc_str (a_name a) ++ enc_N (a_ns a) ++ enc_N (a_ne a) ++
  enc_opt (fun x : str * N * N => let '(v, vs, ve) := x in enc_str v ++ enc_N vs ++ enc_N ve) (a_value a).
Definition enc_balanced (b : balanced) : wire :=
  enc_str (b_name b) ++ enc_nrange (b_open b) ++ enc_opt enc_nrange (b_close b).
Definition enc_matched (m : matched) : wire :=
  enc_str (m_name m) ++ enc_list enc_attr (m_attrs m) ++ enc_nrange (m_open m) ++ enc_opt enc_nrange (m_close m).
Definition enc_ctx_tag (t : context_tag) : wire :=
  enc_str (ct_name t) ++ enc_etype (ct_type t) ++ enc_N (ct_start t) ++ enc_N (ct_end t) ++
  enc_opt (enc_list enc_attr) (ct_attrs t).
Definition enc_zrange (r : Z * Z) : wire := [fst r; snd r].
Definition enc_sel (m : sel_model) : wire :=
  [sel_start m; sel_end m] ++ enc_list enc_zrange (sel_ranges m).

Definition per_pos (f : Z -> wire) (ps : list Z) : wire := concat (map f ps).

Definition run (w : wire) : wire :=
  match w with
  | 1 :: w' =>
      match dec_bind dec_opts (fun o => dec_bind dec_str (fun s => dec_ret (o, s))) w' with
      | Some ((o, s), _) =>
          let sc := scan (o_special o) s in
          enc_list enc_event (fst sc) ++ enc_opt enc_N (snd sc)
      | None => wire_bad
      end
  | 2 :: w' =>
      match dec_bind dec_opts (fun o => dec_bind dec_str (fun s => dec_bind (dec_list dec_Z) (fun ps => dec_ret (o, s, ps)))) w' with
      | Some ((o, s, ps), _) => let sc := scan (o_special o) s in per_pos (fun p => enc_res (enc_opt enc_matched) (html_match_of s sc o p)) ps
      | None => wire_bad
      end
  | 3 :: w' =>
      match dec_bind dec_opts (fun o => dec_bind dec_str (fun s => dec_bind (dec_list dec_Z) (fun ps => dec_ret (o, s, ps)))) w' with
      | Some ((o, s, ps), _) => let sc := scan (o_special o) s in per_pos (fun p => enc_res (enc_list enc_balanced) (balanced_outward_of sc o p)) ps
      | None => wire_bad
      end
  | 4 :: w' =>
      match dec_bind dec_opts (fun o => dec_bind dec_str (fun s => dec_bind (dec_list dec_Z) (fun ps => dec_ret (o, s, ps)))) w' with
      | Some ((o, s, ps), _) => let sc := scan (o_special o) s in per_pos (fun p => enc_res (enc_list enc_balanced) (balanced_inward_of sc o p)) ps
      | None => wire_bad
      end
  | 5 :: w' =>
      match dec_bind dec_str (fun s => dec_bind (dec_opt dec_str) (fun n => dec_ret (s, n))) w' with
      | Some ((s, n), _) => enc_list enc_attr (attributes s n)
      | None => wire_bad
      end
  | 6 :: w' =>
      match dec_bind dec_str (fun s => dec_bind (dec_list dec_Z) (fun ps => dec_ret (s, ps))) w' with
      | Some ((s, ps), _) => let sc := scan (o_special default_opts) s in per_pos (fun p => enc_res (enc_opt enc_ctx_tag) (get_open_tag_of s sc p)) ps
      | None => wire_bad
      end
  | 7 :: w' =>
      match dec_bind dec_opts (fun o => dec_bind dec_str (fun s => dec_bind dec_bool (fun b =>
            dec_bind (dec_list dec_Z) (fun ps => dec_ret (o, s, b, ps))))) w' with
      | Some ((o, s, b, ps), _) => let sc := scan (o_special o) s in per_pos (fun p => enc_res (enc_opt enc_sel) (select_item_html_of s sc p b)) ps
      | None => wire_bad
      end
  | 8 :: c :: _ =>
      if c <? 0 then wire_bad else
      let ch := Z.to_N c in
      enc_bool (name_start_char ch) ++ enc_bool (name_char ch) ++ enc_bool (is_space ch) ++ enc_bool (is_quote ch)
  | 9 :: w' =>
      match dec_bind dec_str (fun s => dec_bind dec_Z (fun off => dec_ret (s, off))) w' with
      | Some ((s, off), _) => enc_list enc_zrange (token_list s off)
      | None => wire_bad
      end
  | _ => wire_bad
  end.
