(* Entry point of the extracted extract_abbreviation model.  Command tags:
     1 <line:str> <pos:opt Z> <type:str> <lookAhead:bool> <prefix:str>
          -> 0                                   (None)
           | 1 <abbreviation:str> <location> <start> <end>
     2 <text:str>   is_html(BackwardScanner(text))           -> <bool>
     3 <text:str>   consume_quoted(BackwardScanner(text))    -> 0 | 1 <scanner.pos>  *)
From Emmet Require Import lib.Base lib.Wire model.Extract.
Local Open Scope Z_scope.

Definition enc_extracted (x : extracted) : wire :=
  enc_str (x_abbr x) ++ enc_Z (x_location x) ++ enc_Z (x_start x) ++ enc_Z (x_end x).

Definition run (w : wire) : wire :=
  match w with
  | 1 :: w1 =>
      match dec_str w1 with
      | Some (line, w2) =>
          match dec_opt dec_Z w2 with
          | Some (pos, w3) =>
              match dec_str w3 with
              | Some (ty, w4) =>
                  match dec_bool w4 with
                  | Some (look, w5) =>
                      match dec_str w5 with
                      | Some (prefix, _) =>
                          enc_opt enc_extracted (extract_abbreviation line pos (mkOpts ty look prefix))
                      | None => wire_bad
                      end
                  | None => wire_bad
                  end
              | None => wire_bad
              end
          | None => wire_bad
          end
      | None => wire_bad
      end
  | 2 :: w1 =>
      match dec_str w1 with
      | Some (s, _) => enc_bool (is_html false (rev s))
      | None => wire_bad
      end
  | 3 :: w1 =>
      match dec_str w1 with
      | Some (s, _) =>
          match consume_quoted false (rev s) with
          | Some n => [1; Z.of_nat (length s - S n)]
          | None => [0]
          end
      | None => wire_bad
      end
  | _ => wire_bad
  end.
