(* Entry point of the extracted lorem model (model/MarkupLorem.v + the lorem pass of model/MarkupResolve.v),
   used by harness/lorem_util.py.  Every command takes the raw draw stream and returns the number of draws
   LEFT OVER with the value, so that the harness checks that model and implementation consume the same number.
   Results: 0 <payload> <left> | 1 exhausted | 2 fuel | 3 internal <kind>
   Commands:
     1 <draws> <a> <b>                          randint(a, b)                         -> Z
     2 <draws> <arr> <count>                    sample(arr, count)                    -> list str
     3 <draws> <str>                            choice(val)                           -> char
     4 <draws> <words> <end: option str>        sentence(words, end)                  -> str
     5 <draws> <words>                          insert_commas(words)                  -> list str
     6 <draws> <lang> <word_count> <common>     paragraph(vocabularies.get(lang) or latin, word_count, common) -> str
     7 <draws> <name>                           the header: match_lorem name          -> 0 | 1 lang min max
     8 <config incl. draws> <abbr>              markup_parse up to and including the lorem pass: draws left over
                                                -> res (number of draws left)
     9 <config incl. draws> <abbr>              expand -> res str   (same as command 2 of run/MarkupRun.v) *)
From Emmet Require Import lib.Base lib.Wire model.MarkupTokenizer model.MarkupParser model.MarkupConvert
     model.MarkupLorem model.MarkupResolve model.MarkupExpand run.MarkupRun.
Local Open Scope Z_scope.

Definition enc_lres {A} (f : A -> wire) (r : lres A) : wire :=
  match r with
  | LOk a rest => 0 :: f a ++ enc_nat (length rest)
  | LExhausted => [1]
  | LFuel => [2]
  | LInternal k => [3; Z.of_N k]
  end.

Definition run (w : wire) : wire :=
  match w with
  | 8 :: w' =>
      match dec_config w' with None => wire_bad | Some (x, w2) =>
      match dec_str w2 with None => wire_bad | Some (abbr, _) =>
        let cfg := xc_m x in
        enc_res (fun r : lres (list anode) => match r with
                                              | LOk _ rest => 0 :: enc_nat (length rest)
                                              | LExhausted => [1] | LFuel => [2] | LInternal k => [3; Z.of_N k]
                                              end)
          (let* tree := parse_abbr (mc_jsx cfg) (mkCenv (mc_text cfg) (mc_variables cfg) (mc_href cfg))
                                   (mc_max_repeat cfg) abbr in
           let* resolved := walk_resolve (S (length (mc_snippets cfg))) cfg [] tree in
           Ok (lorem_fill_list resolved (mc_draws cfg)))
      end end
  | 9 :: w' =>
      match dec_config w' with None => wire_bad | Some (x, w2) =>
      match dec_str w2 with None => wire_bad | Some (abbr, _) => enc_res enc_str (expand_markup_str x abbr)
      end end
  | cmd :: w' =>
      match dec_list dec_Z w' with None => wire_bad | Some (draws, w1) =>
      match cmd with
      | 1 => match dec_Z w1 with None => wire_bad | Some (a, w2) =>
             match dec_Z w2 with None => wire_bad | Some (b, _) => enc_lres enc_Z (randint a b draws) end end
      | 2 => match dec_list dec_str w1 with None => wire_bad | Some (arr, w2) =>
             match dec_Z w2 with None => wire_bad | Some (count, _) =>
               enc_lres (enc_list enc_str) (sample arr count draws) end end
      | 3 => match dec_str w1 with None => wire_bad | Some (val, _) => enc_lres enc_N (choice val draws) end
      | 4 => match dec_list dec_str w1 with None => wire_bad | Some (words, w2) =>
             match dec_opt dec_str w2 with None => wire_bad | Some (e, _) =>
               enc_lres enc_str (sentence words e draws) end end
      | 5 => match dec_list dec_str w1 with None => wire_bad | Some (words, _) =>
               enc_lres (enc_list enc_str) (insert_commas words draws) end
      | 6 => match dec_str w1 with None => wire_bad | Some (lang, w2) =>
             match dec_Z w2 with None => wire_bad | Some (wc, w3) =>
             match dec_bool w3 with None => wire_bad | Some (common, _) =>
               match lorem_db lang with
               | None => [3; Z.of_N IK_Type]
               | Some db => enc_lres enc_str (paragraph (S (length draws)) db wc common draws)
               end end end end
      | 7 => match dec_str w1 with None => wire_bad | Some (name, _) =>
               match lorem_header (Some name) with
               | LNo => [0]
               | LYes lang mn mx => 1 :: enc_str lang ++ enc_Z (lorem_min mn) ++ enc_Z (lorem_max mn mx)
               end end
      | _ => wire_bad
      end end
  | _ => wire_bad
  end.
