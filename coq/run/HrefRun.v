(* Entry point of the extracted model of the markup.href matchers (model/MarkupHref.v) and of insert_href
   (model/MarkupConvert.v), used by harness/href_util.py.
   Commands:
     1 <str>                  ->  url_match, email_match, proto_match, href_value
     2 <attrs> <str>          ->  attributes of the node after insert_href(node, text)
        attrs: option (list (name : option str, value kind 0 None | 1 [] | 2 [str] | 3 [field 1], vtype, boolean, implied)) *)
From Emmet Require Import lib.Base lib.Wire model.MarkupHref model.MarkupTokenizer model.MarkupParser model.MarkupConvert run.TextRun.
Local Open Scope Z_scope.

Definition dec_vtype : dec vtype := fun w =>
  match w with
  | 0 :: w' => Some (VRaw, w') | 1 :: w' => Some (VSingle, w') | 2 :: w' => Some (VDouble, w') | 3 :: w' => Some (VExpr, w')
  | _ => None
  end.
Definition dec_value : dec (option (list vtok)) := fun w =>
  match w with
  | 0 :: w' => Some (None, w')
  | 1 :: w' => Some (Some [], w')
  | 2 :: w' => match dec_str w' with Some (s, w2) => Some (Some [VStr s], w2) | None => None end
  | 3 :: w' => Some (Some [VField 1 []], w')
  | _ => None
  end.
Definition dec_aattr : dec aattr := fun w =>
  match dec_opt dec_str w with None => None | Some (nm, w1) =>
  match dec_value w1 with None => None | Some (v, w2) =>
  match dec_vtype w2 with None => None | Some (vt, w3) =>
  match dec_bool w3 with None => None | Some (b, w4) =>
  match dec_bool w4 with None => None | Some (i, w5) =>
    Some (mkAAttr nm v vt b i false, w5)
  end end end end end.

Definition run (w : wire) : wire :=
  match w with
  | 1 :: w' =>
      match dec_str w' with None => wire_bad | Some (s, _) =>
        enc_bool (url_match s) ++ enc_bool (email_match s) ++ enc_bool (proto_match s) ++ enc_opt enc_str (href_value s)
      end
  | 2 :: w' =>
      match dec_opt (dec_list dec_aattr) w' with None => wire_bad | Some (ats, w1) =>
      match dec_str w1 with None => wire_bad | Some (s, _) =>
        enc_opt (enc_list enc_aattr) (an_attrs (insert_href (ANode None None None ats [] false) s))
      end end
  | _ => wire_bad
  end.
