(* Entry point of the extracted history model (C08).  The history state machine of
   model/History.v is run over a TABLE-DRIVEN world: the pure parts of the pipeline are not
   re-modelled here, each call carries what the pure functions return for it (read off the same
   call made alone in a pristine interpreter): at which stage it raises, how many nodes BEM
   looks up, whether its snippets convert.  What is compared with the implementation is the
   STATE after every call: text slot of every caller dict, content of every cache dict (which
   snippets it was built from), size of the default lookup, and raised / returned.

   case:  1 <slots: list slot> <ncaches> <calls: list call>
     slot  0 (no 'text' key) | 1 ('text': None) | 2 <id> (a text; id > 0 iff truthy)
     call  0 <cfg> <stage 0..3> <bem nodes> <id>
           1 <cache: 0 | 1 j> <snippets id> <converts: bool> <fails later: bool> <id>
   result: per call  <0 id (0 | 1 text id) | 1 code>  <slots>  <caches: 0 | 1 source table>  <bem>

   case:  2 <slots: list mslot> <calls: list (cfg, markup config as in run/MarkupRun.v, abbreviation)>
     The same state machine ([History.step]) over the REAL markup pipeline model (MK): parsing,
     snippet resolution and output are the functions of model/Markup*.v, the text every stage sees
     comes from the state slot.  result: per call <0 output string | 1 kind pos | 2 kind | 3> <slots> *)
From Coq Require Import List ZArith Bool.
From Emmet Require Import lib.Base lib.Wire model.History.
From Emmet Require Import model.MarkupTokenizer model.MarkupParser model.MarkupConvert
     model.MarkupResolve model.OutStream model.FormatHtml model.FormatIndent model.MarkupExpand run.MarkupRun.
Import ListNotations.
Local Open Scope Z_scope.

Record mcall := mkMcall { m_stage : Z; m_bem : nat; m_id : Z }.
Record scall := mkScall { s_fails : bool; s_id : Z }.

Definition table_world : world :=
  mkWorld Z (fun t => 0 <? t) mcall scall (Z * bool) (fun a b => fst a =? fst b) Z
          (Z * option Z) (Z * option Z) Z
          (fun a text => if m_stage a =? 1 then inl 1 else inr (m_id a, text))
          (fun a text t => if m_stage a =? 2 then inl 2 else inr t)
          (fun a t => m_bem a)
          (fun a t => if m_stage a =? 3 then inl 3 else inr t)
          (fun sn => if snd sn then inr (fst sn) else inl 4)
          (fun a tb => if s_fails a then inl 5 else inr (s_id a, Some tb))
          (fun a tb => tb).

Notation TW := table_world.

Definition dec_slot : dec (slot TW) := fun w =>
  match w with
  | 0 :: w' => Some (None, w')
  | 1 :: w' => Some (Some None, w')
  | 2 :: t :: w' => Some (Some (Some t), w')
  | _ => None
  end.

Definition dec_call : dec (call TW) := fun w =>
  match w with
  | 0 :: w1 =>
      match dec_nat w1 with
      | Some (cfg, st :: w2) =>
          match dec_nat w2 with
          | Some (b, id :: w3) => Some (CMarkup TW cfg (mkMcall st b id), w3)
          | _ => None
          end
      | _ => None
      end
  | 1 :: w1 =>
      match dec_opt dec_nat w1 with
      | Some (cache, sn :: w2) =>
          match dec_bool w2 with
          | Some (conv, w3) =>
              match dec_bool w3 with
              | Some (fails, id :: w4) => Some (CCss TW cache (sn, conv) (mkScall fails id), w4)
              | _ => None
              end
          | None => None
          end
      | _ => None
      end
  | _ => None
  end.

Definition enc_slot (s : slot TW) : wire :=
  match s with None => [0] | Some None => [1] | Some (Some t) => [2; t] end.
Definition enc_outcome (o : outcome TW) : wire :=
  match o with
  | Returned _ (id, t) => 0 :: id :: enc_opt enc_Z t
  | Raised _ e => [1; e]
  end.
Definition enc_entry (e : option (cache_entry TW)) : wire :=
  match e with None => [0] | Some e => [1; fst (ce_source TW e); ce_table TW e] end.

Definition enc_state (nslots ncaches : nat) (st : lib_state TW) : wire :=
  concat (map (fun i => enc_slot (cfg_text TW st i)) (seq 0 nslots))
  ++ concat (map (fun j => enc_entry (caches TW st j)) (seq 0 ncaches))
  ++ enc_nat (bem_default TW st).

Fixpoint run_calls (nslots ncaches : nat) (st : lib_state TW) (h : list (call TW)) : wire :=
  match h with
  | [] => []
  | c :: h' =>
      let r := step TW st c in
      enc_outcome (snd r) ++ enc_state nslots ncaches (fst r) ++ run_calls nslots ncaches (fst r) h'
  end.

(* ------------------------------------------------------------------ command 2 *)
(* the markup half over the REAL markup pipeline model (MK): the text each stage sees comes from
   the state slot, not from the configuration record *)
Inductive rerr := RParse (k : N) (p : option Z) | RInternal (k : N) | RFuel.
Definition to_sum {A} (r : res A) : rerr + A :=
  match r with Ok a => inr a | ParseErr k p => inl (RParse k p) | Internal k => inl (RInternal k) | OutOfFuel => inl RFuel end.
Definition wt (o : option wtext) : wtext := match o with Some t => t | None => WNone end.
Definition with_text (m : mconfig) (t : wtext) : mconfig :=
  mkMConfigD (mc_syntax m) (mc_snippets m) (mc_variables m) t (mc_max_repeat m) (mc_max_repeat_snip m) (mc_jsx m)
            (mc_context_name m) (mc_inline m) (mc_reverse_attrs m) (mc_href m)
            (mc_bem m) (mc_bem_element m) (mc_bem_modifier m) (mc_context_class m) (mc_draws m).

Definition mk_world : world :=
  mkWorld wtext text_truthy (xconfig * str) unit unit (fun _ _ => true) unit (list anode) str rerr
    (fun a text => let m := xc_m (fst a) in
                   to_sum (parse_abbr (mc_jsx m) (mkCenv (wt text) (mc_variables m) (mc_href m)) (mc_max_repeat m) (snd a)))
    (fun a text tree => let cfg := with_text (xc_m (fst a)) (wt text) in
                        to_sum (let* resolved := walk_resolve (S (length (mc_snippets cfg))) cfg [] tree in
                                transform_list cfg resolved))
    (fun _ _ => O)
    (fun a tree => inr (os_value (fs_out (stringify_markup (mc_syntax (xc_m (fst a))) (xc_o (fst a)) tree))))
    (fun _ => inr tt) (fun _ _ => inl RFuel) (fun _ t => t).
Notation MW := mk_world.

(* slot of the MK world: 0 absent | 1 None | 2 <text: 1 str | 2 list> *)
Definition dec_mslot : dec (slot MW) := fun w =>
  match w with
  | 0 :: w' => Some (None, w')
  | 1 :: w' => Some (Some None, w')
  | 2 :: w' => match dec_text w' with Some (t, w2) => Some (Some (Some t), w2) | None => None end
  | _ => None
  end.
Definition enc_mslot (s : slot MW) : wire :=
  match s with
  | None => [0]
  | Some None => [1]
  | Some (Some WNone) => [3]
  | Some (Some (WStr s)) => 2 :: 1 :: enc_str s
  | Some (Some (WList l)) => 2 :: 2 :: enc_list enc_str l
  end.
Definition dec_mcall : dec (call MW) := fun w =>
  match dec_nat w with
  | Some (cfg, w1) =>
      match dec_config w1 with
      | Some (x, w2) => match dec_str w2 with
                        | Some (abbr, w3) => Some (CMarkup MW cfg (x, abbr), w3)
                        | None => None
                        end
      | None => None
      end
  | None => None
  end.
Definition enc_moutcome (o : outcome MW) : wire :=
  match o with
  | Returned _ s => 0 :: enc_str s
  | Raised _ (RParse k p) => 1 :: Z.of_N k :: enc_opt enc_Z p
  | Raised _ (RInternal k) => [2; Z.of_N k]
  | Raised _ RFuel => [3]
  end.
Fixpoint run_mcalls (nslots : nat) (st : lib_state MW) (h : list (call MW)) : wire :=
  match h with
  | [] => []
  | c :: h' =>
      let r := step MW st c in
      enc_moutcome (snd r) ++ concat (map (fun i => enc_mslot (cfg_text MW (fst r) i)) (seq 0 nslots))
        ++ run_mcalls nslots (fst r) h'
  end.
Definition run2 (w : wire) : wire :=
  match dec_list dec_mslot w with
  | Some (slots, w2) =>
      match dec_list dec_mcall w2 with
      | Some (h, _) => run_mcalls (length slots) (fresh MW (fun i => nth i slots None)) h
      | None => wire_bad
      end
  | None => wire_bad
  end.

Definition run (w : wire) : wire :=
  match w with
  | 1 :: w1 =>
      match dec_list dec_slot w1 with
      | Some (slots, w2) =>
          match dec_nat w2 with
          | Some (ncaches, w3) =>
              match dec_list dec_call w3 with
              | Some (h, _) =>
                  let texts := fun i => nth i slots None in
                  run_calls (length slots) ncaches (fresh TW texts) h
              | None => wire_bad
              end
          | None => wire_bad
          end
      | None => wire_bad
      end
  | 2 :: w1 => run2 w1
  | _ => wire_bad
  end.
