(* Entry point of the extracted history model (C08).  The history state machine of
   model/History.v is run over a TABLE-DRIVEN world: the pure parts of the pipeline are not
   re-modelled here, each call carries what the pure functions return for it (read off the same
   call made alone in a pristine interpreter): at which stage it raises, how many nodes BEM
   looks up, whether its snippets convert.  What is compared with the implementation is the
   STATE after every call: text slot of every caller dict, content of every cache dict (which
   snippets it was built from), size of the default lookup, and raised / returned.

   case:  1 <slots: list slot> <ncaches> <calls: list call>
     slot  0 (no 'text' key) | 1 ('text': None) | 2 <id> (a text; id > 0 iff truthy)
     call  0 <cfg> <stage 0..3> <bem nodes> <id>
           1 <cache: 0 | 1 j> <snippets id> <converts: bool> <fails later: bool> <id>
   result: per call  <0 id (0 | 1 text id) | 1 code>  <slots>  <caches: 0 | 1 source table>  <bem>  *)
From Coq Require Import List ZArith Bool.
From Emmet Require Import lib.Base lib.Wire model.History.
Import ListNotations.
Local Open Scope Z_scope.

Record mcall := mkMcall { m_stage : Z; m_bem : nat; m_id : Z }.
Record scall := mkScall { s_fails : bool; s_id : Z }.

Definition table_world : world :=
  mkWorld Z (fun t => 0 <? t) mcall scall (Z * bool) (fun a b => fst a =? fst b) Z
          (Z * option Z) (Z * option Z) Z
          (fun a text => if m_stage a =? 1 then inl 1 else inr (m_id a, text))
          (fun a text t => if m_stage a =? 2 then inl 2 else inr t)
          (fun a t => m_bem a)
          (fun a t => if m_stage a =? 3 then inl 3 else inr t)
          (fun sn => if snd sn then inr (fst sn) else inl 4)
          (fun a tb => if s_fails a then inl 5 else inr (s_id a, Some tb))
          (fun a tb => tb).

Notation TW := table_world.

Definition dec_slot : dec (slot TW) := fun w =>
  match w with
  | 0 :: w' => Some (None, w')
  | 1 :: w' => Some (Some None, w')
  | 2 :: t :: w' => Some (Some (Some t), w')
  | _ => None
  end.

Definition dec_call : dec (call TW) := fun w =>
  match w with
  | 0 :: w1 =>
      match dec_nat w1 with
      | Some (cfg, st :: w2) =>
          match dec_nat w2 with
          | Some (b, id :: w3) => Some (CMarkup TW cfg (mkMcall st b id), w3)
          | _ => None
          end
      | _ => None
      end
  | 1 :: w1 =>
      match dec_opt dec_nat w1 with
      | Some (cache, sn :: w2) =>
          match dec_bool w2 with
          | Some (conv, w3) =>
              match dec_bool w3 with
              | Some (fails, id :: w4) => Some (CCss TW cache (sn, conv) (mkScall fails id), w4)
              | _ => None
              end
          | None => None
          end
      | _ => None
      end
  | _ => None
  end.

Definition enc_slot (s : slot TW) : wire :=
  match s with None => [0] | Some None => [1] | Some (Some t) => [2; t] end.
Definition enc_outcome (o : outcome TW) : wire :=
  match o with
  | Returned _ (id, t) => 0 :: id :: enc_opt enc_Z t
  | Raised _ e => [1; e]
  end.
Definition enc_entry (e : option (cache_entry TW)) : wire :=
  match e with None => [0] | Some e => [1; fst (ce_source TW e); ce_table TW e] end.

Definition enc_state (nslots ncaches : nat) (st : lib_state TW) : wire :=
  concat (map (fun i => enc_slot (cfg_text TW st i)) (seq 0 nslots))
  ++ concat (map (fun j => enc_entry (caches TW st j)) (seq 0 ncaches))
  ++ enc_nat (bem_default TW st).

Fixpoint run_calls (nslots ncaches : nat) (st : lib_state TW) (h : list (call TW)) : wire :=
  match h with
  | [] => []
  | c :: h' =>
      let r := step TW st c in
      enc_outcome (snd r) ++ enc_state nslots ncaches (fst r) ++ run_calls nslots ncaches (fst r) h'
  end.

Definition run (w : wire) : wire :=
  match w with
  | 1 :: w1 =>
      match dec_list dec_slot w1 with
      | Some (slots, w2) =>
          match dec_nat w2 with
          | Some (ncaches, w3) =>
              match dec_list dec_call w3 with
              | Some (h, _) =>
                  let texts := fun i => nth i slots None in
                  run_calls (length slots) ncaches (fresh TW texts) h
              | None => wire_bad
              end
          | None => wire_bad
          end
      | None => wire_bad
      end
  | _ => wire_bad
  end.
