(* In-Coq evaluation of the FULL expand model of C20 (proofs/ConfigExpandCss.v: markup and stylesheet branch;
   the stylesheet pipeline model uses PrimFloat and is therefore not extracted).  The harness writes case files
   that [Eval vm_compute in (eval_cases [...])] and parses the printed list (as run/StyleShow.v does).
   One case = the arguments of run/CfgexpandRun.run_expand, as Coq terms. *)
From Coq Require Import PrimFloat List ZArith NArith.
From Emmet Require Import lib.Base lib.ConfigLib lib.ConfigVal model.Config proofs.ConfigExpand proofs.ConfigExpandCss proofs.ConfigExpandTables
     run.ConfigRun run.CfgexpandRun run.StyleShow.
Import ListNotations.

Record xcase := mkXcase {
  x_type : option str; x_syntax : option str; x_user : layer_cfg Z; x_global : cfg_table Z;
  x_patches : list patch; x_extra : list (Z * cval); x_other : dict Z; x_abbr : str }.

(* 8 = outside the model; else StyleShow.show: 0 :: text | 1 kind 1 pos | 1 kind 0 | 2 kind | 3 *)
Definition eval_case (c : xcase) : list N :=
  let f := val_of (x_extra c) in
  let user := {| u_type := x_type c; u_syntax := x_syntax c; u_cfg := map_layer f (x_user c);
                 u_other := map_dict f (x_other c) |} in
  match expand_model (map_builtin f (patched (x_patches c))) user (map_table f (x_global c)) (x_abbr c) with
  | None => [8%N]
  | Some r => show r
  end.
Definition eval_cases (l : list xcase) : list (list N) := map eval_case l.
