(* In-Coq evaluation of the full stylesheet pipeline (it uses PrimFloat through the
   scorer and is therefore not extracted).  The harness writes case files that
   [Eval vm_compute in (run_groups [...])] and parses the printed list.

   A group = one configuration + the abbreviations expanded under it; the snippet
   table is converted once per group ([expand_with] after [convert_snippets], which
   is what [expand_css] does for every call).  Configurations are built from the
   GENERATED per-syntax options and snippet table plus the user's overrides, the
   way Config/merged_data layer them (user layer last, whole-value replacement). *)
From Coq Require Import PrimFloat.
From Emmet Require Import lib.Base lib.StyleLib gen.GenCssSnippets model.CssTokenizer model.CssParser
     model.Score model.Color model.CssSnippets model.CssResolve model.CssFormat.
Local Open Scope N_scope.

(* user options (config['options']) the pipeline reads *)
Inductive ov :=
| OvKeywords (l : list str) | OvUnitless (l : list str) | OvShortHex (b : bool)
| OvBetween (s : str) | OvAfter (s : str) | OvIntUnit (s : str) | OvFloatUnit (s : str)
| OvAliases (l : list (str * str)) | OvJson (b : bool) | OvJsonDq (b : bool)
| OvSkipUnmatched (b : bool) | OvMinScore (f : float) | OvFormat (b : bool)
| OvNewline (s : str) | OvBaseIndent (s : str) | OvIndent (s : str).

Definition cfg_of_row (r : css_opts_row) : sconfig :=
  let '(between, after, int_unit, float_unit, aliases, unitless, keywords, short_hex, json, json_dq,
        skip_unmatched, min_score, format, newline, base_indent, indent) := r in
  mkCfg css_snippets None keywords unitless short_hex between after int_unit float_unit aliases
        json json_dq skip_unmatched min_score format newline base_indent indent FieldPlaceholder.

(* Config({'type': 'stylesheet', 'syntax': syn}) ; an unknown syntax gets the type's defaults,
   which are those of css *)
Definition cfg_of_syntax (syn : str) : option sconfig :=
  match assoc_str syn css_syntax_options with
  | Some r => Some (cfg_of_row r)
  | None => None
  end.

Definition apply_ov (c : sconfig) (o : ov) : sconfig :=
  let 'mkCfg sn cx kw ul sh bt af iu fu al js jd sk ms fm nl bi ind fs := c in
  match o with
  | OvKeywords l => mkCfg sn cx l ul sh bt af iu fu al js jd sk ms fm nl bi ind fs
  | OvUnitless l => mkCfg sn cx kw l sh bt af iu fu al js jd sk ms fm nl bi ind fs
  | OvShortHex b => mkCfg sn cx kw ul b bt af iu fu al js jd sk ms fm nl bi ind fs
  | OvBetween s => mkCfg sn cx kw ul sh s af iu fu al js jd sk ms fm nl bi ind fs
  | OvAfter s => mkCfg sn cx kw ul sh bt s iu fu al js jd sk ms fm nl bi ind fs
  | OvIntUnit s => mkCfg sn cx kw ul sh bt af s fu al js jd sk ms fm nl bi ind fs
  | OvFloatUnit s => mkCfg sn cx kw ul sh bt af iu s al js jd sk ms fm nl bi ind fs
  | OvAliases l => mkCfg sn cx kw ul sh bt af iu fu l js jd sk ms fm nl bi ind fs
  | OvJson b => mkCfg sn cx kw ul sh bt af iu fu al b jd sk ms fm nl bi ind fs
  | OvJsonDq b => mkCfg sn cx kw ul sh bt af iu fu al js b sk ms fm nl bi ind fs
  | OvSkipUnmatched b => mkCfg sn cx kw ul sh bt af iu fu al js jd b ms fm nl bi ind fs
  | OvMinScore f => mkCfg sn cx kw ul sh bt af iu fu al js jd sk f fm nl bi ind fs
  | OvFormat b => mkCfg sn cx kw ul sh bt af iu fu al js jd sk ms b nl bi ind fs
  | OvNewline s => mkCfg sn cx kw ul sh bt af iu fu al js jd sk ms fm s bi ind fs
  | OvBaseIndent s => mkCfg sn cx kw ul sh bt af iu fu al js jd sk ms fm nl s ind fs
  | OvIndent s => mkCfg sn cx kw ul sh bt af iu fu al js jd sk ms fm nl bi s fs
  end.

(* dict.update(user_snippets) *)
Definition update_snippets (base user : list (str * str)) : list (str * str) :=
  fold_left (fun d kv => dict_set (fst kv) (snd kv) d) user base.

Definition with_user (c : sconfig) (user : list (str * str)) (ctx : option str) (tabstop : bool) : sconfig :=
  let 'mkCfg sn cx kw ul sh bt af iu fu al js jd sk ms fm nl bi ind fs := c in
  mkCfg (update_snippets sn user) ctx kw ul sh bt af iu fu al js jd sk ms fm nl bi ind
        (if tabstop then FieldTabstop else FieldPlaceholder).

(* the configuration of one group *)
Definition mk_cfg (syn : str) (ovs : list ov) (user : list (str * str)) (ctx : option str) (tabstop : bool)
  : option sconfig :=
  match cfg_of_syntax syn with
  | Some c => Some (with_user (fold_left apply_ov ovs c) user ctx tabstop)
  | None => None
  end.

(* ---- rendering of results: a list of numbers
     0 :: text | 1 kind 1 pos | 1 kind 0 | 2 kind | 3 (out of fuel) | 9 (bad configuration) *)
Definition show (r : res str) : list N :=
  match r with
  | Ok s => 0 :: s
  | ParseErr k (Some p) => [1; k; 1; Z.to_N p]
  | ParseErr k None => [1; k; 0]
  | Internal k => [2; k]
  | OutOfFuel => [3]
  end.

(* the built-in table converted once, at compile time of this file *)
Definition builtin_converted : res (list snippet) := Eval vm_compute in convert_snippets css_snippets.
Lemma builtin_converted_eq : convert_snippets css_snippets = builtin_converted.
Proof. vm_compute. reflexivity. Qed.

Definition run_group (g : option sconfig * bool * list str) : list (list N) :=
  let '(oc, builtin_table, abbrs) := g in
  match oc with
  | None => map (fun _ => [9]) abbrs
  | Some cfg =>
      (* [builtin_table]: the group has no user snippets, so c_snippets cfg = css_snippets and the
         precomputed conversion is used (builtin_converted_eq) *)
      match (if builtin_table then builtin_converted else convert_snippets (c_snippets cfg)) with
      | Ok sn => map (fun a => show (expand_with cfg sn a)) abbrs
      | ParseErr k p => map (fun _ => show (ParseErr k p)) abbrs
      | Internal k => map (fun _ => show (Internal k)) abbrs
      | OutOfFuel => map (fun _ => [3]) abbrs
      end
  end.

Definition run_groups (gs : list (option sconfig * bool * list str)) : list (list N) :=
  concat (map run_group gs).

(* run_group computes expand_css for every abbreviation of the group *)
Lemma run_group_spec cfg abbrs :
  run_group (Some cfg, false, abbrs) = map (fun a => show (expand_css cfg a)) abbrs.
Proof.
  unfold run_group, expand_css. destruct (convert_snippets (c_snippets cfg)); cbn [bind]; reflexivity.
Qed.
