(* Entry point of the extracted front-end model used by C04: abbreviation(str, params) =
   tokenize + parse + convert, observable = the whole abbreviation tree with every value.
   Command:  1 <jsx> <text> <max_repeat> <str>  ->  res (list anode) *)
From Emmet Require Import lib.Base lib.Wire model.MarkupTokenizer model.MarkupParser model.MarkupConvert
     model.MarkupResolve.
Local Open Scope Z_scope.

Definition enc_vtok (v : vtok) : wire :=
  match v with
  | VStr s => 0 :: enc_str s
  | VField i nm => 1 :: enc_N i ++ enc_str nm
  end.
Definition enc_vtype (v : vtype) : wire :=
  [match v with VRaw => 0 | VSingle => 1 | VDouble => 2 | VExpr => 3 end].
Definition enc_rep (r : rep) : wire := enc_N (rcount r) ++ enc_N (rvalue r) ++ enc_bool (rimplicit r).
Definition enc_aattr (a : aattr) : wire :=
  enc_opt enc_str (aa_name a) ++ enc_opt (enc_list enc_vtok) (aa_value a) ++ enc_vtype (aa_vtype a)
  ++ enc_bool (aa_boolean a) ++ enc_bool (aa_implied a) ++ enc_bool (aa_multiple a).

Fixpoint enc_anode (n : anode) : wire :=
  match n with
  | ANode nm v rp at_ ch sc =>
      enc_opt enc_str nm ++ enc_opt (enc_list enc_vtok) v ++ enc_opt enc_rep rp
      ++ enc_opt (enc_list enc_aattr) at_ ++ enc_bool sc
      ++ Z.of_nat (length ch)
         :: (fix go (l : list anode) : wire := match l with [] => [] | c :: r => enc_anode c ++ go r end) ch
  end.

Definition dec_text : dec wtext := fun w =>
  match w with
  | 0 :: w' => Some (WNone, w')
  | 1 :: w' => match dec_str w' with Some (s, w2) => Some (WStr s, w2) | None => None end
  | 2 :: w' => match dec_list dec_str w' with Some (l, w2) => Some (WList l, w2) | None => None end
  | _ => None
  end.

Definition run (w : wire) : wire :=
  match w with
  | 1 :: w' =>
      match dec_bool w' with None => wire_bad | Some (jsx, w1) =>
      match dec_text w1 with None => wire_bad | Some (text, w2) =>
      match dec_opt dec_N w2 with None => wire_bad | Some (mr, w3) =>
      match dec_str w3 with None => wire_bad | Some (s, _) =>
        enc_res (enc_list enc_anode) (parse_abbr jsx (mkCenv text [] false) mr s)
      end end end end
  | _ => wire_bad
  end.
