(* C08, stylesheet half of the history state machine over the REAL stylesheet pipeline model (ST).
   The pipeline uses PrimFloat (the scorer), so this instance is evaluated inside Coq (like
   run/StyleShow.v), not extracted: the harness writes case files that
   [Eval vm_compute in (run_css_histories [...])].

   World: snippets = the merged raw table (config.snippets), compared entry by entry;
   table = the converted snippets; convert = convert_snippets; css_expand = expand_with.
   A history is a list of stylesheet calls (cache dict number or none, configuration, abbreviation);
   [History.step] threads the cache dicts through it. *)
From Coq Require Import PrimFloat.
From Emmet Require Import lib.Base lib.StyleLib gen.GenCssSnippets model.CssSnippets model.CssResolve
     model.CssFormat run.StyleShow model.History.
Local Open Scope N_scope.

Fixpoint snips_eqb (a b : list (str * str)) : bool :=
  match a, b with
  | [], [] => true
  | (k1, v1) :: a', (k2, v2) :: b' => str_eqb k1 k2 && str_eqb v1 v2 && snips_eqb a' b'
  | _, _ => false
  end.

(* convert_snippets, with the conversion of the built-in table done once (StyleShow.builtin_converted) *)
Definition convert_fast (sn : list (str * str)) : res (list snippet) :=
  if snips_eqb sn css_snippets then builtin_converted else convert_snippets sn.

Definition sum_of {A} (r : res A) : res unit + A :=
  match r with
  | Ok a => inr a
  | ParseErr k p => inl (ParseErr k p)
  | Internal k => inl (Internal k)
  | OutOfFuel => inl OutOfFuel
  end.

Definition css_world : world :=
  mkWorld unit (fun _ => false) unit (sconfig * str) (list (str * str)) snips_eqb (list snippet) unit str (res unit)
    (fun _ _ => inl OutOfFuel) (fun _ _ _ => inl OutOfFuel) (fun _ _ => O) (fun _ _ => inl OutOfFuel)
    (fun sn => sum_of (convert_fast sn))
    (fun a tb => sum_of (expand_with (fst a) tb (snd a)))
    (fun _ tb => tb).
Notation CW := css_world.

Definition show_outcome (o : outcome CW) : list N :=
  match o with
  | Returned _ s => show (Ok s)
  | Raised _ (ParseErr k p) => show (ParseErr k p)
  | Raised _ (Internal k) => show (Internal k)
  | Raised _ _ => [3]
  end.

(* which call of the history (1-based; 0 = none) has the snippets a cache entry was built from *)
Fixpoint source_index (src : list (str * str)) (cfgs : list (list (str * str))) (i : N) : N :=
  match cfgs with
  | [] => 0
  | s :: r => if snips_eqb src s then i else source_index src r (i + 1)
  end.

Definition show_caches (ncaches : nat) (srcs : list (list (str * str))) (st : lib_state CW) : list N :=
  map (fun j => match caches CW st j with
                | None => 0
                | Some e => source_index (ce_source CW e) srcs 1
                end) (seq 0 ncaches).

Definition hcall := (option nat * option sconfig * str)%type.

Fixpoint run_css_calls (ncaches : nat) (srcs : list (list (str * str))) (st : lib_state CW) (h : list hcall)
  : list (list N) :=
  match h with
  | [] => []
  | (cache, None, _) :: h' => [9] :: show_caches ncaches srcs st :: run_css_calls ncaches srcs st h'
  | (cache, Some cfg, abbr) :: h' =>
      let r := step CW st (CCss CW cache (c_snippets cfg) (cfg, abbr)) in
      show_outcome (snd r) :: show_caches ncaches srcs (fst r) :: run_css_calls ncaches srcs (fst r) h'
  end.

(* one history: two lists per call (result; per cache dict the 1-based index of the first call whose
   snippets the entry was built from, 0 = empty) *)
Definition run_css_history (x : nat * list hcall) : list (list N) :=
  let '(ncaches, h) := x in
  let srcs := map (fun c => match snd (fst c) with Some cfg => c_snippets cfg | None => [] end) h in
  run_css_calls ncaches srcs (fresh CW (fun _ => None)) h.

Definition run_css_histories (l : list (nat * list hcall)) : list (list N) := concat (map run_css_history l).
