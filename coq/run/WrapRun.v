(* Entry point of the extracted SPEC of C04_wrap_implicit / C02_limit_full_with_wrap: the abbreviation is
   tokenized and parsed by the model, then unrolled by the pure spec [convert_w] (proofs/WrapFull.v: unroll_w,
   place_line, finish_w) -- NOT by the converter model.  The harness compares it with the implementation's
   abbreviation tree, so the spec the theorems are stated against is itself tied to the code.
   Command:  1 <jsx> <text> <max_repeat> <str>  ->  res (list anode), same wire as run/TextRun.v *)
From Emmet Require Import lib.Base lib.Wire model.MarkupTokenizer model.MarkupParser model.MarkupConvert
     proofs.WrapFull run.TextRun.
Local Open Scope Z_scope.

Definition spec_abbr (jsx : bool) (env : cenv) (max_repeat : option N) (s : str) : res (list anode) :=
  match tokenize s with
  | TErr p => ParseErr EK_Scanner (Some (Z.of_nat p))
  | TOk toks =>
      match parse jsx toks with
      | PErr p => ParseErr EK_Token (match p with Some n => Some (Z.of_nat n) | None => None end)
      | POk root => Ok (convert_w env max_repeat root)
      end
  end.

Definition run (w : wire) : wire :=
  match w with
  | 1 :: w' =>
      match dec_bool w' with None => wire_bad | Some (jsx, w1) =>
      match dec_text w1 with None => wire_bad | Some (text, w2) =>
      match dec_opt dec_N w2 with None => wire_bad | Some (mr, w3) =>
      match dec_str w3 with None => wire_bad | Some (s, _) =>
        enc_res (enc_list enc_anode) (spec_abbr jsx (mkCenv text [] false) mr s)
      end end end end
  | _ => wire_bad
  end.
