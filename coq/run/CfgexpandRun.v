(* Entry point of the extracted EXPAND model of C20 (proofs/ConfigExpand.v).  Markup half only: the
   stylesheet pipeline model uses floats and is evaluated inside Coq (proofs/ConfigExpandCss.v), so the
   stylesheet branch of [expand_model_gen] is given a function that answers "not here" -- for a
   configuration whose resolved type is not 'stylesheet' the branch is never taken
   (ConfigExpandCss.expand_model_markup_branch).

   Values travel as ids exactly as in run/ConfigRun.v (built-in values >= 0 as numbered by the
   generators, caller values < 0); the VALUE behind a built-in id comes from gen/GenConfigVals.v
   (regenerated from the source on every run), the value behind a caller id travels with the case.

     1 <type: opt str> <syntax: opt str> <user: layer_cfg> <global: cfg_table> <patches>
       <caller values: list (id, cval)> <other entries of the call's config: list (key: str, id)> <abbr: str>
          emmet.expand(abbr, user, global) on the GENERATED built-in tables after the patches
          ->  0 (outside the model)  |  1 <res str: 0 str | 1 kind (0 | 1 pos) | 2 kind | 3>

     cval := 0 | 1 b | 2 n | 3 mant exp | 4 str | 5 list str | 6 list (str, str) | 7 | 8 | 9 id *)
From Coq Require Import List ZArith.
From Emmet Require Import lib.Base lib.ConfigLib lib.ConfigVal gen.GenConfig gen.GenConfigVals
     model.Config proofs.ConfigExpand proofs.ConfigExpandTables lib.Wire run.ConfigRun.
Import ListNotations.
Local Open Scope Z_scope.

Definition dec_cval : dec cval := fun w =>
  match w with
  | 0 :: w' => Some (CNone, w')
  | 1 :: b :: w' => Some (CBool (negb (b =? 0)), w')
  | 2 :: n :: w' => Some (CNum (Z.to_N n), w')
  | 3 :: m :: e :: w' => Some (CDec (Z.to_N m) (Z.to_nat e), w')
  | 4 :: w' => match dec_str w' with Some (s, w2) => Some (CStr s, w2) | None => None end
  | 5 :: w' => match dec_list dec_str w' with Some (l, w2) => Some (CStrs l, w2) | None => None end
  | 6 :: w' => match dec_list (dec_pair dec_str dec_str) w' with Some (l, w2) => Some (CPairs l, w2) | None => None end
  | 7 :: w' => Some (CFieldDefault, w')
  | 8 :: w' => Some (CTextDefault, w')
  | 9 :: i :: w' => Some (COther i, w')
  | _ => None
  end.

Definition css_not_here (v : cview) (abbr : str) : option (res str) := None.

Definition run_expand (ty syn : option str) (u : layer_cfg Z) (g : cfg_table Z) (ps : list patch)
           (extra : list (Z * cval)) (other : dict Z) (abbr : str) : wire :=
  let f := val_of extra in
  let user := {| u_type := ty; u_syntax := syn; u_cfg := map_layer f u; u_other := map_dict f other |} in
  match expand_model_gen css_not_here (map_builtin f (patched ps)) user (map_table f g) abbr with
  | None => [0]
  | Some r => 1 :: enc_res enc_str r
  end.

Definition run (w : wire) : wire :=
  match w with
  | 1 :: w0 =>
      match dec_opt dec_str w0 with None => wire_bad | Some (ty, w1) =>
      match dec_opt dec_str w1 with None => wire_bad | Some (syn, w2) =>
      match dec_layer_cfg w2 with None => wire_bad | Some (u, w3) =>
      match dec_cfg_table w3 with None => wire_bad | Some (g, w4) =>
      match dec_list dec_patch w4 with None => wire_bad | Some (ps, w5) =>
      match dec_list (dec_pair dec_Z dec_cval) w5 with None => wire_bad | Some (extra, w6) =>
      match dec_dict dec_Z w6 with None => wire_bad | Some (other, w7) =>
      match dec_str w7 with None => wire_bad | Some (abbr, _) =>
        run_expand ty syn u g ps extra other abbr
      end end end end end end end end
  | _ => wire_bad
  end.
