(* C01/C02 convert_shape: unrolling preserves the relative order of the written elements and
   multiplies them by the repeat counts.  Stated on the unrolling spec [unroll] of ConvertProofs
   (which the converter is proved equal to): depth list and size of the unrolled forest. *)
From Emmet Require Import lib.Base model.MarkupTokenizer model.MarkupParser model.MarkupConvert.
From Emmet Require Import proofs.NumberingProofs proofs.ConvertProofs.
Local Open Scope nat_scope.

(* preorder (depth, name) list and size of an unrolled forest *)
Fixpoint apre (d : nat) (n : anode) : list (nat * option str) :=
  match n with ANode nm _ _ _ ch _ => (d, nm) :: flat_map (apre (S d)) ch end.
Definition apreL (d : nat) (l : list anode) : list (nat * option str) := flat_map (apre d) l.
Fixpoint asize (n : anode) : nat :=
  match n with ANode _ _ _ _ ch _ => S (list_sum (map asize ch)) end.
Definition asizeL (l : list anode) : nat := list_sum (map asize l).

(* ---------------------------------------------------------------- spec *)
(* elements written in the statement, each multiplied by the repeat counts of the repeated units
   around it (itself included) *)
Fixpoint size (node : tnode) : nat :=
  let inner := match node with TElem _ _ _ _ _ els | TGroup els _ => list_sum (map size els) end in
  let own := match node with TElem _ _ _ _ _ _ => 1 | TGroup _ _ => 0 end in
  match node_rep node with
  | None => own + inner
  | Some r0 => N.to_nat (written_count r0) * (own + inner)
  end.

(* name and "text-only" flag of an element under a repeater stack, as the converter computes them *)
Definition elem_name (env : cenv) (reps : list rep) (name : option (list token)) : option str :=
  option_map (name_str env reps) (nonempty name).
Definition elem_text_only (env : cenv) (reps : list rep) (name : option (list token)) (attrs : option (list tattr))
           (value : option (list token)) : bool :=
  text_only_of (elem_name env reps name) (option_map (map (attr_of env reps)) (nonempty attrs))
               (option_map (value_toks env reps) (nonempty value)).

(* the depth list the statement denotes after unrolling: a unit written at depth d contributes,
   once per copy and in order, its element at depth d followed by its children one level deeper
   (a nameless text-only node keeps its children beside it); a group contributes its contents at
   its own depth *)
Fixpoint shape (env : cenv) (reps : list rep) (d : nat) (node : tnode) {struct node} : list (nat * option str) :=
  let once (reps' : list rep) :=
    match node with
    | TGroup els _ => flat_map (shape env reps' d) els
    | TElem name attrs value _ _ els =>
        (d, elem_name env reps' name) ::
        flat_map (shape env reps' (if elem_text_only env reps' name attrs value then d else S d)) els
    end in
  match node_rep node with
  | None => once reps
  | Some r0 =>
      let n := written_count r0 in
      flat_map (fun i => once (mkRep n i false :: reps)) (nseq (N.to_nat n) 0%N)
  end.

Definition shape_once (env : cenv) (node : tnode) (d : nat) (reps' : list rep) : list (nat * option str) :=
  match node with
  | TGroup els _ => flat_map (shape env reps' d) els
  | TElem name attrs value _ _ els =>
      (d, elem_name env reps' name) ::
      flat_map (shape env reps' (if elem_text_only env reps' name attrs value then d else S d)) els
  end.
Lemma shape_unfold env reps d node :
  shape env reps d node =
  match node_rep node with
  | None => shape_once env node d reps
  | Some r0 =>
      let n := written_count r0 in
      flat_map (fun i => shape_once env node d (mkRep n i false :: reps)) (nseq (N.to_nat n) 0%N)
  end.
Proof. destruct node; reflexivity. Qed.

(* ---------------------------------------------------------------- lemmas *)
Lemma apreL_app d a b : apreL d (a ++ b) = apreL d a ++ apreL d b.
Proof. apply flat_map_app. Qed.
Lemma asizeL_app a b : asizeL (a ++ b) = asizeL a + asizeL b.
Proof. unfold asizeL. rewrite map_app, list_sum_app. reflexivity. Qed.

Lemma apre_attach d r : forall items, apreL d (attach_repeater items r) = apreL d items.
Proof.
  induction items as [|x l IH]; [reflexivity|]. unfold apreL, attach_repeater in *. cbn [map flat_map].
  rewrite IH. f_equal. destruct x as [nm v [rp|] at_ ch sc]; reflexivity.
Qed.
Lemma asize_attach r items : asizeL (attach_repeater items r) = asizeL items.
Proof.
  unfold asizeL, attach_repeater. rewrite map_map. f_equal. apply map_ext.
  intros [nm v [rp|] at_ ch sc]; reflexivity.
Qed.

Lemma apreL_flat_map {A} d (f : A -> list anode) (l : list A) :
  apreL d (flat_map f l) = flat_map (fun x => apreL d (f x)) l.
Proof. induction l as [|x l IH]; [reflexivity|]. cbn [flat_map]. rewrite apreL_app, IH. reflexivity. Qed.
Lemma asizeL_flat_map {A} (f : A -> list anode) (l : list A) :
  asizeL (flat_map f l) = list_sum (map (fun x => asizeL (f x)) l).
Proof. induction l as [|x l IH]; [reflexivity|]. cbn [flat_map map]. rewrite asizeL_app, IH. reflexivity. Qed.

Lemma apre_leaf env reps name attrs value sc cur kids d :
  apreL d (leaf_items env reps name attrs value sc cur kids) =
  (d, elem_name env reps name) :: apreL (if elem_text_only env reps name attrs value then d else S d) kids.
Proof.
  unfold leaf_items, elem_text_only, elem_name. destruct (text_only_of _ _ _).
  - cbn [apreL flat_map apre app]. reflexivity.
  - cbn [apreL flat_map apre app]. rewrite app_nil_r. reflexivity.
Qed.
Lemma asize_leaf env reps name attrs value sc cur kids :
  asizeL (leaf_items env reps name attrs value sc cur kids) = S (asizeL kids).
Proof.
  unfold leaf_items. destruct (text_only_of _ _ _); unfold asizeL; cbn [map asize]; unfold list_sum; cbn [fold_right]; lia.
Qed.

Lemma flat_map_ext_in {A B} (f g : A -> list B) l : Forall (fun x => f x = g x) l -> flat_map f l = flat_map g l.
Proof. induction 1 as [|x l Hx _ IH]; [reflexivity|]. cbn [flat_map]. rewrite Hx, IH. reflexivity. Qed.

(* ---------------------------------------------------------------- convert_shape *)
Lemma once_shape env node :
  Forall (fun c => forall reps d, apreL d (unroll env reps c) = shape env reps d c) (elements_of' node) ->
  forall cur reps d, apreL d (once_u env node cur reps) = shape_once env node d reps.
Proof.
  intros IH cur reps d. destruct node as [name attrs value r sc els|els r]; cbn [once_u shape_once elements_of'] in *.
  - rewrite apre_leaf. f_equal. rewrite apreL_flat_map. apply flat_map_ext_in.
    eapply Forall_impl; [|exact IH]. cbn beta. intros c Hc. apply Hc.
  - assert (H : apreL d (flat_map (unroll env reps) els) = flat_map (shape env reps d) els).
    { rewrite apreL_flat_map. apply flat_map_ext_in. eapply Forall_impl; [|exact IH]. cbn beta. intros c Hc. apply Hc. }
    destruct cur; [rewrite apre_attach|]; exact H.
Qed.

Theorem convert_shape env : forall node reps d, apreL d (unroll env reps node) = shape env reps d node.
Proof.
  induction node as [name attrs value r sc els IH|els r IH] using tnode_ind'; intros reps d;
    rewrite unroll_unfold, shape_unfold; cbn [node_rep].
  - destruct r as [r0|]; [|apply once_shape; exact IH].
    cbv zeta. rewrite apreL_flat_map. apply flat_map_ext. intros i. apply once_shape. exact IH.
  - destruct r as [r0|]; [|apply once_shape; exact IH].
    cbv zeta. rewrite apreL_flat_map. apply flat_map_ext. intros i. apply once_shape. exact IH.
Qed.

(* ---------------------------------------------------------------- multiplication by the repeat counts *)
Lemma list_sum_const {A} (f : A -> nat) (c : nat) l : Forall (fun x => f x = c) l -> list_sum (map f l) = length l * c.
Proof.
  induction 1 as [|x l Hx _ IH]; [reflexivity|]. cbn [map length].
  change (list_sum (f x :: map f l)) with (f x + list_sum (map f l)). rewrite Hx, IH. lia.
Qed.

Lemma list_sum_ext {A} (f g : A -> nat) l : Forall (fun x => f x = g x) l -> list_sum (map f l) = list_sum (map g l).
Proof.
  induction 1 as [|x l Hx _ IH]; [reflexivity|]. cbn [map].
  change (list_sum (f x :: map f l)) with (f x + list_sum (map f l)).
  change (list_sum (g x :: map g l)) with (g x + list_sum (map g l)). rewrite Hx, IH. reflexivity.
Qed.

Lemma once_size env node :
  Forall (fun c => forall reps, asizeL (unroll env reps c) = size c) (elements_of' node) ->
  forall cur reps,
    asizeL (once_u env node cur reps) =
    (match node with TElem _ _ _ _ _ _ => 1 | TGroup _ _ => 0 end) + list_sum (map size (elements_of' node)).
Proof.
  intros IH cur reps. destruct node as [name attrs value r sc els|els r]; cbn [once_u elements_of'] in *.
  - rewrite asize_leaf. rewrite asizeL_flat_map. cbn [Nat.add]. f_equal. apply list_sum_ext.
    eapply Forall_impl; [|exact IH]. cbn beta. intros c Hc. apply Hc.
  - assert (H : asizeL (flat_map (unroll env reps) els) = list_sum (map size els)).
    { rewrite asizeL_flat_map. apply list_sum_ext. eapply Forall_impl; [|exact IH]. cbn beta. intros c Hc. apply Hc. }
    destruct cur; [rewrite asize_attach|]; exact H.
Qed.

Lemma size_unfold node :
  size node =
  let body := (match node with TElem _ _ _ _ _ _ => 1 | TGroup _ _ => 0 end) + list_sum (map size (elements_of' node)) in
  match node_rep node with None => body | Some r0 => N.to_nat (written_count r0) * body end.
Proof. destruct node; reflexivity. Qed.

Theorem unroll_size env : forall node reps, asizeL (unroll env reps node) = size node.
Proof.
  induction node as [name attrs value r sc els IH|els r IH] using tnode_ind'; intros reps;
    rewrite unroll_unfold, size_unfold; cbn [node_rep]; cbv zeta.
  - destruct r as [r0|]; [|apply once_size; exact IH].
    rewrite asizeL_flat_map. rewrite (list_sum_const _ (1 + list_sum (map size els))).
    + rewrite nseq_length. reflexivity.
    + apply Forall_forall. intros i _. apply (once_size env (TElem name attrs value (Some r0) sc els) IH).
  - destruct r as [r0|]; [|apply once_size; exact IH].
    rewrite asizeL_flat_map. rewrite (list_sum_const _ (0 + list_sum (map size els))).
    + rewrite nseq_length. reflexivity.
    + apply Forall_forall. intros i _. apply (once_size env (TGroup els (Some r0)) IH).
Qed.

(* ---------------------------------------------------------------- on the converter itself *)
Theorem convert_shape_model env max_repeat root :
  ce_text env = WNone -> forallb clean_node root = true ->
  (total_list root <= budget_of max_repeat)%Z ->
  exists forest,
    convert env max_repeat root = Ok forest /\
    apreL 0 forest = flat_map (shape env [] 0) root /\
    asizeL forest = list_sum (map size root).
Proof.
  intros Ht Hc Hb. exists (flat_map (unroll env []) root). split; [apply convert_enough; assumption|]. split.
  - rewrite apreL_flat_map. apply flat_map_ext. intros c. apply convert_shape.
  - rewrite asizeL_flat_map. apply list_sum_ext. apply Forall_forall. intros c _. apply unroll_size.
Qed.
