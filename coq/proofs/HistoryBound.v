(* C08 -- "the library keeps no per-call data alive", as far as the model can say it:
   the SIZE of what a history leaves behind does not depend on the length of the history.

   The state of model/History.v has three parts.  The text slots are the caller's own data and are
   unchanged ([caller_cfg_preserved]).  What the LIBRARY adds is
     * entries of the caller's cache dicts: each dict holds AT MOST ONE entry (source + table; a
       refill replaces it), and only dicts that some call of the history names are ever filled;
     * entries of get_block_name's default lookup ([bem_default], a count).
   [state_size n st] = number of filled cache dicts among the first n + bem_default.

   Theorems (any world, any history length):
     [run_caches_below]    dicts no call names stay empty
     [size_bounded]        state_size n (run h s0) <= n + bem_default s0  when the history uses only
                           cache dicts below n: a bound in the number of cache dicts the CALLER
                           shares, independent of [length h]
     [entry_origin]        what a cache dict holds after a history is either what it held before
                           or the (snippets, table) of ONE call of the history that names this dict:
                           nothing else of any call survives in the state. *)
From Coq Require Import List Bool Arith Lia.
From Emmet Require Import model.History proofs.HistoryProofs.
Import ListNotations.

Section Bound.
  Variable W : world.
  Notation lib_state := (lib_state W).
  Notation call := (call W).

  Definition is_filled (st : lib_state) (j : nat) : bool :=
    match caches W st j with Some _ => true | None => false end.
  Definition cache_count (n : nat) (st : lib_state) : nat := length (filter (is_filled st) (seq 0 n)).
  Definition state_size (n : nat) (st : lib_state) : nat := cache_count n st + bem_default W st.

  (* the cache dict a call passes, if any *)
  Definition cache_of (c : call) : option nat :=
    match c with CCss _ cache _ _ => cache | CMarkup _ _ _ => None end.
  Definition uses_below (n : nat) (h : list call) : Prop :=
    forall c j, In c h -> cache_of c = Some j -> j < n.
  Definition empty_from (n : nat) (st : lib_state) : Prop := forall j, n <= j -> caches W st j = None.

  Lemma cache_count_le : forall n st, cache_count n st <= n.
  Proof.
    intros. unfold cache_count. rewrite <- (seq_length n 0) at 2.
    generalize (seq 0 n). induction l as [|x l IH]; cbn [filter length]; [lia|].
    destruct (is_filled st x); cbn [length]; lia.
  Qed.

  (* one step changes only the dict the call names *)
  Lemma step_caches_other : forall st c k,
      cache_of c <> Some k -> caches W (fst (step W st c)) k = caches W st k.
  Proof.
    intros st [i a|cache sn a] k N; unfold step, step_gen.
    - now rewrite step_markup_caches.
    - cbn [cache_of] in N. unfold step_css, after_use. cbn [copy_default repaired].
      destruct (cache_lookup W repaired st cache sn); [reflexivity|].
      destruct (w_convert W sn); [reflexivity|].
      destruct cache as [j|]; [|reflexivity].
      cbn [fst set_cache caches]. apply upd_other. intro E. apply N. now subst.
  Qed.

  Lemma run_caches_other : forall h s k,
      (forall c, In c h -> cache_of c <> Some k) -> caches W (run W h s) k = caches W s k.
  Proof.
    induction h as [|c h IH]; intros s k H; [reflexivity|].
    rewrite run_cons, IH by (intros c' I; apply H; now right).
    apply step_caches_other. apply H. now left.
  Qed.

  (* dicts that no call of the history names stay as they were: empty stays empty *)
  Theorem run_caches_below : forall n h s0,
      uses_below n h -> empty_from n s0 -> empty_from n (run W h s0).
  Proof.
    intros n h s0 U E j L. rewrite run_caches_other; [now apply E|].
    intros c I C. specialize (U c j I C). lia.
  Qed.

  (* the size of what the library holds is bounded by the number of cache dicts the caller shares,
     whatever the length of the history *)
  Theorem size_bounded : forall n h s0,
      state_size n (run W h s0) <= n + bem_default W s0.
  Proof.
    intros. unfold state_size. rewrite (no_growth W). pose proof (cache_count_le n (run W h s0)). lia.
  Qed.

  (* ... and nothing is held outside those dicts *)
  Theorem size_bounded_total : forall n h s0 m,
      uses_below n h -> empty_from n s0 -> n <= m ->
      state_size m (run W h s0) <= n + bem_default W s0.
  Proof.
    intros n h s0 m U E L. unfold state_size. rewrite (no_growth W).
    enough (cache_count m (run W h s0) <= n) by lia.
    pose proof (run_caches_below n h s0 U E) as B.
    unfold cache_count. replace m with (n + (m - n)) by lia.
    rewrite seq_app, filter_app, app_length.
    assert (Z : filter (is_filled (run W h s0)) (seq (0 + n) (m - n)) = []).
    { induction (m - n) as [|d IHd] in |- *; [reflexivity|].
      rewrite seq_S, filter_app, IHd. cbn [filter app]. unfold is_filled. rewrite B by lia. reflexivity. }
    rewrite Z. cbn [length]. pose proof (cache_count_le n (run W h s0)). unfold cache_count in H. lia.
  Qed.

  (* what a dict holds afterwards: its old entry, or the snippets and table of ONE call that names it *)
  Theorem entry_origin : forall h s0 k e,
      caches W (run W h s0) k = Some e ->
      caches W s0 k = Some e
      \/ exists sn a, In (CCss W (Some k) sn a) h /\ ce_source W e = sn /\ w_convert W sn = inr (ce_table W e).
  Proof.
    induction h as [|c h IH] using rev_ind; intros s0 k e H; [now left|].
    rewrite run_snoc in H.
    destruct c as [i a|cache sn a].
    - unfold step, step_gen in H. rewrite step_markup_caches in H.
      destruct (IH _ _ _ H) as [L|[sn [a' [I R]]]]; [now left|].
      right. exists sn, a'. split; [apply in_or_app; now left|exact R].
    - unfold step, step_gen in H. apply step_css_cache_content in H.
      destruct H as [H|[-> [Hs Hc]]].
      + destruct (IH _ _ _ H) as [L|[sn' [a' [I R]]]]; [now left|].
        right. exists sn', a'. split; [apply in_or_app; now left|exact R].
      + right. exists sn, a. split; [apply in_or_app; right; now left|]. split; assumption.
  Qed.
End Bound.
