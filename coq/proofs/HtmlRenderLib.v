(* C09, Level B, part 0: list / character-class facts and the loop lemmas of the scanner model
   (skip counters, one round of each loop) used by proofs/HtmlRender*.v.  No grammar here. *)
From Coq Require Import List NArith ZArith Bool Lia ZifyBool.
From Emmet Require Import lib.Base lib.HtmlLib gen.GenHtml model.HtmlScan model.HtmlMatch
  proofs.HtmlScanProofs.
Import ListNotations.
Local Open Scope nat_scope.

(* ------------------------------------------------------------------ lists *)
Lemma skipn_app_exact {A} (a b : list A) k : k = length a -> skipn k (a ++ b) = b.
Proof. intros ->. rewrite skipn_app, skipn_all, Nat.sub_diag. reflexivity. Qed.

Lemma firstn_app_exact {A} (a b : list A) k : k = length a -> firstn k (a ++ b) = a.
Proof. intros ->. rewrite firstn_app, Nat.sub_diag, firstn_all. cbn [firstn]. apply app_nil_r. Qed.

(* [stops p T]: the run of [p]-characters cannot continue into [T] *)
Definition stops (p : char -> bool) (T : str) : Prop :=
  match T with [] => True | c :: _ => p c = false end.

Lemma span_app_stop p : forall a T, forallb p a = true -> stops p T -> span p (a ++ T) = length a.
Proof.
  induction a as [|c a IH]; intros T Ha HT.
  - cbn [app length]. destruct T as [|x T]; [reflexivity|]. cbn [stops] in HT. cbn [span]. rewrite HT. reflexivity.
  - cbn [forallb] in Ha. apply andb_true_iff in Ha. destruct Ha as [Hc Ha].
    cbn [app span length]. rewrite Hc. f_equal. apply IH; assumption.
Qed.

Lemma starts_with_app p T : starts_with p (p ++ T) = true.
Proof. induction p as [|x p IH]; [reflexivity|]. cbn [app starts_with]. rewrite N.eqb_refl. exact IH. Qed.

Lemma starts_with_head_neq p x c T : (x =? c)%N = false -> starts_with (x :: p) (c :: T) = false.
Proof. intros H. cbn [starts_with]. rewrite H. reflexivity. Qed.

(* ------------------------------------------------------------------ character classes *)
Ltac chars :=
  unfold name_char, name_start_char, is_unquoted, is_terminator, is_quote, is_space, is_white_space,
    is_alpha, is_number, in_range, html_escape_char,
    c_tab, c_nl, c_cr, c_space, c_excl, c_dquote, c_hash, c_squote, c_lparen, c_rparen, c_star, c_dash, c_dot,
    c_slash, c_0, c_9, c_colon, c_lt, c_eq, c_gt, c_quest, c_A, c_Z, c_lbrack, c_bslash, c_rbrack, c_under,
    c_a, c_z, c_lbrace, c_rbrace, c_nbsp in *;
  lia.

(* the character after an attribute or after the attribute list: white space, `>` or `/` *)
Definition sep_char (c : char) : Prop := is_space c = true \/ is_terminator c = true.

Lemma sep_cases c : sep_char c -> (c = 32 \/ c = 9 \/ c = 160 \/ c = 10 \/ c = 13 \/ c = 62 \/ c = 47)%N.
Proof. intros [H|H]; chars. Qed.
Lemma sep_not_name c : sep_char c -> name_char c = false.
Proof. intros H. apply sep_cases in H. repeat (destruct H as [H|H]; [subst; reflexivity|]). subst; reflexivity. Qed.
Lemma sep_not_unquoted c : sep_char c -> is_unquoted c = false.
Proof. intros [H|H]; chars. Qed.
Lemma sep_not_eq c : sep_char c -> (c =? c_eq)%N = false.
Proof. intros [H|H]; chars. Qed.
Lemma eq_not_name : name_char c_eq = false.
Proof. reflexivity. Qed.

Lemma name_start_not_space c : name_start_char c = true -> is_space c = false.
Proof. intros H; chars. Qed.
Lemma name_start_not_slash c : name_start_char c = true -> (c =? c_slash)%N = false.
Proof. intros H; chars. Qed.
Lemma name_start_plain c : name_start_char c = true ->
  (c =? c_star)%N = false /\ (c =? c_hash)%N = false /\ (c =? c_lt)%N = false /\
  (c =? c_lparen)%N = false /\ (c =? c_lbrack)%N = false /\ (c =? c_lbrace)%N = false.
Proof. intros H; repeat split; chars. Qed.
Lemma name_start_is_name c : name_start_char c = true -> name_char c = true.
Proof. intros H. unfold name_char. rewrite H. reflexivity. Qed.

Lemma terminator_cases c : is_terminator c = true -> c = c_gt \/ c = c_slash.
Proof. intros H; chars. Qed.
Lemma terminator_not_space c : is_terminator c = true -> is_space c = false.
Proof. intros H; chars. Qed.

(* ------------------------------------------------------------------ names *)
Definition name_ok (n : str) : bool :=
  match n with c :: r => name_start_char c && forallb name_char r | [] => false end.

Lemma ident_name n T : name_ok n = true -> stops name_char T -> ident (n ++ T) = Some (length n).
Proof.
  destruct n as [|c r]; [discriminate|]. cbn [name_ok]. intros H HT.
  apply andb_true_iff in H. destruct H as [Hc Hr].
  cbn [app ident length]. rewrite Hc. rewrite span_app_stop by assumption. reflexivity.
Qed.

(* ------------------------------------------------------------------ eat_quoted *)
(* the content of a quoted string: free of the quote and of the escape character *)
Definition plain_body (q : char) (body : str) : bool :=
  forallb (fun c => negb (c =? q)%N && negb (c =? html_escape_char)%N) body.
Definition quoted_ok (q : char) (body : str) : bool := is_quote q && plain_body q body.

Lemma quoted_body_plain q : forall body T off,
  plain_body q body = true ->
  quoted_body q false (body ++ q :: T) off = Some (off + length body + 1).
Proof.
  induction body as [|c body IH]; intros T off H.
  - cbn [app quoted_body length]. rewrite N.eqb_refl. f_equal. lia.
  - cbn [plain_body forallb] in H. apply andb_true_iff in H. destruct H as [Hc H].
    apply andb_true_iff in Hc. destruct Hc as [H1 H2].
    apply negb_true_iff in H1. apply negb_true_iff in H2.
    cbn [app quoted_body length]. rewrite H1, H2. rewrite (IH T (S off) H). f_equal. lia.
Qed.

Lemma eat_quoted_plain q body T :
  quoted_ok q body = true -> eat_quoted (q :: body ++ q :: T) = Some (length body + 2).
Proof.
  unfold quoted_ok. intros H. apply andb_true_iff in H. destruct H as [Hq Hb].
  cbn [eat_quoted]. rewrite Hq. rewrite (quoted_body_plain q body T 1 Hb). f_equal. lia.
Qed.

Lemma eat_quoted_not_quote c T : is_quote c = false -> eat_quoted (c :: T) = None.
Proof. intros H. cbn [eat_quoted]. rewrite H. reflexivity. Qed.

(* ------------------------------------------------------------------ eat_pair *)
Lemma pair_body_skip o c : forall s k d off, k <= length s ->
  pair_body o c k d s off = pair_body o c 0 d (skipn k s) (off + k).
Proof.
  induction s as [|x r IH]; intros k d off H.
  - cbn [length] in H. assert (k = 0) by lia. subst. cbn [skipn]. rewrite Nat.add_0_r. reflexivity.
  - destruct k as [|k]; [cbn [skipn]; rewrite Nat.add_0_r; reflexivity|].
    cbn [length] in H. cbn [pair_body skipn]. rewrite IH by lia. f_equal. lia.
Qed.

Lemma eat_pair_other o c x T : (x =? o)%N = false -> eat_pair o c (x :: T) = None.
Proof. intros H. cbn [eat_pair]. rewrite H. reflexivity. Qed.

Definition opener (c : char) : bool :=
  (c =? c_lt)%N || (c =? c_lparen)%N || (c =? c_lbrack)%N || (c =? c_lbrace)%N.

Lemma consume_paired_not_opener c T : opener c = false -> consume_paired (c :: T) = None.
Proof.
  unfold opener. intros H.
  apply orb_false_iff in H. destruct H as [H H4]. apply orb_false_iff in H. destruct H as [H H3].
  apply orb_false_iff in H. destruct H as [H1 H2].
  unfold consume_paired. rewrite !eat_pair_other by assumption. reflexivity.
Qed.

Lemma name_start_not_opener c : name_start_char c = true -> opener c = false.
Proof. intros H. unfold opener. destruct (name_start_plain c H) as (_ & _ & -> & -> & -> & ->). reflexivity. Qed.

(* ------------------------------------------------------------------ loops with a skip counter *)
Lemma skip_attributes_skip : forall s k off, k <= length s ->
  skip_attributes k off s = skip_attributes 0 (off + k) (skipn k s).
Proof.
  induction s as [|x r IH]; intros k off H.
  - cbn [length] in H. assert (k = 0) by lia. subst. cbn [skipn skip_attributes]. lia.
  - destruct k as [|k]; [cbn [skipn]; rewrite Nat.add_0_r; reflexivity|].
    cbn [length] in H. cbn [skip_attributes skipn]. rewrite IH by lia. f_equal. lia.
Qed.

Lemma attrs_go_skip : forall s k pos, k <= length s ->
  attrs_go k pos s = attrs_go 0 (pos + N.of_nat k)%N (skipn k s).
Proof.
  induction s as [|x r IH]; intros k pos H.
  - cbn [length] in H. assert (k = 0) by lia. subst. reflexivity.
  - destruct k as [|k]; [cbn [skipn]; rewrite N.add_0_r; reflexivity|].
    cbn [length] in H. cbn [attrs_go skipn]. rewrite IH by lia. f_equal. lia.
Qed.

Lemma pi_body_skip : forall s k off, k <= length s ->
  pi_body k s off = pi_body 0 (skipn k s) (off + k).
Proof.
  induction s as [|x r IH]; intros k off H.
  - cbn [length] in H. assert (k = 0) by lia. subst. cbn [skipn pi_body]. lia.
  - destruct k as [|k]; [cbn [skipn]; rewrite Nat.add_0_r; reflexivity|].
    cbn [length] in H. cbn [pi_body skipn]. rewrite IH by lia. f_equal. lia.
Qed.

Lemma scan_go_skip special : forall s k pos, k <= length s ->
  scan_go special k pos s = scan_go special 0 (pos + N.of_nat k)%N (skipn k s).
Proof.
  induction s as [|x r IH]; intros k pos H.
  - cbn [length] in H. assert (k = 0) by lia. subst. reflexivity.
  - destruct k as [|k]; [cbn [skipn]; rewrite N.add_0_r; reflexivity|].
    cbn [length] in H. cbn [scan_go skipn]. rewrite IH by lia. f_equal. lia.
Qed.

(* one round of the main loop that consumes exactly the block [b] *)
Lemma scan_go_step special b rest pos evs :
  b <> [] -> step special (b ++ rest) = Step (length b) evs ->
  fst (scan_go special 0 pos (b ++ rest)) =
  map (abs_ev pos) evs ++ fst (scan_go special 0 (pos + N.of_nat (length b))%N rest).
Proof.
  intros Hb Hs. destruct b as [|c b']; [contradiction|].
  cbn [app] in *. cbn [scan_go]. rewrite Hs. cbn [length pred].
  rewrite scan_go_skip by (rewrite app_length; lia).
  rewrite skipn_app_exact by reflexivity.
  replace (pos + 1 + N.of_nat (length b'))%N with (pos + N.of_nat (S (length b')))%N by lia.
  destruct (scan_go special 0 (pos + N.of_nat (S (length b')))%N rest) as [l err]. reflexivity.
Qed.

(* a character that is not `<` is stepped over *)
Lemma step_plain special c T : (c =? c_lt)%N = false -> step special (c :: T) = Step 1 [].
Proof.
  intros H. unfold step, cdata, comment, processing_instruction, consume_section.
  assert (E : forall p, starts_with (c_lt :: p) (c :: T) = false).
  { intros p. apply starts_with_head_neq. rewrite N.eqb_sym. exact H. }
  change cdata_open with (c_lt :: tl cdata_open). change comment_open with (c_lt :: tl comment_open).
  change pi_start with (c_lt :: tl pi_start). rewrite !E. cbn [orelse peek_is]. rewrite H. reflexivity.
Qed.
