(* C13, stylesheet: the name of every FunctionCall that the abbreviation PARSER builds is the value of a
   Literal token; so when no Literal token contains a line feed, no function name does.
   (Step 2 of: the raw pushes of the stylesheet formatter are free of line feeds for every abbreviation.) *)
From Coq Require Import ZArith List Bool Lia ZifyBool String.
From Emmet Require Import lib.Base lib.StyleLib model.CssTokenizer model.CssParser
     model.MarkupConvert model.OutStream model.CssFormatStream proofs.OutStreamProofs proofs.CssFormatStream.
Import ListNotations.

Definition G (v : cval) : Prop := fn_names_ok v = true.
Definition Gv (vs : list cval) : Prop := Forall G vs.
Definition Gvs (l : list (list cval)) : Prop := Forall Gv l.
Definition Gp (p : cssprop) : Prop := Gvs (pvalue p).
Definition lit_ok (t : ctoken) : Prop := match ck t with CLiteral v => lf_count v = 0 | _ => True end.

Lemma forallb_iff_Forall {A} (f : A -> bool) l : forallb f l = true <-> Forall (fun a => f a = true) l.
Proof. rewrite forallb_forall, Forall_forall. reflexivity. Qed.

Lemma G_tok k st en : G (VTok k st en).
Proof. reflexivity. Qed.
Lemma G_func name args : G (VFunc name args) <-> lf_count name = 0 /\ Gvs args.
Proof.
  unfold G. cbn [fn_names_ok]. rewrite andb_true_iff, Nat.eqb_eq, forallb_iff_Forall. apply and_iff_compat_l.
  unfold Gvs, Gv. split; intros H; eapply Forall_impl; try exact H; intros a Ha; apply forallb_iff_Forall; exact Ha.
Qed.
Lemma Gp_raw_ok p : Gp p -> prop_raw_ok p = true.
Proof.
  unfold Gp, Gvs, Gv, prop_raw_ok. intros H. apply forallb_iff_Forall. eapply Forall_impl; [|exact H].
  intros a Ha. apply forallb_iff_Forall. exact Ha.
Qed.
Lemma Gps_raw_ok l : Forall Gp l -> forallb prop_raw_ok l = true.
Proof. intros H. apply forallb_iff_Forall. eapply Forall_impl; [|exact H]. apply Gp_raw_ok. Qed.

Lemma Forall_rev' {A} (P : A -> Prop) l : Forall P l -> Forall P (rev l).
Proof. apply Forall_rev. Qed.

(* consume_value / consume_arguments *)
Lemma p_value_args_ok : forall fuel,
  (forall in_arg ts acc v rest, Forall lit_ok ts -> Gv acc ->
     p_value fuel in_arg ts acc = Ok (v, rest) -> Gv v /\ Forall lit_ok rest) /\
  (forall ts acc l rest, Forall lit_ok ts -> Gvs acc ->
     p_args fuel ts acc = Ok (l, rest) -> Gvs l /\ Forall lit_ok rest).
Proof.
  induction fuel as [|f [IHv IHa]]; [split; intros; discriminate|]. split.
  - intros in_arg ts acc v rest Hts Hacc H. cbn [p_value] in H.
    destruct ts as [|t ts'].
    + injection H as <- <-. split; [apply Forall_rev', Hacc|constructor].
    + inversion Hts as [|? ? Ht Hts']; subst.
      assert (Hplain : p_value f in_arg ts' (tokv t :: acc) = Ok (v, rest) -> Gv v /\ Forall lit_ok rest).
      { intros H'. eapply IHv; [exact Hts'| |exact H']. constructor; [apply G_tok|exact Hacc]. }
      destruct (k_is_value (ck t)).
      * destruct (ck t) as [name| | | | | | | |] eqn:Ek; try (apply Hplain; exact H).
        destruct ts' as [|b ts'']; [apply Hplain; exact H|].
        destruct (k_is_open_bracket (ck b)); [|apply Hplain; exact H].
        destruct (p_args f ts'' []) as [[args rest1]| | |] eqn:Ea; cbn [bind] in H; try discriminate.
        inversion Hts' as [|? ? _ Hts'']; subst.
        destruct (IHa ts'' [] args rest1 Hts'' (Forall_nil _) Ea) as [Hargs Hrest1].
        eapply IHv; [exact Hrest1| |exact H]. constructor; [|exact Hacc].
        apply G_func. split; [|exact Hargs]. unfold lit_ok in Ht. rewrite Ek in Ht. exact Ht.
      * destruct (k_is_value_delimiter (ck t) || (in_arg && k_is_white_space (ck t))).
        -- eapply IHv; [exact Hts'|exact Hacc|exact H].
        -- injection H as <- <-. split; [apply Forall_rev', Hacc|exact Hts].
  - intros ts acc l rest Hts Hacc H. cbn [p_args] in H.
    destruct ts as [|t ts'].
    + injection H as <- <-. split; [apply Forall_rev', Hacc|constructor].
    + inversion Hts as [|? ? Ht Hts']; subst.
      destruct (k_is_close_bracket (ck t)).
      * injection H as <- <-. split; [apply Forall_rev', Hacc|exact Hts'].
      * destruct (p_value f true (t :: ts') []) as [[v rest1]| | |] eqn:Ev; cbn [bind] in H; try discriminate.
        destruct (IHv true (t :: ts') [] v rest1 Hts (Forall_nil _) Ev) as [Hv Hrest1].
        destruct v as [|v0 vr].
        -- destruct rest1 as [|t2 rest']; [unfold tok_error in H; discriminate|].
           destruct (k_is_white_space (ck t2) || k_is_argument_delimiter (ck t2)).
           ++ inversion Hrest1; subst. eapply IHa; [eassumption|exact Hacc|exact H].
           ++ unfold tok_error in H. discriminate.
        -- eapply IHa; [exact Hrest1| |exact H]. constructor; [exact Hv|exact Hacc].
Qed.

Lemma p_value_ok fuel in_arg ts acc v rest : Forall lit_ok ts -> Gv acc ->
  p_value fuel in_arg ts acc = Ok (v, rest) -> Gv v /\ Forall lit_ok rest.
Proof. apply (proj1 (p_value_args_ok fuel)). Qed.

Lemma p_prop_loop_ok : forall fuel vm ts imp vals imp' vals' rest,
  Forall lit_ok ts -> Gvs vals ->
  p_prop_loop fuel vm ts imp vals = Ok (imp', vals', rest) -> Gvs vals' /\ Forall lit_ok rest.
Proof.
  induction fuel as [|f IH]; intros vm ts imp vals imp' vals' rest Hts Hvals H; [discriminate|].
  cbn [p_prop_loop] in H. destruct ts as [|t ts'].
  - injection H as <- <- <-. split; [apply Forall_rev', Hvals|constructor].
  - inversion Hts as [|? ? Ht Hts']; subst.
    destruct (k_is_important (ck t)); [eapply IH; [exact Hts'|exact Hvals|exact H]|].
    destruct (p_value (S (S (2 * length (t :: ts')))) vm (t :: ts') []) as [[v rest1]| | |] eqn:Ev; cbn [bind] in H; try discriminate.
    destruct (p_value_ok _ _ _ _ _ _ Hts (Forall_nil _) Ev) as [Hv Hrest1].
    destruct v as [|v0 vr].
    + destruct rest1 as [|t2 rest'].
      * injection H as <- <- <-. split; [apply Forall_rev', Hvals|constructor].
      * destruct (k_is_fragment_delimiter (ck t2)).
        -- inversion Hrest1; subst. eapply IH; [eassumption|exact Hvals|exact H].
        -- injection H as <- <- <-. split; [apply Forall_rev', Hvals|exact Hrest1].
    + eapply IH; [exact Hrest1| |exact H]. constructor; [exact Hv|exact Hvals].
Qed.

Lemma p_property_ok vm ts po rest : Forall lit_ok ts ->
  p_property vm ts = Ok (po, rest) ->
  match po with Some p => Gp p | None => True end /\ Forall lit_ok rest.
Proof.
  intros Hts H. unfold p_property in H.
  set (nt := match ts with
             | t :: ts' => match ck t with
                           | CLiteral v => if negb vm && negb (is_function_start ts)
                                           then (Some v, match ts' with
                                                         | d :: ts'' => if k_is_value_delimiter (ck d) then ts'' else ts'
                                                         | [] => ts'
                                                         end)
                                           else (None, ts)
                           | _ => (None, ts)
                           end
             | [] => (None, ts)
             end) in *.
  assert (H1 : Forall lit_ok (snd nt)).
  { unfold nt. destruct ts as [|t ts']; [exact Hts|]. inversion Hts as [|? ? _ Hts']; subst.
    destruct (ck t); try exact Hts. destruct (negb vm && negb (is_function_start (t :: ts'))); [|exact Hts].
    cbn [snd]. destruct ts' as [|d ts'']; [exact Hts'|]. destruct (k_is_value_delimiter (ck d)); [|exact Hts'].
    inversion Hts'; assumption. }
  destruct nt as [name ts1]. cbn [snd] in H1.
  set (ts2 := if vm then match ts1 with w :: r => if k_is_white_space (ck w) then r else ts1 | [] => ts1 end else ts1) in *.
  assert (H2 : Forall lit_ok ts2).
  { unfold ts2. destruct vm; [|exact H1]. destruct ts1 as [|w r]; [exact H1|].
    destruct (k_is_white_space (ck w)); [inversion H1; assumption|exact H1]. }
  destruct (p_prop_loop (S (2 * length ts2)) vm ts2 false []) as [[[imp vals] rest1]| | |] eqn:El; cbn [bind] in H; try discriminate.
  destruct (p_prop_loop_ok _ _ _ _ _ _ _ _ H2 (Forall_nil _) El) as [Hv Hr].
  destruct name as [n|]; [|destruct vals as [|v0 vr]; [destruct imp|]]; injection H as <- <-; split; try exact Hr; try exact I; exact Hv.
Qed.

Lemma p_loop_ok : forall fuel vm ts acc l, Forall lit_ok ts -> Forall Gp acc ->
  p_loop fuel vm ts acc = Ok l -> Forall Gp l.
Proof.
  induction fuel as [|f IH]; intros vm ts acc l Hts Hacc H; [discriminate|].
  cbn [p_loop] in H. destruct ts as [|t ts'].
  - injection H as <-. apply Forall_rev', Hacc.
  - destruct (p_property vm (t :: ts')) as [[po rest]| | |] eqn:Ep; cbn [bind] in H; try discriminate.
    destruct (p_property_ok _ _ _ _ Hts Ep) as [Hp Hrest].
    destruct po as [p|].
    + eapply IH; [exact Hrest| |exact H]. constructor; assumption.
    + destruct rest as [|t2 rest']; [unfold tok_error in H; discriminate|].
      destruct (k_is_sibling (ck t2)); [|unfold tok_error in H; discriminate].
      inversion Hrest; subst. eapply IH; [eassumption|exact Hacc|exact H].
Qed.

Theorem parser_names_ok vm ts l : Forall lit_ok ts -> parser vm ts = Ok l -> Forall Gp l.
Proof. intros Hts H. eapply p_loop_ok; [exact Hts|constructor|exact H]. Qed.
