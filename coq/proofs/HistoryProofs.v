(* C08 -- proofs about the history state machine (model/History.v).

   The inductive invariant of the repaired step function:
     * every cache entry is convert_snippets of the snippets stored as its source   [inv]
     * the text slot of every caller dict is what it was                            [step_text]
     * the default lookup of get_block_name has not grown                           [step_bem]
   and, under [inv], the result of a call is a function of the call and the text slots alone. *)
From Coq Require Import List Bool Arith Lia.
From Emmet Require Import model.History.
Import ListNotations.

Section Proofs.
  Variable W : world.
  (* dict equality of the snippets decides equality of the values *)
  Hypothesis snips_eqb_spec : forall a b : w_snips W, w_snips_eqb W a b = true <-> a = b.

  Notation lib_state := (lib_state W).
  Notation call := (call W).

  Definition inv (st : lib_state) : Prop :=
    forall j e, caches W st j = Some e -> w_convert W (ce_source W e) = inr (ce_table W e).

  Definition same_texts (s1 s2 : lib_state) : Prop := forall i, cfg_text W s1 i = cfg_text W s2 i.

  Lemma upd_same : forall A (f : nat -> A) i v, upd f i v i = v.
  Proof. intros. unfold upd. now rewrite Nat.eqb_refl. Qed.
  Lemma upd_other : forall A (f : nat -> A) i j v, j <> i -> upd f i v j = f j.
  Proof. intros. unfold upd. destruct (Nat.eqb j i) eqn:E; [apply Nat.eqb_eq in E; contradiction|reflexivity]. Qed.

  Lemma get_text_slot : forall st i t, get_text W st i = Some t -> cfg_text W st i = Some (Some t).
  Proof.
    unfold get_text. intros st i t H. destruct (cfg_text W st i) as [[t'|]|]; try discriminate. now inversion H.
  Qed.

  (* ---------------- markup ---------------- *)
  (* text slots after a markup call: unchanged *)
  Lemma step_markup_text : forall st i a k,
      cfg_text W (fst (step_markup W repaired st i a)) k = cfg_text W st k.
  Proof.
    intros st i a k. unfold step_markup. cbn [restore_on_error write_back_only_if_cleared bem_weak repaired].
    destruct (w_mk_parse W a (get_text W st i)) as [e|t0]; [reflexivity|].
    destruct (is_truthy W (get_text W st i)) eqn:T.
    - (* truthy: cleared, then written back *)
      cbn [negb andb].
      assert (Hs : exists t, cfg_text W st i = Some (Some t) /\ get_text W st i = Some t).
      { destruct (get_text W st i) as [t|] eqn:G; [|discriminate]. exists t. split; [now apply get_text_slot|reflexivity]. }
      destruct Hs as [t [Hs G]].
      destruct (w_mk_resolve W a _ t0) as [e|t1]; cbn [fst set_text cfg_text];
        (destruct (Nat.eq_dec k i) as [->|N];
         [rewrite upd_same, G; now rewrite Hs | rewrite !upd_other by assumption; reflexivity]).
    - cbn [negb andb]. destruct (w_mk_resolve W a _ t0) as [e|t1]; reflexivity.
  Qed.

  Lemma step_markup_caches : forall st i a, caches W (fst (step_markup W repaired st i a)) = caches W st.
  Proof.
    intros. unfold step_markup. cbn [restore_on_error write_back_only_if_cleared bem_weak repaired].
    destruct (w_mk_parse W a _); [reflexivity|].
    destruct (is_truthy W _); cbn [negb andb]; destruct (w_mk_resolve W a _ _); reflexivity.
  Qed.

  Lemma step_markup_bem : forall st i a, bem_default W (fst (step_markup W repaired st i a)) = bem_default W st.
  Proof.
    intros. unfold step_markup. cbn [restore_on_error write_back_only_if_cleared bem_weak repaired].
    destruct (w_mk_parse W a _); [reflexivity|].
    destruct (is_truthy W _); cbn [negb andb]; destruct (w_mk_resolve W a _ _); reflexivity.
  Qed.

  (* the result of a markup call is a function of the call and of the caller's text *)
  Definition markup_pure (text : option (w_txt W)) (a : w_margs W) : outcome W :=
    match w_mk_parse W a text with
    | inl e => Raised W e
    | inr t0 =>
        match w_mk_resolve W a (if is_truthy W text then None else text) t0 with
        | inl e => Raised W e
        | inr t1 => of_sum W (w_mk_stringify W a t1)
        end
    end.

  Lemma step_markup_outcome : forall st i a,
      snd (step_markup W repaired st i a) = markup_pure (get_text W st i) a.
  Proof.
    intros. unfold step_markup, markup_pure.
    cbn [restore_on_error write_back_only_if_cleared bem_weak repaired].
    destruct (w_mk_parse W a (get_text W st i)) as [e|t0]; [reflexivity|].
    destruct (is_truthy W (get_text W st i)) eqn:T.
    - assert (G : get_text W (set_text W st i (Some None)) i = None).
      { unfold get_text, set_text. cbn [cfg_text]. now rewrite upd_same. }
      rewrite G. destruct (w_mk_resolve W a None t0); reflexivity.
    - destruct (w_mk_resolve W a (get_text W st i) t0); reflexivity.
  Qed.

  (* ---------------- stylesheet ---------------- *)
  Definition css_pure (sn : w_snips W) (a : w_sargs W) : outcome W :=
    match w_convert W sn with
    | inl e => Raised W e
    | inr tb => of_sum W (w_css_expand W a tb)
    end.

  Lemma lookup_sound : forall st cache sn tb,
      inv st -> cache_lookup W repaired st cache sn = Some tb -> w_convert W sn = inr tb.
  Proof.
    intros st cache sn tb I H. unfold cache_lookup in H. cbn [key_checks_source repaired] in H.
    destruct cache as [j|]; [|discriminate].
    destruct (caches W st j) as [e|] eqn:C; [|discriminate].
    destruct (w_snips_eqb W (ce_source W e) sn) eqn:Q; [|discriminate].
    apply snips_eqb_spec in Q. inversion H; subst. apply (I j e C).
  Qed.

  Lemma step_css_outcome : forall st cache sn a,
      inv st -> snd (step_css W repaired st cache sn a) = css_pure sn a.
  Proof.
    intros st cache sn a I. unfold step_css, css_pure.
    destruct (cache_lookup W repaired st cache sn) as [tb|] eqn:L.
    - rewrite (lookup_sound _ _ _ _ I L). reflexivity.
    - destruct (w_convert W sn); reflexivity.
  Qed.

  Lemma step_css_text : forall st cache sn a,
      cfg_text W (fst (step_css W repaired st cache sn a)) = cfg_text W st.
  Proof.
    intros. unfold step_css, after_use. cbn [copy_default repaired].
    destruct (cache_lookup W repaired st cache sn); [reflexivity|].
    destruct (w_convert W sn); [reflexivity|]. destruct cache; reflexivity.
  Qed.

  Lemma step_css_bem : forall st cache sn a,
      bem_default W (fst (step_css W repaired st cache sn a)) = bem_default W st.
  Proof.
    intros. unfold step_css, after_use. cbn [copy_default repaired].
    destruct (cache_lookup W repaired st cache sn); [reflexivity|].
    destruct (w_convert W sn); [reflexivity|]. destruct cache; reflexivity.
  Qed.

  Lemma step_css_inv : forall st cache sn a, inv st -> inv (fst (step_css W repaired st cache sn a)).
  Proof.
    intros st cache sn a I. unfold step_css, after_use. cbn [copy_default repaired].
    destruct (cache_lookup W repaired st cache sn); [exact I|].
    destruct (w_convert W sn) as [e|tb] eqn:C; [exact I|].
    destruct cache as [j|]; [|exact I].
    cbn [fst]. intros k e H. unfold set_cache in H. cbn [caches] in H.
    destruct (Nat.eq_dec k j) as [->|N].
    - rewrite upd_same in H. inversion H; subst. exact C.
    - rewrite upd_other in H by assumption. apply (I k e H).
  Qed.

  (* a cache dict changes only by a stylesheet call that names it, and then holds exactly the
     table of that call's snippets *)
  Lemma step_css_cache_content : forall st cache sn a k e,
      caches W (fst (step_css W repaired st cache sn a)) k = Some e ->
      caches W st k = Some e \/ (cache = Some k /\ ce_source W e = sn /\ w_convert W sn = inr (ce_table W e)).
  Proof.
    intros st cache sn a k e. unfold step_css, after_use. cbn [copy_default repaired].
    destruct (cache_lookup W repaired st cache sn); [now left|].
    destruct (w_convert W sn) as [x|tb] eqn:C; [now left|].
    destruct cache as [j|]; [|now left].
    cbn [fst set_cache caches]. destruct (Nat.eq_dec k j) as [->|N].
    - rewrite upd_same. intro H. inversion H; subst. right. auto.
    - rewrite upd_other by assumption. now left.
  Qed.

  (* ---------------- one step ---------------- *)
  Lemma step_text : forall st c i, cfg_text W (fst (step W st c)) i = cfg_text W st i.
  Proof.
    intros st [i0 a|cache sn a] i; unfold step, step_gen.
    - apply step_markup_text.
    - now rewrite step_css_text.
  Qed.

  Lemma step_bem : forall st c, bem_default W (fst (step W st c)) = bem_default W st.
  Proof.
    intros st [i0 a|cache sn a]; unfold step, step_gen; [apply step_markup_bem|apply step_css_bem].
  Qed.

  Lemma step_inv : forall st c, inv st -> inv (fst (step W st c)).
  Proof.
    intros st [i0 a|cache sn a] I; unfold step, step_gen.
    - unfold inv. rewrite step_markup_caches. exact I.
    - now apply step_css_inv.
  Qed.

  (* the result of a call as a function of its arguments alone *)
  Definition pure_outcome (texts : nat -> slot W) (c : call) : outcome W :=
    match c with
    | CMarkup _ i a =>
        markup_pure (match texts i with Some (Some t) => Some t | _ => None end) a
    | CCss _ _ sn a => css_pure sn a
    end.

  Lemma outcome_pure : forall st c, inv st -> outcome_in W st c = pure_outcome (cfg_text W st) c.
  Proof.
    intros st [i a|cache sn a] I; unfold outcome_in, outcome_gen, step_gen, pure_outcome.
    - apply step_markup_outcome.
    - now apply step_css_outcome.
  Qed.

  Lemma pure_outcome_ext : forall t1 t2 c, (forall i, t1 i = t2 i) -> pure_outcome t1 c = pure_outcome t2 c.
  Proof. intros t1 t2 [i a|cache sn a] E; cbn [pure_outcome]; [now rewrite E|reflexivity]. Qed.

  (* ---------------- histories ---------------- *)
  Lemma run_snoc : forall h c s, run W (h ++ [c]) s = fst (step W (run W h s) c).
  Proof. intros. unfold run, run_gen. now rewrite fold_left_app. Qed.

  Lemma run_cons : forall h c s, run W (c :: h) s = run W h (fst (step W s c)).
  Proof. reflexivity. Qed.

  Lemma run_inv : forall h s, inv s -> inv (run W h s).
  Proof. induction h as [|c h IH]; intros s I; [exact I|]. rewrite run_cons. apply IH. now apply step_inv. Qed.

  Lemma run_text : forall h s i, cfg_text W (run W h s) i = cfg_text W s i.
  Proof.
    induction h as [|c h IH]; intros s i; [reflexivity|]. rewrite run_cons, IH. apply step_text.
  Qed.

  Lemma run_bem : forall h s, bem_default W (run W h s) = bem_default W s.
  Proof. induction h as [|c h IH]; intros s; [reflexivity|]. rewrite run_cons, IH. apply step_bem. Qed.

  Lemma fresh_inv : forall texts, inv (fresh W texts).
  Proof. intros texts j e H. discriminate H. Qed.

  (* equal arguments give equal results whatever calls came before *)
  Theorem history_independent_gen : forall s0, inv s0 ->
      forall h c, outcome_in W (run W h s0) c = outcome_in W s0 c.
  Proof.
    intros s0 I h c. rewrite (outcome_pure _ c (run_inv h s0 I)), (outcome_pure _ c I).
    apply pure_outcome_ext. intro i. apply run_text.
  Qed.

  Theorem history_independent : forall texts h c,
      outcome_in W (run W h (fresh W texts)) c = outcome_in W (fresh W texts) c.
  Proof. intros. apply history_independent_gen, fresh_inv. Qed.

  (* every call of a history returns what it returns when made alone in the initial state *)
  Theorem outcomes_independent : forall h s0, inv s0 -> outcomes W h s0 = map (outcome_in W s0) h.
  Proof.
    induction h as [|c h IH]; intros s0 I; [reflexivity|].
    change (outcomes W (c :: h) s0) with (outcome_in W s0 c :: outcomes W h (fst (step W s0 c))).
    cbn [map]. f_equal. rewrite (IH _ (step_inv s0 c I)). apply map_ext. intro c'.
    change (fst (step W s0 c)) with (run W [c] s0). now apply history_independent_gen.
  Qed.

  (* the caller's configuration is what it was, after any history (calls that raised included) *)
  Theorem caller_cfg_preserved : forall h s0 i, cfg_text W (run W h s0) i = cfg_text W s0 i.
  Proof. exact run_text. Qed.

  (* ... and so it keeps producing the same results *)
  Theorem caller_cfg_same_results : forall h s0 c, inv s0 ->
      outcome_in W (run W h s0) c = pure_outcome (cfg_text W s0) c.
  Proof. intros. rewrite history_independent_gen by assumption. now apply outcome_pure. Qed.

  (* a cache never changes a result: with the (filled, shared) cache or without any *)
  Theorem cache_transparent : forall s0, inv s0 -> forall h c,
      outcome_in W (run W h s0) c = outcome_in W (run W h s0) (without_cache W c)
      /\ outcome_in W (run W h s0) c = outcome_in W s0 (without_cache W c).
  Proof.
    intros s0 I h c.
    assert (E : forall s, inv s -> outcome_in W s c = outcome_in W s (without_cache W c)).
    { intros s Is. rewrite !outcome_pure by assumption. destruct c; reflexivity. }
    split.
    - apply E, run_inv, I.
    - rewrite history_independent_gen by assumption. now apply E.
  Qed.

  (* what a cache dict holds after any history is the table of the snippets it is keyed by *)
  Theorem cache_entries_valid : forall h s0, inv s0 -> inv (run W h s0).
  Proof. intros. now apply run_inv. Qed.

  (* nothing accumulates in the library: the default lookup is as it was *)
  Theorem no_growth : forall h s0, bem_default W (run W h s0) = bem_default W s0.
  Proof. exact run_bem. Qed.
End Proofs.

(* ------------------------------------------------------------------------------------
   A small concrete world: shows the statements are not vacuous and that each of the five
   defective settings of [flags] breaks them (the shapes confirmed on the code). *)
Module Toy.
  (* text: a number, 0 is the empty text; markup call: abbreviation number, 13 = an
     abbreviation naming a malformed user snippet; stylesheet call: its intUnit; snippets:
     a number; table: (source, unit already written into the default value, 0 = none) *)
  Definition toy : world :=
    mkWorld nat (fun n => negb (Nat.eqb n 0)) nat nat nat Nat.eqb (nat * nat) (nat * option nat)
            (nat * option nat) nat
            (fun a text => inr (a, text))
            (fun a text t => if Nat.eqb a 13 then inl 1 else inr t)
            (fun a t => 2)
            (fun a t => inr (fst t, match snd t with Some x => Some x | None => None end))
            (fun sn => if Nat.eqb sn 99 then inl 2 else inr (sn, 0))
            (fun a tb => inr (fst tb, Some (if Nat.eqb (snd tb) 0 then a else snd tb)))
            (fun a tb => (fst tb, if Nat.eqb (snd tb) 0 then a else snd tb)).

  Lemma toy_eqb : forall a b : w_snips toy, w_snips_eqb toy a b = true <-> a = b.
  Proof. intros. apply Nat.eqb_eq. Qed.

  Definition texts0 : nat -> slot toy := fun i => if Nat.eqb i 0 then Some (Some 5) else None.
  Definition s0 := fresh toy texts0.

  (* a history that exercises everything: a failing markup call on the config with text, a
     stylesheet call that fills cache 0, one with other snippets through the same cache, one
     whose snippets do not convert *)
  Definition h0 : list (call toy) :=
    [CMarkup toy 0 13; CCss toy (Some 0) 1 7; CCss toy (Some 0) 2 8; CCss toy (Some 0) 99 8; CMarkup toy 1 4].

  Example nonvacuous :
    outcomes toy h0 s0 = [Raised toy 1; Returned toy (1, Some 7); Returned toy (2, Some 8); Raised toy 2;
                          Returned toy (4, None)]
    /\ (exists e, caches toy (run toy h0 s0) 0 = Some e /\ ce_source toy e = 2)
    /\ outcome_in toy (run toy h0 s0) (CMarkup toy 0 4) = Returned toy (4, Some 5)
    /\ outcome_in toy (run toy h0 s0) (CCss toy (Some 0) 1 9) = Returned toy (1, Some 9).
  Proof. repeat split; try reflexivity. eexists; split; reflexivity. Qed.

  Definition with_flags (f : flags) h s c := outcome_gen toy f (run_gen toy f h s) c.

  (* (i) no try/finally: a failing call leaves 'text': None, the next call with the same
         configuration loses its text (1c30c03) *)
  Example defect_no_restore :
    let f := mkFlags false true true true true in
    cfg_text toy (run_gen toy f [CMarkup toy 0 13] s0) 0 = Some None
    /\ with_flags f [CMarkup toy 0 13] s0 (CMarkup toy 0 4) = Returned toy (4, None)
    /\ outcome_in toy s0 (CMarkup toy 0 4) = Returned toy (4, Some 5).
  Proof. repeat split; reflexivity. Qed.

  (* (v) unconditional write-back adds 'text': None to a dict that had no text *)
  Example defect_text_key_added :
    let f := mkFlags true false true true true in
    cfg_text toy (run_gen toy f [CMarkup toy 1 4] s0) 1 = Some None /\ cfg_text toy s0 1 = None.
  Proof. split; reflexivity. Qed.

  (* (iii) cache key ignores the snippets: the second configuration gets the first one's table *)
  Example defect_cache_key :
    let f := mkFlags true true false true true in
    with_flags f [CCss toy (Some 0) 1 7] s0 (CCss toy (Some 0) 2 7) = Returned toy (1, Some 7)
    /\ outcome_in toy s0 (CCss toy (Some 0) 2 7) = Returned toy (2, Some 7).
  Proof. split; reflexivity. Qed.

  (* (ii) shared default value: the first caller's unit is printed for the second *)
  Example defect_shared_default :
    let f := mkFlags true true true false true in
    with_flags f [CCss toy (Some 0) 1 7] s0 (CCss toy (Some 0) 1 8) = Returned toy (1, Some 7)
    /\ outcome_in toy s0 (CCss toy (Some 0) 1 8) = Returned toy (1, Some 8).
  Proof. split; reflexivity. Qed.

  (* (iv) strong default lookup: grows with every BEM expansion (0dd2ca9) *)
  Example defect_bem_growth :
    let f := mkFlags true true true true false in
    bem_default toy (run_gen toy f [CMarkup toy 1 4; CMarkup toy 1 4; CMarkup toy 1 4] s0) = 6.
  Proof. reflexivity. Qed.
End Toy.
