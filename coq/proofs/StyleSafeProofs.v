(* C07, stylesheet half: expand for type stylesheet fails only with the two parse errors,
   whose position lies inside the abbreviation; never with an internal error.
   Stage-wise: tokenizer (CssTokenizerProofs), parser (for ALL token lists), snippet
   conversion (sweep over the regenerated built-in table; hypothesis for user tables),
   resolver, formatter (total by construction). *)
From Coq Require Import ZifyBool PrimFloat String.
From Emmet Require Import lib.Base lib.StyleLib gen.GenCssSnippets model.CssTokenizer model.CssParser model.Score
     model.Color model.CssSnippets model.CssResolve model.CssFormat run.StyleShow proofs.CssTokenizerProofs.
Local Open Scope nat_scope.

(* ------------------------------------------------------------------ the parser, for all token lists *)
(* outcome of a parser function on the token list [ts]: the rest is a sub-list of [ts]; an error is the
   token error, positioned at the start of one of the tokens of [ts] (or position-less at the end) *)
Definition err_ok (ts : list ctoken) (k : N) (pos : option Z) : Prop :=
  k = EK_Token /\
  match pos with
  | Some p => exists t, In t ts /\ p = Z.of_nat (cstart t)
  | None => True
  end.

Definition good {A} (ts : list ctoken) (r : res (A * list ctoken)) : Prop :=
  match r with
  | Ok (_, rest) => incl rest ts
  | ParseErr k pos => err_ok ts k pos
  | Internal _ => False
  | OutOfFuel => True
  end.

Lemma err_ok_incl ts ts' k pos : incl ts' ts -> err_ok ts' k pos -> err_ok ts k pos.
Proof.
  intros Hi [Hk Hp]. split; [exact Hk|]. destruct pos as [p|]; [|exact I].
  destruct Hp as [t [Hin Ht]]. exists t. split; [apply Hi; exact Hin|exact Ht].
Qed.

Lemma good_incl {A} ts ts' (r : res (A * list ctoken)) : incl ts' ts -> good ts' r -> good ts r.
Proof.
  intros Hi. destruct r as [[a rest]|k pos|k|]; cbn [good]; intros H; try exact H.
  - eapply incl_tran; eassumption.
  - eapply err_ok_incl; eassumption.
Qed.

Lemma tok_error_ok {A} (rest ts : list ctoken) : incl rest ts -> good (A:=A) ts (tok_error rest).
Proof.
  intros Hi. unfold tok_error. destruct rest as [|t r]; cbn [good]; split; try reflexivity; try exact I.
  exists t. split; [apply Hi; left; reflexivity|reflexivity].
Qed.

Lemma incl_tl {A} (x : A) l ts : incl (x :: l) ts -> incl l ts.
Proof. intros H y Hy. apply H. right. exact Hy. Qed.

Lemma incl_tl2 {A} (x y : A) l ts : incl (x :: y :: l) ts -> incl l ts.
Proof. intros H. eapply incl_tl, incl_tl. exact H. Qed.

Lemma p_value_args_good : forall f,
  (forall in_arg ts acc, good ts (p_value f in_arg ts acc)) /\
  (forall ts acc, good ts (p_args f ts acc)).
Proof.
  induction f as [|f [IHv IHa]]; [split; intros; exact I|].
  split.
  - intros in_arg ts acc. cbn [p_value]. destruct ts as [|t ts']; [cbn; apply incl_refl|].
    destruct (k_is_value (ck t)).
    + assert (Hplain : good (t :: ts') (p_value f in_arg ts' (tokv t :: acc))).
      { eapply good_incl; [|apply IHv]. apply incl_tl with (x := t). apply incl_refl. }
      destruct (ck t) as [name| | | | | | | |]; try exact Hplain.
      destruct ts' as [|b ts'']; [exact Hplain|].
      destruct (k_is_open_bracket (ck b)); [|exact Hplain].
      pose proof (IHa ts'' []) as Ha.
      destruct (p_args f ts'' []) as [[args rest]|k pos|k|]; cbn [bind good] in *.
      * eapply good_incl; [|apply IHv]. intros x Hx. right. right. apply Ha. exact Hx.
      * eapply err_ok_incl; [|exact Ha]. intros x Hx. right. right. exact Hx.
      * exact Ha.
      * exact I.
    + destruct (k_is_value_delimiter (ck t) || (in_arg && k_is_white_space (ck t))).
      * eapply good_incl; [|apply IHv]. apply incl_tl with (x := t). apply incl_refl.
      * cbn [good]. apply incl_refl.
  - intros ts acc. cbn [p_args]. destruct ts as [|t ts']; [cbn; apply incl_refl|].
    destruct (k_is_close_bracket (ck t)).
    + cbn [good]. apply incl_tl with (x := t). apply incl_refl.
    + pose proof (IHv true (t :: ts') []) as Hv.
      destruct (p_value f true (t :: ts') []) as [[v rest]|k pos|k|]; cbn [bind good] in *; try assumption.
      destruct v as [|x v'].
      * destruct rest as [|t2 rest'].
        -- apply tok_error_ok. exact Hv.
        -- destruct (k_is_white_space (ck t2) || k_is_argument_delimiter (ck t2)).
           ++ eapply good_incl; [|apply IHa]. eapply incl_tl. exact Hv.
           ++ apply tok_error_ok. exact Hv.
      * eapply good_incl; [|apply IHa]. exact Hv.
Qed.

Lemma p_value_good f in_arg ts acc : good ts (p_value f in_arg ts acc).
Proof. apply p_value_args_good. Qed.

Lemma p_prop_loop_good : forall f vm ts imp vals, good ts (p_prop_loop f vm ts imp vals).
Proof.
  induction f as [|f IH]; intros vm ts imp vals; [exact I|].
  cbn [p_prop_loop]. destruct ts as [|t ts']; [cbn; apply incl_refl|].
  destruct (k_is_important (ck t)).
  - eapply good_incl; [|apply IH]. apply incl_tl with (x := t). apply incl_refl.
  - pose proof (p_value_good (S (S (2 * length (t :: ts')))) vm (t :: ts') []) as Hv.
    destruct (p_value _ vm (t :: ts') []) as [[v rest]|k pos|k|]; cbn [bind good] in *; try assumption.
    destruct v as [|x v'].
    + destruct rest as [|t2 rest']; [cbn; exact Hv|].
      destruct (k_is_fragment_delimiter (ck t2)).
      * eapply good_incl; [|apply IH]. eapply incl_tl. exact Hv.
      * cbn [good]. exact Hv.
    + eapply good_incl; [|apply IH]. exact Hv.
Qed.

Lemma p_property_good vm ts : good ts (p_property vm ts).
Proof.
  unfold p_property.
  set (nt := match ts with
             | t :: ts' => match ck t with
                           | CLiteral v => if negb vm && negb (is_function_start ts)
                                           then (Some v, match ts' with
                                                         | d :: ts'' => if k_is_value_delimiter (ck d) then ts'' else ts'
                                                         | [] => ts'
                                                         end)
                                           else (None, ts)
                           | _ => (None, ts)
                           end
             | [] => (None, ts)
             end).
  assert (H1 : incl (snd nt) ts).
  { subst nt. destruct ts as [|t ts']; [apply incl_refl|].
    destruct (ck t); try apply incl_refl.
    destruct (negb vm && negb (is_function_start (t :: ts'))); [|apply incl_refl]. cbn [snd].
    destruct ts' as [|d ts'']; [intros x []|].
    destruct (k_is_value_delimiter (ck d)).
    - intros x Hx. right. right. exact Hx.
    - intros x Hx. right. exact Hx. }
  destruct nt as [name ts1]. cbn [snd] in H1.
  set (ts2 := if vm then match ts1 with
                         | w :: r => if k_is_white_space (ck w) then r else ts1
                         | [] => ts1
                         end else ts1).
  assert (H2 : incl ts2 ts).
  { subst ts2. destruct vm; [|exact H1]. destruct ts1 as [|w r]; [exact H1|].
    destruct (k_is_white_space (ck w)); [eapply incl_tl; exact H1|exact H1]. }
  pose proof (p_prop_loop_good (S (2 * length ts2)) vm ts2 false []) as Hl.
  destruct (p_prop_loop _ vm ts2 false []) as [[[imp vals] rest]|k pos|k|]; cbn [bind good] in *.
  - destruct name; [|destruct vals; [destruct imp|]]; cbn [good]; eapply incl_tran; eassumption.
  - eapply err_ok_incl; eassumption.
  - exact Hl.
  - exact I.
Qed.

(* the final result: a list of properties, or the token error at a token of the input *)
Definition good_final {A} (ts : list ctoken) (r : res A) : Prop :=
  match r with
  | Ok _ => True
  | ParseErr k pos => err_ok ts k pos
  | Internal _ => False
  | OutOfFuel => True
  end.

Lemma p_loop_good : forall f vm ts acc, good_final ts (p_loop f vm ts acc).
Proof.
  induction f as [|f IH]; intros vm ts acc; [exact I|].
  cbn [p_loop]. destruct ts as [|t0 ts0]; [exact I|].
  pose proof (p_property_good vm (t0 :: ts0)) as Hp.
  destruct (p_property vm (t0 :: ts0)) as [[po rest]|k pos|k|]; cbn [bind good good_final] in *; try assumption.
  assert (Hmono : forall rest' a, incl rest' (t0 :: ts0) -> good_final (t0 :: ts0) (p_loop f vm rest' a)).
  { intros rest' a Hi. pose proof (IH vm rest' a) as H.
    destruct (p_loop f vm rest' a); cbn [good_final] in *; try assumption. eapply err_ok_incl; eassumption. }
  destruct po as [p|]; [apply Hmono; exact Hp|].
  destruct rest as [|t rest'].
  - cbn. split; [reflexivity|exact I].
  - destruct (k_is_sibling (ck t)); [apply Hmono; eapply incl_tl; exact Hp|].
    cbn. split; [reflexivity|]. exists t. split; [apply Hp; left; reflexivity|reflexivity].
Qed.

(* parser_safe, for ALL token lists (not only tokenizer outputs) *)
Theorem parser_safe vm ts : good_final ts (parser vm ts).
Proof. apply p_loop_good. Qed.

(* ------------------------------------------------------------------ tokenizer + parser *)
Lemma ctiles_in_start : forall l a b t, ctiles l a b -> In t l -> cstart t < b.
Proof.
  induction l as [|x l IH]; intros a b t H Hin; [contradiction|].
  cbn [ctiles] in H. destruct H as [Hs [Hlt H]].
  pose proof (ctiles_le _ _ _ H) as Hle.
  destruct Hin as [->|Hin]; [lia|]. eapply IH; eassumption.
Qed.

(* outcome of a stage on the abbreviation [s]: a value, or one of the two parse errors with a
   position inside [s] (or none); never an internal error *)
Definition safe_on {A} (n : nat) (r : res A) : Prop :=
  match r with
  | Ok _ => True
  | ParseErr k (Some p) => (k = EK_Scanner \/ k = EK_Token) /\ (0 <= p <= Z.of_nat n)%Z
  | ParseErr k None => k = EK_Token
  | Internal _ => False
  | OutOfFuel => True                 (* excluded separately: see fuel theorems / the _partial note *)
  end.

Theorem css_parse_safe vm s : safe_on (length s) (css_parse vm s).
Proof.
  unfold css_parse. destruct (ctokenize vm s) as [l|p|k] eqn:E.
  - pose proof (parser_safe vm l) as H. pose proof (ctokenize_tiles vm s l E) as Ht.
    destruct (parser vm l) as [a|k pos|k|]; cbn [good_final safe_on] in *; try assumption.
    destruct H as [Hk Hp]. destruct pos as [p|]; [|exact Hk].
    destruct Hp as [t [Hin Hpt]]. split; [right; exact Hk|].
    pose proof (ctiles_in_start _ _ _ t Ht Hin). lia.
  - cbn [safe_on]. pose proof (ctokenize_error_inside vm s p E). split; [left; reflexivity|lia].
  - exfalso. eapply ctokenize_no_internal; exact E.
Qed.

(* ------------------------------------------------------------------ resolver: raw snippets' fields *)
Lemma field_at_digits s digits ph len :
  field_at s = Some (digits, ph, len) -> all_digits digits /\ digits <> [].
Proof.
  unfold field_at. destruct s as [|c1 [|c2 r]]; try discriminate.
  destruct ((c1 =? c_dollar)%N && (c2 =? c_lbrace)%N); [|discriminate].
  pose proof (cspan_forall is_number r) as Hall.
  destruct (cspan is_number r) as [|nd'] eqn:End; [discriminate|].
  assert (Hne : firstn (S nd') r <> []).
  { intros E. apply (f_equal (@length _)) in E. rewrite firstn_length in E.
    pose proof (cspan_le is_number r). cbn [length] in E. lia. }
  destruct (skipn (S nd') r) as [|c r2]; [discriminate|].
  destruct (c =? c_rbrace)%N.
  - intros H. inversion H; subst. split; assumption.
  - destruct (c =? c_colon)%N; [|discriminate].
    destruct (cspan (fun x => negb (x =? c_rbrace)%N) r2); [discriminate|].
    destruct (cpeek_is c_rbrace _); [|discriminate].
    intros H. inversion H; subst. split; assumption.
Qed.

Lemma split_fields_ok : forall s skip cur, exists segs, split_fields s skip cur = Ok segs.
Proof.
  induction s as [|c r IH]; intros skip cur; cbn [split_fields]; [eexists; reflexivity|].
  destruct skip as [|k]; [|apply IH].
  destruct (field_at (c :: r)) as [[[digits ph] len]|] eqn:E; [|apply IH].
  destruct (field_at_digits _ _ _ _ E) as [Hd Hne].
  destruct (int_of_str_ok digits Hd Hne) as [idx Hidx]. rewrite Hidx.
  destruct (IH (pred len) []) as [rest Hrest]. rewrite Hrest. cbn [bind]. eexists; reflexivity.
Qed.

Lemma resolve_as_snippet_ok node value : exists n, resolve_as_snippet node value = Ok n.
Proof.
  unfold resolve_as_snippet. destruct (split_fields_ok value 0 []) as [segs H]. rewrite H.
  cbn [bind]. eexists; reflexivity.
Qed.

Lemma finish_ok cfg (r : res cssprop) :
  (exists x, r = Ok x) ->
  exists n, (let* resolved := r in
             match pname resolved, c_context cfg with
             | None, None => Ok resolved
             | _, _ => Ok (resolve_numeric_value cfg resolved)
             end) = Ok n.
Proof. intros [x ->]. cbn [bind]. destruct (pname x), (c_context cfg); eexists; reflexivity. Qed.

Lemma resolve_node_ok cfg sn node : exists n, resolve_node cfg sn node = Ok n.
Proof.
  unfold resolve_node. apply finish_ok.
  destruct (resolve_gradient cfg node); [eexists; reflexivity|]. cbv zeta.
  destruct (is_value_scope cfg); [eexists; reflexivity|].
  destruct (pname node) as [name|]; [|eexists; reflexivity].
  destruct (find_best_match sn_key name sn (c_min_score cfg) true) as [[key value|key prop value kws deps]|];
    try (eexists; reflexivity).
  apply resolve_as_snippet_ok.
Qed.

Lemma map_res_ok {A B} (f : A -> res B) : forall l,
  (forall x, exists y, f x = Ok y) -> exists ys, map_res f l = Ok ys.
Proof.
  induction l as [|x l IH]; intros H; cbn [map_res]; [eexists; reflexivity|].
  destruct (H x) as [y Hy]. rewrite Hy. cbn [bind]. destruct (IH H) as [ys Hys]. rewrite Hys. cbn [bind].
  eexists; reflexivity.
Qed.

(* resolve + format add no failure of their own: the outcome class of expand_with is that of css_parse *)
Theorem expand_with_safe cfg sn abbr : safe_on (length abbr) (expand_with cfg sn abbr).
Proof.
  unfold expand_with, parse_with.
  pose proof (css_parse_safe (is_value_scope cfg) abbr) as H.
  destruct (css_parse (is_value_scope cfg) abbr) as [nodes|k pos|k|]; cbn [bind safe_on] in *; try assumption.
  destruct (map_res_ok (resolve_node cfg (get_snippets_for_scope sn cfg)) nodes) as [ys Hys].
  { intros x. apply resolve_node_ok. }
  rewrite Hys. exact I.
Qed.

(* wf_cfg: the snippet table converts (every property snippet's value parses) *)
Definition wf_cfg (cfg : sconfig) : Prop := exists sn, convert_snippets (c_snippets cfg) = Ok sn.

Theorem expand_css_safe cfg abbr : wf_cfg cfg -> safe_on (length abbr) (expand_css cfg abbr).
Proof.
  intros [sn H]. unfold expand_css. rewrite H. cbn [bind]. apply expand_with_safe.
Qed.

(* the built-in table is well formed (complete sweep over the regenerated table, by evaluation) *)
Definition is_ok_res {A} (r : res A) : bool := match r with Ok _ => true | _ => false end.
Lemma is_ok_res_ex {A} (r : res A) : is_ok_res r = true -> exists a, r = Ok a.
Proof. destruct r; cbn; intros H; try discriminate. eexists; reflexivity. Qed.

Theorem builtin_table_converts : exists sn, convert_snippets css_snippets = Ok sn.
Proof. rewrite builtin_converted_eq. apply is_ok_res_ex. vm_compute. reflexivity. Qed.

(* ------------------------------------------------------------------ the supplied fuel always suffices *)
Lemma p_value_args_fuel : forall f,
  (forall in_arg ts acc, 2 * length ts + 1 <= f ->
     match p_value f in_arg ts acc with
     | Ok (v, rest) => length v + length rest <= length acc + length ts
     | OutOfFuel => False
     | _ => True
     end) /\
  (forall ts acc, 2 * length ts + 2 <= f ->
     match p_args f ts acc with
     | Ok (_, rest) => length rest <= length ts
     | OutOfFuel => False
     | _ => True
     end).
Proof.
  induction f as [|f [IHv IHa]]; [split; intros; lia|].
  split.
  - intros in_arg ts acc Hf. cbn [p_value]. destruct ts as [|t ts']; [rewrite rev_length; cbn [length]; lia|].
    cbn [length] in Hf.
    assert (Hplain : forall acc',
               length acc' <= S (length acc) ->
               match p_value f in_arg ts' acc' with
               | Ok (v, rest) => length v + length rest <= length acc + length (t :: ts')
               | OutOfFuel => False
               | _ => True
               end).
    { intros acc' Hacc. pose proof (IHv in_arg ts' acc') as H.
      destruct (p_value f in_arg ts' acc') as [[v rest]|k pos|k|]; try exact I.
      - cbn [length]. specialize (H ltac:(lia)). lia.
      - apply H. lia. }
    destruct (k_is_value (ck t)).
    + destruct (ck t) as [name| | | | | | | |]; try (apply Hplain; cbn [length]; lia).
      destruct ts' as [|b ts'']; [apply Hplain; cbn [length]; lia|].
      destruct (k_is_open_bracket (ck b)); [|apply Hplain; cbn [length]; lia].
      cbn [length] in Hf.
      pose proof (IHa ts'' []) as Ha.
      destruct (p_args f ts'' []) as [[args rest]|k pos|k|]; cbn [bind]; try exact I.
      * specialize (Ha ltac:(lia)).
        pose proof (IHv in_arg rest (VFunc name args :: acc)) as H.
        destruct (p_value f in_arg rest (VFunc name args :: acc)) as [[v rest']|k pos|k|]; try exact I.
        -- specialize (H ltac:(lia)). cbn [length] in *. lia.
        -- apply H. lia.
      * apply Ha. lia.
    + destruct (k_is_value_delimiter (ck t) || (in_arg && k_is_white_space (ck t))).
      * apply Hplain. lia.
      * rewrite rev_length. cbn [length]. lia.
  - intros ts acc Hf. cbn [p_args]. destruct ts as [|t ts']; [cbn [length]; lia|].
    cbn [length] in Hf.
    destruct (k_is_close_bracket (ck t)); [cbn [length]; lia|].
    pose proof (IHv true (t :: ts') []) as Hv.
    destruct (p_value f true (t :: ts') []) as [[v rest]|k pos|k|]; cbn [bind]; try exact I.
    + cbn [length] in Hv. specialize (Hv ltac:(lia)).
      assert (Hrec : forall rest' acc', length rest' <= length ts' ->
                 match p_args f rest' acc' with
                 | Ok (_, r) => length r <= length (t :: ts')
                 | OutOfFuel => False
                 | _ => True
                 end).
      { intros rest' acc' Hl. pose proof (IHa rest' acc') as H.
        destruct (p_args f rest' acc') as [[x r]|k pos|k|]; try exact I.
        - specialize (H ltac:(lia)). cbn [length]. lia.
        - apply H. lia. }
      destruct v as [|x v'].
      * destruct rest as [|t2 rest']; [exact I|].
        destruct (k_is_white_space (ck t2) || k_is_argument_delimiter (ck t2)); [|exact I].
        apply Hrec. cbn [length] in Hv. lia.
      * apply Hrec. cbn [length] in Hv. lia.
    + apply Hv. cbn [length]. lia.
Qed.

Lemma p_value_fuel in_arg ts :
  match p_value (S (S (2 * length ts))) in_arg ts [] with
  | Ok (v, rest) => length v + length rest <= length ts
  | OutOfFuel => False
  | _ => True
  end.
Proof.
  pose proof (proj1 (p_value_args_fuel (S (S (2 * length ts)))) in_arg ts []) as H.
  destruct (p_value (S (S (2 * length ts))) in_arg ts []) as [[v rest]|k pos|k|]; try exact I.
  - specialize (H ltac:(lia)). cbn [length] in H. lia.
  - apply H. lia.
Qed.

Lemma p_prop_loop_fuel : forall f vm ts imp vals, length ts + 1 <= f ->
  match p_prop_loop f vm ts imp vals with
  | Ok (imp', vals', rest) =>
      length rest <= length ts /\ (length rest < length ts \/ (imp' = imp /\ length vals' = length vals))
  | OutOfFuel => False
  | _ => True
  end.
Proof.
  induction f as [|f IH]; intros vm ts imp vals Hf; [lia|].
  cbn [p_prop_loop]. destruct ts as [|t ts']; [rewrite rev_length; split; [lia|right; split; reflexivity]|].
  cbn [length] in Hf.
  assert (Hrec : forall rest' imp0 vals0, length rest' <= length ts' ->
             match p_prop_loop f vm rest' imp0 vals0 with
             | Ok (imp', vals', rest) =>
                 length rest <= length (t :: ts') /\
                 (length rest < length (t :: ts') \/ (imp' = imp /\ length vals' = length vals))
             | OutOfFuel => False
             | _ => True
             end).
  { intros rest' imp0 vals0 Hl. pose proof (IH vm rest' imp0 vals0) as H.
    destruct (p_prop_loop f vm rest' imp0 vals0) as [[[i v] r]|k pos|k|]; try exact I.
    - specialize (H ltac:(lia)). cbn [length]. split; [lia|left; lia].
    - apply H. lia. }
  destruct (k_is_important (ck t)); [apply Hrec; lia|].
  pose proof (p_value_fuel vm (t :: ts')) as Hv.
  destruct (p_value _ vm (t :: ts') []) as [[v rest]|k pos|k|]; cbn [bind]; try exact I; try contradiction.
  cbn [length] in Hv.
  destruct v as [|x v'].
  - destruct rest as [|t2 rest']; [rewrite rev_length; cbn [length]; split; [lia|left; lia]|].
    destruct (k_is_fragment_delimiter (ck t2)).
    + apply Hrec. cbn [length] in Hv. lia.
    + rewrite rev_length. cbn [length] in *. split; [lia|right; split; reflexivity].
  - apply Hrec. cbn [length] in Hv. lia.
Qed.

Lemma p_property_fuel vm ts :
  match p_property vm ts with
  | Ok (Some _, rest) => length rest < length ts
  | Ok (None, rest) => length rest <= length ts
  | OutOfFuel => False
  | _ => True
  end.
Proof.
  unfold p_property.
  set (nt := match ts with
             | t :: ts' => match ck t with
                           | CLiteral v => if negb vm && negb (is_function_start ts)
                                           then (Some v, match ts' with
                                                         | d :: ts'' => if k_is_value_delimiter (ck d) then ts'' else ts'
                                                         | [] => ts'
                                                         end)
                                           else (None, ts)
                           | _ => (None, ts)
                           end
             | [] => (None, ts)
             end).
  assert (H1 : length (snd nt) <= length ts /\ (fst nt <> None -> length (snd nt) < length ts)).
  { subst nt. destruct ts as [|t ts']; [cbn; split; [lia|congruence]|].
    destruct (ck t); try (cbn [fst snd]; split; [lia|congruence]).
    destruct (negb vm && negb (is_function_start (t :: ts'))); [|cbn [fst snd]; split; [lia|congruence]].
    cbn [fst snd]. destruct ts' as [|d ts'']; [cbn [length]; split; intros; lia|].
    destruct (k_is_value_delimiter (ck d)); cbn [length]; split; intros; lia. }
  destruct nt as [name ts1]. cbn [fst snd] in H1. destruct H1 as [H1 H1'].
  set (ts2 := if vm then match ts1 with
                         | w :: r => if k_is_white_space (ck w) then r else ts1
                         | [] => ts1
                         end else ts1).
  assert (H2 : length ts2 <= length ts1).
  { subst ts2. destruct vm; [|lia]. destruct ts1 as [|w r]; [lia|].
    destruct (k_is_white_space (ck w)); cbn [length]; lia. }
  pose proof (p_prop_loop_fuel (S (2 * length ts2)) vm ts2 false [] ltac:(lia)) as Hl.
  destruct (p_prop_loop _ vm ts2 false []) as [[[imp vals] rest]|k pos|k|]; cbn [bind]; try exact I; try contradiction.
  destruct Hl as [Hle Hd].
  destruct name as [nm|].
  - specialize (H1' ltac:(congruence)). lia.
  - destruct vals as [|v vs].
    + destruct imp; [|lia].
      destruct Hd as [Hd|[Hd _]]; [lia|discriminate].
    + destruct Hd as [Hd|[_ Hd]]; [lia|cbn [length] in Hd; lia].
Qed.

Lemma p_loop_fuel : forall f vm ts acc, length ts + 1 <= f -> p_loop f vm ts acc <> OutOfFuel.
Proof.
  induction f as [|f IH]; intros vm ts acc Hf; [lia|].
  cbn [p_loop]. destruct ts as [|t0 ts0]; [discriminate|].
  cbn [length] in Hf.
  pose proof (p_property_fuel vm (t0 :: ts0)) as Hp.
  destruct (p_property vm (t0 :: ts0)) as [[po rest]|k pos|k|]; cbn [bind]; try discriminate; try contradiction.
  destruct po as [p|].
  - apply IH. cbn [length] in Hp. lia.
  - destruct rest as [|t rest']; [discriminate|].
    destruct (k_is_sibling (ck t)); [|discriminate].
    apply IH. cbn [length] in Hp. lia.
Qed.

Theorem parser_fuel_suffices vm ts : parser vm ts <> OutOfFuel.
Proof. apply p_loop_fuel. lia. Qed.

Theorem css_parse_fuel vm s : css_parse vm s <> OutOfFuel.
Proof.
  unfold css_parse. destruct (ctokenize vm s); try discriminate. apply parser_fuel_suffices.
Qed.

Theorem expand_with_fuel cfg sn abbr : expand_with cfg sn abbr <> OutOfFuel.
Proof.
  unfold expand_with, parse_with.
  pose proof (css_parse_fuel (is_value_scope cfg) abbr) as H.
  destruct (css_parse (is_value_scope cfg) abbr) as [nodes|k pos|k|]; cbn [bind]; try discriminate; try contradiction.
  destruct (map_res_ok (resolve_node cfg (get_snippets_for_scope sn cfg)) nodes) as [ys Hys].
  { intros x. apply resolve_node_ok. }
  rewrite Hys. discriminate.
Qed.

(* the full C07 shape for the stylesheet pipeline *)
Definition expand_outcome_ok (n : nat) (r : res str) : Prop :=
  match r with
  | Ok _ => True
  | ParseErr k (Some p) => (k = EK_Scanner \/ k = EK_Token) /\ (0 <= p <= Z.of_nat n)%Z
  | ParseErr k None => k = EK_Token
  | Internal _ => False
  | OutOfFuel => False
  end.

Theorem expand_css_safe_full cfg abbr : wf_cfg cfg -> expand_outcome_ok (length abbr) (expand_css cfg abbr).
Proof.
  intros [sn H]. unfold expand_css. rewrite H. cbn [bind].
  pose proof (expand_with_safe cfg sn abbr) as H1. pose proof (expand_with_fuel cfg sn abbr) as H2.
  destruct (expand_with cfg sn abbr) as [x|k pos|k|]; cbn [safe_on expand_outcome_ok] in *; try assumption.
  congruence.
Qed.

(* combined forms used by props/C07Css.v *)
Lemma expand_with_safe_and_fuel cfg sn abbr :
  safe_on (length abbr) (expand_with cfg sn abbr) /\ expand_with cfg sn abbr <> OutOfFuel.
Proof. split; [apply expand_with_safe|apply expand_with_fuel]. Qed.

Lemma parser_safe_and_fuel vm ts : good_final ts (parser vm ts) /\ parser vm ts <> OutOfFuel.
Proof. split; [apply parser_safe|apply parser_fuel_suffices]. Qed.

Lemma css_parse_safe_and_fuel vm s : safe_on (length s) (css_parse vm s) /\ css_parse vm s <> OutOfFuel.
Proof. split; [apply css_parse_safe|apply css_parse_fuel]. Qed.
