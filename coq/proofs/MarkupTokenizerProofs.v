(* C18 (markup half): the token spans of MarkupTokenizer.tokenize tile the input. *)
From Emmet Require Import lib.Base model.MarkupTokenizer.
Local Open Scope nat_scope.

Fixpoint tiles (l : list token) (a b : nat) : Prop :=
  match l with
  | [] => a = b
  | t :: r => tstart t = a /\ a < tend t /\ tiles r (tend t) b
  end.

Lemma span_le p s : span p s <= length s.
Proof. induction s as [|c r IH]; simpl; [lia|]. destruct (p c); simpl; lia. Qed.

Lemma skipn_length_le {A} n (l : list A) : length (skipn n l) = length l - n.
Proof. apply skipn_length. Qed.

(* consume_placeholder never runs past the end, and every recorded '{' offset
   lies inside the scanned text *)
Lemma placeholder_bound : forall s st off n st',
  placeholder s st off = (n, st') ->
  Forall (fun o => o <= off + length s) st ->
  off <= n <= off + length s /\ Forall (fun o => o <= off + length s) st'.
Proof.
  induction s as [|c r IH]; intros st off n st' H HF; cbn [placeholder] in H.
  - inversion H; subst. simpl in *. split; [lia|]. exact HF.
  - cbn [length].
    assert (HF' : Forall (fun o => o <= S off + length r) st).
    { eapply Forall_impl; [|exact HF]. cbn [length]. intros; lia. }
    destruct (c =? c_lbrace)%N.
    + apply IH in H.
      * destruct H as [H1 H2]. split; [lia|]. eapply Forall_impl; [|exact H2]. intros; simpl in *; lia.
      * constructor; [lia|exact HF'].
    + destruct (c =? c_rbrace)%N.
      * destruct st as [|o st].
        -- inversion H; subst. split; [lia|constructor].
        -- apply IH in H.
           ++ destruct H as [H1 H2]. split; [lia|]. eapply Forall_impl; [|exact H2]. intros; simpl in *; lia.
           ++ inversion HF'; assumption.
      * apply IH in H; [|exact HF'].
        destruct H as [H1 H2]. split; [lia|]. eapply Forall_impl; [|exact H2]. intros; simpl in *; lia.
Qed.

Lemma placeholder_nil s n st' :
  placeholder s [] 0 = (n, st') -> n <= length s /\ Forall (fun o => o <= length s) st'.
Proof.
  intros H. apply placeholder_bound in H; [|constructor]. simpl in H. destruct H; split; [lia|assumption].
Qed.

Definition cres_ok (r : cres) (len : nat) : Prop :=
  match r with
  | CNone => True
  | CTok _ n => 1 <= n <= len
  | CErr off => off <= len
  end.

Lemma peek_is_len c s : peek_is c s = true -> 1 <= length s.
Proof. destruct s; simpl; [discriminate|lia]. Qed.

Lemma peek_is_skipn c n s : peek_is c (skipn n s) = true -> n + 1 <= length s.
Proof. intros H. apply peek_is_len in H. rewrite skipn_length in H. lia. Qed.

Lemma tl_skipn_length {A} n (l : list A) : length (tl (skipn n l)) = length l - n - 1.
Proof. pose proof (skipn_length n l). destruct (skipn n l); simpl in *; lia. Qed.

Lemma field_ok ctx s : cres_ok (field ctx s) (length s).
Proof.
  unfold field. destruct (truthy (cexpr ctx) || truthy (cattr ctx)); [|exact I].
  destruct s as [|c1 [|c2 r]]; try exact I.
  destruct ((c1 =? c_dollar)%N && (c2 =? c_lbrace)%N); [|exact I].
  pose proof (span_le is_number r) as Hsp.
  cbn [length].
  generalize dependent (span is_number r). intros nd Hsp.
  destruct nd as [|nd'].
  - destruct (peek_p is_alpha r).
    + destruct (placeholder r [] 0) as [n st] eqn:Hp.
      apply placeholder_nil in Hp. destruct Hp as [Hn Hst].
      destruct st as [|o st].
      * destruct (peek_is c_rbrace (skipn n r)) eqn:Hk; cbn [cres_ok].
        -- apply peek_is_skipn in Hk. lia.
        -- lia.
      * cbn [cres_ok]. inversion Hst; subst. lia.
    + destruct (peek_is c_rbrace (skipn 0 r)) eqn:Hk; cbn [cres_ok].
      * apply peek_is_skipn in Hk. lia.
      * lia.
  - remember (S nd') as nd eqn:End.
    destruct (peek_is c_colon (skipn nd r)) eqn:Hc.
    + apply peek_is_skipn in Hc.
      destruct (placeholder (tl (skipn nd r)) [] 0) as [n st] eqn:Hp.
      apply placeholder_nil in Hp. destruct Hp as [Hn Hst].
      rewrite tl_skipn_length in Hn, Hst.
      destruct st as [|o st].
      * destruct (peek_is c_rbrace (skipn (nd + 1 + n) r)) eqn:Hk; cbn [cres_ok].
        -- apply peek_is_skipn in Hk. lia.
        -- lia.
      * cbn [cres_ok]. inversion Hst; subst. lia.
    + destruct (peek_is c_rbrace (skipn nd r)) eqn:Hk; cbn [cres_ok].
      * apply peek_is_skipn in Hk. lia.
      * lia.
Qed.

Lemma repeater_placeholder_ok s : cres_ok (repeater_placeholder s) (length s).
Proof.
  unfold repeater_placeholder. destruct s as [|c1 [|c2 r]]; try exact I.
  destruct ((c1 =? c_dollar)%N && (c2 =? c_hash)%N); simpl; lia.
Qed.

Lemma tl_length {A} (l : list A) : length (tl l) = length l - 1.
Proof. destruct l; simpl; lia. Qed.

Lemma repeater_number_ok s : cres_ok (repeater_number s) (length s).
Proof.
  unfold repeater_number.
  pose proof (span_le (N.eqb c_dollar) s) as H1.
  destruct (span (N.eqb c_dollar) s) as [|sz] eqn:E; [exact I|].
  set (r := skipn (S sz) s).
  assert (Hr : length r = length s - S sz) by apply skipn_length.
  destruct (peek_is c_at r) eqn:Hat; [|simpl; lia].
  apply peek_is_len in Hat.
  set (r1 := tl r). assert (Hr1 : length r1 = length r - 1) by apply tl_length.
  pose proof (span_le (N.eqb c_caret) r1) as H2.
  set (parent := span (N.eqb c_caret) r1) in *.
  set (r2 := skipn parent r1). assert (Hr2 : length r2 = length r1 - parent) by apply skipn_length.
  destruct (peek_is c_dash r2) eqn:Hd.
  - apply peek_is_len in Hd.
    pose proof (span_le is_number (tl r2)) as H3. rewrite tl_length in H3.
    simpl. lia.
  - pose proof (span_le is_number r2) as H3. simpl. lia.
Qed.

Lemma repeater_ok ctx s : cres_ok (repeater ctx s) (length s).
Proof.
  unfold repeater. destruct s as [|c r]; [exact I|].
  destruct (is_allowed_repeater c ctx && _); [|exact I].
  pose proof (span_le is_number r). destruct (span is_number r); simpl; lia.
Qed.

Lemma white_space_ok s : cres_ok (white_space s) (length s).
Proof.
  unfold white_space. pose proof (span_le is_space s). destruct (span is_space s); simpl; [exact I|lia].
Qed.

Lemma lit_bound : forall s q a es e prev esc v n e',
  lit q a es e prev esc s = (v, n, e') -> n <= length s.
Proof.
  induction s as [|c r IH]; intros q a es e prev esc v n e' H; cbn [lit] in H.
  - inversion H; subst. simpl. lia.
  - cbn [length].
    repeat match type of H with
    | context [lit ?q ?a ?es ?e ?p ?b r] =>
        let E := fresh "E" in destruct (lit q a es e p b r) as [[? ?] ?] eqn:E; apply IH in E;
        inversion H; subst; clear H; lia
    | context [if ?b then _ else _] => destruct b
    | ([], 0, _) = _ => inversion H; subst; clear H; lia
    end.
Qed.

Lemma single_ok (r : cres) (s : str) :
  (match r with CTok _ n => n = 1 /\ s <> [] | CNone => True | CErr _ => False end) -> cres_ok r (length s).
Proof. destruct r; simpl; auto; [|tauto]. intros [-> H]. destruct s; [congruence|simpl; lia]. Qed.

Lemma operator_ok s : cres_ok (operator s) (length s).
Proof. apply single_ok. unfold operator. destruct s; [exact I|]. destruct (operator_type c); [split; [reflexivity|discriminate]|exact I]. Qed.
Lemma quote_ok s : cres_ok (quote s) (length s).
Proof. apply single_ok. unfold quote. destruct s; [exact I|]. destruct (is_quote c); [split; [reflexivity|discriminate]|exact I]. Qed.
Lemma bracket_ok s : cres_ok (bracket s) (length s).
Proof. apply single_ok. unfold bracket. destruct s; [exact I|]. destruct (bracket_type c); [split; [reflexivity|discriminate]|exact I]. Qed.

Lemma orelse_ok a b len : cres_ok a len -> cres_ok (b tt) len -> cres_ok (orelse a b) len.
Proof. destruct a; simpl; auto. Qed.

Lemma consume_ok ctx prev s : cres_ok (fst (consume ctx prev s)) (length s).
Proof.
  unfold consume.
  set (first := orelse (field ctx s) _).
  assert (Hf : cres_ok first (length s)).
  { unfold first. repeat apply orelse_ok;
      auto using field_ok, repeater_placeholder_ok, repeater_number_ok, repeater_ok, white_space_ok. }
  destruct first; try exact Hf.
  destruct (lit (cquote ctx) (cattr ctx) (Z.min (cexpr ctx) 1) (cexpr ctx) prev false s) as [[v n] e] eqn:El.
  apply lit_bound in El.
  destruct n; cbn [fst].
  - repeat apply orelse_ok; auto using operator_ok, quote_ok, bracket_ok.
  - simpl. lia.
Qed.

Lemma toks_tiles : forall s skip ctx prev pos l,
  skip <= length s ->
  toks skip ctx prev pos s = TOk l ->
  tiles l (pos + skip) (pos + length s).
Proof.
  induction s as [|c r IH]; intros skip ctx prev pos l Hs H.
  - simpl in *. inversion H; subst. simpl. lia.
  - cbn [toks] in H. cbn [length] in *. destruct skip as [|k].
    + pose proof (consume_ok ctx prev (c :: r)) as Hc.
      destruct (consume ctx prev (c :: r)) as [cr ctx']. cbn [fst] in Hc.
      destruct cr as [|k n|off]; try discriminate.
      destruct (toks (pred n) ctx' (Some c) (S pos) r) as [l'|] eqn:Ht; [|discriminate].
      inversion H; subst; clear H. simpl in Hc. cbn [length] in Hc.
      apply IH in Ht; [|lia].
      cbn [tiles tstart tend]. split; [lia|]. split; [lia|].
      replace (pos + n) with (S pos + pred n) by lia.
      replace (pos + S (length r)) with (S pos + length r) by lia. exact Ht.
    + apply IH in H; [|lia].
      replace (pos + S k) with (S pos + k) by lia.
      replace (pos + S (length r)) with (S pos + length r) by lia. exact H.
Qed.

Lemma toks_err : forall s skip ctx prev pos p,
  toks skip ctx prev pos s = TErr p -> pos <= p <= pos + length s.
Proof.
  induction s as [|c r IH]; intros skip ctx prev pos p H; [discriminate|].
  cbn [toks] in H. cbn [length]. destruct skip.
  - pose proof (consume_ok ctx prev (c :: r)) as Hc.
    destruct (consume ctx prev (c :: r)) as [cr ctx']. cbn [fst] in Hc.
    destruct cr as [|k n|off].
    + inversion H; lia.
    + destruct (toks (pred n) ctx' (Some c) (S pos) r) eqn:Ht; [discriminate|].
      inversion H; subst. apply IH in Ht. lia.
    + inversion H; subst. simpl in Hc. cbn [length] in Hc. lia.
  - apply IH in H. lia.
Qed.

Theorem tokenize_tiles s l : tokenize s = TOk l -> tiles l 0 (length s).
Proof. intros H. apply (toks_tiles s 0 ctx0 None 0 l) in H; [|lia]. simpl in H. exact H. Qed.

Theorem tokenize_error_inside s p : tokenize s = TErr p -> p <= length s.
Proof. intros H. apply toks_err in H. simpl in H. lia. Qed.

(* every token maps back to the exact characters that produced it: the
   concatenation of the source slices of the tokens is the source *)
Lemma firstn_plus {A} : forall n k (l : list A), firstn (n + k) l = firstn n l ++ firstn k (skipn n l).
Proof. induction n as [|n IH]; intros k l; [reflexivity|]. destruct l; simpl; [destruct k; reflexivity|]. rewrite IH. reflexivity. Qed.

Lemma skipn_plus {A} : forall n k (l : list A), skipn n (skipn k l) = skipn (n + k) l.
Proof. intros n k; revert n. induction k as [|k IH]; intros n l; [rewrite Nat.add_0_r; reflexivity|].
  destruct l; [rewrite !skipn_nil; reflexivity|]. rewrite Nat.add_succ_r. simpl. apply IH. Qed.

Lemma slice_app {A} (s : list A) a m b : a <= m -> m <= b -> slice s a m ++ slice s m b = slice s a b.
Proof.
  intros H1 H2. unfold slice.
  replace (b - a) with ((m - a) + (b - m)) by lia. rewrite firstn_plus.
  rewrite skipn_plus. replace (m - a + a) with m by lia. reflexivity.
Qed.

Lemma tiles_le : forall l a b, tiles l a b -> a <= b.
Proof. induction l as [|u l IH]; intros a b H; cbn [tiles] in H; [lia|]. destruct H as [? [? H]]. apply IH in H. lia. Qed.

Lemma tiles_concat : forall l (s : str) a b,
  tiles l a b ->
  concat (map (fun t => slice s (tstart t) (tend t)) l) = slice s a b.
Proof.
  induction l as [|t l IH]; intros s a b H; cbn [tiles] in H.
  - subst. unfold slice. rewrite Nat.sub_diag. reflexivity.
  - destruct H as [Ha [Hlt Ht]]. cbn [map concat]. rewrite (IH s (tend t) b Ht). subst a.
    apply slice_app; [lia|]. eapply tiles_le; eassumption.
Qed.

Theorem tokenize_lossless s l :
  tokenize s = TOk l -> concat (map (fun t => slice s (tstart t) (tend t)) l) = s.
Proof.
  intros H. apply tokenize_tiles in H. rewrite (tiles_concat l s 0 (length s) H).
  unfold slice. simpl. rewrite Nat.sub_0_r. apply firstn_all.
Qed.
