(* C04 -- readable consequences of WrapFull.conv_stmt_specw:
   (A) a tree without implicit repeaters (explicit `*N` at any depth, `$#` anywhere) unrolls exactly as C02's
       budgeted spec [unroll_b]; the only trace it leaves on the flags is "a `$#` was met";
   (B) X* over a line list, X with explicit repeaters at any depth: one copy per non-blank line, copy i is X
       converted under the stack (n, i, implicit) :: enclosing, and -- when X holds no `$#` -- the trimmed
       line i appended to the deepest last element of the copy;
   (C) under that stack every `$#` of the copy, at whatever depth below explicit repeaters, prints line i. *)
From Coq Require Import ZArith List Bool Lia ZifyBool.
From Emmet Require Import lib.Base model.MarkupTokenizer model.MarkupParser model.MarkupConvert.
From Emmet Require Import proofs.NumberingProofs proofs.ConvertProofs proofs.TextSpec proofs.TextConvert proofs.WrapFull.
Local Open Scope Z_scope.

(* no implicit repeater on the node or below; `$#` allowed *)
Fixpoint explicit_node (n : tnode) : bool :=
  match n with
  | TElem _ _ _ rp _ els => clean_rep rp && forallb explicit_node els
  | TGroup els rp => clean_rep rp && forallb explicit_node els
  end.

(* a `$#` occurs somewhere in the tree *)
Fixpoint ph_node (n : tnode) : bool :=
  match n with
  | TElem name attrs value _ _ els => ph_otoks name || ph_otoks value || ph_oattrs attrs || existsb ph_node els
  | TGroup els _ => existsb ph_node els
  end.

(* state after a part that met a `$#` iff [p], with budget [b] left *)
Definition w_mk (p : bool) (w : wst) (b : Z) : wst := w_mark p (mkW b (w_ins w) (w_tins w)).

Lemma w_mk_budget p w b : w_budget (w_mk p w b) = b.
Proof. destruct p; reflexivity. Qed.
Lemma w_mk_mk p q w b b' : w_mk q (w_mk p w b) b' = w_mk (p || q) w b'.
Proof. destruct p, q; reflexivity. Qed.
Lemma w_mk_dec p w b : w_dec (w_mk p w b) = w_mk p w (b - 1).
Proof. destruct p; reflexivity. Qed.
Lemma w_mark_mk p w : w_mark p w = w_mk p w (w_budget w).
Proof. destruct w, p; reflexivity. Qed.
Lemma w_mark_w_mk q p w b : w_mark q (w_mk p w b) = w_mk (p || q) w b.
Proof. destruct p, q; reflexivity. Qed.
Lemma w_mk_false w : w_mk false w (w_budget w) = w.
Proof. destruct w; reflexivity. Qed.

(* ================================================================ (A) explicit trees *)
Definition expl_ok (env : cenv) (node : tnode) : Prop :=
  forall reps w,
    unroll_w env reps node w =
    (fst (unroll_b env reps node (w_budget w)), w_mk (ph_node node) w (snd (unroll_b env reps node (w_budget w)))).

Lemma list_w_explicit env reps : forall els, Forall (expl_ok env) els ->
  forall w,
    list_w (unroll_w env reps) els w =
    (fst (list_b (unroll_b env reps) els (w_budget w)),
     w_mk (existsb ph_node els) w (snd (list_b (unroll_b env reps) els (w_budget w)))).
Proof.
  induction els as [|c l IH]; intros H w.
  - cbn [list_w list_b fst snd existsb]. rewrite w_mk_false. reflexivity.
  - inversion H as [|x y Hc Hl]; subst. cbn [list_w list_b existsb].
    rewrite (Hc reps w). destruct (unroll_b env reps c (w_budget w)) as [x b1]. cbn [fst snd].
    rewrite (IH Hl). rewrite w_mk_budget.
    destruct (list_b (unroll_b env reps) l b1) as [y b2]. cbn [fst snd]. rewrite w_mk_mk. reflexivity.
Qed.

Definition ph_own (node : tnode) : bool :=
  match node with
  | TElem name attrs value _ _ els => ph_otoks name || ph_otoks value || ph_oattrs attrs || existsb ph_node els
  | TGroup els _ => existsb ph_node els
  end.
Lemma ph_node_own node : ph_node node = ph_own node.
Proof. destruct node; reflexivity. Qed.

(* one conversion of the unit, children explicit (whatever repeater the unit itself carries) *)
Lemma once_w_explicit env node :
  Forall (expl_ok env) (elements_of' node) ->
  forall cur reps w,
    once_w env node cur reps w =
    (fst (once_b env node cur reps (w_budget w)), w_mk (ph_node node) w (snd (once_b env node cur reps (w_budget w)))).
Proof.
  intros H cur reps w. rewrite ph_node_own.
  destruct node as [name attrs value r sc els|els r]; cbn [once_w once_b elements_of' ph_own] in *.
  - rewrite (list_w_explicit env reps els H). rewrite w_mark_budget.
    destruct (list_b (unroll_b env reps) els (w_budget w)) as [kids b1]. cbn [fst snd].
    f_equal.
    destruct (ph_otoks name), (ph_otoks value), (ph_oattrs attrs), (existsb ph_node els); reflexivity.
  - rewrite (list_w_explicit env reps els H).
    destruct (list_b (unroll_b env reps) els (w_budget w)) as [items b1]. reflexivity.
Qed.

Lemma copies_w_explicit (f : N -> wst -> list anode * wst) (g : N -> Z -> list anode * Z) (p : bool) :
  (forall i w, f i w = (fst (g i (w_budget w)), w_mk p w (snd (g i (w_budget w))))) ->
  forall k i w,
    copies_w f k i w =
    (fst (copies_b g k i (w_budget w)),
     w_mk (p && negb (Nat.eqb k 0)) w (snd (copies_b g k i (w_budget w)))).
Proof.
  intros Hf. induction k as [|k IH]; intros i w.
  - cbn [copies_w copies_b fst snd Nat.eqb negb]. rewrite andb_false_r, w_mk_false. reflexivity.
  - cbn [copies_w copies_b Nat.eqb negb]. rewrite andb_true_r. rewrite Hf.
    destruct (g i (w_budget w)) as [x b1]. cbn [fst snd].
    rewrite w_mk_dec, w_mk_budget.
    destruct (b1 - 1 <=? 0); [reflexivity|].
    rewrite IH, w_mk_budget.
    destruct (copies_b g k (i + 1)%N (b1 - 1)) as [y b3]. cbn [fst snd]. rewrite w_mk_mk.
    f_equal. f_equal. destruct p; reflexivity.
Qed.

Lemma written_count_nat_pos r : Nat.eqb (N.to_nat (written_count r)) 0 = false.
Proof. pose proof (written_count_pos r). apply Nat.eqb_neq. lia. Qed.

Lemma copies_of_explicit env r0 : rimplicit r0 = false -> copies_of env r0 = written_count r0.
Proof. intros H. unfold copies_of. rewrite H. reflexivity. Qed.

Lemma node_explicit env node :
  clean_rep (node_rep node) = true -> Forall (expl_ok env) (elements_of' node) -> expl_ok env node.
Proof.
  intros Hr Hk reps w. rewrite unroll_w_unfold, unroll_b_unfold.
  destruct (node_rep node) as [r0|] eqn:Er; [|apply once_w_explicit; exact Hk].
  cbn [clean_rep] in Hr. apply negb_true_iff in Hr. cbv zeta. rewrite Hr, (copies_of_explicit env r0 Hr).
  rewrite (copies_w_explicit _ (fun i b => once_b env node (Some (mkRep (written_count r0) i false))
                                                  (mkRep (written_count r0) i false :: reps) b) (ph_node node)).
  - rewrite written_count_nat_pos. cbn [negb]. rewrite andb_true_r.
    destruct (copies_b _ _ _ _) as [items b']. reflexivity.
  - intros i w'. unfold copy_w, place_line. rewrite once_w_explicit by exact Hk.
    cbn [andb]. reflexivity.
Qed.

(* (A): without implicit repeaters the wrap spec is C02's budgeted unrolling; the flags record a `$#` *)
Theorem unroll_w_explicit env : forall node, explicit_node node = true -> expl_ok env node.
Proof.
  induction node as [name attrs value r sc els IH|els r IH] using tnode_ind'; intros Hc;
    cbn [explicit_node] in Hc; apply andb_prop in Hc; destruct Hc as [Hr Hels];
    (apply node_explicit; [exact Hr|apply (Forall_forallb_and explicit_node); [exact IH|exact Hels]]).
Qed.

(* ================================================================ (B) X* over a line list *)
(* copy i after the implicit repeater has looked at it *)
Definition piece (env : cenv) (p : bool) (i : N) (x : list anode) : list anode :=
  if p then x else on_last_deepest (fun n => insert_text n (wrap_line env i)) x.

Lemma on_last_deepest_nil f : on_last_deepest f [] = [].
Proof. reflexivity. Qed.

(* the implicit loop when a copy converts as [g] (forest, budget) and meets a `$#` iff [p]; on entry
   `inserted` is unset (or X holds a `$#`, which sets it anyway) *)
Lemma copies_w_implicit env (f : N -> wst -> list anode * wst) (g : N -> Z -> list anode * Z) (p : bool) :
  (forall i w, f i w = place_line env true i (fst (g i (w_budget w)), w_mk p w (snd (g i (w_budget w))))) ->
  let g' := fun i b => (piece env p i (fst (g i b)), snd (g i b)) in
  forall k i w,
    (w_ins w = true -> p = true) ->
    exists W,
      copies_w f k i w = (fst (copies_b g' k i (w_budget w)), W) /\
      w_budget W = snd (copies_b g' k i (w_budget w)) /\
      (w_tins w = true -> w_tins W = true) /\
      (w_tins W = true \/ fst (copies_b g' k i (w_budget w)) = []).
Proof.
  intros Hf g'. induction k as [|k IH]; intros i w Hins.
  - exists w. cbn [copies_w copies_b fst snd]. repeat split; auto.
  - cbn [copies_w copies_b]. rewrite Hf.
    destruct (g i (w_budget w)) as [x b1] eqn:Eg.
    assert (Eg' : g' i (w_budget w) = (piece env p i x, b1)) by (unfold g'; rewrite Eg; reflexivity).
    rewrite Eg'. cbn [fst snd].
    (* this round *)
    assert (Hround : exists w1,
      place_line env true i (x, w_mk p w b1) = (piece env p i x, w1) /\
      w_budget w1 = b1 /\ (w_ins w1 = true -> p = true) /\ (w_tins w = true -> w_tins w1 = true) /\
      (w_tins w1 = true \/ piece env p i x = [])).
    { unfold place_line, piece. cbn [andb]. destruct p.
      - exists (w_mk true w b1). cbn [w_mk w_mark w_ins negb w_budget w_tins]. repeat split; auto.
      - assert (Ei : w_ins w = false) by (destruct (w_ins w); [discriminate (Hins eq_refl)|reflexivity]).
        cbn [w_mk w_mark w_ins]. rewrite Ei. cbn [negb].
        destruct x as [|x0 xs].
        + exists (mkW b1 false (w_tins w)). cbn [w_budget w_ins w_tins]. repeat split; auto; try discriminate.
        + eexists. split; [reflexivity|]. cbn [w_set_tins w_budget w_ins w_tins]. repeat split; auto; try discriminate. }
    destruct Hround as [w1 [Ep [Hb1 [Hi1 [Ht1 Hn1]]]]]. rewrite Ep.
    assert (Hbd : w_budget (w_dec w1) = b1 - 1) by (cbn [w_dec w_budget]; lia).
    rewrite Hbd.
    destruct (b1 - 1 <=? 0).
    + exists (w_dec w1). cbn [fst snd w_dec w_tins w_budget]. repeat split; auto.
    + destruct (IH (i + 1)%N (w_dec w1) Hi1) as [W [EW [HbW [HtW HnW]]]].
      rewrite EW, Hbd in *. clear EW.
      destruct (copies_b g' k (i + 1)%N (b1 - 1)) as [y b3]. cbn [fst snd] in *.
      exists W. repeat split; auto.
      destruct Hn1 as [Hn1|Hn1]; [left; apply HtW; exact Hn1|].
      destruct HnW as [HnW|HnW]; [left; exact HnW|right]. rewrite Hn1, HnW. reflexivity.
Qed.

(* the forest of copy i and the budget after it, as C02's spec computes them for X under the stack
   (n, i, implicit) :: enclosing, with the line appended when X holds no `$#` *)
Definition line_copy (env : cenv) (node : tnode) (n : N) (reps : list rep) (i : N) (b : Z) : list anode * Z :=
  (piece env (ph_node node) i (fst (once_b env node (Some (mkRep n i true)) (mkRep n i true :: reps) b)),
   snd (once_b env node (Some (mkRep n i true)) (mkRep n i true :: reps) b)).

Theorem unroll_w_lines env node r0 reps w :
  node_rep node = Some r0 -> rimplicit r0 = true ->
  forallb explicit_node (elements_of' node) = true ->
  (w_ins w = true -> ph_node node = true) ->
  let n := copies_of env r0 in
  exists W,
    unroll_w env reps node w = (fst (copies_b (line_copy env node n reps) (N.to_nat n) 0%N (w_budget w)), W) /\
    w_budget W = snd (copies_b (line_copy env node n reps) (N.to_nat n) 0%N (w_budget w)) /\
    w_ins W = true /\
    (w_tins W = true \/ fst (copies_b (line_copy env node n reps) (N.to_nat n) 0%N (w_budget w)) = []).
Proof.
  intros Er Himp Hk Hins n. rewrite unroll_w_unfold, Er. cbv zeta. rewrite Himp. fold n.
  assert (Hk' : Forall (expl_ok env) (elements_of' node)).
  { apply (Forall_forallb_and explicit_node); [|exact Hk]. apply Forall_forall. intros c _. apply unroll_w_explicit. }
  destruct (copies_w_implicit env (copy_w env node n true reps)
              (fun i b => once_b env node (Some (mkRep n i true)) (mkRep n i true :: reps) b) (ph_node node)
              ltac:(intros i w'; unfold copy_w; rewrite once_w_explicit by exact Hk'; reflexivity)
              (N.to_nat n) 0%N w Hins) as [W [EW [HbW [_ HnW]]]].
  fold (line_copy env node n reps) in EW, HbW, HnW. rewrite EW.
  exists (w_set_ins W). split; [reflexivity|]. cbn [w_set_ins w_budget w_ins w_tins]. auto.
Qed.

(* (B) at convert: the abbreviation is the single statement X*, every budget *)
Theorem wrap_implicit_lines env mr node r0 :
  conv_node node = true ->
  node_rep node = Some r0 -> rimplicit r0 = true ->
  forallb explicit_node (elements_of' node) = true ->
  let n := copies_of env r0 in
  convert env mr [node] = Ok (fst (copies_b (line_copy env node n []) (N.to_nat n) 0%N (budget_of mr))).
Proof.
  intros Hc Er Himp Hk n. rewrite convert_wrap_full by (cbn [forallb]; rewrite Hc; reflexivity).
  unfold convert_w. cbn [list_w].
  destruct (unroll_w_lines env node r0 [] (mkW (budget_of mr) false false) Er Himp Hk ltac:(discriminate))
    as [W [EW [_ [_ HnW]]]].
  fold n in EW, HnW. cbn [w_budget] in EW, HnW. rewrite EW. cbn [finish_w]. rewrite app_nil_r.
  destruct (ce_text env); [reflexivity| |];
    (destruct (w_tins W); [reflexivity|]; destruct HnW as [HnW|HnW]; [discriminate|]; rewrite HnW; reflexivity).
Qed.

(* ... and when the budget is not reached: copy i = X converted once under (n, i) :: [], children unrolled *)
Theorem wrap_implicit_copies env mr node r0 :
  conv_node node = true ->
  node_rep node = Some r0 -> rimplicit r0 = true ->
  forallb explicit_node (elements_of' node) = true ->
  let n := copies_of env r0 in
  Z.of_N n * (1 + inner_total node) <= budget_of mr ->
  convert env mr [node] =
    Ok (flat_map (fun i => piece env (ph_node node) i (once_u env node (Some (mkRep n i true)) [mkRep n i true]))
                 (nseq (N.to_nat n) 0%N)).
Proof.
  intros Hc Er Himp Hk n Hb. rewrite (wrap_implicit_lines env mr node r0 Hc Er Himp Hk). fold n.
  rewrite (copies_b_enough (line_copy env node n [])
             (fun i => piece env (ph_node node) i (once_u env node (Some (mkRep n i true)) [mkRep n i true]))
             (inner_total node)).
  - reflexivity.
  - intros i b Hib. unfold line_copy. rewrite once_b_enough; [reflexivity| |exact Hib].
    apply Forall_forall. intros c _ reps' b'. apply unroll_b_enough.
  - unfold inner_total. apply zsum_nonneg. apply Forall_map. apply Forall_forall. intros; apply total_nonneg.
  - rewrite N_nat_Z. exact Hb.
Qed.

(* ================================================================ (C) what `$#` prints inside a copy *)
Lemma find_implicit_skip (expl : list rep) r rest :
  forallb (fun x => negb (rimplicit x)) expl = true -> rimplicit r = true ->
  find (fun x => rimplicit x) (expl ++ r :: rest) = Some r.
Proof.
  intros He Hr. induction expl as [|e l IH]; cbn [app find].
  - rewrite Hr. reflexivity.
  - cbn [forallb] in He. apply andb_prop in He. destruct He as [H1 H2]. apply negb_true_iff in H1. rewrite H1. apply IH, H2.
Qed.

(* the closest implicit repeater supplies the line, however many explicit repeaters lie in between *)
Theorem placeholder_line env reps t lines r :
  tk t = TRepeaterPlaceholder -> ce_text env = WList lines ->
  find (fun x => rimplicit x) reps = Some r ->
  (N.to_nat (rvalue r) < length (wrap_lines lines))%nat ->
  tok_str env reps t = nth (N.to_nat (rvalue r)) (wrap_lines lines) [].
Proof.
  intros Ht Et Ef Hr. unfold tok_str, stringify. rewrite Ht. cbn [set_inserted cs_repeaters st_of]. rewrite Ef.
  unfold get_text_at. rewrite Et. rewrite clean_text_filter. unfold wrap_lines in *. rewrite map_length in Hr.
  destruct (nth_error (filter nonblank lines) (N.to_nat (rvalue r))) as [line|] eqn:En.
  - rewrite (nth_error_nth _ _ _ (map_nth_error strip _ _ En)). reflexivity.
  - apply nth_error_None in En. lia.
Qed.

Corollary placeholder_line_in_copy env t lines (expl : list rep) n i rest :
  tk t = TRepeaterPlaceholder -> ce_text env = WList lines ->
  forallb (fun x => negb (rimplicit x)) expl = true ->
  (N.to_nat i < length (wrap_lines lines))%nat ->
  tok_str env (expl ++ mkRep n i true :: rest) t = nth (N.to_nat i) (wrap_lines lines) [].
Proof.
  intros Ht Et He Hi.
  apply (placeholder_line env _ t lines (mkRep n i true) Ht Et); [|exact Hi].
  apply find_implicit_skip; [exact He|reflexivity].
Qed.

(* without text lines every `$#` prints the whole text (a string), or nothing (no text) *)
Lemma placeholder_no_lines env reps t :
  tk t = TRepeaterPlaceholder -> (forall l, ce_text env <> WList l) ->
  tok_str env reps t = match ce_text env with WStr s => s | _ => [] end.
Proof.
  intros Ht Hn. unfold tok_str, stringify. rewrite Ht. unfold get_text_at.
  destruct (ce_text env) as [|s|l]; [reflexivity|reflexivity|]. elim (Hn l). reflexivity.
Qed.

(* ================================================================ C02's domain inside this one *)
Lemma clean_tok_conv t : clean_tok t = true -> conv_tok t = true /\ ph_tok t = false.
Proof.
  unfold clean_tok, conv_tok, ph_tok. destruct (tk t) as [v|v|s|op b|o|c v i|size rev base par| |name idx]; try discriminate; auto.
Qed.
Lemma clean_toks_conv l : clean_toks l = true -> conv_toks l = true /\ ph_toks l = false.
Proof.
  induction l as [|t r IH]; intros H; [split; reflexivity|].
  cbn [clean_toks forallb] in H. apply andb_prop in H. destruct H as [Ht Hr].
  destruct (clean_tok_conv t Ht) as [H1 H2]. destruct (IH Hr) as [H3 H4].
  unfold conv_toks, ph_toks in *. cbn [forallb existsb]. rewrite H1, H2, H3, H4. split; reflexivity.
Qed.
Lemma clean_otoks_conv o : clean_otoks o = true -> conv_otoks o = true /\ ph_otoks o = false.
Proof. destruct o as [l|]; [apply clean_toks_conv|split; reflexivity]. Qed.
Lemma clean_oattrs_conv o : clean_oattrs o = true -> conv_oattrs o = true /\ ph_oattrs o = false.
Proof.
  destruct o as [l|]; [|split; reflexivity]. cbn [clean_oattrs conv_oattrs ph_oattrs].
  induction l as [|a r IH]; intros H; [split; reflexivity|].
  cbn [forallb] in H. apply andb_prop in H. destruct H as [Ha Hr]. destruct (IH Hr) as [H3 H4].
  unfold clean_attr in Ha. apply andb_prop in Ha. destruct Ha as [Hn Hv].
  destruct (clean_otoks_conv _ Hn) as [N1 N2]. destruct (clean_otoks_conv _ Hv) as [V1 V2].
  cbn [forallb existsb]. rewrite H3, H4. unfold conv_attr, ph_attr. rewrite N1, N2, V1, V2. split; reflexivity.
Qed.

Theorem clean_node_conv : forall node, clean_node node = true ->
  conv_node node = true /\ explicit_node node = true /\ ph_node node = false.
Proof.
  induction node as [name attrs value r sc els IH|els r IH] using tnode_ind'; intros Hc; cbn [clean_node] in Hc.
  - repeat (apply andb_prop in Hc; destruct Hc as [Hc ?]).
    destruct (clean_otoks_conv _ Hc) as [N1 N2].
    match goal with H : clean_oattrs attrs = true |- _ => destruct (clean_oattrs_conv _ H) as [A1 A2] end.
    match goal with H : clean_otoks value = true |- _ => destruct (clean_otoks_conv _ H) as [V1 V2] end.
    assert (Hels : forallb conv_node els = true /\ forallb explicit_node els = true /\ existsb ph_node els = false).
    { match goal with H : forallb clean_node els = true |- _ => revert H end. clear - IH.
      induction els as [|c l IHl]; intros H; [repeat split|].
      inversion IH as [|x y Hc Hl]; subst. cbn [forallb] in H. apply andb_prop in H. destruct H as [H1 H2].
      destruct (Hc H1) as [C1 [C2 C3]]. destruct (IHl Hl H2) as [L1 [L2 L3]].
      cbn [forallb existsb]. rewrite C1, C2, C3, L1, L2, L3. repeat split. }
    destruct Hels as [E1 [E2 E3]].
    cbn [conv_node explicit_node ph_node]. rewrite N1, N2, A1, A2, V1, V2, E1, E2, E3.
    match goal with H : clean_rep r = true |- _ => rewrite H end. repeat split.
  - apply andb_prop in Hc. destruct Hc as [Hr Hc].
    assert (Hels : forallb conv_node els = true /\ forallb explicit_node els = true /\ existsb ph_node els = false).
    { revert Hc. clear - IH.
      induction els as [|c l IHl]; intros H; [repeat split|].
      inversion IH as [|x y Hc Hl]; subst. cbn [forallb] in H. apply andb_prop in H. destruct H as [H1 H2].
      destruct (Hc H1) as [C1 [C2 C3]]. destruct (IHl Hl H2) as [L1 [L2 L3]].
      cbn [forallb existsb]. rewrite C1, C2, C3, L1, L2, L3. repeat split. }
    destruct Hels as [E1 [E2 E3]].
    cbn [conv_node explicit_node ph_node]. rewrite Hr, E1, E2, E3. repeat split.
Qed.

(* ================================================================ reading the spec over a line list *)
Lemma copies_of_lines env r0 lines :
  ce_text env = WList lines -> rimplicit r0 = true -> copies_of env r0 = N.of_nat (length (wrap_lines lines)).
Proof. intros Et Hi. unfold copies_of. rewrite Hi, Et. reflexivity. Qed.

Lemma wrap_line_lines env lines i :
  ce_text env = WList lines -> wrap_line env i = nth (N.to_nat i) (wrap_lines lines) [].
Proof. intros Et. unfold wrap_line. rewrite Et. reflexivity. Qed.

(* on trees of C02's domain and without text both specs say the same *)
Theorem convert_w_clean env mr root :
  ce_text env = WNone -> forallb clean_node root = true ->
  convert_w env mr root = fst (list_b (unroll_b env []) root (budget_of mr)).
Proof.
  intros Et Hc.
  assert (Hconv : forallb conv_node root = true).
  { clear - Hc. induction root as [|c l IH]; [reflexivity|]. cbn [forallb] in *. apply andb_prop in Hc.
    destruct Hc as [H1 H2]. destruct (clean_node_conv c H1) as [C1 _]. rewrite C1. apply IH, H2. }
  pose proof (convert_wrap_full env mr root Hconv) as H1.
  pose proof (convert_limit_full env mr root Et Hc) as H2.
  rewrite H1 in H2. inversion H2. reflexivity.
Qed.

Lemma wrap_count_is_lines env r0 lines :
  ce_text env = WList lines -> rimplicit r0 = true ->
  copies_of env r0 = N.of_nat (length (wrap_lines lines)) /\
  forall i, wrap_line env i = nth (N.to_nat i) (wrap_lines lines) [].
Proof.
  intros Et Hi. split; [exact (copies_of_lines env r0 lines Et Hi)|intros i; exact (wrap_line_lines env lines i Et)].
Qed.

(* the implicit-repeater rule, one round of the copy loop, on a non-empty copy *)
Lemma place_line_rule env i x0 xs w :
  place_line env true i (x0 :: xs, w) =
    if w_ins w then (x0 :: xs, w)
    else (on_last_deepest (fun n => insert_text n (wrap_line env i)) (x0 :: xs), w_set_tins w).
Proof. unfold place_line. cbn [andb]. destruct (w_ins w); reflexivity. Qed.
