(* C17 (HTML half): get_open_tag and select_item_html over scanner events and
   attribute tokens. *)
From Coq Require Import List NArith ZArith Bool Lia ZifyBool.
From Emmet Require Import lib.Base lib.HtmlLib gen.GenHtml model.HtmlScan model.HtmlMatch model.HtmlActions
  proofs.HtmlScanProofs proofs.HtmlFoldProofs proofs.HtmlC16Proofs.
Import ListNotations.
Local Open Scope Z_scope.

(* ------------------------------------------------------------------ get_open_tag over events *)
Lemma events_ordered_in : forall evs lo e, events_ordered lo evs -> In e evs -> (lo <= ev_start e)%N /\ (ev_start e < ev_end e)%N.
Proof.
  induction evs as [|h rest IH]; intros lo e H Hin; [destruct Hin|].
  cbn [events_ordered] in H. destruct H as (A & B & C).
  destruct Hin as [->|Hin]; [split; assumption|].
  destruct (IH _ _ C Hin) as [X Y]. split; [lia|exact Y].
Qed.

Lemma open_tag_go_sound pos : forall evs e,
  open_tag_go pos evs = Some (Some e) -> In e evs /\ strictly_in (ev_start e) pos (ev_end e) = true.
Proof.
  induction evs as [|h rest IH]; intros e H; cbn [open_tag_go] in H; [discriminate|].
  destruct (strictly_in (ev_start h) pos (ev_end h)) eqn:E.
  - inversion H; subst. split; [left; reflexivity|exact E].
  - destruct (pos <? Z.of_N (ev_end h)); [discriminate|].
    destruct (IH _ H) as [A B]. split; [right; exact A|exact B].
Qed.

Lemma open_tag_go_complete pos : forall evs lo e,
  events_ordered lo evs -> In e evs -> strictly_in (ev_start e) pos (ev_end e) = true ->
  open_tag_go pos evs = Some (Some e).
Proof.
  induction evs as [|h rest IH]; intros lo e Hord Hin Hhit; [destruct Hin|].
  cbn [open_tag_go]. cbn [events_ordered] in Hord. destruct Hord as (A & B & C).
  destruct Hin as [->|Hin].
  - rewrite Hhit. reflexivity.
  - destruct (events_ordered_in _ _ _ C Hin) as [X Y].
    apply strictly_in_iff in Hhit.
    assert (E1 : strictly_in (ev_start h) pos (ev_end h) = false) by (unfold strictly_in; lia).
    assert (E2 : (pos <? Z.of_N (ev_end h)) = false) by lia.
    rewrite E1, E2. eapply IH; [exact C|exact Hin|]. apply strictly_in_iff. exact Hhit.
Qed.

(* no tag strictly contains the position => no result *)
Lemma open_tag_go_none pos : forall evs,
  (forall e, In e evs -> strictly_in (ev_start e) pos (ev_end e) = false) ->
  forall e, open_tag_go pos evs <> Some (Some e).
Proof.
  intros evs H e Hx. apply open_tag_go_sound in Hx. destruct Hx as [A B]. rewrite (H e A) in B. discriminate.
Qed.

(* ------------------------------------------------------------------ next / previous item over events *)
Definition next_pred (pos : Z) (e : event) : bool := is_open_or_self e && (pos <? Z.of_N (ev_end e)).
Definition prev_pred (pos : Z) (e : event) : bool := is_open_or_self e && (Z.of_N (ev_start e) <? pos).

Fixpoint last_opt {A} (l : list A) : option A :=
  match l with
  | [] => None
  | x :: r => match last_opt r with Some y => Some y | None => Some x end
  end.

(* next: the first open / self-closing tag that ends after the position *)
Theorem next_item_go_spec pos : forall evs, next_item_go pos evs = find (next_pred pos) evs.
Proof.
  induction evs as [|e rest IH]; [reflexivity|]. cbn [next_item_go find]. unfold next_pred at 1.
  destruct (is_open_or_self e && (pos <? Z.of_N (ev_end e))); [reflexivity|exact IH].
Qed.

Lemma filter_prev_nil pos : forall evs lo, events_ordered lo evs -> (pos <= Z.of_N lo) ->
  filter (prev_pred pos) evs = [].
Proof.
  induction evs as [|e rest IH]; intros lo H Hp; [reflexivity|].
  cbn [events_ordered] in H. destruct H as (A & B & C). cbn [filter].
  assert (E : prev_pred pos e = false) by (unfold prev_pred; destruct (is_open_or_self e); cbn; lia).
  rewrite E. eapply IH; [exact C|lia].
Qed.

(* previous: the last open / self-closing tag that starts before the position *)
Theorem prev_item_go_spec pos : forall evs lo last,
  events_ordered lo evs ->
  snd (prev_item_go pos last evs) =
  match last_opt (filter (prev_pred pos) evs) with Some e => Some e | None => last end.
Proof.
  induction evs as [|e rest IH]; intros lo last H; [reflexivity|].
  cbn [prev_item_go]. cbn [events_ordered] in H. destruct H as (A & B & C).
  destruct (Z.of_N (ev_start e) >=? pos) eqn:E.
  - cbn [snd]. rewrite (filter_prev_nil pos (e :: rest) (ev_start e)); [reflexivity| |lia].
    cbn [events_ordered]. repeat split; try assumption. lia.
  - rewrite (IH _ _ C). cbn [filter]. unfold prev_pred at 2.
    assert (E' : (Z.of_N (ev_start e) <? pos) = true) by lia. rewrite E'. rewrite andb_true_r.
    destruct (is_open_or_self e); cbn [last_opt]; destruct (last_opt (filter (prev_pred pos) rest)); reflexivity.
Qed.

(* ------------------------------------------------------------------ token_list *)
Definition tok_in (lo hi : Z) (r : range) : Prop := lo <= fst r /\ fst r < snd r /\ snd r <= hi.

Lemma token_list_go_bounds offset : forall s skip pos start,
  (skip <= length s)%nat -> start <= pos + Z.of_nat skip -> (skip = O -> start <= pos) ->
  Forall (tok_in (offset + start) (offset + pos + Z.of_nat (length s))) (token_list_go offset skip pos start s).
Proof.
  induction s as [|c r IH]; intros skip pos start Hs H1 H2; cbn [token_list_go].
  - assert (skip = O) by (simpl in Hs; lia). subst skip. specialize (H2 eq_refl).
    destruct (start =? pos) eqn:E; [constructor|]. constructor; [|constructor].
    unfold tok_in. cbn [fst snd length]. lia.
  - cbn [length] in *. destruct skip as [|k].
    + specialize (H2 eq_refl).
      destruct (is_space c).
      * apply Forall_app. split.
        -- destruct (start =? pos) eqn:E; [constructor|]. constructor; [|constructor].
           unfold tok_in. cbn [fst snd]. lia.
        -- pose proof (span_le is_space r) as Hk.
           eapply Forall_impl; [|apply IH; [exact Hk|lia|intros E; lia]].
           intros x. unfold tok_in. lia.
      * eapply Forall_impl; [|apply IH; [lia|lia|intros _; lia]].
        intros x. unfold tok_in. lia.
    + eapply Forall_impl; [|apply IH; [lia|lia|intros E; subst; lia]].
      intros x. unfold tok_in. lia.
Qed.

Lemma token_list_bounds v off :
  Forall (tok_in off (off + Z.of_nat (length v))) (token_list v off).
Proof.
  unfold token_list.
  pose proof (token_list_go_bounds off v 0 0 0) as H.
  eapply Forall_impl; [|apply H; lia]. intros x. unfold tok_in. lia.
Qed.

Lemma py_slice_length (s : str) a b : 0 <= a -> a <= b -> Z.of_nat (length (py_slice s a b)) <= b - a.
Proof.
  intros Ha Hb. unfold py_slice, py_index. rewrite firstn_length.
  destruct (a <? 0) eqn:E1; [lia|]. destruct (b <? 0) eqn:E2; [lia|]. lia.
Qed.

(* ------------------------------------------------------------------ push_range keeps ranges inside the tag *)
Lemma push_range_in lo hi ranges rng :
  Forall (tok_in lo hi) ranges -> lo <= fst rng -> fst rng <= snd rng -> snd rng <= hi ->
  Forall (tok_in lo hi) (push_range ranges rng).
Proof.
  intros HF H1 H2 H3. unfold push_range.
  destruct (fst rng =? snd rng) eqn:E; [exact HF|].
  assert (Hr : tok_in lo hi rng) by (unfold tok_in; lia).
  destruct (rev ranges) as [|prev t]; [apply Forall_app; split; [exact HF|constructor; [exact Hr|constructor]]|].
  destruct (negb (fst prev =? fst rng) || negb (snd prev =? snd rng)); [|exact HF].
  apply Forall_app; split; [exact HF|constructor; [exact Hr|constructor]].
Qed.

Lemma fold_push_in lo hi : forall toks ranges,
  Forall (tok_in lo hi) ranges -> Forall (tok_in lo hi) toks ->
  Forall (tok_in lo hi) (fold_left push_range toks ranges).
Proof.
  induction toks as [|t toks IH]; intros ranges HF HT; [exact HF|].
  cbn [fold_left]. inversion HT; subst. apply IH; [|assumption].
  match goal with Hx : tok_in lo hi t |- _ => destruct Hx as (A & B & C) end.
  apply push_range_in; try assumption; lia.
Qed.

(* value_range: never an IndexError on a consumed value; the result lies inside the value *)
Lemma value_range_ok v vs ve :
  value_shape v -> ve = vs + Z.of_nat (length v) ->
  exists x y, value_range v vs ve = Ok (x, y) /\ vs <= x /\ x <= y /\ y <= ve.
Proof.
  intros Hsh Hlen. unfold value_range.
  destruct v as [|ch r]; [destruct Hsh|].
  destruct (rev (ch :: r)) as [|last_ch t] eqn:Er.
  { apply (f_equal (@length char)) in Er. rewrite rev_length in Er. simpl in Er. lia. }
  cbn [length] in Hlen.
  destruct ((ch =? c_dquote)%N || (ch =? c_squote)%N) eqn:Eq.
  - assert (Hq : is_quote ch = true) by (unfold is_quote; exact Eq).
    specialize (Hsh Hq). destruct r as [|c2 r']; [congruence|]. cbn [length] in Hlen.
    eexists _, _. split; [reflexivity|]. destruct (last_ch =? ch)%N; lia.
  - destruct ((ch =? c_lbrace)%N && (last_ch =? c_rbrace)%N) eqn:Eb.
    + eexists _, _. split; [reflexivity|].
      destruct r as [|c2 r']; [|cbn [length] in Hlen; lia].
      cbn in Er. inversion Er; subst. apply andb_true_iff in Eb. destruct Eb as [B1 B2].
      apply N.eqb_eq in B1, B2. rewrite B1 in B2. discriminate.
    + eexists _, _. split; [reflexivity|]. lia.
Qed.

(* ------------------------------------------------------------------ selection model *)
Lemma selection_ranges_in (tag_src : str) (st : Z) (hi : N) :
  (hi <= N.of_nat (length tag_src))%N ->
  forall attrs lo ranges,
  attrs_sorted tag_src lo hi attrs ->
  Forall (tok_in (st + 1) (st + Z.of_N hi)) ranges -> (1 <= Z.of_N lo) ->
  exists out, selection_ranges tag_src st attrs ranges = Ok out /\
    Forall (tok_in (st + 1) (st + Z.of_N hi)) out /\ exists more, out = ranges ++ more \/ True.
Proof.
  intros Hhi. induction attrs as [|a rest IH]; intros lo ranges Hs HF Hlo; cbn [selection_ranges].
  - exists ranges. split; [reflexivity|]. split; [exact HF|]. exists []. right. exact I.
  - cbn [attrs_sorted] in Hs. destruct Hs as [Hw Hr]. unfold attr_wf in Hw.
    destruct Hw as (W1 & W2 & W3 & W4). unfold attr_end in Hr.
    destruct (a_value a) as [[[v vs] ve]|].
    + destruct W4 as (X1 & X2 & X3 & X4 & X5).
      assert (Hvl : Z.of_N ve = Z.of_N vs + Z.of_nat (length v)).
      { rewrite X4. rewrite sliceN_length by lia. lia. }
      destruct (value_range_ok v (Z.of_N vs) (Z.of_N ve) X5 Hvl) as (x & y & -> & Y1 & Y2 & Y3).
      cbn [bind fst snd].
      set (r1 := push_range ranges (st + Z.of_N (a_ns a), st + Z.of_N ve)).
      assert (H1 : Forall (tok_in (st + 1) (st + Z.of_N hi)) r1).
      { apply push_range_in; cbn [fst snd]; try assumption; lia. }
      match goal with
      | |- exists out, selection_ranges _ _ _ ?R = _ /\ _ => assert (H2 : Forall (tok_in (st + 1) (st + Z.of_N hi)) R)
      end.
      { destruct (x =? y) eqn:Exy; [exact H1|].
        assert (H3 : Forall (tok_in (st + 1) (st + Z.of_N hi)) (push_range r1 (st + x, st + y))).
        { apply push_range_in; cbn [fst snd]; try assumption; lia. }
        destruct (str_eqb (a_name a) class_name); [|exact H3].
        apply fold_push_in; [exact H3|].
        pose proof (token_list_bounds (py_slice tag_src x y) (st + x)) as HT.
        pose proof (py_slice_length tag_src x y) as HL.
        eapply Forall_impl; [|exact HT]. intros t. unfold tok_in. lia. }
      destruct (IH _ _ Hr H2) as (out & -> & O1 & _); [lia|].
      exists out. split; [reflexivity|]. split; [exact O1|]. exists []. right. exact I.
    + match goal with
      | |- exists out, selection_ranges _ _ _ ?R = _ /\ _ => assert (H2 : Forall (tok_in (st + 1) (st + Z.of_N hi)) R)
      end.
      { apply push_range_in; cbn [fst snd]; try assumption; lia. }
      destruct (IH _ _ Hr H2) as (out & -> & O1 & _); [lia|].
      exists out. split; [reflexivity|]. split; [exact O1|]. exists []. right. exact I.
Qed.

(* get_tag_selection_model on a well-formed open / self-closing tag range: no internal
   error, the model spans the tag, the first range is the tag name, and every range is
   non-empty and lies inside the tag (after `<`, up to the end) *)
Theorem selection_model_wf (code : str) (name : str) (start stop : N) :
  tag_range_wf code false name (start, stop) ->
  exists m, get_tag_selection_model code name start stop = Ok m /\
    sel_start m = Z.of_N start /\ sel_end m = Z.of_N stop /\
    hd_error (sel_ranges m) = Some (Z.of_N start + 1, Z.of_N start + 1 + Z.of_nat (length name)) /\
    Forall (tok_in (Z.of_N start + 1) (Z.of_N stop)) (sel_ranges m).
Proof.
  intros (T1 & T2 & T3 & T4 & T5 & T6 & T7). cbn [fst snd] in *.
  unfold get_tag_selection_model.
  set (tag_src := sliceN code start stop).
  assert (Hlen : length tag_src = N.to_nat (stop - start)) by (apply sliceN_length; lia).
  pose proof (attributes_sorted_from tag_src (Some name)) as Hs.
  rewrite Hlen in Hs. rewrite N2Nat.id in Hs.
  assert (Hn : (1 <= N.of_nat (attr_scan_start (Some name)))%N).
  { destruct name; [congruence|]. cbn. lia. }
  assert (Hname : Forall (tok_in (Z.of_N start + 1) (Z.of_N start + Z.of_N (stop - start)))
                    [(Z.of_N start + 1, Z.of_N start + 1 + Z.of_nat (length name))]).
  { constructor; [|constructor]. unfold tok_in. cbn [fst snd].
    assert (length name <> 0)%nat by (destruct name; [congruence|simpl; lia]). lia. }
  (* the ranges produced by the loop keep the initial list as a prefix *)
  assert (Hpre : forall attrs ranges out, selection_ranges tag_src (Z.of_N start) attrs ranges = Ok out ->
                   ranges <> [] -> hd_error out = hd_error ranges).
  { clear. induction attrs as [|a rest IH]; intros ranges out H Hne; cbn [selection_ranges] in H.
    - inversion H; reflexivity.
    - assert (Hp : forall rs r, rs <> [] -> push_range rs r <> [] /\ hd_error (push_range rs r) = hd_error rs).
      { intros rs r Hrs. unfold push_range. destruct (fst r =? snd r); [split; [exact Hrs|reflexivity]|].
        destruct (rev rs); [|destruct (negb (fst r0 =? fst r) || negb (snd r0 =? snd r))];
          try (split; [exact Hrs|reflexivity]);
          (split; [destruct rs; [congruence|discriminate]|destruct rs; [congruence|reflexivity]]). }
      assert (Hf : forall toks rs, rs <> [] -> fold_left push_range toks rs <> [] /\
                                    hd_error (fold_left push_range toks rs) = hd_error rs).
      { induction toks as [|t toks IHt]; intros rs Hrs; [split; [exact Hrs|reflexivity]|].
        cbn [fold_left]. destruct (Hp rs t Hrs) as [P1 P2]. destruct (IHt _ P1) as [Q1 Q2].
        split; [exact Q1|congruence]. }
      destruct (a_value a) as [[[v vs] ve]|].
      + destruct (value_range v (Z.of_N vs) (Z.of_N ve)) as [[x y]| | |]; cbn [bind] in H; try discriminate.
        cbn [fst snd] in H.
        destruct (Hp ranges (Z.of_N start + Z.of_N (a_ns a), Z.of_N start + Z.of_N ve) Hne) as [P1 P2].
        destruct (x =? y).
        * rewrite (IH _ _ H P1). exact P2.
        * destruct (Hp _ (Z.of_N start + x, Z.of_N start + y) P1) as [P3 P4].
          destruct (str_eqb (a_name a) class_name).
          -- destruct (Hf (token_list (py_slice tag_src x y) (Z.of_N start + x)) _ P3) as [P5 P6].
             rewrite (IH _ _ H P5). congruence.
          -- rewrite (IH _ _ H P3). congruence.
      + destruct (Hp ranges (Z.of_N start + Z.of_N (a_ns a), Z.of_N start + Z.of_N (a_ne a)) Hne) as [P1 P2].
        rewrite (IH _ _ H P1). exact P2. }
  destruct (selection_ranges_in tag_src (Z.of_N start) (stop - start) ltac:(lia) _ _ _ Hs Hname) as (out & Hout & O1 & _); [lia|].
  rewrite Hout. cbn [bind]. eexists. split; [reflexivity|]. cbn [sel_start sel_end sel_ranges].
  split; [reflexivity|]. split; [reflexivity|]. split.
  - rewrite (Hpre _ _ _ Hout); [reflexivity|discriminate].
  - eapply Forall_impl; [|exact O1]. intros r. unfold tok_in. lia.
Qed.

(* ------------------------------------------------------------------ the public functions, every string *)
Lemma last_opt_in {A} : forall (l : list A) x, last_opt l = Some x -> In x l.
Proof.
  induction l as [|y r IH]; intros x H; cbn [last_opt] in H; [discriminate|].
  destruct (last_opt r) as [z|] eqn:E.
  - inversion H; subst. right. apply IH. reflexivity.
  - inversion H; subst. left. reflexivity.
Qed.

Lemma scan_event_range_wf special code e :
  In e (fst (scan special code)) ->
  tag_range_wf code (match ev_type e with EClose => true | _ => false end) (ev_name e) (ev_start e, ev_end e).
Proof.
  intros Hin. pose proof (scan_evs_from special code e Hin) as H.
  unfold OpenP, CloseP in H. destruct (ev_type e); exact H.
Qed.

Theorem get_open_tag_wf (code : str) (pos : Z) :
  exists r, get_open_tag code pos = Ok r /\
    match r with
    | Some t =>
        strictly_in (ct_start t) pos (ct_end t) = true /\
        tag_range_wf code (match ct_type t with EClose => true | _ => false end) (ct_name t) (ct_start t, ct_end t) /\
        match ct_type t with
        | EClose => ct_attrs t = None
        | _ => exists attrs, ct_attrs t = Some attrs /\
                 attrs_sorted code (ct_start t) (ct_end t) attrs
        end
    | None =>
        forall e, In e (fst (scan (o_special default_opts) code)) ->
                  strictly_in (ev_start e) pos (ev_end e) = false
    end.
Proof.
  unfold get_open_tag, get_open_tag_of, after_scan. rewrite scan_no_internal_error.
  destruct (scan_events_wf (o_special default_opts) code) as [_ Hord].
  set (evs := fst (scan (o_special default_opts) code)) in *.
  assert (Hnone : (forall e, open_tag_go pos evs <> Some (Some e)) ->
                    forall e, In e evs -> strictly_in (ev_start e) pos (ev_end e) = false).
  { intros Hno e Hin. destruct (strictly_in (ev_start e) pos (ev_end e)) eqn:E; [|reflexivity].
    exfalso. apply (Hno e). eapply open_tag_go_complete; eassumption. }
  destruct (open_tag_go pos evs) as [[e|]|] eqn:Eo.
  - apply open_tag_go_sound in Eo. destruct Eo as [Hin Hhit].
    eexists. split; [reflexivity|]. cbn [ct_start ct_end ct_name ct_type ct_attrs].
    split; [exact Hhit|]. pose proof (scan_event_range_wf _ _ _ Hin) as Hw. split; [exact Hw|].
    destruct (ev_type e) eqn:Et; try reflexivity;
      (eexists; split; [reflexivity|]; destruct Hw as (W1 & W2 & _); cbn [fst snd] in *;
       apply get_attributes_sorted; lia).
  - eexists. split; [reflexivity|]. cbv beta iota. apply Hnone. intros e; discriminate.
  - eexists. split; [reflexivity|]. cbv beta iota. apply Hnone. intros e; discriminate.
Qed.

Definition select_target (pos : Z) (is_prev : bool) (evs : list event) : option event :=
  if is_prev then last_opt (filter (prev_pred pos) evs) else find (next_pred pos) evs.

Theorem select_item_html_wf (o : opts) (code : str) (pos : Z) (is_prev : bool) :
  exists r, select_item_html o code pos is_prev = Ok r /\
    match select_target pos is_prev (fst (scan (o_special o) code)) with
    | None => r = None
    | Some e =>
        exists m, r = Some m /\
          sel_start m = Z.of_N (ev_start e) /\ sel_end m = Z.of_N (ev_end e) /\
          hd_error (sel_ranges m) =
            Some (Z.of_N (ev_start e) + 1, Z.of_N (ev_start e) + 1 + Z.of_nat (length (ev_name e))) /\
          Forall (tok_in (Z.of_N (ev_start e) + 1) (Z.of_N (ev_end e))) (sel_ranges m)
    end.
Proof.
  destruct (scan_events_wf (o_special o) code) as [_ Hord].
  assert (Hsel : forall e, In e (fst (scan (o_special o) code)) -> is_open_or_self e = true ->
            exists m, get_tag_selection_model code (ev_name e) (ev_start e) (ev_end e) = Ok m /\
              sel_start m = Z.of_N (ev_start e) /\ sel_end m = Z.of_N (ev_end e) /\
              hd_error (sel_ranges m) =
                Some (Z.of_N (ev_start e) + 1, Z.of_N (ev_start e) + 1 + Z.of_nat (length (ev_name e))) /\
              Forall (tok_in (Z.of_N (ev_start e) + 1) (Z.of_N (ev_end e))) (sel_ranges m)).
  { intros e Hin Ho. apply selection_model_wf.
    pose proof (scan_event_range_wf _ _ _ Hin) as Hw. unfold is_open_or_self in Ho.
    destruct (ev_type e); try discriminate; exact Hw. }
  unfold select_item_html, select_item_html_of, select_target. destruct is_prev.
  - unfold select_previous_item_of.
    pose proof (prev_item_go_spec pos _ 0%N None Hord) as Hp.
    destruct (prev_item_go pos None (fst (scan (o_special o) code))) as [stopped last]. cbn [snd] in Hp.
    rewrite scan_no_internal_error.
    assert (Hlast : last = last_opt (filter (prev_pred pos) (fst (scan (o_special o) code)))).
    { rewrite Hp. destruct (last_opt (filter (prev_pred pos) (fst (scan (o_special o) code)))); reflexivity. }
    rewrite <- Hlast.
    destruct last as [e|].
    + symmetry in Hlast. apply last_opt_in in Hlast. apply filter_In in Hlast. destruct Hlast as [Hin Hpred].
      unfold prev_pred in Hpred. apply andb_true_iff in Hpred. destruct Hpred as [Ho _].
      destruct (Hsel e Hin Ho) as (m & -> & M). cbn [bind].
      destruct stopped; (eexists; split; [reflexivity|]; exists m; split; [reflexivity|exact M]).
    + destruct stopped; (eexists; split; reflexivity).
  - unfold select_next_item_of, after_scan. rewrite scan_no_internal_error.
    rewrite next_item_go_spec.
    destruct (find (next_pred pos) (fst (scan (o_special o) code))) as [e|] eqn:Ef.
    + apply find_some in Ef. destruct Ef as [Hin Hpred].
      unfold next_pred in Hpred. apply andb_true_iff in Hpred. destruct Hpred as [Ho _].
      cbn [bind]. destruct (Hsel e Hin Ho) as (m & -> & M). cbn [bind].
      eexists; split; [reflexivity|]; exists m; split; [reflexivity|exact M].
    + eexists; split; reflexivity.
Qed.
