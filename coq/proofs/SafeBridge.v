(* C07, the link between tokenizer and converter (parser side).

   A token list is read with a three-state automaton over the token KINDS alone:
     MPlain            -- outside quotes and text braces: every token kind may occur
     MQuote single     -- after a Quote token, up to the next Quote token
     MExpr             -- after an opening `{` bracket token, up to the next closing `}` bracket token
   [W m l]: read from mode [m], the list [l] only contains, inside quotes, literal-like tokens and the
   closing quote of the same kind; inside text braces, literal-like tokens and the closing brace; and
   no operator outside the table anywhere.  In particular: no Repeater token inside quotes or braces.

   Theorem parse_tree_ok: for ALL token lists with [W MPlain], every tree the parser returns has
   only stringifiable tokens in names and values ([tnode_ok], the hypothesis of convert_safe).
   (SafeBridgeTok.v proves [W MPlain] for every tokenizer output.) *)
From Coq Require Import List Bool Lia Arith ZArith.
From Emmet Require Import lib.Base model.MarkupTokenizer model.MarkupParser model.MarkupConvert
     proofs.SafeParser proofs.SafeConvert.
Import ListNotations.

Inductive mode := MPlain | MQuote (single : bool) | MExpr.

Definition litlike (k : tkind) : bool :=
  match k with
  | TLiteral _ | TWhiteSpace _ | TRepeaterNumber _ _ _ _ | TRepeaterPlaceholder | TField _ _ => true
  | _ => false
  end.

Definition allowed (m : mode) (t : token) : bool :=
  match m with
  | MPlain => match tk t with TOperator OpUnknown => false | _ => true end
  | MQuote s => litlike (tk t) || match tk t with TQuote s' => Bool.eqb s' s | _ => false end
  | MExpr => litlike (tk t) || match tk t with TBracket false BExpr => true | _ => false end
  end.

Definition step (m : mode) (t : token) : mode :=
  match m with
  | MPlain => match tk t with
              | TQuote s => MQuote s
              | TBracket true BExpr => MExpr
              | _ => MPlain
              end
  | MQuote s => match tk t with TQuote _ => MPlain | _ => MQuote s end
  | MExpr => match tk t with TBracket false BExpr => MPlain | _ => MExpr end
  end.

Fixpoint W (m : mode) (l : list token) : bool :=
  match l with
  | [] => true
  | t :: r => allowed m t && W (step m t) r
  end.

Fixpoint run (m : mode) (l : list token) : mode :=
  match l with [] => m | t :: r => run (step m t) r end.

Definition Wx (l : list token) : Prop := exists m, W m l = true.

Lemma W_cons : forall m t r, W m (t :: r) = true -> allowed m t = true /\ W (step m t) r = true.
Proof. intros m t r H. simpl in H. apply andb_true_iff in H. exact H. Qed.

Lemma W_skipn : forall n l m, W m l = true -> W (run m (firstn n l)) (skipn n l) = true.
Proof.
  induction n as [|n IH]; intros l m H; simpl. exact H.
  destruct l as [|t r]; simpl. exact H.
  apply W_cons in H. destruct H as [_ H]. apply IH. exact H.
Qed.

Lemma Wx_skipn : forall n l, Wx l -> Wx (skipn n l).
Proof. intros n l [m H]. eexists. apply W_skipn. exact H. Qed.
Lemma Wx_tail : forall t r, Wx (t :: r) -> Wx r.
Proof. intros t r [m H]. apply W_cons in H. destruct H as [_ H]. eexists; exact H. Qed.

Lemma run_app : forall a b m, run m (a ++ b) = run (run m a) b.
Proof. induction a as [|t a IH]; intros b m; simpl; auto. Qed.

Lemma firstn_add : forall A n k (l : list A), firstn (n + k) l = firstn n l ++ firstn k (skipn n l).
Proof.
  induction n as [|n IH]; intros k l; simpl. reflexivity.
  destruct l as [|x l]; simpl. destruct k; reflexivity. f_equal. apply IH.
Qed.

Lemma skipn_add : forall A a b (l : list A), skipn (a + b) l = skipn b (skipn a l).
Proof.
  induction a as [|a IH]; intros b l; simpl. reflexivity.
  destruct l as [|x l]; simpl. destruct b; reflexivity. apply IH.
Qed.

Lemma toks_ok_app : forall a b, toks_ok (a ++ b) = toks_ok a && toks_ok b.
Proof. intros. unfold toks_ok. apply forallb_app. Qed.

Lemma toks_ok_cons : forall t l, toks_ok (t :: l) = tok_ok t && toks_ok l.
Proof. reflexivity. Qed.

Lemma toks_ok_tl : forall l, toks_ok l = true -> toks_ok (tl l) = true.
Proof. intros [|x l] H; simpl in *; auto. apply andb_true_iff in H. tauto. Qed.

(* ---- what the modes guarantee about single tokens *)
Lemma allowed_quote_ok : forall s t, allowed (MQuote s) t = true -> tok_ok t = true.
Proof. intros s t. unfold allowed, tok_ok. destruct (tk t); simpl; try reflexivity; try discriminate. Qed.
Lemma allowed_expr_ok : forall t, allowed MExpr t = true -> tok_ok t = true.
Proof.
  intros t. unfold allowed, tok_ok. destruct (tk t); simpl; try reflexivity; try discriminate.
Qed.
Lemma allowed_plain_op : forall t o, allowed MPlain t = true -> tk t = TOperator o -> tok_ok t = true.
Proof. intros t o H E. unfold allowed, tok_ok in *. rewrite E in *. destruct o; auto. Qed.

(* an opening `{`, an opening `[` and an operator only occur in plain mode *)
Lemma open_expr_plain : forall m t, allowed m t = true -> is_bracket t (Some BExpr) (Some true) = true -> m = MPlain.
Proof.
  intros m t H B. unfold is_bracket in B. destruct (tk t) eqn:K; try discriminate.
  destruct m; auto; unfold allowed in H; rewrite K in H; simpl in H.
  - discriminate.
  - destruct open; destruct c; simpl in *; discriminate.
Qed.
Lemma bracket_plain : forall m t c o, allowed m t = true -> is_bracket t (Some c) (Some true) = true ->
  o = true -> m = MPlain.
Proof.
  intros m t c o H B _. unfold is_bracket in B. destruct (tk t) eqn:K; try discriminate.
  destruct m; auto; unfold allowed in H; rewrite K in H; simpl in H.
  - discriminate.
  - destruct open; destruct c0; destruct c; simpl in *; discriminate.
Qed.
Lemma operator_plain : forall m t o, allowed m t = true -> is_operator t o = true -> m = MPlain.
Proof.
  intros m t o H B. unfold is_operator in B. destruct (tk t) eqn:K; try discriminate.
  destruct m; auto; unfold allowed in H; rewrite K in H; simpl in H; discriminate.
Qed.
Lemma step_plain_operator : forall t o, is_operator t o = true -> step MPlain t = MPlain.
Proof. intros t o B. unfold is_operator in B. unfold step. destruct (tk t); try discriminate. reflexivity. Qed.

(* ---------------------------------------------------------------- text *)
Lemma text_loop_ok : forall r, W MExpr r = true -> toks_ok (firstn (text_loop 0 r) r) = true.
Proof.
  induction r as [|t r IH]; intros H. reflexivity.
  apply W_cons in H. destruct H as [Ha Hr].
  pose proof (allowed_expr_ok t Ha) as Hok.
  cbn [text_loop]. unfold allowed, step in *.
  destruct (tk t) eqn:K; simpl in Ha; try discriminate;
    try (cbn [firstn]; simpl; rewrite Hok; simpl; apply IH; exact Hr).
  destruct c; destruct open; simpl in Ha; try discriminate.
  cbn [firstn]. simpl. rewrite Hok. reflexivity.
Qed.

Lemma toks_ok_get_text : forall l, toks_ok l = true -> toks_ok (get_text l) = true.
Proof.
  intros l H. unfold get_text.
  destruct (rev l); [apply toks_ok_tl; exact H|].
  destruct (is_bracket t (Some BExpr) (Some false)).
  - apply toks_ok_firstn. apply toks_ok_tl. exact H.
  - apply toks_ok_tl. exact H.
Qed.

Lemma text_ok : forall toks m k, W m toks = true -> text toks = S k ->
  toks_ok (get_text (firstn (S k) toks)) = true.
Proof.
  intros [|t r] m k H E; simpl in E. discriminate.
  destruct (is_bracket t (Some BExpr) (Some true)) eqn:B; [|discriminate].
  inversion E; subst. apply W_cons in H. destruct H as [Ha Hr].
  pose proof (open_expr_plain m t Ha B) as ->.
  assert (Hs : step MPlain t = MExpr).
  { unfold is_bracket in B. unfold step. destruct (tk t); try discriminate.
    destruct c; destruct open; simpl in B; try discriminate. reflexivity. }
  rewrite Hs in Hr. apply toks_ok_get_text.
  cbn [firstn]. simpl. rewrite (text_loop_ok r Hr).
  unfold tok_ok. unfold is_bracket in B. destruct (tk t); try discriminate. reflexivity.
Qed.

(* ---------------------------------------------------------------- literal *)
Lemma literal_n_ok : forall toks allow ba be bg m,
  W m toks = true ->
  ((be = 0%Z /\ m = MPlain) \/ (be = 1%Z /\ m = MExpr)) ->
  toks_ok (firstn (literal_n allow ba be bg toks) toks) = true /\
  (run m (firstn (literal_n allow ba be bg toks) toks) = MPlain \/ skipn (literal_n allow ba be bg toks) toks = []).
Proof.
  induction toks as [|t r IH]; intros allow ba be bg m H Hm.
  - simpl. split; auto.
  - apply W_cons in H. destruct H as [Ha Hr]. cbn [literal_n].
    destruct Hm as [[-> ->]|[-> ->]].
    + (* plain, be = 0 *)
      change (truthy 0) with false. cbv iota.
      destruct (is_quote_tok t None || is_operator t None || is_white_space_tok t || is_repeater_tok t) eqn:Stop.
      { simpl. split; auto. }
      unfold is_quote_tok, is_operator, is_white_space_tok, is_repeater_tok in Stop.
      assert (Hok : tok_ok t = true).
      { unfold tok_ok. destruct (tk t); simpl in Stop; try discriminate; reflexivity. }
      destruct (tk t) eqn:K; simpl in Stop; try discriminate.
      * (* literal *)
        assert (Hs : step MPlain t = MPlain) by (unfold step; rewrite K; reflexivity).
        rewrite Hs in Hr. destruct (IH allow ba 0%Z bg MPlain Hr (or_introl (conj eq_refl eq_refl))) as [I1 I2].
        cbn [firstn skipn run]. rewrite Hs. split; [simpl; rewrite Hok; exact I1|exact I2].
      * (* bracket *)
        destruct allow; cbn [negb]; cbv iota; [|simpl; split; auto].
        destruct open.
        -- destruct c; cbn [bump].
           ++ assert (Hs : step MPlain t = MPlain) by (unfold step; rewrite K; reflexivity).
              rewrite Hs in Hr. destruct (IH true ba 0%Z (bg + 1)%Z MPlain Hr (or_introl (conj eq_refl eq_refl))) as [I1 I2].
              cbn [firstn skipn run]. rewrite Hs. split; [simpl; rewrite Hok; exact I1|exact I2].
           ++ assert (Hs : step MPlain t = MPlain) by (unfold step; rewrite K; reflexivity).
              rewrite Hs in Hr. destruct (IH true (ba + 1)%Z 0%Z bg MPlain Hr (or_introl (conj eq_refl eq_refl))) as [I1 I2].
              cbn [firstn skipn run]. rewrite Hs. split; [simpl; rewrite Hok; exact I1|exact I2].
           ++ assert (Hs : step MPlain t = MExpr) by (unfold step; rewrite K; reflexivity).
              rewrite Hs in Hr. destruct (IH true ba (0 + 1)%Z bg MExpr Hr (or_intror (conj eq_refl eq_refl))) as [I1 I2].
              cbn [firstn skipn run]. rewrite Hs. split; [simpl; rewrite Hok; exact I1|exact I2].
        -- destruct (negb (truthy (counter c ba 0 bg))) eqn:Cz; [simpl; split; auto|].
           destruct c; cbn [bump counter] in *.
           ++ assert (Hs : step MPlain t = MPlain) by (unfold step; rewrite K; reflexivity).
              rewrite Hs in Hr. destruct (IH true ba 0%Z (bg + -1)%Z MPlain Hr (or_introl (conj eq_refl eq_refl))) as [I1 I2].
              cbn [firstn skipn run]. rewrite Hs. split; [simpl; rewrite Hok; exact I1|exact I2].
           ++ assert (Hs : step MPlain t = MPlain) by (unfold step; rewrite K; reflexivity).
              rewrite Hs in Hr. destruct (IH true (ba + -1)%Z 0%Z bg MPlain Hr (or_introl (conj eq_refl eq_refl))) as [I1 I2].
              cbn [firstn skipn run]. rewrite Hs. split; [simpl; rewrite Hok; exact I1|exact I2].
           ++ discriminate.
      * (* repeater number *)
        assert (Hs : step MPlain t = MPlain) by (unfold step; rewrite K; reflexivity).
        rewrite Hs in Hr. destruct (IH allow ba 0%Z bg MPlain Hr (or_introl (conj eq_refl eq_refl))) as [I1 I2].
        cbn [firstn skipn run]. rewrite Hs. split; [simpl; rewrite Hok; exact I1|exact I2].
      * assert (Hs : step MPlain t = MPlain) by (unfold step; rewrite K; reflexivity).
        rewrite Hs in Hr. destruct (IH allow ba 0%Z bg MPlain Hr (or_introl (conj eq_refl eq_refl))) as [I1 I2].
        cbn [firstn skipn run]. rewrite Hs. split; [simpl; rewrite Hok; exact I1|exact I2].
      * assert (Hs : step MPlain t = MPlain) by (unfold step; rewrite K; reflexivity).
        rewrite Hs in Hr. destruct (IH allow ba 0%Z bg MPlain Hr (or_introl (conj eq_refl eq_refl))) as [I1 I2].
        cbn [firstn skipn run]. rewrite Hs. split; [simpl; rewrite Hok; exact I1|exact I2].
    + (* inside braces, be = 1 *)
      change (truthy 1) with true. cbv iota.
      pose proof (allowed_expr_ok t Ha) as Hok.
      unfold allowed in Ha.
      destruct (tk t) eqn:K; simpl in Ha; try discriminate;
        try (assert (Hs : step MExpr t = MExpr) by (unfold step; rewrite K; reflexivity);
             rewrite Hs in Hr; destruct (IH allow ba 1%Z bg MExpr Hr (or_intror (conj eq_refl eq_refl))) as [I1 I2];
             cbn [firstn skipn run]; rewrite Hs; split; [simpl; rewrite Hok; exact I1|exact I2]).
      destruct c; destruct open; simpl in Ha; try discriminate.
      assert (Hs : step MExpr t = MPlain) by (unfold step; rewrite K; reflexivity).
      rewrite Hs in Hr. destruct (IH allow ba (1 + -1)%Z bg MPlain Hr (or_introl (conj eq_refl eq_refl))) as [I1 I2].
      cbn [firstn skipn run]. rewrite Hs. split; [simpl; rewrite Hok; exact I1|exact I2].
Qed.

Lemma literal_ok : forall allow toks, W MPlain toks = true ->
  toks_ok (firstn (literal allow toks) toks) = true /\
  (run MPlain (firstn (literal allow toks) toks) = MPlain \/ skipn (literal allow toks) toks = []).
Proof. intros. unfold literal. apply literal_n_ok; auto. Qed.

(* ---------------------------------------------------------------- quoted *)
Lemma find_quote_ok : forall s r k, W (MQuote s) r = true -> find_quote s r = Some k ->
  toks_ok (firstn (S k) r) = true /\ run (MQuote s) (firstn (S k) r) = MPlain.
Proof.
  intros s. induction r as [|t r IH]; intros k H E; simpl in E. discriminate.
  apply W_cons in H. destruct H as [Ha Hr].
  pose proof (allowed_quote_ok s t Ha) as Hok.
  destruct (is_quote_tok t (Some s)) eqn:Q.
  - inversion E; subst. cbn [firstn run]. simpl. rewrite Hok. split; auto.
    unfold is_quote_tok in Q. unfold step. destruct (tk t); try discriminate. reflexivity.
  - destruct (find_quote s r) as [k'|] eqn:F; [|discriminate]. inversion E; subst.
    assert (Hs : step (MQuote s) t = MQuote s).
    { unfold allowed in Ha. unfold is_quote_tok in Q. unfold step.
      destruct (tk t); simpl in Ha; try discriminate; try reflexivity.
      rewrite Ha in Q. discriminate. }
    rewrite Hs in Hr. destruct (IH k' Hr eq_refl) as [I1 I2].
    split.
    + change (firstn (S (S k')) (t :: r)) with (t :: firstn (S k') r). simpl. rewrite Hok. exact I1.
    + change (firstn (S (S k')) (t :: r)) with (t :: firstn (S k') r). cbn [run]. rewrite Hs. exact I2.
Qed.

Lemma quoted_ok : forall toks n, W MPlain toks = true -> quoted toks = QOk n ->
  toks_ok (firstn n toks) = true /\ run MPlain (firstn n toks) = MPlain /\ 1 <= n.
Proof.
  intros [|q r] n H E; simpl in E. discriminate.
  destruct (tk q) eqn:K; try discriminate.
  destruct (find_quote single r) as [k|] eqn:F; [|discriminate].
  inversion E; subst. apply W_cons in H. destruct H as [Ha Hr].
  assert (Hs : step MPlain q = MQuote single) by (unfold step; rewrite K; reflexivity).
  rewrite Hs in Hr. destruct (find_quote_ok single r k Hr F) as [I1 I2].
  assert (Hf : firstn (S (S k)) (q :: r) = q :: firstn (S k) r) by reflexivity.
  split; [|split; [|lia]]; rewrite ?Hf.
  - rewrite toks_ok_cons, I1. unfold tok_ok. rewrite K. reflexivity.
  - cbn [run]. rewrite Hs. exact I2.
Qed.

(* ---------------------------------------------------------------- attribute *)
Lemma skipn_nil_firstn_all : forall A n (l : list A), skipn n l = [] -> forall k, firstn (n + k) l = firstn n l.
Proof.
  intros A n l H k. rewrite firstn_add, H. destruct k; simpl; apply app_nil_r.
Qed.

Lemma tattr_ok_mk : forall n v e m, otoks_ok n = true -> otoks_ok v = true -> tattr_ok (mkTAttr n v e m) = true.
Proof. intros n v e m H H0. unfold tattr_ok. simpl. rewrite H, H0. reflexivity. Qed.

Lemma attribute_ok : forall toks a n, W MPlain toks = true -> attribute toks = AOk a n ->
  tattr_ok a = true /\ 1 <= n /\ (run MPlain (firstn n toks) = MPlain \/ skipn n toks = []).
Proof.
  intros toks a n H E. unfold attribute in E.
  destruct (quoted toks) as [|m|p] eqn:Q; [| |discriminate].
  - destruct (literal true toks) as [|n1] eqn:L; [discriminate|].
    destruct (literal_ok true toks H) as [L1 L2]. rewrite L in L1, L2.
    set (r := skipn (S n1) toks) in *.
    destruct (hd_is (fun t => is_operator t (Some OpEqual)) r) eqn:HD.
    + (* name = value *)
      destruct r as [|e r1] eqn:Er; [discriminate|]. simpl in HD.
      destruct L2 as [L2|L2]; [|discriminate].
      pose proof (W_skipn (S n1) toks MPlain H) as Hr. fold r in Hr. rewrite L2, Er in Hr.
      apply W_cons in Hr. destruct Hr as [Hae Hr1].
      rewrite (step_plain_operator e _ HD) in Hr1.
      assert (Heok : tok_ok e = true).
      { unfold is_operator in HD. destruct (tk e) eqn:K; try discriminate.
        eapply allowed_plain_op; eauto. }
      assert (Hsk : forall k, skipn (S n1 + 1 + k) toks = skipn k r1).
      { intros k. replace (S n1 + 1 + k) with (S n1 + (1 + k)) by lia.
        rewrite skipn_add. fold r. rewrite Er. reflexivity. }
      assert (Hrun : forall k, run MPlain (firstn (S n1 + 1 + k) toks) = run MPlain (firstn k r1)).
      { intros k. rewrite <- Nat.add_assoc, firstn_add, run_app, L2. fold r. rewrite Er.
        cbn [Nat.add firstn run]. rewrite (step_plain_operator e _ HD). reflexivity. }
      cbn [tl] in E.
      destruct (quoted r1) as [|m|p] eqn:Q2; [| |discriminate].
      * destruct (literal true r1) as [|m] eqn:L3.
        -- injection E as <- <-.
           split; [apply tattr_ok_mk; [exact L1|reflexivity]|]. split; [lia|].
           left. match goal with |- context [firstn ?x toks] => replace x with (S n1 + 1 + 0) by lia end.
           rewrite Hrun. reflexivity.
        -- destruct (literal_ok true r1 Hr1) as [M1 M2]. rewrite L3 in M1, M2.
           injection E as <- <-.
           split; [apply tattr_ok_mk; [exact L1|exact M1]|]. split; [lia|].
           match goal with |- context [firstn ?x toks] => replace x with (S n1 + 1 + S m) by lia end.
           rewrite Hrun, Hsk. exact M2.
      * destruct (quoted_ok r1 m Hr1 Q2) as [M1 [M2 M3]].
        injection E as <- <-.
        split; [apply tattr_ok_mk; [exact L1|exact M1]|]. split; [lia|].
        left. match goal with |- context [firstn ?x toks] => replace x with (S n1 + 1 + m) by lia end.
        rewrite Hrun. exact M2.
    + injection E as <- <-.
      split; [apply tattr_ok_mk; [exact L1|reflexivity]|]. split; [lia|]. exact L2.
  - destruct (quoted_ok toks m H Q) as [M1 [M2 M3]].
    injection E as <- <-.
    split; [apply tattr_ok_mk; [reflexivity|exact M1]|]. split; [exact M3|]. left. exact M2.
Qed.

(* ---------------------------------------------------------------- attribute_set *)
Lemma attr_set_loop_ok : forall toks skip acc m l c,
  W m toks = true ->
  (run m (firstn skip toks) = MPlain \/ skipn skip toks = []) ->
  forallb tattr_ok acc = true ->
  attr_set_loop skip acc toks = POk (l, c) -> forallb tattr_ok l = true.
Proof.
  induction toks as [|t r IH]; intros skip acc m l c H Hm Hacc E.
  - simpl in E. inversion E; subst. exact Hacc.
  - rewrite attr_set_loop_cons in E. apply W_cons in H. destruct H as [Ha Hr].
    destruct skip as [|k].
    + destruct Hm as [Hm|Hm]; [|discriminate]. simpl in Hm. subst m.
      destruct (attribute (t :: r)) as [|a n|p] eqn:A; [| |discriminate].
      * destruct (is_bracket t (Some BAttr) (Some false)). { inversion E; subst. exact Hacc. }
        destruct (is_white_space_tok t) eqn:WS; [|discriminate].
        destruct (attr_set_loop 0 acc r) as [[l' c']|] eqn:E2; [|discriminate]. inversion E; subst.
        assert (Hs : step MPlain t = MPlain).
        { unfold is_white_space_tok in WS. unfold step. destruct (tk t); try discriminate. reflexivity. }
        rewrite Hs in Hr. eapply (IH 0 acc MPlain); eauto.
      * assert (HW : W MPlain (t :: r) = true) by (cbn [W]; rewrite Ha, Hr; reflexivity).
        destruct (attribute_ok (t :: r) a n HW A) as [A1 [A2 A3]].
        destruct (attr_set_loop (pred n) (acc ++ [a]) r) as [[l' c']|] eqn:E2; [|discriminate]. inversion E; subst.
        destruct n as [|n']; [lia|]. cbn [pred] in E2.
        eapply (IH n' (acc ++ [a]) (step MPlain t)); eauto.
        rewrite forallb_app, Hacc. simpl. rewrite A1. reflexivity.
    + destruct (attr_set_loop k acc r) as [[l' c']|] eqn:E2; [|discriminate]. inversion E; subst.
      eapply (IH k acc (step m t)); eauto.
Qed.

Lemma attribute_set_ok : forall toks m l n, W m toks = true -> attribute_set toks = ASOk l n ->
  forallb tattr_ok l = true.
Proof.
  intros [|t r] m l n H E; simpl in E. discriminate.
  destruct (is_bracket t (Some BAttr) (Some true)) eqn:B; [|discriminate].
  destruct (attr_set_loop 0 [] r) as [[l' c]|] eqn:E2; [|discriminate]. inversion E; subst.
  apply W_cons in H. destruct H as [Ha Hr].
  pose proof (bracket_plain m t BAttr true Ha B eq_refl) as ->.
  assert (Hs : step MPlain t = MPlain).
  { unfold is_bracket in B. unfold step. destruct (tk t); try discriminate.
    destruct c0; destruct open; simpl in B; try discriminate; reflexivity. }
  rewrite Hs in Hr. eapply (attr_set_loop_ok r 0 [] MPlain); eauto.
Qed.

(* ---------------------------------------------------------------- short attribute *)
Lemma span_ops_plain : forall o toks, W MPlain toks = true ->
  W MPlain (skipn (span_tok (fun t => is_operator t o) toks) toks) = true.
Proof.
  intros o. induction toks as [|t r IH]; intros H; simpl. reflexivity.
  destruct (is_operator t o) eqn:B; [|exact H].
  apply W_cons in H. destruct H as [_ Hr]. rewrite (step_plain_operator t o B) in Hr.
  simpl. apply IH. exact Hr.
Qed.

Lemma short_attribute_ok : forall jsx ty toks m a n, W m toks = true ->
  short_attribute jsx ty toks = Some (a, n) -> tattr_ok a = true.
Proof.
  intros jsx ty toks m a n H E. unfold short_attribute in E.
  destruct (span_tok (fun t => is_operator t (Some ty)) toks) as [|c] eqn:SP; [discriminate|].
  assert (Hm : m = MPlain).
  { destruct toks as [|t r]; [discriminate|]. simpl in SP.
    destruct (is_operator t (Some ty)) eqn:B; [|discriminate].
    apply W_cons in H. destruct H as [Ha _]. eapply operator_plain; eauto. }
  subst m. pose proof (span_ops_plain (Some ty) toks H) as Hr. rewrite SP in Hr.
  set (r := skipn (S c) toks) in *.
  assert (Hname : toks_ok [literal_tok (match ty with OpId => s_id | _ => s_class end)] = true) by reflexivity.
  destruct (if jsx then text r else 0) as [|tx] eqn:TX.
  - destruct (literal false r) as [|mm] eqn:L.
    + inversion E; subst. reflexivity.
    + destruct (literal_ok false r Hr) as [L1 _]. rewrite L in L1.
      injection E as <- <-. apply tattr_ok_mk; [reflexivity|exact L1].
  - destruct jsx; [|discriminate].
    pose proof (text_ok r MPlain tx Hr TX) as T1.
    injection E as <- <-. apply tattr_ok_mk; [reflexivity|exact T1].
Qed.

(* ---------------------------------------------------------------- element *)
Definition est_ok (s : est) : bool :=
  otoks_ok (e_name s) && match e_attrs s with Some l => forallb tattr_ok l | None => true end && otoks_ok (e_value s).

Lemma est_add_attrs_ok : forall s l, est_ok s = true -> forallb tattr_ok l = true -> est_ok (est_add_attrs s l) = true.
Proof.
  intros s l H Hl. unfold est_ok, est_add_attrs in *. cbn [e_name e_attrs e_value].
  apply andb_true_iff in H. destruct H as [H H3]. apply andb_true_iff in H. destruct H as [H1 H2].
  rewrite H1, H3. destruct (e_attrs s); [rewrite forallb_app, H2, Hl|rewrite Hl]; reflexivity.
Qed.

Lemma elem_body_ok : forall jsx s toks, Wx toks -> est_ok s = true ->
  match elem_body jsx s toks with
  | EBreak s' _ => est_ok s' = true
  | ECont s' _ => est_ok s' = true
  | EErr _ => True
  end.
Proof.
  intros jsx s toks [m H] Hs. unfold elem_body.
  destruct toks as [|t r]. exact Hs.
  assert (Hparts : otoks_ok (e_name s) = true /\ match e_attrs s with Some l => forallb tattr_ok l | None => true end = true
                   /\ otoks_ok (e_value s) = true).
  { unfold est_ok in Hs. apply andb_true_iff in Hs. destruct Hs as [Hs H3]. apply andb_true_iff in Hs. tauto. }
  destruct Hparts as [P1 [P2 P3]].
  assert (G : match (let tx := match e_value s with None => text (t :: r) | Some _ => O end in
          match tx with
          | S _ => ECont (mkEst (e_name s) (e_attrs s) (Some (get_text (firstn tx (t :: r)))) (e_repeat s) (e_self s)) tx
          | O =>
              match short_attribute jsx OpId (t :: r) with
              | Some (a, n) => ECont (est_add_attrs s [a]) n
              | None =>
                  match short_attribute jsx OpClass (t :: r) with
                  | Some (a, n) => ECont (est_add_attrs s [a]) n
                  | None =>
                      match attribute_set (t :: r) with
                      | ASErr p => EErr p
                      | ASOk l n => ECont (est_add_attrs s l) n
                      | ASNone =>
                          if negb (est_empty s) && is_operator t (Some OpClose) then
                            let s' := mkEst (e_name s) (e_attrs s) (e_value s) (e_repeat s) true in
                            match e_repeat s', r with
                            | None, t2 :: _ =>
                                match rep_of t2 with
                                | Some rp => EBreak (mkEst (e_name s) (e_attrs s) (e_value s) (Some rp) true) 2
                                | None => EBreak s' 1
                                end
                            | _, _ => EBreak s' 1
                            end
                          else EBreak s O
                      end
                  end
              end
          end) with
  | EBreak s' _ => est_ok s' = true
  | ECont s' _ => est_ok s' = true
  | EErr _ => True
  end).
  { cbv zeta.
    destruct (match e_value s with None => text (t :: r) | Some _ => O end) as [|tx] eqn:TX.
    - destruct (short_attribute jsx OpId (t :: r)) as [[a n]|] eqn:S1.
      { apply est_add_attrs_ok; auto. simpl. rewrite (short_attribute_ok _ _ _ _ _ _ H S1). reflexivity. }
      destruct (short_attribute jsx OpClass (t :: r)) as [[a n]|] eqn:S2.
      { apply est_add_attrs_ok; auto. simpl. rewrite (short_attribute_ok _ _ _ _ _ _ H S2). reflexivity. }
      destruct (attribute_set (t :: r)) as [|l n|p] eqn:AS.
      + destruct (negb (est_empty s) && is_operator t (Some OpClose)); [|exact Hs].
        cbn [e_repeat]. destruct (e_repeat s); [unfold est_ok; cbn [e_name e_attrs e_value]; rewrite P1, P2, P3; reflexivity|].
        destruct r as [|t2 r2]; [unfold est_ok; cbn [e_name e_attrs e_value]; rewrite P1, P2, P3; reflexivity|].
        destruct (rep_of t2); unfold est_ok; cbn [e_name e_attrs e_value]; rewrite P1, P2, P3; reflexivity.
      + apply est_add_attrs_ok; auto. eapply attribute_set_ok; eauto.
      + exact I.
    - destruct (e_value s); [discriminate|].
      unfold est_ok. cbn [e_name e_attrs e_value otoks_ok]. rewrite P1, P2.
      rewrite (text_ok (t :: r) m tx H TX). reflexivity. }
  destruct (e_repeat s); [exact G|].
  destruct (negb (est_empty s)); [|exact G].
  destruct (rep_of t); [|exact G].
  unfold est_ok. cbn [e_name e_attrs e_value]. rewrite P1, P2, P3. reflexivity.
Qed.

Lemma elem_loop_ok : forall jsx toks skip s s' c, Wx toks -> est_ok s = true ->
  elem_loop jsx skip s toks = POk (s', c) -> est_ok s' = true.
Proof.
  intros jsx. induction toks as [|t r IH]; intros skip s s' c HW Hs E.
  - simpl in E. inversion E; subst. exact Hs.
  - rewrite elem_loop_cons in E. destruct skip as [|k].
    + pose proof (elem_body_ok jsx s (t :: r) HW Hs) as HB.
      destruct (elem_body jsx s (t :: r)) as [s1 n|s1 n|p]; [| |discriminate].
      * inversion E; subst. exact HB.
      * destruct (elem_loop jsx (pred n) s1 r) as [[s2 c2]|] eqn:E2; [|discriminate]. inversion E; subst.
        eapply IH; [eapply Wx_tail; eauto|exact HB|exact E2].
    + destruct (elem_loop jsx k s r) as [[s2 c2]|] eqn:E2; [|discriminate]. inversion E; subst.
      eapply IH; [eapply Wx_tail; eauto|exact Hs|exact E2].
Qed.

(* the tokens of an element name are stringifiable whatever the list is *)
Lemma span_name_ok : forall toks, toks_ok (firstn (span_tok is_element_name_tok toks) toks) = true.
Proof.
  induction toks as [|t r IH]; simpl. reflexivity.
  destruct (is_element_name_tok t) eqn:B; [|reflexivity].
  simpl. rewrite IH. unfold is_element_name_tok in B. unfold tok_ok. destruct (tk t); try discriminate; reflexivity.
Qed.

Lemma jsx_chain_ok : forall n toks, length toks <= n -> toks_ok (firstn (jsx_chain toks) toks) = true.
Proof.
  induction n as [|n IH]; intros toks Hl.
  - destruct toks; [reflexivity|simpl in Hl; lia].
  - destruct toks as [|d r]; [reflexivity|]. cbn [jsx_chain].
    destruct (is_operator d (Some OpClass)) eqn:B; [|reflexivity].
    destruct r as [|c r']; [reflexivity|].
    destruct (is_capitalized_literal c) eqn:C; [|reflexivity].
    change (firstn (S (S (jsx_chain r'))) (d :: c :: r')) with (d :: c :: firstn (jsx_chain r') r').
    simpl. rewrite IH; [|simpl in Hl; lia].
    assert (tok_ok d = true).
    { unfold is_operator in B. unfold tok_ok. destruct (tk d); try discriminate.
      destruct o; simpl in B; try discriminate. reflexivity. }
    assert (tok_ok c = true).
    { unfold is_capitalized_literal in C. unfold tok_ok. destruct (tk c); try discriminate. reflexivity. }
    rewrite H, H0. reflexivity.
Qed.

Lemma element_name_ok : forall jsx toks, toks_ok (firstn (element_name jsx toks) toks) = true.
Proof.
  intros jsx toks. unfold element_name.
  set (n1 := if jsx && hd_is is_capitalized_literal toks then S (jsx_chain (tl toks)) else 0).
  rewrite firstn_add, toks_ok_app, span_name_ok, andb_true_r.
  unfold n1. destruct (jsx && hd_is is_capitalized_literal toks) eqn:B; [|reflexivity].
  apply andb_true_iff in B. destruct B as [_ B].
  destruct toks as [|c r]; [discriminate|]. simpl in B. cbn [tl firstn]. simpl.
  rewrite (jsx_chain_ok (length r) r (le_n _)).
  unfold is_capitalized_literal in B. unfold tok_ok. destruct (tk c); try discriminate. reflexivity.
Qed.

Lemma element_ok : forall jsx toks node c, Wx toks -> element jsx toks = POk (Some (node, c)) -> tnode_ok node = true.
Proof.
  intros jsx toks node c HW E. unfold element in E.
  pose proof (element_name_ok jsx toks) as HN.
  remember (element_name jsx toks) as nn eqn:Enn.
  set (s0 := mkEst (match nn with O => None | S _ => Some (firstn nn toks) end) None None None false) in *.
  assert (H0 : est_ok s0 = true).
  { unfold est_ok, s0. cbn [e_name e_attrs e_value].
    destruct nn; [reflexivity|]. cbn [otoks_ok]. rewrite HN. reflexivity. }
  destruct (elem_loop jsx nn s0 toks) as [[s c']|] eqn:EL; [|discriminate].
  pose proof (elem_loop_ok jsx toks nn s0 s c' HW H0 EL) as Hs.
  destruct (est_empty s); [discriminate|]. inversion E; subst.
  unfold est_ok in Hs. simpl. rewrite Hs. reflexivity.
Qed.

(* ---------------------------------------------------------------- statements *)
Lemma add_child_ok : forall c n, tnode_ok c = true -> tnode_ok n = true -> tnode_ok (add_child c n) = true.
Proof.
  intros [name attrs value rp sc els|els rp] n Hc Hn; simpl in *.
  - repeat (apply andb_true_iff in Hc; destruct Hc as [Hc ?]).
    rewrite Hc, H1, H0. rewrite forallb_app, H. simpl. rewrite Hn. reflexivity.
  - rewrite forallb_app, Hc. simpl. rewrite Hn. reflexivity.
Qed.

Lemma close_all_ok : forall stack cur, tnode_ok cur = true -> forallb tnode_ok stack = true ->
  tnode_ok (close_all cur stack) = true.
Proof.
  induction stack as [|p st IH]; intros cur Hc Hs; simpl. exact Hc.
  simpl in Hs. apply andb_true_iff in Hs. destruct Hs as [Hp Hs].
  apply IH; [apply add_child_ok; assumption|exact Hs].
Qed.

Lemma climb_ok : forall k cur stack c' s', tnode_ok cur = true -> forallb tnode_ok stack = true ->
  climb k cur stack = (c', s') -> tnode_ok c' = true /\ forallb tnode_ok s' = true.
Proof.
  induction k as [|k IH]; intros cur stack c' s' Hc Hs E; simpl in E.
  - inversion E; subst. auto.
  - destruct stack as [|p st]. { inversion E; subst. auto. }
    simpl in Hs. apply andb_true_iff in Hs. destruct Hs as [Hp Hs].
    eapply IH; [|exact Hs|exact E]. apply add_child_ok; assumption.
Qed.

Lemma elements_of_ok : forall n, tnode_ok n = true -> forallb tnode_ok (elements_of n) = true.
Proof.
  intros [name attrs value rp sc els|els rp] H; simpl in *; [|exact H].
  apply andb_true_iff in H. tauto.
Qed.

Lemma stmts_ok : forall jsx toks skip cur stack els c, Wx toks ->
  tnode_ok cur = true -> forallb tnode_ok stack = true ->
  stmts jsx skip cur stack toks = POk (els, c) -> forallb tnode_ok els = true.
Proof.
  intros jsx. induction toks as [|t r IH]; intros skip cur stack els c HW Hc Hs E.
  - simpl in E. inversion E; subst. apply elements_of_ok. apply close_all_ok; assumption.
  - rewrite stmts_cons in E. pose proof (Wx_tail t r HW) as HWr.
    destruct skip as [|k].
    + assert (HP : match parsed_of jsx t r with POk (Some (node, _)) => tnode_ok node = true | _ => True end).
      { unfold parsed_of. destruct (element jsx (t :: r)) as [[[node n]|]|p] eqn:EE; [| |exact I].
        - exact (element_ok jsx (t :: r) node n HW EE).
        - destruct (is_bracket t (Some BGroup) (Some true)); [|exact I].
          destruct (stmts jsx 0 (TGroup [] None) [] r) as [[gels m]|] eqn:EG; [|exact I].
          pose proof (IH 0 (TGroup [] None) [] gels m HWr eq_refl eq_refl EG) as HG.
          destruct (skipn m r) as [|c0 rest]; [exact HG|].
          destruct (is_bracket c0 (Some BGroup) (Some false)); [|exact HG].
          destruct rest as [|t2 rest']; [exact HG|]. destruct (rep_of t2); exact HG. }
      destruct (parsed_of jsx t r) as [[[node n]|]|p]; [| |discriminate].
      * cbv zeta in E.
        match type of E with context [if hd_is is_child_op ?a then ?x else ?y] =>
          destruct (if hd_is is_child_op a then x else y) as [[c1 s1] n1] eqn:ST end.
        assert (Hnext : tnode_ok c1 = true /\ forallb tnode_ok s1 = true).
        { match type of ST with (if ?b then _ else _) = _ => destruct b end.
          - inversion ST; subst. simpl. rewrite Hc, Hs. auto.
          - match type of ST with (if ?b then _ else _) = _ => destruct b end.
            + inversion ST; subst. split; [apply add_child_ok; assumption|exact Hs].
            + match type of ST with (let '(c', s') := ?e in _) = _ => destruct e as [c' s'] eqn:CL end.
              inversion ST; subst. eapply climb_ok; [|exact Hs|exact CL]. apply add_child_ok; assumption. }
        destruct Hnext as [Hc1 Hs1].
        destruct (stmts jsx (pred n1) c1 s1 r) as [[els' c']|] eqn:E2; [|discriminate]. inversion E; subst.
        eapply IH; eauto.
      * inversion E; subst. apply elements_of_ok. apply close_all_ok; assumption.
    + destruct (stmts jsx k cur stack r) as [[els' c']|] eqn:E2; [|discriminate]. inversion E; subst.
      eapply IH; eauto.
Qed.

Theorem parse_tree_ok : forall jsx toks root, W MPlain toks = true -> parse jsx toks = POk root ->
  forallb tnode_ok root = true.
Proof.
  intros jsx toks root H E. unfold parse in E.
  destruct (stmts jsx 0 (TGroup [] None) [] toks) as [[els c]|] eqn:ES; [|discriminate].
  destruct (skipn c toks); [|discriminate]. inversion E; subst.
  eapply stmts_ok; [exists MPlain; exact H| | |exact ES]; reflexivity.
Qed.
