(* C01: the statements() loop of the parser builds exactly the tree the operators
   > + ^ denote.  Spec = depth-counter semantics producing a preorder depth list;
   the parser keeps an open right spine.  Flat statements (no groups) here. *)
From Emmet Require Import lib.Base model.MarkupTokenizer model.MarkupParser.
Local Open Scope nat_scope.

(* ---------------------------------------------------------------- spec *)
(* operator written after an element.  SClimb k stands for k+1 carets. *)
Inductive sop := SChild | SSibling | SClimb (k : nat).

(* payload of an element: everything but its children *)
Record leaf := mkLeaf {
  lf_name : option (list token); lf_attrs : option (list tattr); lf_value : option (list token);
  lf_repeat : option rep; lf_self : bool }.
Definition leaf_node (l : leaf) : tnode :=
  TElem (lf_name l) (lf_attrs l) (lf_value l) (lf_repeat l) (lf_self l) [].

(* depth-counter semantics: the element written after `>` is one level deeper, `+` keeps the
   level, each `^` moves one level up and stops at the top level *)
Definition next_depth (d : nat) (o : sop) : nat :=
  match o with SChild => S d | SSibling => d | SClimb k => d - S k end.
Fixpoint denote (d : nat) (xs : list (leaf * sop)) : list (nat * leaf) :=
  match xs with
  | [] => []
  | (l, o) :: xs' => (d, l) :: denote (next_depth d o) xs'
  end.

(* preorder depth list of a token tree (a group contributes its elements at its own depth) *)
Fixpoint pre (d : nat) (n : tnode) : list (nat * leaf) :=
  match n with
  | TElem a b c r s els =>
      (d, mkLeaf a b c r s) :: (fix go (l : list tnode) := match l with [] => [] | x :: l' => pre (S d) x ++ go l' end) els
  | TGroup els _ =>
      (fix go (l : list tnode) := match l with [] => [] | x :: l' => pre d x ++ go l' end) els
  end.
Definition preL (d : nat) (l : list tnode) : list (nat * leaf) := flat_map (pre d) l.

Lemma pre_elem d a b c r s els : pre d (TElem a b c r s els) = (d, mkLeaf a b c r s) :: preL (S d) els.
Proof.
  cbn [pre]. apply f_equal.
  induction els as [|x l IH]; [reflexivity|]. cbn [preL flat_map]. rewrite IH. reflexivity.
Qed.
Lemma preL_app d a b : preL d (a ++ b) = preL d a ++ preL d b.
Proof. unfold preL. apply flat_map_app. Qed.
Lemma preL_one d n : preL d [n] = pre d n.
Proof. unfold preL. cbn [flat_map]. apply app_nil_r. Qed.

(* ---------------------------------------------------------------- the open spine *)
Definition leaf_of (n : tnode) : leaf :=
  match n with TElem a b c r s _ => mkLeaf a b c r s | TGroup _ _ => mkLeaf None None None None false end.
Definition is_elem (n : tnode) : bool := match n with TElem _ _ _ _ _ _ => true | TGroup _ _ => false end.

(* flattened view of the open spine: [cur] is the innermost open container, [stack] its open
   ancestors, innermost first, the root group last *)
Fixpoint view (cur : tnode) (stack : list tnode) : list (nat * leaf) :=
  match stack with
  | [] => preL 0 (elements_of cur)
  | p :: st => view p st ++ (length st, leaf_of cur) :: preL (S (length st)) (elements_of cur)
  end.

(* every open container but the root is an element *)
Fixpoint spine_ok (cur : tnode) (stack : list tnode) : Prop :=
  match stack with
  | [] => True
  | p :: st => is_elem cur = true /\ spine_ok p st
  end.

Lemma elements_add_child c n : elements_of (add_child c n) = elements_of c ++ [n].
Proof. destruct c; reflexivity. Qed.
Lemma leaf_add_child c n : leaf_of (add_child c n) = leaf_of c.
Proof. destruct c; reflexivity. Qed.
Lemma is_elem_add_child c n : is_elem (add_child c n) = is_elem c.
Proof. destruct c; reflexivity. Qed.

Lemma pre_is_elem d n : is_elem n = true -> pre d n = (d, leaf_of n) :: preL (S d) (elements_of n).
Proof. destruct n; [|discriminate]. intros _. apply pre_elem. Qed.

(* appending a node to the innermost open container appends its preorder at that depth *)
Lemma view_snoc stack cur n : view (add_child cur n) stack = view cur stack ++ pre (length stack) n.
Proof.
  destruct stack as [|p st]; cbn [view length].
  - rewrite elements_add_child, preL_app, preL_one. reflexivity.
  - rewrite elements_add_child, leaf_add_child, preL_app, preL_one.
    rewrite <- app_assoc. cbn [app]. reflexivity.
Qed.

(* closing the innermost container into its parent does not change the view *)
Lemma view_pop cur p st : is_elem cur = true -> view (add_child p cur) st = view cur (p :: st).
Proof. intros H. rewrite view_snoc. cbn [view]. rewrite (pre_is_elem _ _ H). reflexivity. Qed.

Lemma close_all_view : forall stack cur,
  spine_ok cur stack -> preL 0 (elements_of (close_all cur stack)) = view cur stack.
Proof.
  induction stack as [|p st IH]; intros cur H; cbn [close_all]; [reflexivity|].
  destruct H as [He Hp]. rewrite IH.
  - apply view_pop; assumption.
  - destruct st; cbn [spine_ok] in *; [exact I|]. rewrite is_elem_add_child. exact Hp.
Qed.

Lemma climb_view : forall k cur stack,
  spine_ok cur stack ->
  let '(c', s') := climb k cur stack in
  view c' s' = view cur stack /\ spine_ok c' s' /\ length s' = length stack - k.
Proof.
  induction k as [|k IH]; intros cur stack H; cbn [climb].
  - repeat split; [assumption|lia].
  - destruct stack as [|p st]; [repeat split; assumption|].
    destruct H as [He Hp].
    assert (Hs : spine_ok (add_child p cur) st).
    { destruct st; cbn [spine_ok] in *; [exact I|]. rewrite is_elem_add_child. exact Hp. }
    specialize (IH (add_child p cur) st Hs).
    destruct (climb k (add_child p cur) st) as [c' s'].
    destruct IH as [Hv [Hok Hl]]. repeat split; [|assumption|cbn [length]; lia].
    rewrite Hv. apply view_pop. exact He.
Qed.

(* ---------------------------------------------------------------- one step of the loop, abstractly *)
Definition step (st : tnode * list tnode) (x : leaf * sop) : tnode * list tnode :=
  let '(cur, stack) := st in
  let '(l, o) := x in
  match o with
  | SChild => (leaf_node l, cur :: stack)
  | SSibling => (add_child cur (leaf_node l), stack)
  | SClimb k => climb (S k) (add_child cur (leaf_node l)) stack
  end.

Lemma step_view cur stack l o :
  spine_ok cur stack ->
  let '(c', s') := step (cur, stack) (l, o) in
  view c' s' = view cur stack ++ [(length stack, l)] /\ spine_ok c' s' /\ length s' = next_depth (length stack) o.
Proof.
  intros H. destruct o as [| |k]; cbn [step next_depth].
  - cbn [view leaf_node elements_of leaf_of preL flat_map spine_ok is_elem length].
    repeat split; try assumption. destruct l; reflexivity.
  - rewrite view_snoc. unfold leaf_node. rewrite pre_elem. cbn [preL flat_map].
    repeat split; try reflexivity.
    + destruct l; reflexivity.
    + destruct stack; cbn [spine_ok] in *; [exact I|]. rewrite is_elem_add_child. exact H.
  - assert (Hs : spine_ok (add_child cur (leaf_node l)) stack).
    { destruct stack; cbn [spine_ok] in *; [exact I|]. rewrite is_elem_add_child. exact H. }
    pose proof (climb_view (S k) _ _ Hs) as Hc.
    destruct (climb (S k) (add_child cur (leaf_node l)) stack) as [c' s'].
    destruct Hc as [Hv [Hok Hl]]. repeat split; try assumption.
    rewrite Hv, view_snoc. unfold leaf_node. rewrite pre_elem. cbn [preL flat_map].
    destruct l; reflexivity.
Qed.

Theorem steps_denote : forall xs cur stack,
  spine_ok cur stack ->
  let '(c', s') := fold_left step xs (cur, stack) in
  view c' s' = view cur stack ++ denote (length stack) xs /\ spine_ok c' s'.
Proof.
  induction xs as [|[l o] xs IH]; intros cur stack H; cbn [fold_left denote].
  - rewrite app_nil_r. split; [reflexivity|assumption].
  - pose proof (step_view cur stack l o H) as Hs.
    destruct (step (cur, stack) (l, o)) as [c1 s1]. destruct Hs as [Hv [Hok Hl]].
    specialize (IH c1 s1 Hok).
    destruct (fold_left step xs (c1, s1)) as [c' s']. destruct IH as [Hv' Hok'].
    split; [|assumption]. rewrite Hv', Hv, Hl, <- app_assoc. reflexivity.
Qed.

(* ---------------------------------------------------------------- the parser loop *)
Definition op_tok (o : optype) (t : token) : Prop := tk t = TOperator o.

(* the operator tokens written after an element *)
Inductive op_tokens : sop -> list token -> Prop :=
| ot_child t : op_tok OpChild t -> op_tokens SChild [t]
| ot_sibling t : op_tok OpSibling t -> op_tokens SSibling [t]
| ot_climb k ts : length ts = S k -> Forall (op_tok OpClimb) ts -> op_tokens (SClimb k) ts.

(* [b] is the token block of an element with payload [l]: element() consumes exactly [b]
   whenever an operator or the end of input follows, and [b] does not start with `^` *)
Definition boundary (rest : list token) : Prop :=
  match rest with
  | [] => True
  | t :: _ => op_tok OpChild t \/ op_tok OpSibling t \/ op_tok OpClimb t
  end.
Definition block_ok (jsx : bool) (b : list token) (l : leaf) : Prop :=
  b <> [] /\ hd_is is_climb_op b = false /\
  forall rest, boundary rest -> element jsx (b ++ rest) = POk (Some (leaf_node l, length b)).

(* a flat statement: blocks separated by operators (an operator may also end the input) *)
Inductive flat (jsx : bool) : list (leaf * sop) -> list token -> Prop :=
| flat_nil : flat jsx [] []
| flat_last b l : block_ok jsx b l -> flat jsx [(l, SSibling)] b            (* last element, nothing follows *)
| flat_cons b l o ots xs rest :
    block_ok jsx b l -> op_tokens o ots -> flat jsx xs rest ->
    flat jsx ((l, o) :: xs) (b ++ ots ++ rest).

Definition shift (k : nat) (r : pres (list tnode * nat)) : pres (list tnode * nat) :=
  match r with POk (els, c) => POk (els, k + c) | PErr p => PErr p end.

Lemma stmts_skip jsx : forall toks skip cur stack,
  skip <= length toks ->
  stmts jsx skip cur stack toks = shift skip (stmts jsx 0 cur stack (skipn skip toks)).
Proof.
  induction toks as [|t r IH]; intros skip cur stack H.
  - cbn [length] in H. assert (skip = 0) by lia. subst. cbn [skipn shift stmts]. reflexivity.
  - destruct skip as [|k].
    + cbn [skipn]. unfold shift. destruct (stmts jsx 0 cur stack (t :: r)) as [[els c]|p]; reflexivity.
    + cbn [stmts skipn]. rewrite IH by (cbn [length] in H; lia).
      unfold shift. destruct (stmts jsx 0 cur stack (skipn k r)) as [[els c]|p]; reflexivity.
Qed.

Lemma is_operator_tok t o o' : op_tok o t -> is_operator t (Some o') = optype_eqb o o'.
Proof. intros H. unfold is_operator. rewrite H. reflexivity. Qed.

Lemma hd_is_boundary_child rest : boundary rest -> forall t r, rest = t :: r -> op_tok OpChild t -> hd_is is_child_op rest = true.
Proof. intros _ t r -> H. cbn [hd_is]. unfold is_child_op, is_operator. rewrite H. reflexivity. Qed.

Lemma span_climb_all ts rest :
  Forall (op_tok OpClimb) ts -> hd_is is_climb_op rest = false ->
  span_tok is_climb_op (ts ++ rest) = length ts.
Proof.
  induction ts as [|t ts IH]; intros HF Hr; cbn [app length span_tok].
  - destruct rest as [|t r]; [reflexivity|]. cbn [hd_is] in Hr. cbn [span_tok]. rewrite Hr. reflexivity.
  - inversion HF as [|x y Ht HF']; subst. unfold is_climb_op at 1, is_operator. rewrite Ht. cbn [optype_eqb].
    f_equal. apply IH; assumption.
Qed.

Lemma flat_hd_not_climb jsx xs toks : flat jsx xs toks -> hd_is is_climb_op toks = false.
Proof.
  intros H. destruct H as [|b l [Hne [Hc _]]|b l o ots xs rest [Hne [Hc _]] _ _]; [reflexivity|assumption|].
  destruct b as [|t b']; [congruence|]. exact Hc.
Qed.

Lemma boundary_ops o ots rest : op_tokens o ots -> boundary (ots ++ rest).
Proof.
  intros H. destruct H as [t Ht|t Ht|k ts Hl HF]; cbn [app boundary]; auto.
  destruct ts as [|t ts]; [discriminate|]. inversion HF; subst. cbn [app boundary]. auto.
Qed.

(* the parser loop on a flat statement performs exactly the abstract steps *)
Theorem stmts_flat jsx : forall xs toks,
  flat jsx xs toks ->
  forall cur stack,
  stmts jsx 0 cur stack toks =
    let '(c', s') := fold_left step xs (cur, stack) in
    POk (elements_of (close_all c' s'), length toks).
Proof.
  intros xs toks H. induction H as [|b l Hb|b l o ots xs rest Hb Ho Hf IH]; intros cur stack.
  - reflexivity.
  - (* last element *)
    destruct Hb as [Hne [Hc He]]. specialize (He [] I). rewrite app_nil_r in He.
    destruct b as [|t r]; [congruence|]. cbn [stmts]. rewrite He.
    cbn [length pred]. rewrite skipn_all2 by (cbn; lia). cbn [hd_is span_tok climb].
    rewrite Nat.add_0_r. cbn [pred].
    rewrite stmts_skip by lia. rewrite skipn_all. cbn [stmts shift fold_left step].
    rewrite Nat.add_0_r. reflexivity.
  - destruct Hb as [Hne [Hc He]].
    specialize (He (ots ++ rest) (boundary_ops _ _ _ Ho)).
    destruct b as [|t r]; [congruence|].
    cbn [app stmts]. cbn [app] in He. rewrite He. cbn [length pred].
    assert (Hafter : skipn (length r) (r ++ ots ++ rest) = ots ++ rest).
    { rewrite skipn_app, skipn_all, Nat.sub_diag. reflexivity. }
    rewrite Hafter.
    assert (Hskip : forall n, n = length r + length ots -> skipn n (r ++ ots ++ rest) = rest).
    { intros n ->. rewrite app_assoc. rewrite skipn_app. rewrite skipn_all2 by (rewrite app_length; lia).
      rewrite app_length. replace (length r + length ots - (length r + length ots)) with 0 by lia. reflexivity. }
    cbn [fold_left].
    destruct Ho as [t1 Ht|t1 Ht|k ts Hl HF].
    + (* child *)
      cbn [app] in Hskip. cbn [app hd_is]. unfold is_child_op. rewrite (is_operator_tok _ _ _ Ht). cbn [optype_eqb pred].
      rewrite stmts_skip by (rewrite !app_length; cbn; lia).
      rewrite (Hskip (S (length r))) by (cbn; lia).
      rewrite IH. cbn [step]. destruct (fold_left step xs (leaf_node l, cur :: stack)) as [c' s'].
      cbn [shift]. rewrite !app_length. cbn [length]. f_equal. f_equal. lia.
    + (* sibling *)
      cbn [app] in Hskip. cbn [app hd_is]. unfold is_child_op, is_sibling_op. rewrite !(is_operator_tok _ _ _ Ht). cbn [optype_eqb pred].
      rewrite stmts_skip by (rewrite !app_length; cbn; lia).
      rewrite (Hskip (S (length r))) by (cbn; lia).
      rewrite IH. cbn [step]. destruct (fold_left step xs (add_child cur (leaf_node l), stack)) as [c' s'].
      cbn [shift]. rewrite !app_length. cbn [length]. f_equal. f_equal. lia.
    + (* climb *)
      destruct ts as [|t1 ts']; [discriminate|]. inversion HF as [|x y Ht HF']; subst.
      cbn [app hd_is]. unfold is_child_op, is_sibling_op. rewrite !(is_operator_tok _ _ _ Ht). cbn [optype_eqb].
      change (t1 :: ts' ++ rest) with ((t1 :: ts') ++ rest).
      rewrite (span_climb_all (t1 :: ts') rest HF (flat_hd_not_climb _ _ _ Hf)).
      rewrite Hl. cbn [step].
      destruct (climb (S k) (add_child cur (leaf_node l)) stack) as [c1 s1] eqn:Ec.
      replace (pred (S (length r) + S k)) with (length r + S k) by lia.
      rewrite stmts_skip by (rewrite !app_length, Hl; lia).
      rewrite (Hskip (length r + S k)) by (rewrite Hl; reflexivity).
      rewrite IH. destruct (fold_left step xs (c1, s1)) as [c' s'].
      cbn [shift]. rewrite !app_length. rewrite Hl. cbn [length]. f_equal. f_equal. lia.
Qed.

(* C01, parser half: the token tree built for a flat statement has exactly the preorder depth
   list the operators denote *)
Theorem parse_flat_denote jsx xs toks :
  flat jsx xs toks ->
  exists els, parse jsx toks = POk els /\ preL 0 els = denote 0 xs.
Proof.
  intros H. unfold parse. rewrite (stmts_flat jsx xs toks H).
  pose proof (steps_denote xs (TGroup [] None) [] I) as Hd.
  destruct (fold_left step xs (TGroup [] None, [])) as [c' s']. destruct Hd as [Hv Hok].
  rewrite skipn_all. eexists. split; [reflexivity|].
  rewrite close_all_view by assumption. rewrite Hv. reflexivity.
Qed.

(* ---------------------------------------------------------------- block instances *)
(* an element written as a bare name (one Literal token) *)
Lemma boundary_head rest :
  boundary rest ->
  rest = [] \/ exists t r, rest = t :: r /\
    (tk t = TOperator OpChild \/ tk t = TOperator OpSibling \/ tk t = TOperator OpClimb).
Proof. destruct rest as [|t r]; [left; reflexivity|]. intros H. right. exists t, r. split; [reflexivity|exact H]. Qed.

Lemma block_name (t : token) (v : str) :
  tk t = TLiteral v ->
  block_ok false [t] (mkLeaf (Some [t]) None None None false).
Proof.
  intros Ht. split; [discriminate|]. split.
  - cbn [hd_is]. unfold is_climb_op, is_operator. rewrite Ht. reflexivity.
  - intros rest Hb. apply boundary_head in Hb.
    unfold element, element_name. cbn [andb app hd_is tl skipn Nat.add].
    assert (Hn : is_element_name_tok t = true) by (unfold is_element_name_tok; rewrite Ht; reflexivity).
    destruct Hb as [->|[t' [r [-> Hop]]]].
    + cbn [span_tok]. rewrite Hn. cbn [span_tok firstn elem_loop est_empty e_name leaf_node]. reflexivity.
    + assert (Hn' : is_element_name_tok t' = false).
      { unfold is_element_name_tok. destruct Hop as [H|[H|H]]; rewrite H; reflexivity. }
      cbn [span_tok]. rewrite Hn, Hn'. cbn [firstn elem_loop].
      assert (Hbody : elem_body false (mkEst (Some [t]) None None None false) (t' :: r)
                      = EBreak (mkEst (Some [t]) None None None false) 0).
      { unfold elem_body. cbn [e_repeat est_empty e_name e_value e_attrs negb].
        assert (Hrep : rep_of t' = None) by (unfold rep_of; destruct Hop as [H|[H|H]]; rewrite H; reflexivity).
        rewrite Hrep.
        assert (Htx : text (t' :: r) = 0).
        { unfold text, is_bracket. destruct Hop as [H|[H|H]]; rewrite H; reflexivity. }
        rewrite Htx.
        assert (Hid : short_attribute false OpId (t' :: r) = None).
        { unfold short_attribute. cbn [span_tok]. unfold is_operator. destruct Hop as [H|[H|H]]; rewrite H; reflexivity. }
        assert (Hcl : short_attribute false OpClass (t' :: r) = None).
        { unfold short_attribute. cbn [span_tok]. unfold is_operator. destruct Hop as [H|[H|H]]; rewrite H; reflexivity. }
        rewrite Hid, Hcl.
        assert (Has : attribute_set (t' :: r) = ASNone).
        { unfold attribute_set, is_bracket. destruct Hop as [H|[H|H]]; rewrite H; reflexivity. }
        rewrite Has.
        assert (Hclose : is_operator t' (Some OpClose) = false).
        { unfold is_operator. destruct Hop as [H|[H|H]]; rewrite H; reflexivity. }
        rewrite Hclose. reflexivity. }
      rewrite Hbody. cbn [est_empty e_name leaf_node lf_name lf_attrs lf_value lf_repeat lf_self e_attrs e_value e_repeat e_self length].
      reflexivity.
Qed.
