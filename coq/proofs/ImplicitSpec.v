(* C01, implicit names: a table-free restatement of the documented rule
     li under ul/ol, tr under table/tbody/thead/tfoot, td under tr, option under select/optgroup,
     span under p and under the inline elements of the configuration, div otherwise
   proved equal to the model's lookup ([implicit_name_of], over ELEMENT_MAP regenerated from the
   source) for every parent that is not one of the UNDOCUMENTED map entries; and the list-level
   reading of "the parent in the denoted tree": a left-to-right pass over a preorder
   (depth, written name) list that keeps the names of the open ancestors. *)
From Coq Require Import String.
From Emmet Require Import lib.Base lib.StrLit model.MarkupTokenizer model.MarkupParser model.MarkupConvert
     model.MarkupResolve gen.GenImplicit proofs.ImplicitProofs proofs.IndentStream proofs.HtmlEvents
     proofs.ExpandTree.
Local Open Scope nat_scope.

(* ================================================================ SPEC *)
(* the documented rule, on the lower-cased parent name *)
Definition implicit_spec_low (inline : list str) (q : str) : str :=
  if mem_str q [S "ul"; S "ol"] then S "li"
  else if mem_str q [S "table"; S "tbody"; S "thead"; S "tfoot"] then S "tr"
  else if str_eqb q (S "tr") then S "td"
  else if mem_str q [S "select"; S "optgroup"] then S "option"
  else if str_eqb q (S "p") || mem_str q inline then S "span"
  else S "div".
Definition implicit_spec (inline : list str) (parent : str) : str := implicit_spec_low inline (lower parent).

(* the parents the documentation does not speak about: keys of the regenerated map that are not
   in the documented table (colgroup, audio, video, object, map at the time of writing) *)
Definition documented_keys : list str := map fst documented_implicit.
Definition undocumented_keys : list str :=
  filter (fun k => negb (mem_str k documented_keys)) (map fst element_map).
Definition documented_parent (p : str) : bool := negb (mem_str (lower p) undocumented_keys).

(* ================================================================ the model's lookup *)
Definition implicit_of (cfg : mconfig) (p : str) : str :=
  match assoc_str (lower p) element_map with
  | Some n => n
  | None => if is_inline_name cfg (lower p) then S "span" else S "div"
  end.
(* the parent string the model looks up: the parent's name, or the context name at top level *)
Definition parent_str (cfg : mconfig) (pn : option (option str)) : str :=
  match pn with
  | Some (Some n) => n
  | Some None => []
  | None => match mc_context_name cfg with Some n => n | None => [] end
  end.
Lemma implicit_name_of_eq cfg pn : implicit_name_of cfg pn = implicit_of cfg (parent_str cfg pn).
Proof. reflexivity. Qed.

(* ---------------------------------------------------------------- strings *)
Lemma lower_c_idem c : lower_c (lower_c c) = lower_c c.
Proof.
  unfold lower_c. destruct (in_range c_A c_Z c) eqn:E; [|rewrite E; reflexivity].
  unfold in_range, c_A, c_Z in *. apply andb_true_iff in E. destruct E as [E1 E2].
  apply N.leb_le in E1. apply N.leb_le in E2.
  destruct ((65 <=? c + 32)%N && (c + 32 <=? 90)%N) eqn:E3; [|reflexivity].
  apply andb_true_iff in E3. destruct E3 as [_ E4]. apply N.leb_le in E4. lia.
Qed.
Lemma lower_idem s : lower (lower s) = lower s.
Proof. unfold lower. rewrite map_map. apply map_ext. intros c. apply lower_c_idem. Qed.

Lemma str_eqb_refl' a : str_eqb a a = true.
Proof. induction a as [|x a IH]; [reflexivity|]. cbn [str_eqb]. rewrite N.eqb_refl, IH. reflexivity. Qed.

Lemma assoc_mem {A} q (l : list (str * A)) n : assoc_str q l = Some n -> mem_str q (map fst l) = true.
Proof.
  induction l as [|[k v] l IH]; [discriminate|]. cbn [assoc_str map fst mem_str existsb].
  destruct (str_eqb q k); [reflexivity|]. intros H. apply IH, H.
Qed.

Lemma mem_filter q (f : str -> bool) l : mem_str q l = true -> f q = true -> mem_str q (filter f l) = true.
Proof.
  intros Hm Hf. induction l as [|k l IH]; [discriminate|]. cbn [mem_str existsb] in Hm. cbn [filter].
  destruct (str_eqb q k) eqn:E.
  - apply str_eqb_eq in E. subst k. rewrite Hf. cbn [mem_str existsb]. rewrite str_eqb_refl'. reflexivity.
  - cbn [orb] in Hm. destruct (f k); [cbn [mem_str existsb]; rewrite E|]; apply IH, Hm.
Qed.

Lemma mem_str_true_In q l : mem_str q l = true -> In q l.
Proof.
  induction l as [|k l IH]; [discriminate|]. cbn [mem_str existsb]. destruct (str_eqb q k) eqn:E.
  - intros _. left. symmetry. apply str_eqb_eq, E.
  - intros H. right. apply IH, H.
Qed.

(* ---------------------------------------------------------------- the rule = the lookup *)
(* finite sweep over the documented table: the map has the entry and the rule gives the same *)
Lemma documented_sweep inline :
  forall k v, In (k, v) documented_implicit ->
    assoc_str k element_map = Some v /\ implicit_spec_low inline k = v.
Proof.
  intros k v H. cbn [documented_implicit In] in H.
  repeat (destruct H as [H|H]; [injection H as <- <-; split; reflexivity|]). contradiction.
Qed.

Theorem implicit_spec_ok cfg p :
  documented_parent p = true -> implicit_of cfg p = implicit_spec (mc_inline cfg) p.
Proof.
  unfold documented_parent, implicit_of, implicit_spec. set (q := lower p). intros Hd.
  apply negb_true_iff in Hd. unfold undocumented_keys in Hd.
  destruct (assoc_str q element_map) as [n|] eqn:Ea.
  - (* a map entry: a documented one *)
    assert (Hk : mem_str q documented_keys = true).
    { destruct (mem_str q documented_keys) eqn:E; [reflexivity|].
      rewrite (mem_filter q _ _ (assoc_mem q element_map n Ea)) in Hd; [discriminate|]. rewrite E. reflexivity. }
    apply mem_str_true_In in Hk. unfold documented_keys in Hk. apply in_map_iff in Hk.
    destruct Hk as [[k v] [Ek Hin]]. cbn [fst] in Ek. subst k.
    destruct (documented_sweep (mc_inline cfg) q v Hin) as [H1 H2]. rewrite H1 in Ea. injection Ea as <-.
    symmetry. exact H2.
  - (* no map entry: none of the documented parents *)
    assert (Hne : forall k, In k documented_keys -> str_eqb q k = false).
    { intros k Hk. destruct (str_eqb q k) eqn:E; [|reflexivity]. apply str_eqb_eq in E. subst k.
      unfold documented_keys in Hk. apply in_map_iff in Hk. destruct Hk as [[k v] [Ek Hin]]. cbn [fst] in Ek. subst k.
      destruct (documented_sweep [] q v Hin) as [H1 _]. rewrite H1 in Ea. discriminate. }
    unfold implicit_spec_low, mem_str. cbn [existsb].
    rewrite !Hne by (unfold documented_keys; cbn; tauto). cbn [orb].
    unfold is_inline_name. unfold q. rewrite lower_idem. reflexivity.
Qed.

(* the names the rule can give are documented parents themselves, and fine element names *)
Definition spec_values : list str := [S "li"; S "tr"; S "td"; S "option"; S "span"; S "div"].
Lemma implicit_spec_value inline p : In (implicit_spec inline p) spec_values.
Proof.
  unfold implicit_spec, implicit_spec_low.
  repeat match goal with |- context [if ?b then _ else _] => destruct b end; cbn; tauto.
Qed.
Lemma spec_values_documented : forallb documented_parent spec_values = true.
Proof. vm_compute. reflexivity. Qed.

(* every name the model's lookup can give *)
Definition implicit_values : list str := S "span" :: S "div" :: map snd element_map.
Lemma implicit_of_value cfg p : In (implicit_of cfg p) implicit_values.
Proof.
  unfold implicit_of, implicit_values. destruct (assoc_str (lower p) element_map) as [n|] eqn:E.
  - right. right. revert E. generalize (lower p). intros q. induction element_map as [|[k v] l IH]; [discriminate|].
    cbn [assoc_str map snd]. destruct (str_eqb q k); [intros H; injection H as ->; left; reflexivity|].
    intros H. right. apply IH, H.
  - destruct (is_inline_name cfg (lower p)); [left|right; left]; reflexivity.
Qed.

(* what the pipeline needs of an element name, apart from the snippet table *)
Definition value_fine (n : str) : bool :=
  match n with [] => false | _ => true end && nolt n && nocrlf n && name_start n && not_lorem n.
Lemma implicit_values_fine : forallb value_fine implicit_values = true.
Proof. vm_compute. reflexivity. Qed.
Lemma implicit_of_fine cfg p : value_fine (implicit_of cfg p) = true.
Proof.
  pose proof implicit_values_fine as H. rewrite forallb_forall in H. apply H, implicit_of_value.
Qed.

(* ================================================================ parents in a preorder list *)
(* [anc] = names of the open ancestors, outermost first; the parent of an entry at depth d is the
   ancestor at depth d-1 (none at depth 0) *)
Definition parent_at (d : nat) (anc : list str) : option str :=
  match d with 0 => None | Datatypes.S k => nth_error anc k end.

(* a preorder (depth, written name) list, the empty name standing for "written without a name":
   every nameless entry receives [imp] of its parent's (resolved) name *)
(* the written name, or [dflt] when no name was written *)
Definition name_or (n dflt : str) : str := match n with [] => dflt | _ :: _ => n end.

Fixpoint resolve_names (imp : option str -> str) (anc : list str) (l : list (nat * str)) : list (nat * str) :=
  match l with
  | [] => []
  | (d, n) :: rest =>
      let name := name_or n (imp (parent_at d anc)) in
      (d, name) :: resolve_names imp (firstn d anc ++ [name]) rest
  end.

(* two naming functions that agree on the parents that occur give the same list *)
Lemma resolve_names_ext (D : str -> Prop) imp1 imp2 :
  imp1 None = imp2 None ->
  (forall p, D p -> imp1 (Some p) = imp2 (Some p)) ->
  (forall po, D (imp2 po)) ->
  forall l anc, Forall D anc -> Forall (fun x => snd x <> [] -> D (snd x)) l ->
    resolve_names imp1 anc l = resolve_names imp2 anc l.
Proof.
  intros H0 H1 H2. induction l as [|[d n] rest IH]; intros anc Ha Hl; [reflexivity|].
  inversion Hl as [|x y Hn Hr]; subst. cbn [snd] in Hn. cbn [resolve_names].
  assert (Ep : imp1 (parent_at d anc) = imp2 (parent_at d anc)).
  { destruct d as [|k]; [exact H0|]. cbn [parent_at]. destruct (nth_error anc k) as [p|] eqn:E; [|exact H0].
    apply H1. rewrite Forall_forall in Ha. apply Ha. eapply nth_error_In, E. }
  rewrite Ep. f_equal. apply IH; [|exact Hr].
  apply Forall_app. split.
  - rewrite Forall_forall in *. intros x Hx. apply Ha. rewrite <- (firstn_skipn d anc). apply in_or_app. left. exact Hx.
  - constructor; [|constructor]. destruct n; [apply H2|apply Hn; discriminate].
Qed.
