(* C03 / C01: the HTML formatter with formatting off (output.format = false) writes a forest of
   plainly named nodes as nested tags: open tag with the attributes of the decision table, the node's
   text, its children in order, the closing tag -- every node once, in document order.  Composed with
   AttrTextStmt.statement_markup_parse this gives expand() of a whole flat statement. *)
From Coq Require Import ZArith List Bool Lia.
From Emmet Require Import lib.Base model.MarkupTokenizer model.MarkupParser model.MarkupConvert model.MarkupResolve
     model.OutStream model.FormatHtml model.FormatIndent model.MarkupExpand
     proofs.ParserSpine proofs.TextSpec proofs.TextProofs proofs.TextLiteral proofs.AttrProofs proofs.SafeResolve
     proofs.AttrText proofs.AttrTextParse proofs.AttrTextConvert proofs.AttrTextFlat proofs.AttrTextExpand
     proofs.AttrTextStmt.
Local Open Scope nat_scope.

(* ================================================================ SPEC: nested tags *)
Definition opt_list {A} (o : option (list A)) : list A := match o with Some l => l | None => [] end.

Fixpoint render_node (c : oconfig) (n : anode) : str :=
  match n with
  | ANode nm v _ at_ ch sc =>
      let tag := tag_name c (match nm with Some s => s | None => [] end) in
      c_lt :: tag ++ attrs_text_out c (opt_list at_) ++
      (if sc && match ch with [] => true | _ => false end && negb (truthy_l v)
       then self_close c ++ [c_gt]                              (* `<name attrs />` by selfClosingStyle *)
       else [c_gt] ++ value_text (nonempty v) ++ concat (map (render_node c) ch)
            ++ [c_lt; c_slash] ++ tag ++ [c_gt])
  end.
Definition render_forest (c : oconfig) (l : list anode) : str := concat (map (render_node c) l).

(* what the formatter needs of one node (children aside) to write it on one line *)
Definition no_vfield (v : option (list vtok)) : Prop :=
  match v with Some l => existsb is_vfield l = false | None => True end.
Definition plain_out (c : oconfig) (n : anode) : Prop :=
  match an_name n with
  | Some ((_ :: _) as nm) =>
      nl_free (tag_name c nm) /\ mem_str nm (oc_format_force c) = false /\
      Forall (fun a => form_nl_free (attr_out_spec c a)) (opt_list (an_attrs n)) /\
      value_inline c (an_value n) /\ no_vfield (an_value n)
  | _ => False
  end.

Lemma find_field_none : forall l, existsb is_vfield l = false -> find_field_ix l = None.
Proof.
  intros l. unfold find_field_ix. generalize 0.
  induction l as [|v l IH]; intros i H; [reflexivity|]. cbn [existsb] in H. apply orb_false_iff in H. destruct H as [Hv Hl].
  destruct v; [|discriminate]. apply IH. exact Hl.
Qed.

Lemma should_format_off c parent n index items : oc_format c = false -> should_format c parent n index items = false.
Proof. intros H. destruct n. unfold should_format. rewrite H. reflexivity. Qed.

Section Plain.
  Variable c : oconfig.
  Hypothesis Hfmt : oc_format c = false.
  Hypothesis Hcom : oc_comment_enabled c = false.
  Hypothesis Hleaf : oc_format_leaf c = false.

  (* the children loop *)
  Definition kids_loop (node : anode) :=
    fix go (i : nat) (l : list anode) (st : fstate) : fstate :=
      match l with
      | [] => st
      | ch :: r => go (S i) r (html_element c (Some node) ch i (an_children node) st)
      end.

  Lemma html_element_plain : forall n, Forall (plain_out c) (nodes n) ->
    forall parent index items st,
      os_value (fs_out (html_element c parent n index items st)) = os_value (fs_out st) ++ render_node c n.
  Proof.
    apply (anode_ind' (fun n => Forall (plain_out c) (nodes n) -> forall parent index items st,
             os_value (fs_out (html_element c parent n index items st)) = os_value (fs_out st) ++ render_node c n)).
    intros nm v rp at_ ch sc HF H parent index items st.
    cbn [nodes] in H. inversion H as [|x y Hn Hk]; subst.
    unfold plain_out in Hn. cbn [strip an_name an_self an_attrs an_value] in Hn.
    destruct nm as [[|c0 name]|]; try contradiction.
    destruct Hn as [Htag [Hforce [Hattrs [Hval Hnf]]]].
    (* the children *)
    assert (HK : forall node i st0, an_children node = ch ->
                 os_value (fs_out ((fix go (i : nat) (l : list anode) (st : fstate) : fstate :=
                                      match l with
                                      | [] => st
                                      | ch0 :: r => go (S i) r (html_element c (Some node) ch0 i (an_children node) st)
                                      end) i ch st0)) =
                 os_value (fs_out st0) ++ concat (map (render_node c) ch)).
    { intros node i st0 _. clear -HF Hk. revert i st0.
      induction ch as [|k r IH]; intros i st0; [cbn; rewrite app_nil_r; reflexivity|].
      inversion HF as [|? ? Hc Hl]; subst. cbn [flat_map] in Hk. apply Forall_app in Hk. destruct Hk as [Hk1 Hk2].
      rewrite (IH Hl Hk2). rewrite (Hc Hk1). cbn [map concat]. rewrite <- app_assoc. reflexivity. }
    cbn [html_element an_name an_attrs an_self an_children an_value].
    rewrite !(should_format_off c _ _ _ _ Hfmt). cbn [andb]. rewrite !(comment_off c _ _ _ Hcom).
    rewrite Hleaf, Hforce. cbn [orb].
    assert (Hfold : forall st0,
              os_value (fs_out (match at_ with
                                | Some ((_ :: _) as l) =>
                                    fold_left (fun s a => if should_output_attribute a then push_attribute c a s else s) l st0
                                | _ => st0
                                end)) = os_value (fs_out st0) ++ attrs_text_out c (opt_list at_)).
    { intros st0. destruct at_ as [[|a l]|]; try (cbn; rewrite app_nil_r; reflexivity).
      apply push_attributes_value. exact Hattrs. }
    rewrite map_out_value by (intros; apply add_level_value).
    cbn [render_node].
    destruct v as [[|v0 V]|]; cbn [truthy_l negb andb nonempty value_text value_inline no_vfield] in *.
    - (* value = Some [] *)
      destruct ch as [|k r].
      + destruct sc; cbn [andb].
        * rewrite push_str_value by (apply nl_free_app; [apply self_close_nl_free|reflexivity]). rewrite Hfold.
          rewrite push_str_value by (apply nl_free_cons; [reflexivity|exact Htag]).
          rewrite map_out_value by (intros; apply add_level_value).
          cbn [app]. rewrite <- !app_assoc. reflexivity.
        * rewrite push_str_value by (repeat (apply nl_free_cons; [reflexivity|]); apply nl_free_app; [exact Htag|reflexivity]).
          rewrite push_tokens_value by (repeat constructor). rewrite push_str_value by reflexivity. rewrite Hfold.
          rewrite push_str_value by (apply nl_free_cons; [reflexivity|exact Htag]).
          rewrite map_out_value by (intros; apply add_level_value).
          cbn [map concat app tok_text caret]. rewrite <- !app_assoc. reflexivity.
      + rewrite andb_false_r. cbn [andb].
        rewrite push_str_value by (repeat (apply nl_free_cons; [reflexivity|]); apply nl_free_app; [exact Htag|reflexivity]).
        rewrite (HK (ANode (Some (c0 :: name)) (Some []) rp at_ (k :: r) sc) 0 _ eq_refl).
        rewrite push_str_value by reflexivity. rewrite Hfold.
        rewrite push_str_value by (apply nl_free_cons; [reflexivity|exact Htag]).
        rewrite map_out_value by (intros; apply add_level_value).
        cbn [app]. rewrite <- !app_assoc. reflexivity.
    - (* value = Some (v0 :: V) *)
      destruct Hval as [Hv1 [Hv2 Hv3]].
      rewrite !andb_false_r.
      rewrite push_str_value by (repeat (apply nl_free_cons; [reflexivity|]); apply nl_free_app; [exact Htag|reflexivity]).
      rewrite Hv2, Hv3. cbn [orb].
      destruct ch as [|k r].
      + rewrite push_tokens_value by exact Hv1. rewrite push_str_value by reflexivity. rewrite Hfold.
        rewrite push_str_value by (apply nl_free_cons; [reflexivity|exact Htag]).
        rewrite map_out_value by (intros; apply add_level_value).
        cbn [map concat app]. rewrite <- !app_assoc. reflexivity.
      + rewrite (find_field_none _ Hnf).
        rewrite (HK (ANode (Some (c0 :: name)) (Some (v0 :: V)) rp at_ (k :: r) sc) 0 _ eq_refl).
        rewrite push_tokens_value by exact Hv1. rewrite push_str_value by reflexivity. rewrite Hfold.
        rewrite push_str_value by (apply nl_free_cons; [reflexivity|exact Htag]).
        rewrite map_out_value by (intros; apply add_level_value).
        cbn [app]. rewrite <- !app_assoc. reflexivity.
    - (* no value *)
      destruct ch as [|k r].
      + destruct sc; cbn [andb].
        * rewrite push_str_value by (apply nl_free_app; [apply self_close_nl_free|reflexivity]). rewrite Hfold.
          rewrite push_str_value by (apply nl_free_cons; [reflexivity|exact Htag]).
          rewrite map_out_value by (intros; apply add_level_value).
          cbn [app]. rewrite <- !app_assoc. reflexivity.
        * rewrite push_str_value by (repeat (apply nl_free_cons; [reflexivity|]); apply nl_free_app; [exact Htag|reflexivity]).
          rewrite push_tokens_value by (repeat constructor). rewrite push_str_value by reflexivity. rewrite Hfold.
          rewrite push_str_value by (apply nl_free_cons; [reflexivity|exact Htag]).
          rewrite map_out_value by (intros; apply add_level_value).
          cbn [map concat app tok_text caret]. rewrite <- !app_assoc. reflexivity.
      + rewrite andb_false_r. cbn [andb].
        rewrite push_str_value by (repeat (apply nl_free_cons; [reflexivity|]); apply nl_free_app; [exact Htag|reflexivity]).
        rewrite (HK (ANode (Some (c0 :: name)) None rp at_ (k :: r) sc) 0 _ eq_refl).
        rewrite push_str_value by reflexivity. rewrite Hfold.
        rewrite push_str_value by (apply nl_free_cons; [reflexivity|exact Htag]).
        rewrite map_out_value by (intros; apply add_level_value).
        cbn [app]. rewrite <- !app_assoc. reflexivity.
  Qed.

  Theorem html_format_plain : forall forest,
    Forall (plain_out c) (flat_map nodes forest) ->
    os_value (fs_out (html_format c forest)) = render_forest c forest.
  Proof.
    intros forest H. unfold html_format, render_forest.
    assert (G : forall l i st, Forall (plain_out c) (flat_map nodes l) ->
              os_value (fs_out ((fix go (i : nat) (l : list anode) (st : fstate) : fstate :=
                                   match l with
                                   | [] => st
                                   | ch :: r => go (S i) r (html_element c None ch i forest st)
                                   end) i l st)) = os_value (fs_out st) ++ concat (map (render_node c) l)).
    { induction l as [|k r IH]; intros i st Hl; [cbn; rewrite app_nil_r; reflexivity|].
      cbn [flat_map] in Hl. apply Forall_app in Hl. destruct Hl as [H1 H2].
      rewrite (IH _ _ H2). rewrite (html_element_plain k H1). cbn [map concat]. rewrite <- app_assoc. reflexivity. }
    rewrite (G forest 0 (mkFs os_empty 1) H). reflexivity.
  Qed.
End Plain.

(* ================================================================ expand of a whole flat statement *)
(* what the formatter needs of one written element *)
Definition elem_out_ok (m : mconfig) (c : oconfig) (e : selem) : Prop :=
  mem_str (se_name e) (oc_format_force c) = false /\
  Forall (fun a => form_nl_free (attr_out_spec c a)) (merge_spec (mc_reverse_attrs m) [] (written_mentions e)) /\
  value_inline c (elem_text_value e).

Lemma elem_plain_out m c e :
  selem_ok e -> elem_out_ok m c e -> plain_out c (resolved_node (mc_reverse_attrs m) e).
Proof.
  intros [[Hne HF] _] [Hforce [Hattrs Hval]]. unfold plain_out, resolved_node. cbn [an_name an_attrs an_value].
  destruct (se_name e) as [|c0 nm] eqn:En; [congruence|].
  split; [apply tag_name_nl_free; exact HF|]. split; [exact Hforce|]. split.
  - unfold merged_mentions. destruct (written_mentions e); [constructor|exact Hattrs].
  - split; [exact Hval|]. unfold elem_text_value, text_value, no_vfield.
    destruct (se_text e) as [[|t0 T]|]; try exact I. reflexivity.
Qed.

Theorem statement_expand (x : xconfig) (xs : list (selem * sop)) :
  let m := xc_m x in
  let c := xc_o x in
  Forall (fun p => selem_ok (fst p) /\ jsx_ok (mc_jsx m) (fst p) /\ plain_name m (fst p)) xs ->
  mc_text m = WNone -> mc_bem m = false -> html_family (mc_syntax m) ->
  oc_format c = false -> oc_comment_enabled c = false -> oc_format_leaf c = false ->
  Forall (fun p => elem_out_ok m c (fst p)) xs ->
  exists forest,
    expand_markup_str x (stmt_text xs) = Ok (render_forest c forest) /\
    apreNL 0 forest = map (fun p => (fst p, resolved_node (mc_reverse_attrs m) (snd p))) (edenote 0 xs).
Proof.
  cbv zeta. intros H Htext Hbem [Hs1 [Hs2 Hs3]] Hfmt Hcom Hleaf Hout.
  destruct (statement_markup_parse (xc_m x) xs H Htext Hbem) as [forest [Hp Hpre]].
  exists forest. split; [|exact Hpre].
  unfold expand_markup_str, expand_markup. rewrite Hp. cbn [bind].
  unfold stringify_markup. rewrite Hs1, Hs2, Hs3. f_equal.
  apply html_format_plain; try assumption.
  rewrite <- (apreNL_nodes forest 0), Hpre, map_map. apply Forall_map.
  assert (G : forall d, Forall (fun p => plain_out (xc_o x) (snd (fst p, resolved_node (mc_reverse_attrs (xc_m x)) (snd p))))
                               (edenote d xs)).
  { clear -H Hout. induction xs as [|[e o] l IH]; intros d; [constructor|].
    inversion H as [|? ? [He _] Hl]; subst. inversion Hout as [|? ? Ho Hol]; subst. cbn [fst] in *.
    cbn [edenote]. constructor; [cbn [snd]; apply elem_plain_out; assumption|apply IH; assumption]. }
  apply G.
Qed.
