(* C12 selfclose_local, with the positions counted: two runs that differ only in output.selfClosingStyle (compactBoolean
   off) write the same chunks one by one, except at exactly as many positions as the tree has self-closed elements,
   where the closing chunk of style 1 faces the closing chunk of style 2.  Lockstep induction as in FormatSelfClose.v,
   the number of differing positions threaded through. *)
From Coq Require Import ZArith List Bool Lia ZifyBool.
From Emmet Require Import lib.Base model.MarkupTokenizer model.MarkupParser model.MarkupConvert
     model.OutStream model.FormatHtml proofs.IndentStream proofs.HtmlEvents proofs.OutStreamProofs proofs.FormatSteps
     proofs.FormatReach proofs.FormatProofs proofs.FormatChunks proofs.FormatCosmetic proofs.FormatSelfClose.
Import ListNotations.

(* ================================================================ SPEC *)
(* the chunk that closes a self-closed tag, by style *)
Definition close_chunk (style : str) : chunk :=
  CT false (if str_eqb style s_xhtml then [c_space; c_slash; c_gt]
            else if str_eqb style s_xml then [c_slash; c_gt] else [c_gt]).

(* X and Y are equal chunk by chunk except at k positions, where x faces y *)
Inductive Differ (x y : chunk) : nat -> list chunk -> list chunk -> Prop :=
| D_nil : Differ x y 0 [] []
| D_same k z X Y : Differ x y k X Y -> Differ x y k (z :: X) (z :: Y)
| D_mark k X Y : Differ x y k X Y -> Differ x y (S k) (x :: X) (y :: Y).

(* self-closed elements among the events of a tree *)
Fixpoint nvoid (evs : list sev) : nat :=
  match evs with
  | [] => 0
  | SOpen _ true :: r => S (nvoid r)
  | _ :: r => nvoid r
  end.

Lemma nvoid_app a b : nvoid (a ++ b) = nvoid a + nvoid b.
Proof. induction a as [|e a IH]; [reflexivity|]. cbn [app nvoid]. destruct e as [n [|]|n]; rewrite IH; reflexivity. Qed.

Lemma mark_close_chunk c : mark c = close_chunk (oc_self_closing_style c).
Proof.
  unfold mark, close_chunk, self_close. destruct (str_eqb _ s_xhtml); [reflexivity|]. destruct (str_eqb _ s_xml); reflexivity.
Qed.

Section Differ.
Variables x y : chunk.
Lemma Differ_refl Z : Differ x y 0 Z Z.
Proof. induction Z; constructor; assumption. Qed.
Lemma Differ_app k X Y j X' Y' : Differ x y k X Y -> Differ x y j X' Y' -> Differ x y (k + j) (X ++ X') (Y ++ Y').
Proof. intros H H'. induction H; cbn [app plus]; [exact H'|constructor; assumption|constructor; assumption]. Qed.
Lemma Differ_same k X Y Z : Differ x y k X Y -> Differ x y k (X ++ Z) (Y ++ Z).
Proof. intros H. rewrite <- (Nat.add_0_r k). apply Differ_app; [exact H|apply Differ_refl]. Qed.
Lemma Differ_Forall2 k X Y : Differ x y k X Y -> Forall2 (fun a b => a = b \/ (a = x /\ b = y)) X Y.
Proof. induction 1; constructor; auto. Qed.
End Differ.

(* ================================================================ lockstep *)
Section LockC.
Variables (c : oconfig) (s1 s2 : str).
Hypothesis Hcompact : oc_compact_boolean c = false.
Let c1 := with_style s1 c.
Let c2 := with_style s2 c.
Notation Df := (Differ (mark c1) (mark c2)).

Definition Inv3 (a b : fstate) (k : nat) : Prop :=
  Df k (fchunks a) (fchunks b) /\ lvl a = lvl b /\ fs_field a = fs_field b /\ ln a = ln b.

Lemma I3_push_str s a b k : Inv3 a b k -> Inv3 (push_str c1 s a) (push_str c2 s b) k.
Proof.
  intros [Hc [Hl [Hf Hn]]]. repeat split.
  - rewrite !ch_push_str, Hl. apply Differ_same, Hc.
  - rewrite !lvl_push_str. exact Hl.
  - exact Hf.
  - rewrite !line_push_str, Hn. reflexivity.
Qed.

Lemma I3_push_tokens v a b k : Inv3 a b k -> Inv3 (push_tokens c1 v a) (push_tokens c2 v b) k.
Proof.
  intros [Hc [Hl [Hf Hn]]].
  destruct (push_tokens_spec c1 v a) as [Ea Fa]. destruct (push_tokens_spec c2 v b) as [Eb Fb]. repeat split.
  - rewrite Ea, Eb, Hl, Hf. apply Differ_same, Hc.
  - rewrite !lvl_push_tokens. exact Hl.
  - rewrite Fa, Fb, Hf. reflexivity.
  - rewrite !line_push_tokens, Hn. reflexivity.
Qed.

Lemma I3_level d a b k : Inv3 a b k -> Inv3 (map_out (fun o => os_add_level o d) a) (map_out (fun o => os_add_level o d) b) k.
Proof. intros [Hc [Hl [Hf Hn]]]. repeat split; try assumption. rewrite !lvl_map_level, Hl. reflexivity. Qed.

Lemma I3_newline ind a b k :
  Inv3 a b k -> Inv3 (map_out (fun o => os_push_newline (oc_fmt c1) o ind) a) (map_out (fun o => os_push_newline (oc_fmt c2) o ind) b) k.
Proof.
  intros [Hc [Hl [Hf Hn]]]. repeat split.
  - rewrite !ch_map_newline, Hl. apply Differ_same, Hc.
  - rewrite !lvl_map_newline. exact Hl.
  - exact Hf.
  - unfold ln, map_out in *. cbn [fs_out]. rewrite !line_push_newline, Hn. reflexivity.
Qed.

Lemma I3_level_newline d a b k : Inv3 a b k -> Inv3 (level_newline c1 d a) (level_newline c2 d b) k.
Proof.
  intros [Hc [Hl [Hf Hn]]]. repeat split.
  - rewrite !ch_level_newline, Hl. apply Differ_same, Hc.
  - rewrite !lvl_level_newline, Hl. reflexivity.
  - exact Hf.
  - unfold ln, level_newline, map_out, os_push_newline_int in *. cbn [fs_out]. rewrite !line_push_newline.
    unfold os_add_level, os_set_level. cbn [os_line]. rewrite Hn. reflexivity.
Qed.

Lemma I3_newline_int (g : Z -> Z) a b k :
  Inv3 a b k ->
  Inv3 (map_out (fun o => os_push_newline_int (oc_fmt c1) o (g (os_level o))) a)
       (map_out (fun o => os_push_newline_int (oc_fmt c2) o (g (os_level o))) b) k.
Proof.
  intros [Hc [Hl [Hf Hn]]]. unfold lvl in Hl. repeat split.
  - unfold fchunks, map_out, os_push_newline_int. cbn [fs_out]. rewrite !ch_push_newline, Hl. apply Differ_same, Hc.
  - unfold lvl, map_out, os_push_newline_int. cbn [fs_out]. rewrite !lvl_push_newline. exact Hl.
  - exact Hf.
  - unfold ln, map_out, os_push_newline_int in *. cbn [fs_out]. rewrite !line_push_newline, Hn. reflexivity.
Qed.

Lemma I3_fold {A} (f1 f2 : fstate -> A -> fstate) (l : list A) k :
  (forall a b z, Inv3 a b k -> Inv3 (f1 a z) (f2 b z) k) -> forall a b, Inv3 a b k -> Inv3 (fold_left f1 l a) (fold_left f2 l b) k.
Proof. intros Hs. induction l as [|z l IH]; intros a b H; cbn [fold_left]; [exact H|]. apply IH, Hs, H. Qed.

Lemma I3_comment_node text n a b k : Inv3 a b k -> Inv3 (comment_node c1 text n a) (comment_node c2 text n b) k.
Proof.
  intros H. unfold comment_node. destruct text; [exact H|].
  change (should_comment c2 n) with (should_comment c1 n). destruct (should_comment c1 n); [|exact H].
  unfold comment_output. apply I3_fold; [|exact H].
  intros a' b' t H'. destruct t as [s|bf af nm]; [apply I3_push_str, H'|].
  destruct (assoc_str nm _); [|exact H']. apply I3_push_str, I3_push_tokens, I3_push_str, H'.
Qed.

Lemma I3_push_attribute z a b k : Inv3 a b k -> Inv3 (push_attribute c1 z a) (push_attribute c2 z b) k.
Proof.
  intros H. rewrite !push_attribute_unfold. destruct (aa_name z) as [[|y nm]|]; try exact H.
  change (attr_out_name c2 z (y :: nm)) with (attr_out_name c1 z (y :: nm)).
  change (attr_v1 c2 z (y :: nm)) with (attr_v1 c1 z (y :: nm)).
  cbv zeta. destruct (attr_v1 c1 z (y :: nm)) as [[value1 lq] rq].
  change (attr_value2 c2 z (attr_out_name c1 z (y :: nm)) value1) with (attr_value2 c1 z (attr_out_name c1 z (y :: nm)) value1).
  pose proof (value2_truthy' c s1 Hcompact z (attr_out_name c1 z (y :: nm)) value1) as Ht. fold c1 in Ht.
  unfold attr_write. destruct (attr_value2 c1 z (attr_out_name c1 z (y :: nm)) value1) as [[|v0 vr]|]; try discriminate.
  apply I3_push_str, I3_push_tokens, I3_push_str, I3_push_str, H.
Qed.

Lemma I3_el_open nm node a b k : Inv3 a b k -> Inv3 (el_open c1 nm node a) (el_open c2 nm node b) k.
Proof.
  intros H. unfold el_open, el_attrs. change (tag_name c2 nm) with (tag_name c1 nm).
  change (oc_comment_before c2) with (oc_comment_before c1).
  assert (H' : Inv3 (push_str c1 (c_lt :: tag_name c1 nm) (comment_node c1 (oc_comment_before c1) node a))
                    (push_str c2 (c_lt :: tag_name c1 nm) (comment_node c2 (oc_comment_before c1) node b)) k).
  { apply I3_push_str, I3_comment_node, H. }
  destruct (an_attrs node) as [[|z l]|]; try exact H'.
  apply I3_fold; [|exact H']. intros a' b' y Hy. destruct (should_output_attribute y); [apply I3_push_attribute|]; exact Hy.
Qed.

Lemma I3_el_close nm node a b k : Inv3 a b k -> Inv3 (el_close c1 nm node a) (el_close c2 nm node b) k.
Proof.
  intros H. unfold el_close. change (tag_name c2 nm) with (tag_name c1 nm).
  change (oc_comment_after c2) with (oc_comment_after c1). apply I3_comment_node, I3_push_str, H.
Qed.

Lemma I3_el_value node a b k : Inv3 a b k -> Inv3 (el_value c1 node a) (el_value c2 node b) k.
Proof.
  intros H. unfold el_value. destruct (an_value node) as [[|v0 v]|]; try exact H.
  change (starts_with_block_tag c2 (v0 :: v)) with (starts_with_block_tag c1 (v0 :: v)).
  destruct (existsb has_newline (v0 :: v) || starts_with_block_tag c1 (v0 :: v)).
  - destruct (an_children node).
    + apply I3_level_newline, I3_push_tokens, I3_level_newline, H.
    + apply I3_level, I3_push_tokens, I3_level_newline, H.
  - apply I3_push_tokens, H.
Qed.

Lemma I3_el_leaf nm node a b k : Inv3 a b k -> Inv3 (el_leaf c1 nm node a) (el_leaf c2 nm node b) k.
Proof.
  intros H. unfold el_leaf.
  destruct (negb (truthy_l (an_value node)) && match an_children node with [] => true | _ => false end); [|exact H].
  change (oc_format_leaf c2) with (oc_format_leaf c1). change (oc_format_force c2) with (oc_format_force c1).
  destruct (oc_format_leaf c1 || mem_str nm (oc_format_force c1)).
  - apply I3_level_newline, I3_push_tokens, I3_level_newline, H.
  - apply I3_push_tokens, H.
Qed.

Definition I3O (u v : option fstate) (k : nat) : Prop :=
  match u, v with Some a, Some b => Inv3 a b k | None, None => True | _, _ => False end.
(* the walk over the children adds j differing positions *)
Definition next3 (n1 n2 : fstate -> fstate) (j : nat) : Prop := forall a b k, Inv3 a b k -> Inv3 (n1 a) (n2 b) (k + j).

Lemma I3_el_snippet node n1 n2 j a b k :
  next3 n1 n2 j -> Inv3 a b k -> I3O (el_snippet c1 node n1 a) (el_snippet c2 node n2 b) (k + j).
Proof.
  intros Hn H. unfold el_snippet.
  destruct (an_value node) as [[|v0 value]|]; try exact I.
  destruct (an_children node) as [|ch0 ch]; try exact I.
  destruct (find_field_ix (v0 :: value)) as [ix|]; try exact I.
  set (a1 := push_tokens c1 (firstn ix (v0 :: value)) a). set (b1 := push_tokens c2 (firstn ix (v0 :: value)) b).
  assert (Hs1 : Inv3 a1 b1 k) by (apply I3_push_tokens, H).
  assert (Hs2 : Inv3 (n1 a1) (n2 b1) (k + j)) by (apply Hn, Hs1).
  assert (E1 : os_line (fs_out a1) = os_line (fs_out b1)) by (destruct Hs1 as [_ [_ [_ E]]]; exact E).
  assert (E2 : os_line (fs_out (n1 a1)) = os_line (fs_out (n2 b1))) by (destruct Hs2 as [_ [_ [_ E]]]; exact E).
  rewrite E1, E2.
  destruct (nth_error (v0 :: value) (S ix)) as [[s|i nm]|]; cbn [I3O].
  - destruct (negb (Nat.eqb (os_line (fs_out (n2 b1))) (os_line (fs_out b1)))); cbn [I3O].
    + apply I3_push_tokens, I3_push_str, Hs2.
    + apply I3_push_tokens, Hs2.
  - apply I3_push_tokens, Hs2.
  - apply I3_push_tokens, Hs2.
Qed.

Lemma I3_selfclose a b k :
  Inv3 a b k -> Inv3 (push_str c1 (self_close c1 ++ [c_gt]) a) (push_str c2 (self_close c2 ++ [c_gt]) b) (k + 1).
Proof.
  intros [Hc [Hl [Hf Hn]]]. repeat split.
  - rewrite !ch_push_str, !mark_chunks. apply Differ_app; [exact Hc|]. constructor. constructor.
  - rewrite !lvl_push_str. exact Hl.
  - exact Hf.
  - rewrite !line_push_str, !mark_lines, Hn. reflexivity.
Qed.

Lemma I3_el_body node n1 n2 a b k :
  next3 n1 n2 (nvoid (flat_map (tree_events c) (an_children node))) ->
  (an_children node = [] -> forall s, n1 s = s /\ n2 s = s) ->
  Inv3 a b k -> Inv3 (el_body c1 node n1 a) (el_body c2 node n2 b) (k + nvoid (tree_events c node)).
Proof.
  intros Hn Hnil H. unfold el_body. rewrite tree_events_eq.
  set (j := nvoid (flat_map (tree_events c) (an_children node))) in *.
  assert (Hun : Inv3 (el_unnamed c1 node n1 a) (el_unnamed c2 node n2 b) (k + j)).
  { unfold el_unnamed. pose proof (I3_el_snippet node n1 n2 j a b k Hn H) as Hs.
    destruct (el_snippet c1 node n1 a) eqn:E1; destruct (el_snippet c2 node n2 b) eqn:E2; cbn [I3O] in Hs; try contradiction.
    - exact Hs.
    - apply Hn. destruct (an_value node) as [[|v0 v]|]; try exact H. apply I3_push_tokens, H. }
  destruct (an_name node) as [[|x nm]|]; try exact Hun.
  unfold el_named.
  change (an_self node && match an_children node with [] => true | _ => false end && negb (truthy_l (an_value node)))
    with (self_closed node).
  destruct (self_closed node).
  - cbn [nvoid]. apply I3_selfclose, I3_el_open, H.
  - cbn [nvoid]. rewrite nvoid_app. cbn [nvoid]. rewrite Nat.add_0_r. fold j.
    apply I3_el_close. unfold el_content.
    pose proof (I3_el_snippet node n1 n2 j _ _ k Hn (I3_push_str [c_gt] _ _ k (I3_el_open (x :: nm) node a b k H))) as Hs.
    destruct (el_snippet c1 node n1 _); destruct (el_snippet c2 node n2 _); cbn [I3O] in Hs; try contradiction; [exact Hs|].
    apply I3_el_leaf, Hn, I3_el_value, I3_push_str, I3_el_open, H.
Qed.

Lemma I3_html_step p node i it n1 n2 a b k :
  next3 n1 n2 (nvoid (flat_map (tree_events c) (an_children node))) ->
  (an_children node = [] -> forall s, n1 s = s /\ n2 s = s) ->
  Inv3 a b k ->
  Inv3 (html_element_step c1 p node i it n1 a) (html_element_step c2 p node i it n2 b) (k + nvoid (tree_events c node)).
Proof.
  intros Hn Hnil H. unfold html_element_step.
  rewrite (sf12 c s1 s2). fold c1.
  change (get_indent c2 p) with (get_indent c1 p).
  apply I3_level. unfold el_tail.
  change (tail_newline c2 (should_format c1 p node i it) p i it) with (tail_newline c1 (should_format c1 p node i it) p i it).
  assert (Hb : Inv3 (el_body c1 node n1 (if should_format c1 p node i it
                                        then map_out (fun o => os_push_newline (oc_fmt c1) o (Some None)) (map_out (fun o => os_add_level o (get_indent c1 p)) a)
                                        else map_out (fun o => os_add_level o (get_indent c1 p)) a))
                    (el_body c2 node n2 (if should_format c1 p node i it
                                        then map_out (fun o => os_push_newline (oc_fmt c2) o (Some None)) (map_out (fun o => os_add_level o (get_indent c1 p)) b)
                                        else map_out (fun o => os_add_level o (get_indent c1 p)) b))
                    (k + nvoid (tree_events c node))).
  { apply I3_el_body; [exact Hn|exact Hnil|]. destruct (should_format c1 p node i it); [apply I3_newline|]; apply I3_level, H. }
  destruct (tail_newline c1 (should_format c1 p node i it) p i it); [|exact Hb].
  apply (I3_newline_int (fun l => l - (if is_snippet_opt p then 0 else 1))%Z), Hb.
Qed.

Lemma I3_html_walk p it : forall l i a b k,
  Forall (fun n => forall p i it a b k, Inv3 a b k -> Inv3 (html_element c1 p n i it a) (html_element c2 p n i it b) (k + nvoid (tree_events c n))) l ->
  Inv3 a b k -> Inv3 (html_walk c1 p it i l a) (html_walk c2 p it i l b) (k + nvoid (flat_map (tree_events c) l)).
Proof.
  induction l as [|z l IH]; intros i a b k HF H; cbn [html_walk flat_map nvoid]; [rewrite Nat.add_0_r; exact H|].
  inversion HF as [|y w Hz HF']; subst. rewrite nvoid_app, Nat.add_assoc. apply IH; [exact HF'|]. apply Hz, H.
Qed.

Theorem I3_html_element : forall node p i it a b k,
  Inv3 a b k -> Inv3 (html_element c1 p node i it a) (html_element c2 p node i it b) (k + nvoid (tree_events c node)).
Proof.
  induction node as [nm v rp at_ ch sc IHch] using anode_ind'. intros p i it a b k H.
  rewrite !html_element_unfold. apply I3_html_step; [| |exact H].
  - intros a' b' k' H'. rewrite !html_children_walk. apply I3_html_walk; [exact IHch|exact H'].
  - intros Ech s. rewrite !html_children_walk, Ech. split; reflexivity.
Qed.

Theorem selfclose_counted_lemma children :
  Df (nvoid (flat_map (tree_events c) children)) (fchunks (html_format c1 children)) (fchunks (html_format c2 children)).
Proof.
  rewrite !html_format_walk.
  destruct (I3_html_walk None children children 0 (mkFs os_empty 1) (mkFs os_empty 1) 0) as [H _].
  - apply Forall_forall. intros n _. apply I3_html_element.
  - repeat split. constructor.
  - exact H.
Qed.
End LockC.

(* the statement for props/C12.v: the closing chunks written out by style *)
Theorem selfclose_local_full_lemma c s1 s2 children :
  oc_compact_boolean c = false ->
  Differ (close_chunk s1) (close_chunk s2) (nvoid (flat_map (tree_events c) children))
         (fchunks (html_format (with_style s1 c) children)) (fchunks (html_format (with_style s2 c) children)).
Proof.
  intros Hc. pose proof (selfclose_counted_lemma c s1 s2 Hc children) as H.
  rewrite !mark_close_chunk in H. exact H.
Qed.
