(* C01, string level: tokenizing the text of a flat statement -- letter names separated by
   `>`, `+` and runs of `^` -- yields exactly the literal and operator tokens the parser
   theorem (ParserSpine.parse_flat_denote) speaks about.  Composition: for every such text the
   parsed tree has the preorder depth list the operators denote. *)
From Emmet Require Import lib.Base model.MarkupTokenizer model.MarkupParser proofs.ParserSpine.
Local Open Scope nat_scope.

(* ---------------------------------------------------------------- source-level syntax *)
Definition name_ok (n : str) : Prop := n <> [] /\ Forall (fun c => is_alpha c = true) n.

Definition op_text (o : sop) : str :=
  match o with
  | SChild => [c_gt]
  | SSibling => [c_plus]
  | SClimb k => repeat c_caret (S k)
  end.

(* a statement: names with the operator written after each; the last element has none *)
Fixpoint render (xs : list (str * sop)) : str :=
  match xs with
  | [] => []
  | [(n, _)] => n
  | (n, o) :: xs' => n ++ op_text o ++ render xs'
  end.

(* ---------------------------------------------------------------- letters are plain *)
Local Open Scope N_scope.
Lemma alpha_range c : is_alpha c = true -> (97 <= c <= 122) \/ (65 <= c <= 90).
Proof.
  unfold is_alpha, in_range, c_a, c_z, c_A, c_Z. intros H.
  apply orb_true_iff in H. destruct H as [H|H]; apply andb_true_iff in H; destruct H as [H1 H2];
    apply N.leb_le in H1; apply N.leb_le in H2; lia.
Qed.

Lemma alpha_operator c : is_alpha c = true -> operator_type c = None.
Proof.
  intros H. apply alpha_range in H. unfold operator_type, markup_operator_types. cbn [assoc_N].
  repeat match goal with
         | |- context [c =? ?k] => destruct (c =? k) eqn:E; [apply N.eqb_eq in E; lia|]; clear E
         end.
  reflexivity.
Qed.

Lemma neq_eqb c k : c <> k -> (c =? k) = false.
Proof. intros H. apply N.eqb_neq. exact H. Qed.

Lemma alpha_not c k : is_alpha c = true -> (k < 65 \/ 90 < k < 97 \/ 122 < k) -> (c =? k) = false.
Proof. intros H Hk. apply alpha_range in H. apply neq_eqb. lia. Qed.

Lemma alpha_element_name c : is_alpha c = true -> is_element_name c = true.
Proof.
  intros H. unfold is_element_name, is_alpha_numeric_word, is_alpha_word. rewrite H.
  rewrite !orb_true_r. reflexivity.
Qed.

Lemma alpha_not_space c : is_alpha c = true -> is_space c = false.
Proof.
  intros H. unfold is_space, is_white_space, c_space, c_tab, c_nbsp, c_nl, c_cr.
  rewrite !(alpha_not c) by (assumption || lia). reflexivity.
Qed.

Lemma alpha_not_quote c : is_alpha c = true -> is_quote c = false.
Proof. intros H. unfold is_quote, c_dquote, c_squote. rewrite !(alpha_not c) by (assumption || lia). reflexivity. Qed.

Lemma alpha_not_bracket c : is_alpha c = true -> bracket_type c = None.
Proof.
  intros H. unfold bracket_type, c_lparen, c_rparen, c_lbrack, c_rbrack, c_lbrace, c_rbrace.
  rewrite !(alpha_not c) by (assumption || lia). reflexivity.
Qed.
Local Close Scope N_scope.

(* what may follow a name: nothing, or one of the three statement operators *)
Definition op_char (c : char) : Prop := c = c_gt \/ c = c_plus \/ c = c_caret.
Definition stop (rest : str) : Prop := match rest with [] => True | c :: _ => op_char c end.

Lemma op_char_allowed c : op_char c -> is_allowed_operator c (mkCtx 0 0 0 None) = true.
Proof. intros [-> | [-> | ->]]; reflexivity. Qed.

(* literal(): a run of letters is consumed whole and stops at the operator *)
Lemma lit_name : forall name rest prev,
  Forall (fun c => is_alpha c = true) name -> stop rest ->
  lit None 0 0 0 prev false (name ++ rest) = (name, length name, 0%Z).
Proof.
  induction name as [|c name IH]; intros rest prev Hn Hs.
  - cbn [app length]. destruct rest as [|c r]; [reflexivity|].
    cbn [stop] in Hs. cbn [lit].
    assert (Hb : (c =? c_bslash)%N = false) by (destruct Hs as [-> | [-> | ->]]; reflexivity).
    assert (Hsl : (c =? c_slash)%N = false) by (destruct Hs as [-> | [-> | ->]]; reflexivity).
    rewrite Hb, Hsl. cbn [andb orb]. rewrite (op_char_allowed c Hs). rewrite orb_true_r. reflexivity.
  - inversion Hn as [|x l Hc Hn']; subst. cbn [app length lit].
    rewrite (alpha_not c c_bslash Hc) by (unfold c_bslash; lia).
    rewrite (alpha_not c c_slash Hc) by (unfold c_slash; lia).
    rewrite (alpha_not c c_dollar Hc) by (unfold c_dollar; lia).
    cbn [andb orb]. unfold is_allowed_operator at 1. rewrite (alpha_operator c Hc).
    cbn [truthy Z.eqb negb]. rewrite (alpha_element_name c Hc). cbn [negb andb].
    unfold is_allowed_space, is_allowed_repeater. rewrite (alpha_not_space c Hc).
    rewrite (alpha_not c c_star Hc) by (unfold c_star; lia).
    rewrite (alpha_not_quote c Hc), (alpha_not_bracket c Hc). cbn [andb orb].
    rewrite (IH rest (Some c) Hn' Hs). reflexivity.
Qed.

Lemma consume_name name rest prev :
  name_ok name -> stop rest ->
  consume ctx0 prev (name ++ rest) = (CTok (TLiteral name) (length name), ctx0).
Proof.
  intros [Hne Hn] Hs. destruct name as [|c name]; [contradiction|].
  inversion Hn as [|x l Hc Hn']; subst.
  unfold consume, ctx0. cbn [cexpr cattr cquote cgroup].
  assert (Hf : field (mkCtx 0 0 0 None) ((c :: name) ++ rest) = CNone) by reflexivity.
  rewrite Hf. cbn [orelse].
  assert (Hrp : repeater_placeholder ((c :: name) ++ rest) = CNone).
  { unfold repeater_placeholder. cbn [app]. destruct (name ++ rest); [reflexivity|].
    rewrite (alpha_not c c_dollar Hc) by (unfold c_dollar; lia). reflexivity. }
  rewrite Hrp. cbn [orelse].
  assert (Hrn : repeater_number ((c :: name) ++ rest) = CNone).
  { unfold repeater_number. cbn [app span]. rewrite N.eqb_sym.
    rewrite (alpha_not c c_dollar Hc) by (unfold c_dollar; lia). reflexivity. }
  rewrite Hrn. cbn [orelse].
  assert (Hr : repeater (mkCtx 0 0 0 None) ((c :: name) ++ rest) = CNone).
  { unfold repeater, is_allowed_repeater. cbn [app].
    rewrite (alpha_not c c_star Hc) by (unfold c_star; lia). reflexivity. }
  rewrite Hr. cbn [orelse].
  assert (Hw : white_space ((c :: name) ++ rest) = CNone).
  { unfold white_space. cbn [app span]. rewrite (alpha_not_space c Hc). reflexivity. }
  rewrite Hw. change (Z.min 0 1) with 0%Z.
  rewrite (lit_name (c :: name) rest prev Hn Hs). cbn [length]. reflexivity.
Qed.

Lemma consume_op c rest prev :
  op_char c ->
  consume ctx0 prev (c :: rest) =
    (CTok (TOperator (if (c =? c_gt)%N then OpChild else if (c =? c_plus)%N then OpSibling else OpClimb)) 1, ctx0).
Proof.
  intros Hc. unfold consume, ctx0. cbn [cexpr cattr cquote cgroup].
  assert (Hf : field (mkCtx 0 0 0 None) (c :: rest) = CNone) by reflexivity. rewrite Hf. cbn [orelse].
  assert (Hrp : repeater_placeholder (c :: rest) = CNone).
  { unfold repeater_placeholder. destruct rest; [reflexivity|]. destruct Hc as [-> | [-> | ->]]; reflexivity. }
  rewrite Hrp. cbn [orelse].
  assert (Hrn : repeater_number (c :: rest) = CNone) by (destruct Hc as [-> | [-> | ->]]; reflexivity).
  rewrite Hrn. cbn [orelse].
  assert (Hr : repeater (mkCtx 0 0 0 None) (c :: rest) = CNone) by (destruct Hc as [-> | [-> | ->]]; reflexivity).
  rewrite Hr. cbn [orelse].
  assert (Hw : white_space (c :: rest) = CNone) by (destruct Hc as [-> | [-> | ->]]; reflexivity).
  rewrite Hw.
  assert (Hl : lit None 0 0 0 prev false (c :: rest) = ([], 0, 0%Z)).
  { cbn [lit].
    assert (Hb : (c =? c_bslash)%N = false) by (destruct Hc as [-> | [-> | ->]]; reflexivity).
    assert (Hsl : (c =? c_slash)%N = false) by (destruct Hc as [-> | [-> | ->]]; reflexivity).
    rewrite Hb, Hsl. cbn [andb orb]. rewrite (op_char_allowed c Hc). rewrite orb_true_r. reflexivity. }
  change (Z.min 0 1) with 0%Z. rewrite Hl. destruct Hc as [-> | [-> | ->]]; reflexivity.
Qed.

(* ---------------------------------------------------------------- the loop *)
Lemma toks_skip : forall s skip ctx prev pos,
  skip <= length s ->
  toks skip ctx prev pos s =
    toks 0 ctx (match skip with 0 => prev | S k => nth_error s k end) (pos + skip) (skipn skip s).
Proof.
  induction s as [|c r IH]; intros skip ctx prev pos H.
  - cbn [length] in H. assert (skip = 0) by lia. subst. reflexivity.
  - destruct skip as [|k]; [rewrite Nat.add_0_r; reflexivity|].
    cbn [toks skipn]. cbn [length] in H. rewrite IH by lia.
    replace (S pos + k) with (pos + S k) by lia.
    destruct k as [|k']; reflexivity.
Qed.

(* one token of n >= 1 characters at the head of the input *)
Definition lastc (b : str) : option char := match rev b with c :: _ => Some c | [] => None end.

Lemma lastc_nth c b rest :
  match length b with 0 => Some c | S k0 => nth_error (b ++ rest) k0 end = lastc (c :: b).
Proof.
  unfold lastc. revert c. induction b as [|d b IH]; intros c; [reflexivity|].
  cbn [length]. specialize (IH d). cbn [app nth_error].
  assert (E : rev (c :: d :: b) = rev (d :: b) ++ [c]) by reflexivity. rewrite E.
  destruct (rev (d :: b)) as [|x l] eqn:R.
  - apply (f_equal (@length _)) in R. rewrite rev_length in R. discriminate.
  - cbn [app]. destruct (length b) eqn:L.
    + destruct b; [|discriminate]. cbn in R. injection R as <- _. reflexivity.
    + cbn [app] in IH. exact IH.
Qed.

Lemma toks_step (b rest : str) ctx prev pos k ctx' :
  b <> [] -> consume ctx prev (b ++ rest) = (CTok k (length b), ctx') ->
  toks 0 ctx prev pos (b ++ rest) =
    match toks 0 ctx' (lastc b) (pos + length b) rest with
    | TOk l => TOk (mkTok k pos (pos + length b) :: l)
    | TErr p => TErr p
    end.
Proof.
  intros Hb Hc. destruct b as [|c b']; [contradiction|].
  cbn [app toks]. cbn [app] in Hc. rewrite Hc. cbn [length pred].
  rewrite toks_skip by (rewrite app_length; lia).
  rewrite skipn_app, skipn_all, Nat.sub_diag. cbn [skipn app].
  replace (S pos + length b') with (pos + S (length b')) by lia.
  rewrite lastc_nth. reflexivity.
Qed.

(* ---------------------------------------------------------------- laying out a statement *)
Definition name_tok (n : str) (pos : nat) : token := mkTok (TLiteral n) pos (pos + length n).
Definition name_leaf (n : str) (pos : nat) : leaf := mkLeaf (Some [name_tok n pos]) None None None false.

Fixpoint climb_toks (k : nat) (pos : nat) : list token :=
  match k with
  | 0 => []
  | S k' => mkTok (TOperator OpClimb) pos (pos + 1) :: climb_toks k' (pos + 1)
  end.
Definition op_toks (o : sop) (pos : nat) : list token :=
  match o with
  | SChild => [mkTok (TOperator OpChild) pos (pos + 1)]
  | SSibling => [mkTok (TOperator OpSibling) pos (pos + 1)]
  | SClimb k => climb_toks (S k) pos
  end.

(* the (leaf, operator) statement and the token list of a text, from position [pos] on *)
Fixpoint lay (pos : nat) (xs : list (str * sop)) : list (leaf * sop) * list token :=
  match xs with
  | [] => ([], [])
  | (n, o) :: xs' =>
      match xs' with
      | [] => ([(name_leaf n pos, SSibling)], [name_tok n pos])
      | _ :: _ =>
          let ots := op_toks o (pos + length n) in
          let '(ls, ts) := lay (pos + length n + length (op_text o)) xs' in
          ((name_leaf n pos, o) :: ls, name_tok n pos :: ots ++ ts)
      end
  end.

Lemma op_text_stop o rest : stop (op_text o ++ rest).
Proof. destruct o; cbn; unfold op_char; auto. Qed.

Lemma climb_toks_run : forall k rest prev pos,
  toks 0 ctx0 prev pos (repeat c_caret k ++ rest) =
    match toks 0 ctx0 (match k with 0 => prev | S _ => Some c_caret end) (pos + k) rest with
    | TOk l => TOk (climb_toks k pos ++ l)
    | TErr p => TErr p
    end.
Proof.
  induction k as [|k IH]; intros rest prev pos.
  - cbn [repeat app climb_toks]. rewrite Nat.add_0_r. destruct (toks 0 ctx0 prev pos rest); reflexivity.
  - cbn [repeat]. change ((c_caret :: repeat c_caret k) ++ rest) with ([c_caret] ++ (repeat c_caret k ++ rest)).
    rewrite (toks_step [c_caret] _ ctx0 prev pos (TOperator OpClimb) ctx0); [|discriminate|].
    + cbn [length lastc rev app]. rewrite IH.
      replace (pos + 1 + k) with (pos + S k) by lia.
      assert (E : match k with 0 => Some c_caret | S _ => Some c_caret end = Some c_caret) by (destruct k; reflexivity).
      rewrite E. cbn [climb_toks].
      destruct (toks 0 ctx0 (Some c_caret) (pos + S k) rest); reflexivity.
    + cbn [app length]. rewrite consume_op by (unfold op_char; auto). reflexivity.
Qed.

Lemma op_toks_run o rest prev pos :
  exists prev',
  toks 0 ctx0 prev pos (op_text o ++ rest) =
    match toks 0 ctx0 prev' (pos + length (op_text o)) rest with
    | TOk l => TOk (op_toks o pos ++ l)
    | TErr p => TErr p
    end.
Proof.
  destruct o as [| |k].
  - exists (Some c_gt). cbn [op_text]. rewrite (toks_step [c_gt] rest ctx0 prev pos (TOperator OpChild) ctx0); [|discriminate|].
    + reflexivity.
    + cbn [app length]. rewrite consume_op by (unfold op_char; auto). reflexivity.
  - exists (Some c_plus). cbn [op_text]. rewrite (toks_step [c_plus] rest ctx0 prev pos (TOperator OpSibling) ctx0); [|discriminate|].
    + reflexivity.
    + cbn [app length]. rewrite consume_op by (unfold op_char; auto). reflexivity.
  - exists (Some c_caret). cbn [op_text op_toks]. rewrite climb_toks_run.
    rewrite repeat_length. reflexivity.
Qed.

Theorem toks_render : forall xs pos prev,
  Forall name_ok (map fst xs) ->
  toks 0 ctx0 prev pos (render xs) = TOk (snd (lay pos xs)).
Proof.
  induction xs as [|[n o] xs' IH]; intros pos prev H; [reflexivity|].
  cbn [map fst] in H. inversion H as [|x l Hn Hr]; subst.
  destruct xs' as [|y xs''].
  - cbn [render lay snd]. rewrite <- (app_nil_r n) at 1.
    rewrite (toks_step n [] ctx0 prev pos (TLiteral n) ctx0); [reflexivity|apply Hn|].
    apply consume_name; [exact Hn|exact I].
  - change (render ((n, o) :: y :: xs'')) with (n ++ op_text o ++ render (y :: xs'')).
    rewrite (toks_step n _ ctx0 prev pos (TLiteral n) ctx0); [|apply Hn|apply consume_name; [exact Hn|apply op_text_stop]].
    destruct (op_toks_run o (render (y :: xs'')) (lastc n) (pos + length n)) as [prev' E]. rewrite E.
    rewrite (IH (pos + length n + length (op_text o)) prev' Hr).
    change (lay pos ((n, o) :: y :: xs'')) with
      (let '(ls, ts) := lay (pos + length n + length (op_text o)) (y :: xs'') in
       ((name_leaf n pos, o) :: ls, name_tok n pos :: op_toks o (pos + length n) ++ ts)).
    destruct (lay (pos + length n + length (op_text o)) (y :: xs'')) as [ls ts]. reflexivity.
Qed.

(* ---------------------------------------------------------------- the tokens form a flat statement *)
Lemma climb_toks_all k pos : Forall (op_tok OpClimb) (climb_toks k pos) /\ length (climb_toks k pos) = k.
Proof.
  revert pos. induction k as [|k IH]; intros pos; cbn [climb_toks length]; [split; [constructor|reflexivity]|].
  destruct (IH (pos + 1)) as [Hf Hl]. split; [constructor; [reflexivity|exact Hf]|rewrite Hl; reflexivity].
Qed.

Lemma op_toks_tokens o pos : op_tokens o (op_toks o pos).
Proof.
  destruct o as [| |k]; cbn [op_toks].
  - apply ot_child. reflexivity.
  - apply ot_sibling. reflexivity.
  - destruct (climb_toks_all (S k) pos) as [Hf Hl]. apply ot_climb; assumption.
Qed.

Theorem lay_flat : forall xs pos, flat false (fst (lay pos xs)) (snd (lay pos xs)).
Proof.
  induction xs as [|[n o] xs' IH]; intros pos; [apply flat_nil|].
  destruct xs' as [|y xs''].
  - cbn [lay fst snd]. apply flat_last. unfold name_leaf. eapply block_name. reflexivity.
  - change (lay pos ((n, o) :: y :: xs'')) with
      (let '(ls, ts) := lay (pos + length n + length (op_text o)) (y :: xs'') in
       ((name_leaf n pos, o) :: ls, name_tok n pos :: op_toks o (pos + length n) ++ ts)).
    specialize (IH (pos + length n + length (op_text o))).
    destruct (lay (pos + length n + length (op_text o)) (y :: xs'')) as [ls ts]. cbn [fst snd] in *.
    change (name_tok n pos :: op_toks o (pos + length n) ++ ts) with ([name_tok n pos] ++ op_toks o (pos + length n) ++ ts).
    apply flat_cons; [unfold name_leaf; eapply block_name; reflexivity|apply op_toks_tokens|exact IH].
Qed.

(* ---------------------------------------------------------------- string-level denotation *)
Fixpoint sdenote (d : nat) (xs : list (str * sop)) : list (nat * str) :=
  match xs with
  | [] => []
  | (n, o) :: xs' => (d, n) :: sdenote (next_depth d o) xs'
  end.

(* the text of an element's name, read off its tokens *)
Definition leaf_text (l : leaf) : str :=
  match lf_name l with
  | Some ts => flat_map (fun t => match tk t with TLiteral v => v | _ => [] end) ts
  | None => []
  end.

Lemma lay_denote : forall xs pos d,
  map (fun x => (fst x, leaf_text (snd x))) (denote d (fst (lay pos xs))) = sdenote d xs.
Proof.
  induction xs as [|[n o] xs' IH]; intros pos d; [reflexivity|].
  destruct xs' as [|y xs''].
  - cbn [lay fst denote map sdenote snd leaf_text name_leaf lf_name flat_map name_tok tk app]. rewrite app_nil_r. reflexivity.
  - change (lay pos ((n, o) :: y :: xs'')) with
      (let '(ls, ts) := lay (pos + length n + length (op_text o)) (y :: xs'') in
       ((name_leaf n pos, o) :: ls, name_tok n pos :: op_toks o (pos + length n) ++ ts)).
    specialize (IH (pos + length n + length (op_text o)) (next_depth d o)).
    destruct (lay (pos + length n + length (op_text o)) (y :: xs'')) as [ls ts]. cbn [fst snd] in *.
    cbn [denote map sdenote fst snd]. rewrite IH.
    cbn [leaf_text name_leaf lf_name flat_map name_tok tk app]. rewrite app_nil_r. reflexivity.
Qed.

(* C01 at string level, flat statements over letter names: the text tokenizes, parses, and the
   parsed tree's preorder (depth, name) list is the one the operators denote *)
Theorem expand_front_flat (xs : list (str * sop)) :
  Forall name_ok (map fst xs) ->
  exists toks els,
    tokenize (render xs) = TOk toks /\ parse false toks = POk els /\
    map (fun x => (fst x, leaf_text (snd x))) (preL 0 els) = sdenote 0 xs.
Proof.
  intros H. exists (snd (lay 0 xs)).
  destruct (parse_flat_denote false _ _ (lay_flat xs 0)) as [els [Hp Hd]].
  exists els. split; [unfold tokenize; apply toks_render; exact H|]. split; [exact Hp|].
  rewrite Hd. apply lay_denote.
Qed.
