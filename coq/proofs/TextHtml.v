(* C04 -- text through the HTML formatter: push_tokens hands a text value to push_string unchanged, and
   html_element writes an element's text before its children. *)
From Coq Require Import ZArith List Bool Lia.
From Emmet Require Import lib.Base model.MarkupTokenizer model.MarkupParser model.MarkupConvert model.OutStream
     model.FormatHtml proofs.TextStream.
Local Open Scope N_scope.

Lemma push_tokens_text c s st :
  push_tokens c [VStr s] st = mkFs (os_push_string (oc_fmt c) (fs_out st) s) (fs_field st).
Proof. reflexivity. Qed.

(* the value of a text node reaches the stream as its lines, verbatim *)
Theorem text_not_reparsed c s st :
  os_value (fs_out (push_tokens c [VStr s] st)) =
    os_value (fs_out st) ++ join (line_sep (oc_fmt c) (os_level (fs_out st))) (split_crlf s).
Proof. rewrite push_tokens_text. cbn [fs_out]. apply push_string_value. Qed.

(* walk of the children of [node] *)
Definition html_children (c : oconfig) (node : anode) (st : fstate) : fstate :=
  (fix go (i : nat) (l : list anode) (st : fstate) : fstate :=
     match l with
     | [] => st
     | ch :: r => go (S i) r (html_element c (Some node) ch i (an_children node) st)
     end) O (an_children node) st.

Definition no_field (v : list vtok) : Prop := find_field_ix v = None.

(* opening part of element(): indentation, comment, `<name`, attributes, `>` *)
Definition open_part (c : oconfig) (parent : option anode) (node : anode) (index : nat) (items : list anode)
           (st : fstate) : fstate :=
  let f := oc_fmt c in
  let st := map_out (fun o => os_add_level o (get_indent c parent)) st in
  let st := if should_format c parent node index items
            then map_out (fun o => os_push_newline f o (Some None)) st else st in
  let name := tag_name c (match an_name node with Some n => n | None => [] end) in
  let st := comment_node c (oc_comment_before c) node st in
  let st := push_str c (c_lt :: name) st in
  let st := match an_attrs node with
            | Some ((_ :: _) as l) =>
                fold_left (fun s a => if should_output_attribute a then push_attribute c a s else s) l st
            | _ => st
            end in
  push_str c [c_gt] st.

(* the element's own text: push_tokens(node.value), on its own lines when it has line breaks or
   starts with a block tag; the line break that puts the closing tag on its own line is written
   here only for a childless element (with children the last formatted child writes it) *)
Definition text_part (c : oconfig) (value : list vtok) (ch : list anode) (st : fstate) : fstate :=
  let f := oc_fmt c in
  let inner := existsb has_newline value || starts_with_block_tag c value in
  let st := if inner
            then map_out (fun o => let o' := os_add_level o 1 in os_push_newline_int f o' (os_level o')) st
            else st in
  let st := push_tokens c value st in
  if inner
  then match ch with
       | [] => map_out (fun o => let o' := os_add_level o (-1) in os_push_newline_int f o' (os_level o')) st
       | _ => map_out (fun o => os_add_level o (-1)) st
       end
  else st.

(* closing part: `</name>`, comment, line break after the last formatted child, indentation level *)
Definition close_part (c : oconfig) (parent : option anode) (node : anode) (index : nat) (items : list anode)
           (st : fstate) : fstate :=
  let f := oc_fmt c in
  let name := tag_name c (match an_name node with Some n => n | None => [] end) in
  let st := push_str c ([c_lt; c_slash] ++ name ++ [c_gt]) st in
  let st := comment_node c (oc_comment_after c) node st in
  let st :=
    if should_format c parent node index items && Nat.eqb index (length items - 1)
       && match parent with Some _ => true | None => false end
       && negb (Nat.eqb (length items) 0)
    then map_out (fun o => os_push_newline_int f o (os_level o - (if is_snippet_opt parent then 0 else 1))%Z) st
    else st in
  map_out (fun o => os_add_level o (- get_indent c parent)%Z) st.

Theorem children_after_text c parent nm0 nm v0 value rp at_ ch sc index items st :
  no_field (v0 :: value) ->
  let node := ANode (Some (nm0 :: nm)) (Some (v0 :: value)) rp at_ ch sc in
  html_element c parent node index items st =
    close_part c parent node index items
      (html_children c node (text_part c (v0 :: value) ch (open_part c parent node index items st))).
Proof.
  intros Hnf node. subst node. unfold no_field in Hnf.
  cbn [html_element an_name an_self an_children an_value an_attrs truthy_l negb].
  rewrite !andb_false_r. rewrite Hnf.
  unfold close_part, html_children, text_part, open_part.
  cbn [an_name an_self an_children an_value an_attrs].
  destruct ch as [|ch0 chs]; reflexivity.
Qed.
