(* C12 format_cosmetic: two option records that differ only in the cosmetic options give the
   same content (tags, attributes, text, fields, in the same order); only blanks differ.
   Relational induction over the tree: two runs, related streams. *)
From Coq Require Import ZArith List Bool Lia ZifyBool.
From Emmet Require Import lib.Base model.MarkupTokenizer model.MarkupParser model.MarkupConvert
     model.OutStream model.FormatHtml model.FormatIndent proofs.OutStreamProofs proofs.FormatSteps
     proofs.FormatReach proofs.FormatProofs proofs.FormatChunks proofs.FormatTabstops.

(* ---------------------------------------------------------------- SPEC: content of a chunk list *)
Definition ws (s : str) : bool := forallb is_py_space s.
(* strings the formatter inserts on its own are blanks *)
Definition ws_fmt (f : ofmt) : Prop :=
  ws (of_indent f) = true /\ ws (of_base_indent f) = true /\ ws (of_newline f) = true.

Inductive citem := KT (s : str) | KF (i : N) (p : str).
(* a text chunk made of blanks only is dropped, leading blanks of a text chunk are dropped *)
Definition canon_text (s : str) : list citem := if ws s then [] else [KT (lstrip s)].
Definition canon_chunk (ch : chunk) : list citem :=
  match ch with CT _ s => canon_text s | CF i p => [KF i p] end.
Definition canon (X : list chunk) : list citem := flat_map canon_chunk X.
Definition content (st : fstate) : list citem := canon (fchunks st).

(* the cosmetic options *)
Record cosmetic := mkCos {
  k_fmt : ofmt; k_format : bool; k_leaf : bool; k_skip : list str; k_force : list str; k_break : N }.
Definition with_cos (k : cosmetic) (c : oconfig) : oconfig :=
  mkOconfig (k_fmt k) (oc_tag_case c) (oc_attr_case c) (oc_attr_quotes c) (k_format k) (k_leaf k) (k_skip k)
            (k_force k) (k_break k) (oc_compact_boolean c) (oc_boolean_attrs c) (oc_self_closing_style c)
            (oc_inline c) (oc_comment_enabled c) (oc_comment_trigger c) (oc_comment_before c) (oc_comment_after c)
            (oc_jsx c) (oc_markup_attributes c) (oc_value_prefix c).
Definition cos_of (c : oconfig) : cosmetic :=
  mkCos (oc_fmt c) (oc_format c) (oc_format_leaf c) (oc_format_skip c) (oc_format_force c) (oc_inline_break c).

(* ---------------------------------------------------------------- canon of what primitives append *)
Lemma canon_app a b : canon (a ++ b) = canon a ++ canon b.
Proof. unfold canon. apply flat_map_app. Qed.

Lemma ws_app a b : ws (a ++ b) = ws a && ws b.
Proof. unfold ws. apply forallb_app. Qed.
Lemma ws_repeat s n : ws s = true -> ws (repeat_str s n) = true.
Proof. intros H. induction n as [|n IH]; [reflexivity|]. cbn [repeat_str]. rewrite ws_app, H, IH. reflexivity. Qed.

Lemma canon_nl f L ind : ws_fmt f -> canon (nl_chunks f L ind) = [].
Proof.
  intros [Hi [Hb Hn]]. unfold nl_chunks, nl_chunk, indent_chunk, canon. cbn [flat_map canon_chunk].
  unfold canon_text at 1. rewrite ws_app, Hn, Hb. cbn [andb app].
  destruct ind as [[n|]|]; cbn [flat_map canon_chunk app]; unfold canon_text; try rewrite ws_repeat by exact Hi; reflexivity.
Qed.

Definition canon_str (s : str) : list citem := flat_map canon_text (split_crlf s).

Lemma canon_string f L s : ws_fmt f -> canon (string_chunks f L s) = canon_str s.
Proof.
  intros Hf. unfold string_chunks, canon_str. destruct (split_crlf s) as [|l0 ls]; [reflexivity|].
  cbn [flat_map canon canon_chunk]. f_equal.
  induction ls as [|l ls IH]; [reflexivity|]. cbn [flat_map].
  fold (canon (line_chunks f L l ++ flat_map (line_chunks f L) ls)).
  rewrite canon_app. unfold line_chunks at 1. rewrite canon_app, (canon_nl f L _ Hf).
  cbn [app canon flat_map canon_chunk]. rewrite app_nil_r. f_equal. exact IH.
Qed.

Definition canon_tokens (F : N) (toks : list vtok) : list citem :=
  flat_map (fun t => match t with VStr s => canon_str s | VField i nm => [KF (F + i)%N nm] end) toks.

Lemma canon_token_chunks f L F toks : ws_fmt f -> canon (token_chunks f L F toks) = canon_tokens F toks.
Proof.
  intros Hf. induction toks as [|t ts IH]; [reflexivity|]. cbn [token_chunks flat_map canon_tokens].
  fold (token_chunks f L F ts). rewrite canon_app, IH. destruct t as [s|i nm]; [rewrite canon_string by exact Hf|]; reflexivity.
Qed.

(* ---------------------------------------------------------------- lstrip does not change the content *)
Lemma cr_space : is_py_space c_cr = true. Proof. vm_compute. reflexivity. Qed.
Lemma nl_space : is_py_space c_nl = true. Proof. vm_compute. reflexivity. Qed.
Definition is_brk (ch : char) : bool := ((ch =? c_cr) || (ch =? c_nl))%N.
Lemma lb_space ch : is_brk ch = true -> is_py_space ch = true.
Proof.
  unfold is_brk. intros H. apply orb_true_iff in H. destruct H as [H|H]; apply N.eqb_eq in H; subst ch;
    [apply cr_space|apply nl_space].
Qed.

Lemma ws_rev s : ws (rev s) = ws s.
Proof. induction s as [|c s IH]; [reflexivity|]. cbn [rev]. rewrite ws_app, IH. cbn [ws forallb]. rewrite andb_true_r. apply andb_comm. Qed.

Lemma lstrip_ws_app w l : ws w = true -> lstrip (w ++ l) = lstrip l.
Proof.
  induction w as [|c w IH]; intros H; [reflexivity|]. cbn [ws forallb] in H. apply andb_true_iff in H.
  destruct H as [Hc Hw]. cbn [app]. unfold lstrip in *. cbn [lstrip_by]. rewrite Hc. apply IH, Hw.
Qed.

Lemma canon_text_ws_app w l : ws w = true -> canon_text (w ++ l) = canon_text l.
Proof. intros H. unfold canon_text. rewrite ws_app, H, lstrip_ws_app by exact H. reflexivity. Qed.

Lemma split_crlf_aux_acc : forall s acc cur, acc <> [] ->
  exists hd tl, split_crlf_aux s acc = hd :: tl /\ split_crlf_aux s (acc ++ cur) = (rev cur ++ hd) :: tl.
Proof.
  induction s as [|c s' IH]; intros acc cur Hne; cbn [split_crlf_aux].
  - destruct acc as [|a acc]; [congruence|]. cbn [app]. exists (rev (a :: acc)), []. split; [reflexivity|].
    f_equal. change (a :: acc ++ cur) with ((a :: acc) ++ cur). apply rev_app_distr.
  - fold (is_brk c). destruct (is_brk c).
    + destruct s' as [|c2 s''].
      * exists (rev acc), []. split; [reflexivity|]. f_equal. apply rev_app_distr.
      * destruct ((c =? c_cr)%N && (c2 =? c_nl)%N); eexists (rev acc), _; (split; [reflexivity|]); f_equal; apply rev_app_distr.
    + change (c :: acc ++ cur) with ((c :: acc) ++ cur). apply IH. discriminate.
Qed.

Lemma canon_lstrip_aux : forall n s cur, length s <= n -> ws cur = true ->
  flat_map canon_text (split_crlf_aux s cur) = flat_map canon_text (split_crlf_aux (lstrip s) []).
Proof.
  induction n as [|n IH]; intros s cur Hn Hc; destruct s as [|c s']; cbn [length] in Hn; try lia.
  - cbn [split_crlf_aux]. destruct cur; [reflexivity|]. cbn [flat_map]. unfold canon_text. rewrite ws_rev, Hc. reflexivity.
  - cbn [split_crlf_aux]. destruct cur; [reflexivity|]. cbn [flat_map]. unfold canon_text. rewrite ws_rev, Hc. reflexivity.
  - assert (Hcur : canon_text (rev cur) = []) by (unfold canon_text; rewrite ws_rev, Hc; reflexivity).
    destruct (is_py_space c) eqn:Hsp.
    + assert (El : lstrip (c :: s') = lstrip s') by (unfold lstrip; cbn [lstrip_by]; rewrite Hsp; reflexivity).
      rewrite El. cbn [split_crlf_aux]. fold (is_brk c). destruct (is_brk c) eqn:Hlb.
      * destruct s' as [|c2 s''].
        -- cbn [flat_map]. rewrite Hcur. reflexivity.
        -- destruct ((c =? c_cr)%N && (c2 =? c_nl)%N) eqn:Ecr.
           ++ cbn [flat_map]. rewrite Hcur. cbn [app]. apply andb_true_iff in Ecr. destruct Ecr as [_ E2].
              apply N.eqb_eq in E2. subst c2.
              assert (El2 : lstrip (c_nl :: s'') = lstrip s'').
              { unfold lstrip. cbn [lstrip_by]. rewrite nl_space. reflexivity. }
              rewrite El2. apply IH; [cbn [length] in Hn; lia|reflexivity].
           ++ cbn [flat_map]. rewrite Hcur. cbn [app]. apply IH; [lia|reflexivity].
      * apply IH; [lia|]. cbn [ws forallb]. rewrite Hsp. exact Hc.
    + assert (Hlb : is_brk c = false).
      { destruct (is_brk c) eqn:E; [|reflexivity]. rewrite (lb_space _ E) in Hsp. discriminate. }
      assert (El : lstrip (c :: s') = c :: s') by (unfold lstrip; cbn [lstrip_by]; rewrite Hsp; reflexivity).
      rewrite El. cbn [split_crlf_aux]. fold (is_brk c). rewrite Hlb.
      destruct (split_crlf_aux_acc s' [c] cur) as [hd [tl [E1 E2]]]; [discriminate|].
      cbn [app] in E2. rewrite E1, E2. cbn [flat_map]. rewrite canon_text_ws_app by (rewrite ws_rev; exact Hc). reflexivity.
Qed.

Lemma canon_str_lstrip s : canon_str (lstrip s) = canon_str s.
Proof.
  unfold canon_str, split_crlf. symmetry. apply (canon_lstrip_aux (length s) s [] (le_n _) eq_refl).
Qed.

(* ---------------------------------------------------------------- content after each primitive *)
Section Run.
Variable c : oconfig.
Hypothesis Hf : ws_fmt (oc_fmt c).

Lemma ct_push_str s st : content (push_str c s st) = content st ++ canon_str s.
Proof. unfold content. rewrite ch_push_str, canon_app, canon_string by exact Hf. reflexivity. Qed.

Lemma ct_push_tokens v st : content (push_tokens c v st) = content st ++ canon_tokens (fs_field st) v.
Proof.
  unfold content. destruct (push_tokens_spec c v st) as [H _].
  rewrite H, canon_app, canon_token_chunks by exact Hf. reflexivity.
Qed.
Lemma fld_push_tokens v st : fs_field (push_tokens c v st) = next_field (fs_field st) v.
Proof. destruct (push_tokens_spec c v st) as [_ H]. exact H. Qed.

Lemma ct_level d st : content (map_out (fun o => os_add_level o d) st) = content st.
Proof. reflexivity. Qed.
Lemma ct_newline ind st : content (map_out (fun o => os_push_newline (oc_fmt c) o ind) st) = content st.
Proof. unfold content. rewrite ch_map_newline, canon_app, canon_nl by exact Hf. apply app_nil_r. Qed.
Lemma ct_level_newline d st : content (level_newline c d st) = content st.
Proof. unfold content. rewrite ch_level_newline, canon_app, canon_nl by exact Hf. apply app_nil_r. Qed.
Lemma ct_newline_int (g : ostream -> Z) st :
  content (map_out (fun o => os_push_newline_int (oc_fmt c) o (g o)) st) = content st.
Proof.
  unfold content, fchunks, map_out, os_push_newline_int. cbn [fs_out].
  rewrite ch_push_newline, canon_app, canon_nl by exact Hf. apply app_nil_r.
Qed.
End Run.

(* ---------------------------------------------------------------- two runs *)
(* Two runs of the formatter on the same tree under option records c1, c2.  The runs may break
   lines and indent differently (every such step appends blanks only).  What the two records
   must agree on is stated as hypotheses; [Rel] relates the contents of the two streams and is
   kept by appending the same items to both. *)
Section Two.
Variables c1 c2 : oconfig.
Hypothesis H1 : ws_fmt (oc_fmt c1).
Hypothesis H2 : ws_fmt (oc_fmt c2).
Variable Rel : list citem -> list citem -> Prop.
(* [Eqv]: what counts as "the same items" appended to both runs; [FRel]: how the field counters
   of the two runs are related (equal, in all instances but the text-only one) *)
Variable Eqv : list citem -> list citem -> Prop.
Variable FRel : N -> N -> Prop.
Hypothesis Rel_app : forall x y z1 z2, Rel x y -> Eqv z1 z2 -> Rel (x ++ z1) (y ++ z2).
Hypothesis Eqv_refl : forall z, Eqv z z.
Hypothesis FRel_tokens : forall F1 F2 v, FRel F1 F2 ->
  Eqv (canon_tokens F1 v) (canon_tokens F2 v) /\ FRel (next_field F1 v) (next_field F2 v).
Variable Pn : anode -> Prop.

Definition Sim (a b : fstate) : Prop := Rel (content a) (content b) /\ FRel (fs_field a) (fs_field b).

Hypothesis A_tag : forall n, tag_name c2 n = tag_name c1 n.
Hypothesis A_cb : oc_comment_before c2 = oc_comment_before c1.
Hypothesis A_ca : oc_comment_after c2 = oc_comment_after c1.
Hypothesis S_comment : forall text n a b, Pn n -> Sim a b -> Sim (comment_node c1 text n a) (comment_node c2 text n b).
Hypothesis S_attribute : forall x a b, Sim a b -> Sim (push_attribute c1 x a) (push_attribute c2 x b).
Hypothesis S_selfclose : forall a b, Sim a b ->
  Sim (push_str c1 (self_close c1 ++ [c_gt]) a) (push_str c2 (self_close c2 ++ [c_gt]) b).

Lemma Sim_push_str s a b : Sim a b -> Sim (push_str c1 s a) (push_str c2 s b).
Proof.
  intros [Hc Hfld]. split; [|exact Hfld].
  rewrite (ct_push_str c1 H1), (ct_push_str c2 H2). apply Rel_app; [exact Hc|apply Eqv_refl].
Qed.

Lemma Sim_push_tokens v a b : Sim a b -> Sim (push_tokens c1 v a) (push_tokens c2 v b).
Proof.
  intros [Hc Hfld]. destruct (FRel_tokens _ _ v Hfld) as [E1 E2]. split.
  - rewrite (ct_push_tokens c1 H1), (ct_push_tokens c2 H2). apply Rel_app; assumption.
  - rewrite !fld_push_tokens. exact E2.
Qed.

Lemma Sim_left a a' b : content a' = content a -> fs_field a' = fs_field a -> Sim a b -> Sim a' b.
Proof. intros E1 E2 [Hc Hfld]. split; [rewrite E1; exact Hc|rewrite E2; exact Hfld]. Qed.
Lemma Sim_right a b b' : content b' = content b -> fs_field b' = fs_field b -> Sim a b -> Sim a b'.
Proof. intros E1 E2 [Hc Hfld]. split; [rewrite E1; exact Hc|rewrite E2; exact Hfld]. Qed.

Lemma Sim_level d1 d2 a b :
  Sim a b -> Sim (map_out (fun o => os_add_level o d1) a) (map_out (fun o => os_add_level o d2) b).
Proof. intros H. eapply Sim_left; [reflexivity|reflexivity|]. eapply Sim_right; [reflexivity|reflexivity|exact H]. Qed.

Lemma Sim_opt_newline (f1 f2 : bool) a b :
  Sim a b ->
  Sim (if f1 then map_out (fun o => os_push_newline (oc_fmt c1) o (Some None)) a else a)
      (if f2 then map_out (fun o => os_push_newline (oc_fmt c2) o (Some None)) b else b).
Proof.
  intros H. destruct f1, f2; try exact H.
  - eapply Sim_left; [apply (ct_newline c1 H1)|reflexivity|]. eapply Sim_right; [apply (ct_newline c2 H2)|reflexivity|exact H].
  - eapply Sim_left; [apply (ct_newline c1 H1)|reflexivity|exact H].
  - eapply Sim_right; [apply (ct_newline c2 H2)|reflexivity|exact H].
Qed.

Lemma Sim_opt_level_newline (f1 f2 : bool) d1 d2 a b :
  Sim a b -> Sim (if f1 then level_newline c1 d1 a else a) (if f2 then level_newline c2 d2 b else b).
Proof.
  intros H. destruct f1, f2; try exact H.
  - eapply Sim_left; [apply (ct_level_newline c1 H1)|reflexivity|].
    eapply Sim_right; [apply (ct_level_newline c2 H2)|reflexivity|exact H].
  - eapply Sim_left; [apply (ct_level_newline c1 H1)|reflexivity|exact H].
  - eapply Sim_right; [apply (ct_level_newline c2 H2)|reflexivity|exact H].
Qed.

Lemma Sim_fold {A} (f1 f2 : fstate -> A -> fstate) (l : list A) :
  (forall a b x, Sim a b -> Sim (f1 a x) (f2 b x)) -> forall a b, Sim a b -> Sim (fold_left f1 l a) (fold_left f2 l b).
Proof. intros Hs. induction l as [|x l IH]; intros a b H; cbn [fold_left]; [exact H|]. apply IH, Hs, H. Qed.

(* pieces that write the same strings and tokens in both runs *)
Lemma Sim_comment_same text n a b :
  should_comment c2 n = should_comment c1 n -> Sim a b -> Sim (comment_node c1 text n a) (comment_node c2 text n b).
Proof.
  intros E H. unfold comment_node. destruct text; [exact H|]. rewrite E. destruct (should_comment c1 n); [|exact H].
  unfold comment_output. apply Sim_fold; [|exact H].
  intros a' b' t H'. destruct t as [s|bf af nm]; [apply Sim_push_str, H'|].
  destruct (assoc_str nm _); [|exact H']. apply Sim_push_str, Sim_push_tokens, Sim_push_str, H'.
Qed.

Lemma Sim_attr_write_same name v lq rq a b :
  truthy_l v = true \/ oc_self_closing_style c2 = oc_self_closing_style c1 ->
  Sim a b -> Sim (attr_write c1 name v lq rq a) (attr_write c2 name v lq rq b).
Proof.
  intros E H. unfold attr_write. destruct v as [[|v0 vr]|].
  - destruct E as [E|E]; [discriminate|]. rewrite E.
    destruct (negb (str_eqb (oc_self_closing_style c1) s_html)); repeat apply Sim_push_str; exact H.
  - apply Sim_push_str, Sim_push_tokens, Sim_push_str, Sim_push_str, H.
  - destruct E as [E|E]; [discriminate|]. rewrite E.
    destruct (negb (str_eqb (oc_self_closing_style c1) s_html)); repeat apply Sim_push_str; exact H.
Qed.

Lemma Sim_push_attribute_same x a b :
  (forall nm, attr_out_name c2 x nm = attr_out_name c1 x nm) ->
  (forall nm, attr_v1 c2 x nm = attr_v1 c1 x nm) ->
  (forall name v, attr_value2 c2 x name v = attr_value2 c1 x name v) ->
  (forall name v, truthy_l (attr_value2 c1 x name v) = true) \/ oc_self_closing_style c2 = oc_self_closing_style c1 ->
  Sim a b -> Sim (push_attribute c1 x a) (push_attribute c2 x b).
Proof.
  intros E1 E2 E3 E4 H. rewrite !push_attribute_unfold. destruct (aa_name x) as [[|y nm]|]; try exact H.
  rewrite E1, E2. cbv zeta. destruct (attr_v1 c1 x (y :: nm)) as [[value1 lq] rq]. rewrite E3.
  apply Sim_attr_write_same; [|exact H]. destruct E4 as [E4|E4]; [left; apply E4|right; exact E4].
Qed.

Lemma Sim_el_open nm node a b : Pn node -> Sim a b -> Sim (el_open c1 nm node a) (el_open c2 nm node b).
Proof.
  intros HP H. unfold el_open, el_attrs. rewrite A_tag, A_cb.
  assert (H' : Sim (push_str c1 (c_lt :: tag_name c1 nm) (comment_node c1 (oc_comment_before c1) node a))
                   (push_str c2 (c_lt :: tag_name c1 nm) (comment_node c2 (oc_comment_before c1) node b))).
  { apply Sim_push_str, S_comment; assumption. }
  destruct (an_attrs node) as [[|x l]|]; try exact H'.
  apply Sim_fold; [|exact H']. intros a' b' y Hy. destruct (should_output_attribute y); [apply S_attribute|]; exact Hy.
Qed.

Lemma Sim_el_close nm node a b : Pn node -> Sim a b -> Sim (el_close c1 nm node a) (el_close c2 nm node b).
Proof. intros HP H. unfold el_close. rewrite A_tag, A_ca. apply S_comment; [exact HP|]. apply Sim_push_str, H. Qed.

Lemma Sim_el_value node a b : Sim a b -> Sim (el_value c1 node a) (el_value c2 node b).
Proof.
  intros H. unfold el_value. destruct (an_value node) as [[|v0 v]|]; try exact H.
  set (i1 := existsb has_newline (v0 :: v) || starts_with_block_tag c1 (v0 :: v)).
  set (i2 := existsb has_newline (v0 :: v) || starts_with_block_tag c2 (v0 :: v)).
  assert (Hm : Sim (push_tokens c1 (v0 :: v) (if i1 then level_newline c1 1 a else a))
                   (push_tokens c2 (v0 :: v) (if i2 then level_newline c2 1 b else b))).
  { apply Sim_push_tokens, Sim_opt_level_newline, H. }
  destruct (an_children node).
  - replace (if i1 then level_newline c1 (-1) _ else _) with
      (if i1 then level_newline c1 (-1) (push_tokens c1 (v0 :: v) (if i1 then level_newline c1 1 a else a))
       else push_tokens c1 (v0 :: v) (if i1 then level_newline c1 1 a else a)) by (destruct i1; reflexivity).
    replace (if i2 then level_newline c2 (-1) _ else _) with
      (if i2 then level_newline c2 (-1) (push_tokens c2 (v0 :: v) (if i2 then level_newline c2 1 b else b))
       else push_tokens c2 (v0 :: v) (if i2 then level_newline c2 1 b else b)) by (destruct i2; reflexivity).
    apply Sim_opt_level_newline, Hm.
  - destruct i1, i2; exact Hm.
Qed.

Lemma Sim_el_leaf nm node a b : Sim a b -> Sim (el_leaf c1 nm node a) (el_leaf c2 nm node b).
Proof.
  intros H. unfold el_leaf.
  destruct (negb (truthy_l (an_value node)) && match an_children node with [] => true | _ => false end); [|exact H].
  apply Sim_opt_level_newline, Sim_push_tokens, Sim_opt_level_newline, H.
Qed.

Definition SimO (x y : option fstate) : Prop :=
  match x, y with
  | Some a, Some b => Sim a b
  | None, None => True
  | _, _ => False
  end.
Definition next_sim (n1 n2 : fstate -> fstate) : Prop := forall a b, Sim a b -> Sim (n1 a) (n2 b).

Lemma skipn_nth {A} (l : list A) : forall n x, nth_error l n = Some x -> skipn n l = x :: skipn (S n) l.
Proof.
  induction l as [|y l IH]; intros [|n] x H; try discriminate.
  - injection H as ->. reflexivity.
  - cbn [nth_error] in H. cbn [skipn]. rewrite (IH n x H). reflexivity.
Qed.

(* the text after the field: written whole by one run, left-stripped by the other *)
Lemma Sim_strip_l s rest a b :
  Sim a b -> Sim (push_tokens c1 rest (push_str c1 (lstrip s) a)) (push_tokens c2 (VStr s :: rest) b).
Proof.
  intros [Hc Hfld]. destruct (FRel_tokens _ _ rest Hfld) as [E1 E2]. split.
  - rewrite (ct_push_tokens c1 H1), (ct_push_str c1 H1), (ct_push_tokens c2 H2), fld_push_str.
    cbn [canon_tokens flat_map]. rewrite canon_str_lstrip, app_assoc.
    apply Rel_app; [apply Rel_app; [exact Hc|apply Eqv_refl]|exact E1].
  - rewrite !fld_push_tokens, fld_push_str. exact E2.
Qed.
Lemma Sim_strip_r s rest a b :
  Sim a b -> Sim (push_tokens c1 (VStr s :: rest) a) (push_tokens c2 rest (push_str c2 (lstrip s) b)).
Proof.
  intros [Hc Hfld]. destruct (FRel_tokens _ _ rest Hfld) as [E1 E2]. split.
  - rewrite (ct_push_tokens c1 H1), (ct_push_tokens c2 H2), (ct_push_str c2 H2), fld_push_str.
    cbn [canon_tokens flat_map]. rewrite canon_str_lstrip, app_assoc.
    apply Rel_app; [apply Rel_app; [exact Hc|apply Eqv_refl]|exact E1].
  - rewrite !fld_push_tokens, fld_push_str. exact E2.
Qed.

Lemma Sim_el_snippet node n1 n2 a b :
  next_sim n1 n2 -> Sim a b -> SimO (el_snippet c1 node n1 a) (el_snippet c2 node n2 b).
Proof.
  intros Hn H. unfold el_snippet.
  destruct (an_value node) as [[|v0 value]|]; try exact I.
  destruct (an_children node) as [|ch0 ch]; try exact I.
  destruct (find_field_ix (v0 :: value)) as [ix|]; try exact I.
  set (a1 := push_tokens c1 (firstn ix (v0 :: value)) a). set (b1 := push_tokens c2 (firstn ix (v0 :: value)) b).
  assert (Hs1 : Sim a1 b1) by (apply Sim_push_tokens, H).
  assert (Hs2 : Sim (n1 a1) (n2 b1)) by (apply Hn, Hs1).
  destruct (nth_error (v0 :: value) (S ix)) as [[s|i nm]|] eqn:En; cbn [SimO].
  - pose proof (skipn_nth _ _ _ En) as Esk.
    destruct (negb (Nat.eqb (os_line (fs_out (n1 a1))) (os_line (fs_out a1))));
      destruct (negb (Nat.eqb (os_line (fs_out (n2 b1))) (os_line (fs_out b1)))); cbn [SimO].
    + apply Sim_push_tokens, Sim_push_str, Hs2.
    + rewrite Esk. apply Sim_strip_l, Hs2.
    + rewrite Esk. apply Sim_strip_r, Hs2.
    + apply Sim_push_tokens, Hs2.
  - apply Sim_push_tokens, Hs2.
  - apply Sim_push_tokens, Hs2.
Qed.

Lemma Sim_el_content nm node n1 n2 a b :
  next_sim n1 n2 -> Sim a b -> Sim (el_content c1 nm node n1 a) (el_content c2 nm node n2 b).
Proof.
  intros Hn H. unfold el_content. pose proof (Sim_el_snippet node n1 n2 a b Hn H) as Hs.
  destruct (el_snippet c1 node n1 a); destruct (el_snippet c2 node n2 b); cbn [SimO] in Hs; try contradiction; [exact Hs|].
  apply Sim_el_leaf, Hn, Sim_el_value, H.
Qed.

Lemma Sim_el_body node n1 n2 a b :
  Pn node -> next_sim n1 n2 -> Sim a b -> Sim (el_body c1 node n1 a) (el_body c2 node n2 b).
Proof.
  intros HP Hn H. unfold el_body.
  assert (Hun : Sim (el_unnamed c1 node n1 a) (el_unnamed c2 node n2 b)).
  { unfold el_unnamed. pose proof (Sim_el_snippet node n1 n2 a b Hn H) as Hs.
    destruct (el_snippet c1 node n1 a); destruct (el_snippet c2 node n2 b); cbn [SimO] in Hs; try contradiction; [exact Hs|].
    apply Hn. destruct (an_value node) as [[|v0 v]|]; try exact H. apply Sim_push_tokens, H. }
  destruct (an_name node) as [[|x nm]|]; try exact Hun.
  unfold el_named.
  destruct (an_self node && match an_children node with [] => true | _ => false end && negb (truthy_l (an_value node))).
  - apply S_selfclose, Sim_el_open; assumption.
  - apply Sim_el_close; [exact HP|]. apply Sim_el_content; [exact Hn|]. apply Sim_push_str, Sim_el_open; assumption.
Qed.

Lemma Sim_el_tail f1 f2 p1 p2 i1 i2 it1 it2 a b :
  Sim a b -> Sim (el_tail c1 f1 p1 i1 it1 a) (el_tail c2 f2 p2 i2 it2 b).
Proof.
  intros H. unfold el_tail.
  destruct (tail_newline c1 f1 p1 i1 it1); destruct (tail_newline c2 f2 p2 i2 it2); try exact H.
  - eapply Sim_left; [apply (ct_newline_int c1 H1)|reflexivity|].
    eapply Sim_right; [apply (ct_newline_int c2 H2)|reflexivity|exact H].
  - eapply Sim_left; [apply (ct_newline_int c1 H1)|reflexivity|exact H].
  - eapply Sim_right; [apply (ct_newline_int c2 H2)|reflexivity|exact H].
Qed.

Lemma Sim_html_step p1 p2 node i1 i2 it1 it2 n1 n2 a b :
  Pn node -> next_sim n1 n2 -> Sim a b ->
  Sim (html_element_step c1 p1 node i1 it1 n1 a) (html_element_step c2 p2 node i2 it2 n2 b).
Proof.
  intros HP Hn H. unfold html_element_step.
  apply Sim_level, Sim_el_tail, Sim_el_body; [exact HP|exact Hn|]. apply Sim_opt_newline, Sim_level, H.
Qed.

(* the two walks may carry different parent / sibling information (it only decides blanks) *)
Lemma Sim_html_walk p1 p2 it1 it2 : forall l i1 i2 a b,
  Forall (fun n => forall p1 p2 i1 i2 it1 it2 a b, Sim a b ->
                   Sim (html_element c1 p1 n i1 it1 a) (html_element c2 p2 n i2 it2 b)) l ->
  Sim a b -> Sim (html_walk c1 p1 it1 i1 l a) (html_walk c2 p2 it2 i2 l b).
Proof.
  induction l as [|x l IH]; intros i1 i2 a b HF H; cbn [html_walk]; [exact H|].
  inversion HF as [|y z Hx HF']; subst. apply IH; [exact HF'|]. apply Hx, H.
Qed.

(* [Pn] holds at every node of the tree *)
Fixpoint all_nodes (n : anode) : Prop :=
  match n with
  | ANode nm v rp at_ ch sc =>
      Pn (ANode nm v rp at_ ch sc) /\
      (fix go (l : list anode) : Prop := match l with [] => True | x :: r => all_nodes x /\ go r end) ch
  end.

Theorem Sim_html_element : forall node, all_nodes node -> forall p1 p2 i1 i2 it1 it2 a b,
  Sim a b -> Sim (html_element c1 p1 node i1 it1 a) (html_element c2 p2 node i2 it2 b).
Proof.
  induction node as [nm v rp at_ ch sc IHch] using anode_ind'. intros [HP Hall] p1 p2 i1 i2 it1 it2 a b H.
  rewrite !html_element_unfold. apply Sim_html_step; [exact HP| |exact H].
  intros a' b' H'. rewrite !html_children_walk. cbn [an_children]. apply Sim_html_walk; [|exact H'].
  clear -IHch Hall. induction ch as [|x r IH]; constructor.
  - inversion IHch; subst. destruct Hall as [Hx _]. auto.
  - inversion IHch; subst. destruct Hall as [_ Hr]. apply IH; assumption.
Qed.

Theorem Sim_html_format children :
  Rel [] [] -> FRel 1 1 -> Forall all_nodes children ->
  Rel (content (html_format c1 children)) (content (html_format c2 children)).
Proof.
  intros Hnil Hone Hall. rewrite !html_format_walk.
  destruct (Sim_html_walk None None children children children 0 0 (mkFs os_empty 1) (mkFs os_empty 1)) as [H _].
  - rewrite Forall_forall in *. intros n Hin. apply Sim_html_element, Hall, Hin.
  - split; [exact Hnil|exact Hone].
  - exact H.
Qed.
End Two.

(* the instances where "the same items" means equal items and the field counters are equal *)
Lemma eq_tokens : forall (F1 F2 : N) v, F1 = F2 ->
  canon_tokens F1 v = canon_tokens F2 v /\ next_field F1 v = next_field F2 v.
Proof. intros F1 F2 v ->. split; reflexivity. Qed.

(* ================================================================ instance 1: cosmetic options *)
Lemma all_nodes_true : forall n, all_nodes (fun _ => True) n.
Proof.
  induction n as [nm v rp at_ ch sc IHch] using anode_ind'. split; [exact I|].
  induction ch as [|x r IH]; [exact I|]. inversion IHch; subst. split; [assumption|apply IH; assumption].
Qed.

Lemma eq_app2 : forall x y z1 z2 : list citem, x = y -> z1 = z2 -> x ++ z1 = y ++ z2.
Proof. intros x y z1 z2 -> ->. reflexivity. Qed.

Ltac side :=
  first [ assumption | exact eq_app2 | exact eq_tokens | exact (@eq_refl (list citem)) | reflexivity ].

Section Cosmetic.
Variables (c : oconfig) (k1 k2 : cosmetic).
Hypothesis H1 : ws_fmt (k_fmt k1).
Hypothesis H2 : ws_fmt (k_fmt k2).
Let c1 := with_cos k1 c.
Let c2 := with_cos k2 c.

Theorem content_cosmetic children :
  content (html_format c1 children) = content (html_format c2 children).
Proof.
  apply (Sim_html_format c1 c2 H1 H2 eq eq eq eq_app2 (@eq_refl _) eq_tokens (fun _ => True)); try reflexivity.
  - intros text n a b _. apply Sim_comment_same with (Eqv := eq); try side.
  - intros x a b H. apply Sim_push_attribute_same with (Eqv := eq); try side. right; reflexivity.
  - intros a b H. change (self_close c2) with (self_close c1). apply Sim_push_str with (Eqv := eq); side.
  - apply Forall_forall. intros n _. apply all_nodes_true.
Qed.
End Cosmetic.

(* ---------------------------------------------------------------- statement on option records *)
(* the two records agree on everything except format, indent, newline, baseIndent, inlineBreak,
   formatLeafNode, formatSkip, formatForce *)
Definition same_but_cosmetic (c1 c2 : oconfig) : Prop :=
  oc_tag_case c1 = oc_tag_case c2 /\ oc_attr_case c1 = oc_attr_case c2 /\ oc_attr_quotes c1 = oc_attr_quotes c2 /\
  oc_compact_boolean c1 = oc_compact_boolean c2 /\ oc_boolean_attrs c1 = oc_boolean_attrs c2 /\
  oc_self_closing_style c1 = oc_self_closing_style c2 /\ oc_inline c1 = oc_inline c2 /\
  oc_comment_enabled c1 = oc_comment_enabled c2 /\ oc_comment_trigger c1 = oc_comment_trigger c2 /\
  oc_comment_before c1 = oc_comment_before c2 /\ oc_comment_after c1 = oc_comment_after c2 /\
  oc_jsx c1 = oc_jsx c2 /\ oc_markup_attributes c1 = oc_markup_attributes c2 /\
  oc_value_prefix c1 = oc_value_prefix c2.

Theorem format_cosmetic_lemma c1 c2 children :
  same_but_cosmetic c1 c2 -> ws_fmt (oc_fmt c1) -> ws_fmt (oc_fmt c2) ->
  content (html_format c1 children) = content (html_format c2 children).
Proof.
  intros Hs Hf1 Hf2.
  assert (E1 : c1 = with_cos (cos_of c1) c1) by (destruct c1; reflexivity).
  assert (E2 : c2 = with_cos (cos_of c2) c1).
  { destruct c1, c2. unfold same_but_cosmetic in Hs. cbn in Hs.
    destruct Hs as [? [? [? [? [? [? [? [? [? [? [? [? [? ?]]]]]]]]]]]]]. subst. reflexivity. }
  rewrite E1 at 1. rewrite E2. apply content_cosmetic; assumption.
Qed.

(* ================================================================ instance 2: comments *)
Definition with_comment (e : bool) (c : oconfig) : oconfig :=
  mkOconfig (oc_fmt c) (oc_tag_case c) (oc_attr_case c) (oc_attr_quotes c) (oc_format c) (oc_format_leaf c)
            (oc_format_skip c) (oc_format_force c) (oc_inline_break c) (oc_compact_boolean c) (oc_boolean_attrs c)
            (oc_self_closing_style c) (oc_inline c) e (oc_comment_trigger c) (oc_comment_before c)
            (oc_comment_after c) (oc_jsx c) (oc_markup_attributes c) (oc_value_prefix c).

(* [Adds x y]: x is y with additional text items; nothing of y is changed, dropped or reordered *)
Inductive Adds : list citem -> list citem -> Prop :=
| adds_nil : Adds [] []
| adds_keep i a b : Adds a b -> Adds (i :: a) (i :: b)
| adds_text s a b : Adds a b -> Adds (KT s :: a) b.

Definition is_text (i : citem) : Prop := match i with KT _ => True | KF _ _ => False end.

Lemma Adds_refl z : Adds z z.
Proof. induction z; constructor; assumption. Qed.
Lemma Adds_app x y z : Adds x y -> Adds (x ++ z) (y ++ z).
Proof. induction 1; cbn [app]; [apply Adds_refl|constructor; assumption|constructor; assumption]. Qed.
Lemma Adds_app2 x y z1 z2 : Adds x y -> z1 = z2 -> Adds (x ++ z1) (y ++ z2).
Proof. intros H ->. apply Adds_app, H. Qed.
Lemma Adds_more x y K : Adds x y -> Forall is_text K -> Adds (x ++ K) y.
Proof.
  intros H HK. induction H; cbn [app].
  - induction HK as [|i K Hi HK IH]; [constructor|]. destruct i; [constructor; exact IH|destruct Hi].
  - constructor. exact IHAdds.
  - constructor. exact IHAdds.
Qed.

Lemma canon_str_text s : Forall is_text (canon_str s).
Proof.
  unfold canon_str. induction (split_crlf s) as [|l ls IH]; [constructor|]. cbn [flat_map].
  apply Forall_app. split; [|exact IH]. unfold canon_text. destruct (ws l); constructor; [exact I|constructor].
Qed.
Lemma canon_plain_text F v : plain_tokens v = true -> Forall is_text (canon_tokens F v).
Proof.
  induction v as [|t v IH]; intros H; [constructor|]. cbn [plain_tokens forallb] in H. apply andb_true_iff in H.
  destruct H as [Ht Hv]. destruct t; [|discriminate]. cbn [canon_tokens flat_map]. apply Forall_app.
  split; [apply canon_str_text|apply IH, Hv].
Qed.

Section Comments.
Variable c : oconfig.
Hypothesis Hf : ws_fmt (oc_fmt c).
Let c1 := with_comment true c.
Let c2 := with_comment false c.

(* a comment writes text only and leaves the field counter alone (attribute values without fields) *)
Lemma comment_adds text n a :
  attrs_plain n = true ->
  exists K, content (comment_node c1 text n a) = content a ++ K /\ Forall is_text K /\
            fs_field (comment_node c1 text n a) = fs_field a.
Proof.
  intros Hp. unfold comment_node. destruct text as [|t0 text0]; [exists []; rewrite app_nil_r; repeat split; constructor|].
  destruct (should_comment c1 n); [|exists []; rewrite app_nil_r; repeat split; constructor].
  unfold comment_output.
  set (attrs := rev _).
  assert (Ha : forall k v, assoc_str k attrs = Some v -> plain_tokens v = true).
  { assert (Hall : Forall (fun kv => plain_tokens (snd kv) = true) attrs).
    { unfold attrs. apply Forall_rev. apply Forall_forall. intros [k v] Hin. apply in_flat_map in Hin.
      destruct Hin as [x [Hin Hkv]]. unfold attrs_plain in Hp. rewrite forallb_forall in Hp. specialize (Hp x Hin).
      destruct (aa_name x) as [[|y nm]|]; [destruct Hkv| |destruct Hkv].
      destruct (aa_value x) as [[|v0 vr]|]; [destruct Hkv| |destruct Hkv].
      destruct Hkv as [E|[]]. injection E as <- <-. exact Hp. }
    clear -Hall. induction attrs as [|[k' v'] l IH]; intros k v; cbn [assoc_str]; [discriminate|].
    inversion Hall; subst. destruct (str_eqb k k'); [intros E; injection E as <-; assumption|apply IH; assumption]. }
  clearbody attrs. generalize (template (t0 :: text0)) as toks. intros toks. revert a.
  induction toks as [|t toks IH]; intros a; cbn [fold_left].
  - exists []. rewrite app_nil_r. repeat split. constructor.
  - match goal with |- context [fold_left ?f toks ?st] => destruct (IH st) as [K [E1 [E2 E3]]] end.
    destruct t as [s|bf af nm].
    + exists (canon_str s ++ K). split; [|split].
      * rewrite E1, (ct_push_str c1 Hf), <- app_assoc. reflexivity.
      * apply Forall_app. split; [apply canon_str_text|exact E2].
      * rewrite E3. reflexivity.
    + destruct (assoc_str nm attrs) as [v|] eqn:Ev.
      * exists (canon_str bf ++ canon_tokens (fs_field a) v ++ canon_str af ++ K).
        split; [|split].
        -- rewrite E1, (ct_push_str c1 Hf), (ct_push_tokens c1 Hf), (ct_push_str c1 Hf), fld_push_str, <- !app_assoc.
           reflexivity.
        -- repeat (apply Forall_app; split); try apply canon_str_text; [apply canon_plain_text, (Ha _ _ Ev)|exact E2].
        -- rewrite E3, fld_push_str, (fld_push_tokens c1), fld_push_str. unfold next_field.
           rewrite (plain_max_field v (Ha _ _ Ev)). reflexivity.
      * exists K. repeat split; assumption.
Qed.

Theorem comments_additive_lemma children :
  Forall (all_nodes (fun n => attrs_plain n = true)) children ->
  Adds (content (html_format c1 children)) (content (html_format c2 children)).
Proof.
  apply (Sim_html_format c1 c2 Hf Hf Adds eq eq Adds_app2 (@eq_refl _) eq_tokens (fun n => attrs_plain n = true)); try reflexivity.
  - (* comment_node: the run without comments does nothing *)
    intros text n a b Hp [Hc Hfld].
    assert (E2 : comment_node c2 text n b = b).
    { unfold comment_node. destruct text; [reflexivity|]. reflexivity. }
    rewrite E2. destruct (comment_adds text n a Hp) as [K [E1 [HK E3]]]. split.
    + rewrite E1. apply Adds_more; assumption.
    + rewrite E3. exact Hfld.
  - intros x a b H. apply Sim_push_attribute_same with (Eqv := eq); try first [assumption | exact Adds_app2 | exact eq_tokens | reflexivity].
    right; reflexivity.
  - intros a b H. change (self_close c2) with (self_close c1).
    apply Sim_push_str with (Eqv := eq); first [assumption | exact Adds_app2 | reflexivity].
  - constructor.
Qed.

(* ---- all trees: compare the texts only (a comment may repeat a field of an id / class value,
   which shifts the later tabstop numbers but not the text) *)
Definition item_text (i : citem) : str := match i with KT s => s | KF _ p => p end.
Definition texts (X : list citem) : list str := map item_text X.
(* [Sub y x]: y is a subsequence of x (x is y with items inserted) *)
Inductive Sub {A} : list A -> list A -> Prop :=
| sub_nil : Sub [] []
| sub_keep i a b : Sub a b -> Sub (i :: a) (i :: b)
| sub_add i a b : Sub a b -> Sub a (i :: b).
Definition RelT (x y : list citem) : Prop := Sub (texts y) (texts x).
Definition EqvT (z1 z2 : list citem) : Prop := texts z1 = texts z2.

Lemma Sub_refl {A} (z : list A) : Sub z z.
Proof. induction z; constructor; assumption. Qed.
Lemma Sub_app {A} (y x z : list A) : Sub y x -> Sub (y ++ z) (x ++ z).
Proof. induction 1; cbn [app]; [apply Sub_refl|constructor; assumption|constructor; assumption]. Qed.
Lemma Sub_more {A} (y x K : list A) : Sub y x -> Sub y (x ++ K).
Proof.
  induction 1; cbn [app]; [|constructor; assumption|constructor; assumption].
  induction K; constructor; assumption.
Qed.
Lemma RelT_app x y z1 z2 : RelT x y -> EqvT z1 z2 -> RelT (x ++ z1) (y ++ z2).
Proof. unfold RelT, EqvT, texts. intros H E. rewrite !map_app, E. apply Sub_app, H. Qed.
Lemma texts_tokens F1 F2 v : texts (canon_tokens F1 v) = texts (canon_tokens F2 v).
Proof.
  unfold texts. induction v as [|t v IH]; [reflexivity|]. cbn [canon_tokens flat_map]. rewrite !map_app.
  fold (canon_tokens F1 v). fold (canon_tokens F2 v). rewrite IH. destruct t; reflexivity.
Qed.

Theorem comments_additive_text_lemma children :
  Sub (texts (content (html_format c2 children))) (texts (content (html_format c1 children))).
Proof.
  apply (Sim_html_format c1 c2 Hf Hf RelT EqvT (fun _ _ => True) RelT_app (fun z => eq_refl)
                         (fun F1 F2 v _ => conj (texts_tokens F1 F2 v) I) (fun _ => True)); try reflexivity.
  - intros text n a b _ [Hc _].
    assert (E2 : comment_node c2 text n b = b).
    { unfold comment_node. destruct text; [reflexivity|]. reflexivity. }
    rewrite E2. split; [|exact I]. unfold RelT in *.
    (* whatever the comment wrote, the content of the run only grew *)
    assert (G : exists K, content (comment_node c1 text n a) = content a ++ K).
    { unfold comment_node. destruct text as [|t0 text0]; [exists []; rewrite app_nil_r; reflexivity|].
      destruct (should_comment c1 n); [|exists []; rewrite app_nil_r; reflexivity].
      unfold comment_output. generalize (template (t0 :: text0)) as toks. intros toks. clear Hc. revert a.
      induction toks as [|t toks IH]; intros a; cbn [fold_left]; [exists []; rewrite app_nil_r; reflexivity|].
      match goal with |- context [fold_left ?f toks ?st] => destruct (IH st) as [K E1] end.
      destruct t as [s|bf af nm].
      - exists (canon_str s ++ K). rewrite E1, (ct_push_str c1 Hf), <- app_assoc. reflexivity.
      - destruct (assoc_str nm _) as [v|].
        + eexists. rewrite E1, (ct_push_str c1 Hf), (ct_push_tokens c1 Hf), (ct_push_str c1 Hf), <- !app_assoc. reflexivity.
        + exists K. exact E1. }
    destruct G as [K E]. rewrite E. unfold texts. rewrite map_app. apply Sub_more, Hc.
  - intros x a b H.
    apply (Sim_push_attribute_same c1 c2 Hf Hf RelT EqvT (fun _ _ => True) RelT_app (fun z => eq_refl)
             (fun F1 F2 v _ => conj (texts_tokens F1 F2 v) I) x a b); try reflexivity; [right; reflexivity|exact H].
  - intros a b H. change (self_close c2) with (self_close c1).
    apply (Sim_push_str c1 c2 Hf Hf RelT EqvT (fun _ _ => True) RelT_app (fun z => eq_refl)), H.
  - constructor.
  - apply Forall_forall. intros n _. apply all_nodes_true.
Qed.
End Comments.

(* ================================================================ instance 3: self-closing style *)
Definition with_style (s : str) (c : oconfig) : oconfig :=
  mkOconfig (oc_fmt c) (oc_tag_case c) (oc_attr_case c) (oc_attr_quotes c) (oc_format c) (oc_format_leaf c)
            (oc_format_skip c) (oc_format_force c) (oc_inline_break c) (oc_compact_boolean c) (oc_boolean_attrs c)
            s (oc_inline c) (oc_comment_enabled c) (oc_comment_trigger c) (oc_comment_before c)
            (oc_comment_after c) (oc_jsx c) (oc_markup_attributes c) (oc_value_prefix c).

(* the end of a self-closed tag as it appears in the content: ">", "/>" (the blank of " />" is a
   leading blank of its chunk) *)
Definition close_mark (c : oconfig) : citem := KT (lstrip (self_close c ++ [c_gt])).

Section SelfClose.
Variables (c : oconfig) (s1 s2 : str).
Hypothesis Hf : ws_fmt (oc_fmt c).
Hypothesis Hcompact : oc_compact_boolean c = false.
Let c1 := with_style s1 c.
Let c2 := with_style s2 c.

(* item by item equal, except that a closing mark of style 1 faces a closing mark of style 2 *)
Definition same_but_mark (x y : citem) : Prop := x = y \/ (x = close_mark c1 /\ y = close_mark c2).
Definition RelS := Forall2 same_but_mark.

Lemma RelS_app x y z : RelS x y -> RelS (x ++ z) (y ++ z).
Proof.
  intros H. apply Forall2_app; [exact H|]. induction z; constructor; [left; reflexivity|assumption].
Qed.
Lemma RelS_app2 x y z1 z2 : RelS x y -> z1 = z2 -> RelS (x ++ z1) (y ++ z2).
Proof. intros H ->. apply RelS_app, H. Qed.

Lemma canon_close_mark c0 : canon_str (self_close c0 ++ [c_gt]) = [close_mark c0].
Proof.
  unfold close_mark, self_close.
  destruct (str_eqb (oc_self_closing_style c0) s_xhtml); [vm_compute; reflexivity|].
  destruct (str_eqb (oc_self_closing_style c0) s_xml); vm_compute; reflexivity.
Qed.

Lemma value2_truthy x name v : truthy_l (attr_value2 c1 x name v) = true.
Proof.
  unfold attr_value2. change (oc_compact_boolean c1) with (oc_compact_boolean c). rewrite Hcompact. cbn [negb].
  destruct (is_boolean_attribute c1 x && negb (truthy_l v)); [reflexivity|].
  destruct (truthy_l v) eqn:E; cbn [negb]; [exact E|reflexivity].
Qed.

Theorem selfclose_local_lemma children :
  RelS (content (html_format c1 children)) (content (html_format c2 children)).
Proof.
  apply (Sim_html_format c1 c2 Hf Hf RelS eq eq RelS_app2 (@eq_refl _) eq_tokens (fun _ => True)); try reflexivity.
  - intros text n a b _. apply Sim_comment_same with (Eqv := eq); first [assumption | exact RelS_app2 | exact eq_tokens | reflexivity].
  - intros x a b H. apply Sim_push_attribute_same with (Eqv := eq); try first [assumption | exact RelS_app2 | exact eq_tokens | reflexivity].
    left. apply value2_truthy.
  - intros a b [Hc Hfld]. split; [|exact Hfld].
    rewrite (ct_push_str c1 Hf), (ct_push_str c2 Hf), !canon_close_mark.
    apply Forall2_app; [exact Hc|]. constructor; [right; split; reflexivity|constructor].
  - constructor.
  - apply Forall_forall. intros n _. apply all_nodes_true.
Qed.
End SelfClose.

Lemma Forall2_len {A B} (R : A -> B -> Prop) l1 l2 : Forall2 R l1 l2 -> length l1 = length l2.
Proof. induction 1; cbn [length]; congruence. Qed.
