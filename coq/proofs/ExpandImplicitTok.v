(* C01, implicit names, string level, first half: syntax, rendering, tokenizer and parser block.
   A unit is an element  name | name.cls | name#id | .cls | #id  with an optional `*digits`, or a
   parenthesised statement with an optional `*digits`; a statement is units separated by `>`, `+`
   and runs of `^`.  For every such text the tokenizer yields exactly the token list [lay_istmt]
   computes, and that token list is a statement of the parser theorem with groups
   (ParserGroups.gflat): the element block carries the name (if written) and the one class / id
   attribute (if written). *)
From Emmet Require Import lib.Base model.MarkupTokenizer model.MarkupParser.
From Emmet Require Import proofs.ParserSpine proofs.ParserGroups proofs.TokenizeRender proofs.ExpandJsx
     proofs.ExpandRepeat proofs.ExpandGroupsTok.
Local Open Scope nat_scope.

(* ================================================================ syntax *)
Inductive iunit :=
| IE (n : str) (sh : option (bool * str)) (r : option str)   (* name (may be empty), `.cls` (true) / `#id` (false), repeat digits *)
| IG (body : list (iunit * sop)) (r : option str).           (* ( body ), optional repeat digits *)
Definition istmt := list (iunit * sop).

Section IunitInd.
  Variable P : iunit -> Prop.
  Hypothesis HE : forall n sh r, P (IE n sh r).
  Hypothesis HG : forall body r, Forall (fun x => P (fst x)) body -> P (IG body r).
  Fixpoint iunit_ind' (u : iunit) : P u :=
    match u with
    | IE n sh r => HE n sh r
    | IG body r =>
        HG body r ((fix go (xs : istmt) : Forall (fun x => P (fst x)) xs :=
                      match xs with
                      | [] => Forall_nil _
                      | x :: xs' => Forall_cons x (iunit_ind' (fst x)) (go xs')
                      end) body)
    end.
End IunitInd.

Definition sh_text (sh : option (bool * str)) : str :=
  match sh with
  | Some (true, w) => c_dot :: w
  | Some (false, w) => c_hash :: w
  | None => []
  end.

Definition render_istmt_with (F : iunit -> str) :=
  fix go (xs : istmt) : str :=
    match xs with
    | [] => []
    | (u, o) :: xs' =>
        match xs' with
        | [] => F u
        | _ :: _ => F u ++ op_text o ++ go xs'
        end
    end.
Fixpoint render_iunit (u : iunit) : str :=
  match u with
  | IE n sh r => n ++ sh_text sh ++ rep_text r
  | IG body r => c_lparen :: render_istmt_with render_iunit body ++ c_rparen :: rep_text r
  end.
Definition render4 (xs : istmt) : str := render_istmt_with render_iunit xs.
Definition iulen (u : iunit) : nat := length (render_iunit u).
Definition islen (xs : istmt) : nat := length (render4 xs).

(* well-formedness: a wide name or no name (then a shorthand is there), class / id values are
   wide names, digit runs, and `>` never directly after a group *)
Definition is_ig (u : iunit) : bool := match u with IG _ _ => true | IE _ _ _ => false end.
Definition name_okP (n : str) : Prop := n = [] \/ wname_ok n.
Definition sh_okP (sh : option (bool * str)) : Prop := match sh with Some (_, w) => wname_ok w | None => True end.
Definition ie_okP (n : str) (sh : option (bool * str)) (r : option str) : Prop :=
  name_okP n /\ sh_okP sh /\ rep_okP r /\ (n = [] -> sh <> None).
Definition iwf_with (F : iunit -> Prop) :=
  fix go (xs : istmt) : Prop :=
    match xs with
    | [] => True
    | (u, o) :: xs' => F u /\ (is_ig u = true -> o <> SChild) /\ go xs'
    end.
Fixpoint iwf_unit (u : iunit) : Prop :=
  match u with
  | IE n sh r => ie_okP n sh r
  | IG body r => iwf_with iwf_unit body /\ rep_okP r
  end.
Definition iwf (xs : istmt) : Prop := iwf_with iwf_unit xs.

(* ================================================================ tokenizer: names before `.` `#`, and the two operators *)
(* what may follow a name *)
Definition stop5 (rest : str) : Prop :=
  match rest with
  | [] => True
  | c :: _ => TokenizeRender.op_char c \/ c = c_star \/ c = c_rparen \/ c = c_dot \/ c = c_hash
  end.
Lemma stop3_stop5 rest : stop3 rest -> stop5 rest.
Proof. destruct rest; cbn; [auto|]. intros [H|[H|H]]; auto. Qed.

Lemma lit_name5 : forall name rest prev,
  Forall (fun c => namec c = true) name -> stop5 rest ->
  lit None 0 0 0 prev false (name ++ rest) = (name, length name, 0%Z).
Proof.
  induction name as [|c name IH]; intros rest prev Hn Hs.
  - cbn [app length]. destruct rest as [|c r]; [reflexivity|].
    cbn [stop5] in Hs. destruct Hs as [[-> | [-> | ->]] | [-> | [-> | [-> | ->]]]]; reflexivity.
  - inversion Hn as [|x l Hc Hn']; subst. cbn [app length lit].
    rewrite (namec_not c c_bslash Hc) by (unfold c_bslash; lia).
    rewrite (namec_not c c_slash Hc) by (unfold c_slash; lia).
    rewrite (namec_not c c_dollar Hc) by (unfold c_dollar; lia).
    cbn [andb orb]. unfold is_allowed_operator at 1. rewrite (namec_operator c Hc).
    cbn [truthy Z.eqb negb]. rewrite (namec_element_name c Hc). cbn [negb andb].
    unfold is_allowed_space, is_allowed_repeater. rewrite (namec_not_space c Hc).
    rewrite (namec_not c c_star Hc) by (unfold c_star; lia).
    rewrite (namec_not_quote c Hc), (namec_not_bracket c Hc). cbn [andb orb].
    rewrite (IH rest (Some c) Hn' Hs). reflexivity.
Qed.

Lemma consume_name5 g name rest prev :
  wname_ok name -> stop5 rest ->
  consume (ctx_g g) prev (name ++ rest) = (CTok (TLiteral name) (length name), ctx_g g).
Proof.
  intros Hw Hs. destruct name as [|c name]; [contradiction|]. cbn [wname_ok] in Hw. destruct Hw as [Hc Hn'].
  assert (Hn : Forall (fun c => namec c = true) (c :: name)) by (constructor; [apply alpha_namec, Hc|exact Hn']).
  unfold consume, ctx_g. cbn [cexpr cattr cquote cgroup].
  assert (Hf : field (mkCtx g 0 0 None) ((c :: name) ++ rest) = CNone) by reflexivity.
  rewrite Hf. cbn [orelse].
  assert (Hrp : repeater_placeholder ((c :: name) ++ rest) = CNone).
  { unfold repeater_placeholder. cbn [app]. destruct (name ++ rest); [reflexivity|].
    rewrite (alpha_not c c_dollar Hc) by (unfold c_dollar; lia). reflexivity. }
  rewrite Hrp. cbn [orelse].
  assert (Hrn : repeater_number ((c :: name) ++ rest) = CNone).
  { unfold repeater_number. cbn [app span]. rewrite N.eqb_sym.
    rewrite (alpha_not c c_dollar Hc) by (unfold c_dollar; lia). reflexivity. }
  rewrite Hrn. cbn [orelse].
  assert (Hr : repeater (mkCtx g 0 0 None) ((c :: name) ++ rest) = CNone).
  { unfold repeater, is_allowed_repeater. cbn [app].
    rewrite (alpha_not c c_star Hc) by (unfold c_star; lia). reflexivity. }
  rewrite Hr. cbn [orelse].
  assert (Hw : white_space ((c :: name) ++ rest) = CNone).
  { unfold white_space. cbn [app span]. rewrite (alpha_not_space c Hc). reflexivity. }
  rewrite Hw.
  change (Z.min 0 1) with 0%Z.
  rewrite (lit_name5 (c :: name) rest prev Hn Hs). cbn [length]. reflexivity.
Qed.

Definition sh_char (c : char) : Prop := c = c_dot \/ c = c_hash.
Definition sh_op (b : bool) : optype := if b then OpClass else OpId.

Lemma consume_sh g c rest prev :
  sh_char c ->
  consume (ctx_g g) prev (c :: rest) = (CTok (TOperator (if (c =? c_dot)%N then OpClass else OpId)) 1, ctx_g g).
Proof.
  intros Hc. unfold consume, ctx_g. cbn [cexpr cattr cquote cgroup].
  assert (Hf : field (mkCtx g 0 0 None) (c :: rest) = CNone) by reflexivity. rewrite Hf. cbn [orelse].
  assert (Hrp : repeater_placeholder (c :: rest) = CNone).
  { unfold repeater_placeholder. destruct rest; [reflexivity|]. destruct Hc as [-> | ->]; reflexivity. }
  rewrite Hrp. cbn [orelse].
  assert (Hrn : repeater_number (c :: rest) = CNone) by (destruct Hc as [-> | ->]; reflexivity).
  rewrite Hrn. cbn [orelse].
  assert (Hr : repeater (mkCtx g 0 0 None) (c :: rest) = CNone) by (destruct Hc as [-> | ->]; reflexivity).
  rewrite Hr. cbn [orelse].
  assert (Hw : white_space (c :: rest) = CNone) by (destruct Hc as [-> | ->]; reflexivity).
  rewrite Hw.
  assert (Hl : lit None 0 0 0 prev false (c :: rest) = ([], 0, 0%Z)) by (destruct Hc as [-> | ->]; reflexivity).
  change (Z.min 0 1) with 0%Z.
  rewrite Hl. destruct Hc as [-> | ->]; reflexivity.
Qed.

(* ================================================================ the tokens and the leaf of one element *)
Definition sh_tattr (b : bool) (vt : token) : tattr :=
  mkTAttr (Some [literal_tok (if b then s_class else s_id)]) (Some [vt]) false false.

Definition name_toks (n : str) (pos : nat) : list token := match n with [] => [] | _ :: _ => [name_tok n pos] end.
Definition sh_toks (sh : option (bool * str)) (pos : nat) : list token :=
  match sh with
  | Some (b, w) => [mkTok (TOperator (sh_op b)) pos (pos + 1); name_tok w (pos + 1)]
  | None => []
  end.
Definition ie_toks (n : str) (sh : option (bool * str)) (r : option str) (pos : nat) : list token :=
  name_toks n pos ++ sh_toks sh (pos + length n) ++ rep_toks_at r (pos + length n + length (sh_text sh)).
Definition ie_leaf (n : str) (sh : option (bool * str)) (r : option str) (pos : nat) : leaf :=
  mkLeaf (match n with [] => None | _ :: _ => Some [name_tok n pos] end)
         (match sh with Some (b, w) => Some [sh_tattr b (name_tok w (pos + length n + 1))] | None => None end)
         None (rep_of_digits r) false.

Lemma sh_text_length sh : length (sh_text sh) = match sh with Some (_, w) => S (length w) | None => 0 end.
Proof. destruct sh as [[[|] w]|]; reflexivity. Qed.

(* ---------------------------------------------------------------- the three parts of an element *)
Lemma run_name g n rest prev pos :
  name_okP n -> stop5 rest ->
  exists prev',
  toks 0 (ctx_g g) prev pos (n ++ rest) =
    match toks 0 (ctx_g g) prev' (pos + length n) rest with
    | TOk l => TOk (name_toks n pos ++ l)
    | TErr p => TErr p
    end.
Proof.
  intros [-> | Hn] Hs.
  - exists prev. cbn [app length name_toks]. rewrite Nat.add_0_r. destruct (toks 0 (ctx_g g) prev pos rest); reflexivity.
  - exists (lastc n).
    rewrite (toks_step n rest (ctx_g g) prev pos (TLiteral n) (ctx_g g)); [|apply wname_nonempty, Hn|apply consume_name5; assumption].
    destruct n as [|c n']; [contradiction|]. cbn [name_toks app]. unfold name_tok.
    destruct (toks 0 (ctx_g g) (lastc (c :: n')) (pos + length (c :: n')) rest); reflexivity.
Qed.

Lemma run_sh g sh rest prev pos :
  sh_okP sh -> stop3 rest ->
  exists prev',
  toks 0 (ctx_g g) prev pos (sh_text sh ++ rest) =
    match toks 0 (ctx_g g) prev' (pos + length (sh_text sh)) rest with
    | TOk l => TOk (sh_toks sh pos ++ l)
    | TErr p => TErr p
    end.
Proof.
  destruct sh as [[b w]|]; cbn [sh_okP]; intros Hw Hs.
  - exists (lastc w).
    assert (E : sh_text (Some (b, w)) = [if b then c_dot else c_hash] ++ w) by (destruct b; reflexivity).
    rewrite E, <- app_assoc.
    rewrite (toks_step [if b then c_dot else c_hash] (w ++ rest) (ctx_g g) prev pos (TOperator (sh_op b)) (ctx_g g)); [|discriminate|].
    + rewrite (toks_step w rest (ctx_g g) _ (pos + length [if b then c_dot else c_hash]) (TLiteral w) (ctx_g g));
        [|apply wname_nonempty, Hw|apply consume_name3; assumption].
      rewrite app_length. cbn [length sh_toks app]. unfold name_tok. rewrite Nat.add_assoc.
      destruct (toks 0 (ctx_g g) (lastc w) (pos + 1 + length w) rest); reflexivity.
    + cbn [app length]. rewrite consume_sh by (destruct b; [left|right]; reflexivity). destruct b; reflexivity.
  - exists prev. cbn [sh_text app length sh_toks]. rewrite Nat.add_0_r. destruct (toks 0 (ctx_g g) prev pos rest); reflexivity.
Qed.

Lemma run_rep g r rest prev pos :
  rep_okP r -> stop4 rest ->
  exists prev',
  toks 0 (ctx_g g) prev pos (rep_text r ++ rest) =
    match toks 0 (ctx_g g) prev' (pos + length (rep_text r)) rest with
    | TOk l => TOk (rep_toks_at r pos ++ l)
    | TErr p => TErr p
    end.
Proof.
  destruct r as [ds|]; cbn [rep_okP]; intros Hd Hs.
  - exists (lastc (c_star :: ds)). cbn [rep_text rep_toks_at].
    change ((c_star :: ds) ++ rest) with ((c_star :: ds) ++ rest).
    rewrite (toks_step (c_star :: ds) rest (ctx_g g) prev pos (TRepeater (count_of ds) 0 false) (ctx_g g));
      [|discriminate|cbn [app length]; apply consume_rep3; assumption].
    cbn [length app]. destruct (toks 0 (ctx_g g) (lastc (c_star :: ds)) (pos + S (length ds)) rest); reflexivity.
  - exists prev. cbn [rep_text app length rep_toks_at]. rewrite Nat.add_0_r. destruct (toks 0 (ctx_g g) prev pos rest); reflexivity.
Qed.

Lemma stop4_after_rep r rest : stop4 rest -> stop3 (rep_text r ++ rest).
Proof. destruct r as [ds|]; [intros _; cbn; auto|apply stop4_stop3]. Qed.

Lemma stop5_after_name sh r rest : stop4 rest -> stop5 (sh_text sh ++ rep_text r ++ rest).
Proof.
  intros Hs. destruct sh as [[[|] w]|]; [cbn; auto|cbn; tauto|]. cbn [sh_text app]. apply stop3_stop5, stop4_after_rep, Hs.
Qed.

Definition ie_len (n : str) (sh : option (bool * str)) (r : option str) : nat :=
  length n + length (sh_text sh) + length (rep_text r).

Lemma ie_run g n sh r rest prev pos :
  ie_okP n sh r -> stop4 rest ->
  exists prev',
  toks 0 (ctx_g g) prev pos (n ++ sh_text sh ++ rep_text r ++ rest) =
    match toks 0 (ctx_g g) prev' (pos + ie_len n sh r) rest with
    | TOk l => TOk (ie_toks n sh r pos ++ l)
    | TErr p => TErr p
    end.
Proof.
  intros [Hn [Hsh [Hr _]]] Hs.
  destruct (run_name g n (sh_text sh ++ rep_text r ++ rest) prev pos Hn (stop5_after_name sh r rest Hs)) as [p1 E1]. rewrite E1.
  destruct (run_sh g sh (rep_text r ++ rest) p1 (pos + length n) Hsh (stop4_after_rep r rest Hs)) as [p2 E2]. rewrite E2.
  destruct (run_rep g r rest p2 (pos + length n + length (sh_text sh)) Hr Hs) as [p3 E3]. rewrite E3.
  exists p3. unfold ie_len, ie_toks. rewrite !Nat.add_assoc.
  destruct (toks 0 (ctx_g g) p3 (pos + length n + length (sh_text sh) + length (rep_text r)) rest); [|reflexivity].
  rewrite <- !app_assoc. reflexivity.
Qed.

(* ================================================================ parser: the element block *)
Definition cap (s : str) : bool := match s with c :: _ => in_range c_A c_Z c | [] => false end.
(* with JSX on, `Cap.Cap` is a component path (one name), not a name with a class *)
Definition jsx_ok (jsx : bool) (n : str) (sh : option (bool * str)) : bool :=
  negb (jsx && cap n && match sh with Some (true, w) => cap w | _ => false end).

(* what may follow the shorthand's value token: nothing, a repeater, or a unit boundary *)
Definition after_ok (after : list token) : Prop :=
  match after with
  | [] => True
  | t :: _ => is_repeater_tok t = true \/
              op_tok OpChild t \/ op_tok OpSibling t \/ op_tok OpClimb t \/ gclose_tok t
  end.

Lemma literal_one vt w after :
  tk vt = TLiteral w -> after_ok after -> literal false (vt :: after) = 1.
Proof.
  intros Hv Ha. unfold literal. cbn [literal_n truthy Z.eqb negb].
  unfold is_quote_tok, is_operator, is_white_space_tok, is_repeater_tok. rewrite Hv. cbn [orb].
  destruct after as [|t r]; [reflexivity|]. cbn [after_ok] in Ha. cbn [literal_n truthy Z.eqb negb].
  unfold op_tok, gclose_tok in Ha.
  destruct Ha as [H|[H|[H|[H|H]]]].
  - unfold is_repeater_tok in H. destruct (tk t) eqn:Et; try discriminate.
    unfold is_quote_tok, is_operator, is_white_space_tok, is_repeater_tok. rewrite Et. reflexivity.
  - unfold is_quote_tok, is_operator, is_white_space_tok, is_repeater_tok. rewrite H. reflexivity.
  - unfold is_quote_tok, is_operator, is_white_space_tok, is_repeater_tok. rewrite H. reflexivity.
  - unfold is_quote_tok, is_operator, is_white_space_tok, is_repeater_tok. rewrite H. reflexivity.
  - unfold is_quote_tok, is_operator, is_white_space_tok, is_repeater_tok. rewrite H. reflexivity.
Qed.

Lemma short_attribute_sh jsx b ot vt w after :
  tk ot = TOperator (sh_op b) -> tk vt = TLiteral w -> after_ok after ->
  short_attribute jsx (sh_op b) (ot :: vt :: after) = Some (sh_tattr b vt, 2).
Proof.
  intros Ho Hv Ha. unfold short_attribute. cbn [span_tok].
  assert (E1 : is_operator ot (Some (sh_op b)) = true) by (unfold is_operator; rewrite Ho; destruct b; reflexivity).
  assert (E2 : is_operator vt (Some (sh_op b)) = false) by (unfold is_operator; rewrite Hv; reflexivity).
  rewrite E1, E2. cbn [skipn Nat.ltb Nat.leb].
  assert (Et : text (vt :: after) = 0) by (unfold text, is_bracket; rewrite Hv; reflexivity).
  assert (Etx : (if jsx then text (vt :: after) else 0) = 0) by (destruct jsx; [exact Et|reflexivity]).
  rewrite Etx, (literal_one vt w after Hv Ha). cbn [firstn Nat.add]. unfold sh_tattr. destruct b; reflexivity.
Qed.

Lemma short_attribute_id_none jsx ot r : tk ot = TOperator OpClass -> short_attribute jsx OpId (ot :: r) = None.
Proof. intros Ho. unfold short_attribute. cbn [span_tok]. unfold is_operator. rewrite Ho. reflexivity. Qed.

(* one round of element()'s loop at a shorthand *)
Lemma elem_body_sh jsx s b ot vt w after :
  tk ot = TOperator (sh_op b) -> tk vt = TLiteral w -> after_ok after ->
  elem_body jsx s (ot :: vt :: after) = ECont (est_add_attrs s [sh_tattr b vt]) 2.
Proof.
  intros Ho Hv Ha. unfold elem_body.
  assert (Hrep : rep_of ot = None) by (unfold rep_of; rewrite Ho; reflexivity).
  assert (Htx : text (ot :: vt :: after) = 0) by (unfold text, is_bracket; rewrite Ho; reflexivity).
  pose proof (short_attribute_sh jsx b ot vt w after Ho Hv Ha) as S1.
  rewrite Hrep. destruct (e_repeat s); destruct (negb (est_empty s)); destruct (e_value s); rewrite ?Htx;
    (destruct b; cbn [sh_op] in *;
     [rewrite (short_attribute_id_none jsx ot _ Ho), S1|rewrite S1]); reflexivity.
Qed.

Definition with_rep (s : est) (r : option rep) : est :=
  match r with Some rp => mkEst (e_name s) (e_attrs s) (e_value s) (Some rp) (e_self s) | None => s end.

(* the end of the block: an optional repeater, then the boundary *)
Lemma elem_loop_tail jsx s rest : gboundary rest -> est_empty s = false -> elem_loop jsx 0 s rest = POk (s, 0).
Proof.
  intros Hb Hne. destruct rest as [|t r]; [reflexivity|]. cbn [elem_loop]. cbn [gboundary] in Hb.
  rewrite quiet_elem_body_j by assumption. reflexivity.
Qed.

Lemma est_empty_with_rep s rp : est_empty (mkEst (e_name s) (e_attrs s) (e_value s) (Some rp) (e_self s)) = est_empty s.
Proof. reflexivity. Qed.

Lemma elem_loop_rep jsx s r p rest :
  gboundary rest -> est_empty s = false -> e_repeat s = None ->
  elem_loop jsx 0 s (rep_toks_at r p ++ rest) = POk (with_rep s (rep_of_digits r), length (rep_toks_at r p)).
Proof.
  intros Hb Hne Hr. destruct r as [ds|]; cbn [rep_toks_at rep_of_digits with_rep app length].
  - cbn [elem_loop]. unfold elem_body. rewrite Hr, Hne. cbn [negb rep_of tk pred].
    rewrite elem_loop_tail; [reflexivity|exact Hb|]. rewrite est_empty_with_rep. exact Hne.
  - apply elem_loop_tail; assumption.
Qed.

Lemma after_ok_rep r p rest : gboundary rest -> after_ok (rep_toks_at r p ++ rest).
Proof.
  intros Hb. destruct r as [ds|]; cbn [rep_toks_at app after_ok]; [left; reflexivity|].
  destruct rest as [|t q]; [exact I|]. cbn [gboundary] in Hb. right. exact Hb.
Qed.

Definition add_sh (s : est) (sh : option (bool * str)) (p : nat) : est :=
  match sh with Some (b, w) => est_add_attrs s [sh_tattr b (name_tok w (p + 1))] | None => s end.

Lemma elem_loop_sh jsx s sh r p p' rest :
  gboundary rest -> e_repeat s = None -> (est_empty s = false \/ sh <> None) ->
  elem_loop jsx 0 s (sh_toks sh p ++ rep_toks_at r p' ++ rest) =
    POk (with_rep (add_sh s sh p) (rep_of_digits r), length (sh_toks sh p) + length (rep_toks_at r p')).
Proof.
  intros Hb Hr Hne. destruct sh as [[b w]|]; cbn [sh_toks add_sh app length].
  - cbn [elem_loop].
    rewrite (elem_body_sh jsx s b _ (name_tok w (p + 1)) w (rep_toks_at r p' ++ rest)); [|reflexivity|reflexivity|apply after_ok_rep, Hb].
    cbn [pred elem_loop].
    rewrite elem_loop_rep; [reflexivity|exact Hb| |exact Hr].
    unfold est_add_attrs, est_empty. cbn [e_name e_value e_attrs]. destruct (e_name s); destruct (e_value s); reflexivity.
  - destruct Hne as [Hne|Hne]; [|congruence]. apply elem_loop_rep; assumption.
Qed.

(* the name part of element(): one literal token when a name is written, nothing otherwise *)
Lemma element_name_none jsx ot r : (exists o, tk ot = TOperator o) -> element_name jsx (ot :: r) = 0.
Proof.
  intros [o Ho]. unfold element_name. cbn [hd_is]. unfold is_capitalized_literal. rewrite Ho. rewrite andb_false_r.
  cbn [Nat.add skipn span_tok]. unfold is_element_name_tok. rewrite Ho. reflexivity.
Qed.

Lemma element_name_one jsx n sh r pos p' rest :
  n <> [] -> jsx_ok jsx n sh = true -> gboundary rest ->
  element_name jsx (name_tok n pos :: sh_toks sh (pos + length n) ++ rep_toks_at r p' ++ rest) = 1.
Proof.
  intros Hn Hj Hb. unfold element_name. cbn [hd_is tl].
  assert (Hnt : is_element_name_tok (name_tok n pos) = true) by reflexivity.
  assert (Hnext : span_tok is_element_name_tok (sh_toks sh (pos + length n) ++ rep_toks_at r p' ++ rest) = 0).
  { destruct sh as [[b w]|]; [reflexivity|]. destruct r as [ds|]; [reflexivity|]. cbn [sh_toks rep_toks_at app].
    destruct rest as [|t q]; [reflexivity|]. cbn [gboundary] in Hb. cbn [span_tok].
    destruct (quiet_follow t Hb) as [-> _]. reflexivity. }
  destruct (jsx && is_capitalized_literal (name_tok n pos)) eqn:Ej.
  - assert (Hch : jsx_chain (sh_toks sh (pos + length n) ++ rep_toks_at r p' ++ rest) = 0).
    { apply andb_prop in Ej. destruct Ej as [Ej Ec]. subst jsx.
      assert (Hcn : cap n = true).
      { unfold is_capitalized_literal, name_tok in Ec. cbn [tk] in Ec. destruct n; [discriminate|exact Ec]. }
      unfold jsx_ok in Hj. rewrite Hcn in Hj. cbn [andb] in Hj.
      destruct sh as [[[|] w]|]; cbn [sh_toks app].
      - apply negb_true_iff in Hj. cbn [jsx_chain]. unfold is_capitalized_literal, name_tok. cbn [tk sh_op is_operator optype_eqb].
        unfold is_operator. cbn [tk optype_eqb sh_op]. destruct w as [|c w']; [reflexivity|]. cbn [cap] in Hj. rewrite Hj. reflexivity.
      - reflexivity.
      - destruct r as [ds|]; [reflexivity|]. cbn [rep_toks_at app]. destruct rest as [|t q]; [reflexivity|].
        cbn [gboundary] in Hb. cbn [jsx_chain]. destruct (quiet_follow t Hb) as [_ ->]. reflexivity. }
    rewrite Hch. cbn [Nat.add skipn]. rewrite Hnext. reflexivity.
  - cbn [Nat.add skipn span_tok]. rewrite Hnt, Hnext. reflexivity.
Qed.

Theorem ie_block jsx n sh r pos :
  ie_okP n sh r -> jsx_ok jsx n sh = true ->
  gblock_ok jsx (ie_toks n sh r pos) (ie_leaf n sh r pos).
Proof.
  intros [Hn [Hsh [Hr Hpay]]] Hj.
  set (p' := pos + length n + length (sh_text sh)).
  split; [|split].
  - unfold ie_toks. destruct n as [|c n']; [|discriminate]. destruct sh as [[b w]|]; [discriminate|]. exfalso. apply Hpay; reflexivity.
  - unfold ie_toks. destruct n as [|c n']; [|reflexivity]. destruct sh as [[b w]|]; [destruct b; reflexivity|]. exfalso. apply Hpay; reflexivity.
  - intros rest Hb. unfold element, ie_toks. fold p'. rewrite <- !app_assoc.
    destruct n as [|c n'].
    + (* no name *)
      cbn [name_toks app length]. rewrite Nat.add_0_r.
      assert (Hsome : sh <> None) by (apply Hpay; reflexivity).
      assert (En : element_name jsx (sh_toks sh pos ++ rep_toks_at r p' ++ rest) = 0).
      { destruct sh as [[b w]|]; [|congruence]. cbn [sh_toks app]. apply element_name_none. eexists. reflexivity. }
      rewrite En.
      rewrite (elem_loop_sh jsx (mkEst None None None None false) sh r pos p' rest Hb eq_refl (or_intror Hsome)).
      destruct sh as [[b w]|]; [|congruence]. cbn [add_sh est_add_attrs e_attrs e_name e_value e_repeat e_self].
      unfold ie_leaf, leaf_node. cbn [lf_name lf_attrs lf_value lf_repeat lf_self length Nat.add].
      destruct r as [ds|]; cbn [rep_of_digits with_rep est_empty e_name e_value e_attrs e_repeat e_self rep_toks_at length app];
        rewrite ?Nat.add_0_r; reflexivity.
    + (* a name *)
      cbn [name_toks app].
      rewrite (element_name_one jsx (c :: n') sh r pos p' rest) by (discriminate || assumption).
      cbn [firstn elem_loop].
      destruct (sh_toks sh (pos + length (c :: n')) ++ rep_toks_at r p' ++ rest) as [|t0 q0] eqn:Eq.
      * destruct sh as [[b w]|]; [discriminate|]. destruct r as [ds|]; [discriminate|]. cbn [sh_toks rep_toks_at app] in Eq. subst rest.
        cbn [elem_loop est_empty e_name]. unfold ie_leaf, leaf_node.
        cbn [lf_name lf_attrs lf_value lf_repeat lf_self e_name e_attrs e_value e_repeat e_self rep_of_digits sh_toks rep_toks_at app length]. reflexivity.
      * rewrite <- Eq.
        rewrite (elem_loop_sh jsx (mkEst (Some [name_tok (c :: n') pos]) None None None false) sh r (pos + length (c :: n')) p' rest Hb eq_refl (or_introl eq_refl)).
        unfold ie_leaf, leaf_node.
        destruct sh as [[b w]|]; destruct r as [ds|];
          cbn [add_sh est_add_attrs with_rep rep_of_digits est_empty e_name e_attrs e_value e_repeat e_self
               lf_name lf_attrs lf_value lf_repeat lf_self sh_toks rep_toks_at length app Nat.add];
          reflexivity.
Qed.

(* ================================================================ layout: parser-level statement and tokens *)
Definition lay_istmt_with (F : nat -> iunit -> gunit * list token) :=
  fix go (pos : nat) (xs : istmt) : gstmt * list token :=
    match xs with
    | [] => ([], [])
    | (u, o) :: xs' =>
        match xs' with
        | [] => ([(fst (F pos u), SSibling)], snd (F pos u))
        | _ :: _ =>
            ((fst (F pos u), o) :: fst (go (pos + iulen u + length (op_text o)) xs'),
             snd (F pos u) ++ op_toks o (pos + iulen u) ++ snd (go (pos + iulen u + length (op_text o)) xs'))
        end
    end.

Fixpoint lay_iunit (pos : nat) (u : iunit) : gunit * list token :=
  match u with
  | IE n sh r => (GE (ie_leaf n sh r pos), ie_toks n sh r pos)
  | IG body r =>
      let inner := lay_istmt_with lay_iunit (pos + 1) body in
      (GG (fst inner) (rep_of_digits r),
       lparen_tok pos :: snd inner ++
       rparen_tok (pos + 1 + islen body) :: rep_toks_at r (pos + 1 + islen body + 1))
  end.
Definition lay_istmt (pos : nat) (xs : istmt) : gstmt * list token := lay_istmt_with lay_iunit pos xs.

Lemma render4_cons u o y xs :
  render4 ((u, o) :: y :: xs) = render_iunit u ++ op_text o ++ render4 (y :: xs).
Proof. reflexivity. Qed.
Lemma lay_istmt_cons pos u o y xs :
  lay_istmt pos ((u, o) :: y :: xs) =
  ((fst (lay_iunit pos u), o) :: fst (lay_istmt (pos + iulen u + length (op_text o)) (y :: xs)),
   snd (lay_iunit pos u) ++ op_toks o (pos + iulen u) ++ snd (lay_istmt (pos + iulen u + length (op_text o)) (y :: xs))).
Proof. reflexivity. Qed.

(* ================================================================ the tokenizer on a rendered statement *)
Definition iunit_run (u : iunit) : Prop :=
  forall g rest prev pos, stop4 rest ->
  exists prev',
    toks 0 (ctx_g g) prev pos (render_iunit u ++ rest) =
    match toks 0 (ctx_g g) prev' (pos + iulen u) rest with
    | TOk l => TOk (snd (lay_iunit pos u) ++ l)
    | TErr p => TErr p
    end.

Definition istmt_run (xs : istmt) : Prop :=
  forall g rest prev pos, stopS rest ->
  exists prev',
    toks 0 (ctx_g g) prev pos (render4 xs ++ rest) =
    match toks 0 (ctx_g g) prev' (pos + islen xs) rest with
    | TOk l => TOk (snd (lay_istmt pos xs) ++ l)
    | TErr p => TErr p
    end.

Lemma istmt_run_of_units : forall xs, Forall (fun x => iunit_run (fst x)) xs -> istmt_run xs.
Proof.
  induction xs as [|[u o] xs' IH]; intros HF g rest prev pos Hs.
  - exists prev. unfold islen. cbn [render4 render_istmt_with app length lay_istmt lay_istmt_with snd]. rewrite Nat.add_0_r.
    destruct (toks 0 (ctx_g g) prev pos rest); reflexivity.
  - inversion HF as [|x l Hu Hr]; subst. cbn [fst] in Hu.
    destruct xs' as [|y xs''].
    + unfold islen. cbn [render4 render_istmt_with lay_istmt lay_istmt_with snd].
      apply (Hu g rest prev pos (stopS_stop4 _ Hs)).
    + rewrite render4_cons, lay_istmt_cons. cbn [snd]. rewrite <- !app_assoc.
      destruct (Hu g (op_text o ++ render4 (y :: xs'') ++ rest) prev pos) as [prev1 E1].
      { destruct o; cbn; unfold TokenizeRender.op_char; auto. }
      rewrite E1.
      destruct (op_toks_run3 g o (render4 (y :: xs'') ++ rest) prev1 (pos + iulen u)) as [prev2 E2]. rewrite E2.
      destruct (IH Hr g rest prev2 (pos + iulen u + length (op_text o)) Hs) as [prev3 E3]. rewrite E3.
      exists prev3. unfold islen. rewrite render4_cons, !app_length. fold (iulen u). fold (islen (y :: xs'')).
      rewrite !Nat.add_assoc.
      destruct (toks 0 (ctx_g g) prev3 (pos + iulen u + length (op_text o) + islen (y :: xs'')) rest); [|reflexivity].
      rewrite <- !app_assoc. reflexivity.
Qed.

Lemma iwf_units body : iwf_with iwf_unit body -> Forall (fun x => iwf_unit (fst x)) body.
Proof.
  induction body as [|[u o] xs IH]; intros H; [constructor|]. cbn [iwf_with] in H. destruct H as [Hu [_ Hx]].
  constructor; [exact Hu|apply IH, Hx].
Qed.

Theorem iunit_run_all : forall u, iwf_unit u -> iunit_run u.
Proof.
  induction u as [n sh r|body r IH] using iunit_ind'; intros Hwf g rest prev pos Hs.
  - cbn [iwf_unit] in Hwf. cbn [render_iunit lay_iunit snd]. rewrite <- !app_assoc.
    destruct (ie_run g n sh r rest prev pos Hwf Hs) as [prev' E]. exists prev'. rewrite E.
    unfold iulen, ie_len. cbn [render_iunit]. rewrite !app_length.
    replace (length n + (length (sh_text sh) + length (rep_text r))) with (length n + length (sh_text sh) + length (rep_text r)) by lia. reflexivity.
  - cbn [iwf_unit] in Hwf. destruct Hwf as [Hbody Hrep].
    assert (Hrun : istmt_run body).
    { apply istmt_run_of_units. pose proof (iwf_units body Hbody) as Hall.
      rewrite Forall_forall in *. intros x Hx. apply (IH x Hx), (Hall x Hx). }
    cbn [render_iunit lay_iunit snd]. fold (render4 body). fold (lay_istmt (pos + 1) body).
    change ((c_lparen :: render4 body ++ c_rparen :: rep_text r) ++ rest)
      with ([c_lparen] ++ (render4 body ++ c_rparen :: rep_text r) ++ rest).
    rewrite (toks_step [c_lparen] _ (ctx_g g) prev pos (TBracket true BGroup) (ctx_g (g + 1)));
      [|discriminate|cbn [app length]; apply consume_lparen].
    cbn [length]. rewrite <- app_assoc.
    destruct (Hrun (g + 1)%Z ((c_rparen :: rep_text r) ++ rest) (lastc [c_lparen]) (pos + 1)) as [prev1 E1]; [reflexivity|].
    rewrite E1.
    change ((c_rparen :: rep_text r) ++ rest) with ([c_rparen] ++ rep_text r ++ rest).
    rewrite (toks_step [c_rparen] _ (ctx_g (g + 1)) prev1 (pos + 1 + islen body) (TBracket false BGroup) (ctx_g (g + 1 + -1)));
      [|discriminate|cbn [app length]; apply consume_rparen].
    replace (g + 1 + -1)%Z with g by lia. cbn [length].
    assert (Hlen : iulen (IG body r) = 1 + islen body + 1 + length (rep_text r)).
    { unfold iulen, islen. cbn [render_iunit length]. fold (render4 body). rewrite app_length. cbn [length]. lia. }
    destruct r as [ds|]; cbn [rep_text rep_toks_at app] in *.
    + change (c_star :: ds ++ rest) with ((c_star :: ds) ++ rest).
      rewrite (toks_step (c_star :: ds) rest (ctx_g g) (lastc [c_rparen]) (pos + 1 + islen body + 1) (TRepeater (count_of ds) 0 false) (ctx_g g));
        [|discriminate|cbn [app length]; apply consume_rep3; assumption].
      exists (lastc (c_star :: ds)). rewrite Hlen. cbn [length].
      replace (pos + (1 + islen body + 1 + S (length ds))) with (pos + 1 + islen body + 1 + S (length ds)) by lia.
      destruct (toks 0 (ctx_g g) (lastc (c_star :: ds)) (pos + 1 + islen body + 1 + S (length ds)) rest); [|reflexivity].
      unfold lparen_tok, rparen_tok. cbn [app]. rewrite <- app_assoc. reflexivity.
    + exists (lastc [c_rparen]). rewrite Hlen. cbn [length].
      replace (pos + (1 + islen body + 1 + 0)) with (pos + 1 + islen body + 1) by lia.
      destruct (toks 0 (ctx_g g) (lastc [c_rparen]) (pos + 1 + islen body + 1) rest); [|reflexivity].
      unfold lparen_tok, rparen_tok. cbn [app]. rewrite <- app_assoc. reflexivity.
Qed.

Theorem toks_render4 xs :
  iwf xs -> tokenize (render4 xs) = TOk (snd (lay_istmt 0 xs)).
Proof.
  intros Hwf.
  assert (Hrun : istmt_run xs).
  { apply istmt_run_of_units. pose proof (iwf_units xs Hwf) as Hall.
    rewrite Forall_forall in *. intros x Hx. apply iunit_run_all, (Hall x Hx). }
  destruct (Hrun 0%Z [] None 0 I) as [prev' E]. rewrite !app_nil_r in E. unfold tokenize.
  change ctx0 with (ctx_g 0). rewrite E. cbn [toks]. rewrite app_nil_r. reflexivity.
Qed.

(* ================================================================ the tokens form a statement with groups *)
(* JSX: no unit is a `Cap.Cap` pair *)
Definition ijsx_with (F : iunit -> bool) := fix go (xs : istmt) : bool := match xs with [] => true | (u, _) :: xs' => F u && go xs' end.
Fixpoint ijsx_unit (jsx : bool) (u : iunit) : bool :=
  match u with
  | IE n sh _ => jsx_ok jsx n sh
  | IG body _ => ijsx_with (ijsx_unit jsx) body
  end.
Definition ijsx (jsx : bool) (xs : istmt) : bool := ijsx_with (ijsx_unit jsx) xs.

Lemma ijsx_units jsx body : ijsx_with (ijsx_unit jsx) body = true -> Forall (fun x => ijsx_unit jsx (fst x) = true) body.
Proof.
  induction body as [|[u o] xs IH]; intros H; [constructor|]. cbn [ijsx_with] in H. apply andb_prop in H. destruct H as [Hu Hx].
  constructor; [exact Hu|apply IH, Hx].
Qed.

Lemma lay_igflat_of_units jsx : forall xs,
  Forall (fun x => forall pos, unit_toks jsx (fst (lay_iunit pos (fst x))) (snd (lay_iunit pos (fst x)))) xs ->
  iwf_with iwf_unit xs ->
  forall pos, gflat jsx (fst (lay_istmt pos xs)) (snd (lay_istmt pos xs)).
Proof.
  induction xs as [|[u o] xs' IH]; intros HF Hwf pos; [apply gf_nil|].
  inversion HF as [|x l Hu Hr]; subst. cbn [fst] in Hu.
  cbn [iwf_with] in Hwf. destruct Hwf as [_ [Hgo Hwx]].
  destruct xs' as [|y xs''].
  - cbn [lay_istmt lay_istmt_with fst snd]. apply gf_last. apply Hu.
  - rewrite lay_istmt_cons. cbn [fst snd]. apply gf_cons; [apply Hu|apply op_toks_tokens| |apply IH; assumption].
    intros Hg. apply Hgo. destruct u; [discriminate|reflexivity].
Qed.

Theorem lay_iunit_toks jsx : forall u, iwf_unit u -> ijsx_unit jsx u = true ->
  forall pos, unit_toks jsx (fst (lay_iunit pos u)) (snd (lay_iunit pos u)).
Proof.
  induction u as [n sh r|body r IH] using iunit_ind'; intros Hwf Hj pos.
  - cbn [lay_iunit fst snd]. apply ut_elem. apply ie_block; assumption.
  - cbn [iwf_unit] in Hwf. destruct Hwf as [Hbody _]. cbn [ijsx_unit] in Hj.
    cbn [lay_iunit fst snd]. fold (lay_istmt (pos + 1) body).
    apply ut_group; [reflexivity|reflexivity| |apply rep_toks_at_rep].
    apply lay_igflat_of_units; [|exact Hbody].
    pose proof (iwf_units body Hbody) as Hall. pose proof (ijsx_units jsx body Hj) as Hjl.
    rewrite Forall_forall in *. intros x Hx pos'. apply (IH x Hx); [apply (Hall x Hx)|apply (Hjl x Hx)].
Qed.

Theorem lay_istmt_gflat jsx xs : iwf xs -> ijsx jsx xs = true ->
  forall pos, gflat jsx (fst (lay_istmt pos xs)) (snd (lay_istmt pos xs)).
Proof.
  intros Hwf Hj. apply lay_igflat_of_units; [|exact Hwf].
  pose proof (iwf_units xs Hwf) as Hall. pose proof (ijsx_units jsx xs Hj) as Hjl.
  rewrite Forall_forall in *. intros x Hx pos. apply lay_iunit_toks; [apply (Hall x Hx)|apply (Hjl x Hx)].
Qed.
