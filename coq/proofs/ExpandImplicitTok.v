(* C01, implicit names, string level, first half: syntax, rendering, tokenizer and parser block.
   A unit is an element  name | name.cls | name#id | .cls | #id  with an optional `*digits`, or a
   parenthesised statement with an optional `*digits`; a statement is units separated by `>`, `+`
   and runs of `^`.  For every such text the tokenizer yields exactly the token list [lay_istmt]
   computes, and that token list is a statement of the parser theorem with groups
   (ParserGroups.gflat): the element block carries the name (if written) and the one class / id
   attribute (if written). *)
From Emmet Require Import lib.Base model.MarkupTokenizer model.MarkupParser.
From Emmet Require Import proofs.ParserSpine proofs.ParserGroups proofs.TokenizeRender proofs.ExpandJsx
     proofs.ExpandRepeat proofs.ExpandGroupsTok.
Local Open Scope nat_scope.

(* ================================================================ syntax *)
Inductive iunit :=
| IE (n : str) (sh : option (bool * str)) (r : option str)   (* name (may be empty), `.cls` (true) / `#id` (false), repeat digits *)
| IG (body : list (iunit * sop)) (r : option str).           (* ( body ), optional repeat digits *)
Definition istmt := list (iunit * sop).

Section IunitInd.
  Variable P : iunit -> Prop.
  Hypothesis HE : forall n sh r, P (IE n sh r).
  Hypothesis HG : forall body r, Forall (fun x => P (fst x)) body -> P (IG body r).
  Fixpoint iunit_ind' (u : iunit) : P u :=
    match u with
    | IE n sh r => HE n sh r
    | IG body r =>
        HG body r ((fix go (xs : istmt) : Forall (fun x => P (fst x)) xs :=
                      match xs with
                      | [] => Forall_nil _
                      | x :: xs' => Forall_cons x (iunit_ind' (fst x)) (go xs')
                      end) body)
    end.
End IunitInd.

Definition sh_text (sh : option (bool * str)) : str :=
  match sh with
  | Some (true, w) => c_dot :: w
  | Some (false, w) => c_hash :: w
  | None => []
  end.

Definition render_istmt_with (F : iunit -> str) :=
  fix go (xs : istmt) : str :=
    match xs with
    | [] => []
    | (u, o) :: xs' =>
        match xs' with
        | [] => F u
        | _ :: _ => F u ++ op_text o ++ go xs'
        end
    end.
Fixpoint render_iunit (u : iunit) : str :=
  match u with
  | IE n sh r => n ++ sh_text sh ++ rep_text r
  | IG body r => c_lparen :: render_istmt_with render_iunit body ++ c_rparen :: rep_text r
  end.
Definition render4 (xs : istmt) : str := render_istmt_with render_iunit xs.
Definition iulen (u : iunit) : nat := length (render_iunit u).
Definition islen (xs : istmt) : nat := length (render4 xs).

(* well-formedness: a wide name or no name (then a shorthand is there), class / id values are
   wide names, digit runs, and `>` never directly after a group *)
Definition is_ig (u : iunit) : bool := match u with IG _ _ => true | IE _ _ _ => false end.
Definition name_okP (n : str) : Prop := n = [] \/ wname_ok n.
Definition sh_okP (sh : option (bool * str)) : Prop := match sh with Some (_, w) => wname_ok w | None => True end.
Definition ie_okP (n : str) (sh : option (bool * str)) (r : option str) : Prop :=
  name_okP n /\ sh_okP sh /\ rep_okP r /\ (n = [] -> sh <> None).
Definition iwf_with (F : iunit -> Prop) :=
  fix go (xs : istmt) : Prop :=
    match xs with
    | [] => True
    | (u, o) :: xs' => F u /\ (is_ig u = true -> o <> SChild) /\ go xs'
    end.
Fixpoint iwf_unit (u : iunit) : Prop :=
  match u with
  | IE n sh r => ie_okP n sh r
  | IG body r => iwf_with iwf_unit body /\ rep_okP r
  end.
Definition iwf (xs : istmt) : Prop := iwf_with iwf_unit xs.

(* ================================================================ tokenizer: names before `.` `#`, and the two operators *)
(* what may follow a name *)
Definition stop5 (rest : str) : Prop :=
  match rest with
  | [] => True
  | c :: _ => TokenizeRender.op_char c \/ c = c_star \/ c = c_rparen \/ c = c_dot \/ c = c_hash
  end.
Lemma stop3_stop5 rest : stop3 rest -> stop5 rest.
Proof. destruct rest; cbn; [auto|]. intros [H|[H|H]]; auto. Qed.

Lemma lit_name5 : forall name rest prev,
  Forall (fun c => namec c = true) name -> stop5 rest ->
  lit None 0 0 0 prev false (name ++ rest) = (name, length name, 0%Z).
Proof.
  induction name as [|c name IH]; intros rest prev Hn Hs.
  - cbn [app length]. destruct rest as [|c r]; [reflexivity|].
    cbn [stop5] in Hs. destruct Hs as [[-> | [-> | ->]] | [-> | [-> | [-> | ->]]]]; reflexivity.
  - inversion Hn as [|x l Hc Hn']; subst. cbn [app length lit].
    rewrite (namec_not c c_bslash Hc) by (unfold c_bslash; lia).
    rewrite (namec_not c c_slash Hc) by (unfold c_slash; lia).
    rewrite (namec_not c c_dollar Hc) by (unfold c_dollar; lia).
    cbn [andb orb]. unfold is_allowed_operator at 1. rewrite (namec_operator c Hc).
    cbn [truthy Z.eqb negb]. rewrite (namec_element_name c Hc). cbn [negb andb].
    unfold is_allowed_space, is_allowed_repeater. rewrite (namec_not_space c Hc).
    rewrite (namec_not c c_star Hc) by (unfold c_star; lia).
    rewrite (namec_not_quote c Hc), (namec_not_bracket c Hc). cbn [andb orb].
    rewrite (IH rest (Some c) Hn' Hs). reflexivity.
Qed.

Lemma consume_name5 g name rest prev :
  wname_ok name -> stop5 rest ->
  consume (ctx_g g) prev (name ++ rest) = (CTok (TLiteral name) (length name), ctx_g g).
Proof.
  intros Hw Hs. destruct name as [|c name]; [contradiction|]. cbn [wname_ok] in Hw. destruct Hw as [Hc Hn'].
  assert (Hn : Forall (fun c => namec c = true) (c :: name)) by (constructor; [apply alpha_namec, Hc|exact Hn']).
  unfold consume, ctx_g. cbn [cexpr cattr cquote cgroup].
  assert (Hf : field (mkCtx g 0 0 None) ((c :: name) ++ rest) = CNone) by reflexivity.
  rewrite Hf. cbn [orelse].
  assert (Hrp : repeater_placeholder ((c :: name) ++ rest) = CNone).
  { unfold repeater_placeholder. cbn [app]. destruct (name ++ rest); [reflexivity|].
    rewrite (alpha_not c c_dollar Hc) by (unfold c_dollar; lia). reflexivity. }
  rewrite Hrp. cbn [orelse].
  assert (Hrn : repeater_number ((c :: name) ++ rest) = CNone).
  { unfold repeater_number. cbn [app span]. rewrite N.eqb_sym.
    rewrite (alpha_not c c_dollar Hc) by (unfold c_dollar; lia). reflexivity. }
  rewrite Hrn. cbn [orelse].
  assert (Hr : repeater (mkCtx g 0 0 None) ((c :: name) ++ rest) = CNone).
  { unfold repeater, is_allowed_repeater. cbn [app].
    rewrite (alpha_not c c_star Hc) by (unfold c_star; lia). reflexivity. }
  rewrite Hr. cbn [orelse].
  assert (Hw : white_space ((c :: name) ++ rest) = CNone).
  { unfold white_space. cbn [app span]. rewrite (alpha_not_space c Hc). reflexivity. }
  rewrite Hw.
  rewrite (lit_name5 (c :: name) rest prev Hn Hs). cbn [length]. reflexivity.
Qed.

Definition sh_char (c : char) : Prop := c = c_dot \/ c = c_hash.
Definition sh_op (b : bool) : optype := if b then OpClass else OpId.

Lemma consume_sh g c rest prev :
  sh_char c ->
  consume (ctx_g g) prev (c :: rest) = (CTok (TOperator (if (c =? c_dot)%N then OpClass else OpId)) 1, ctx_g g).
Proof.
  intros Hc. unfold consume, ctx_g. cbn [cexpr cattr cquote cgroup].
  assert (Hf : field (mkCtx g 0 0 None) (c :: rest) = CNone) by reflexivity. rewrite Hf. cbn [orelse].
  assert (Hrp : repeater_placeholder (c :: rest) = CNone).
  { unfold repeater_placeholder. destruct rest; [reflexivity|]. destruct Hc as [-> | ->]; reflexivity. }
  rewrite Hrp. cbn [orelse].
  assert (Hrn : repeater_number (c :: rest) = CNone) by (destruct Hc as [-> | ->]; reflexivity).
  rewrite Hrn. cbn [orelse].
  assert (Hr : repeater (mkCtx g 0 0 None) (c :: rest) = CNone) by (destruct Hc as [-> | ->]; reflexivity).
  rewrite Hr. cbn [orelse].
  assert (Hw : white_space (c :: rest) = CNone) by (destruct Hc as [-> | ->]; reflexivity).
  rewrite Hw.
  assert (Hl : lit None 0 0 0 prev false (c :: rest) = ([], 0, 0%Z)) by (destruct Hc as [-> | ->]; reflexivity).
  rewrite Hl. destruct Hc as [-> | ->]; reflexivity.
Qed.

(* ================================================================ the tokens and the leaf of one element *)
Definition sh_tattr (b : bool) (vt : token) : tattr :=
  mkTAttr (Some [literal_tok (if b then s_class else s_id)]) (Some [vt]) false false.

Definition name_toks (n : str) (pos : nat) : list token := match n with [] => [] | _ :: _ => [name_tok n pos] end.
Definition sh_toks (sh : option (bool * str)) (pos : nat) : list token :=
  match sh with
  | Some (b, w) => [mkTok (TOperator (sh_op b)) pos (pos + 1); name_tok w (pos + 1)]
  | None => []
  end.
Definition ie_toks (n : str) (sh : option (bool * str)) (r : option str) (pos : nat) : list token :=
  name_toks n pos ++ sh_toks sh (pos + length n) ++ rep_toks_at r (pos + length n + length (sh_text sh)).
Definition ie_leaf (n : str) (sh : option (bool * str)) (r : option str) (pos : nat) : leaf :=
  mkLeaf (match n with [] => None | _ :: _ => Some [name_tok n pos] end)
         (match sh with Some (b, w) => Some [sh_tattr b (name_tok w (pos + length n + 1))] | None => None end)
         None (rep_of_digits r) false.

Lemma sh_text_length sh : length (sh_text sh) = match sh with Some (_, w) => S (length w) | None => 0 end.
Proof. destruct sh as [[[|] w]|]; reflexivity. Qed.

(* ---------------------------------------------------------------- the three parts of an element *)
Lemma run_name g n rest prev pos :
  name_okP n -> stop5 rest ->
  exists prev',
  toks 0 (ctx_g g) prev pos (n ++ rest) =
    match toks 0 (ctx_g g) prev' (pos + length n) rest with
    | TOk l => TOk (name_toks n pos ++ l)
    | TErr p => TErr p
    end.
Proof.
  intros [-> | Hn] Hs.
  - exists prev. cbn [app length name_toks]. rewrite Nat.add_0_r. destruct (toks 0 (ctx_g g) prev pos rest); reflexivity.
  - exists (lastc n).
    rewrite (toks_step n rest (ctx_g g) prev pos (TLiteral n) (ctx_g g)); [|apply wname_nonempty, Hn|apply consume_name5; assumption].
    destruct n as [|c n']; [contradiction|]. cbn [name_toks app]. unfold name_tok.
    destruct (toks 0 (ctx_g g) (lastc (c :: n')) (pos + length (c :: n')) rest); reflexivity.
Qed.

Lemma run_sh g sh rest prev pos :
  sh_okP sh -> stop3 rest ->
  exists prev',
  toks 0 (ctx_g g) prev pos (sh_text sh ++ rest) =
    match toks 0 (ctx_g g) prev' (pos + length (sh_text sh)) rest with
    | TOk l => TOk (sh_toks sh pos ++ l)
    | TErr p => TErr p
    end.
Proof.
  destruct sh as [[b w]|]; cbn [sh_okP]; intros Hw Hs.
  - exists (lastc w).
    assert (E : sh_text (Some (b, w)) = [if b then c_dot else c_hash] ++ w) by (destruct b; reflexivity).
    rewrite E, <- app_assoc.
    rewrite (toks_step [if b then c_dot else c_hash] (w ++ rest) (ctx_g g) prev pos (TOperator (sh_op b)) (ctx_g g)); [|discriminate|].
    + rewrite (toks_step w rest (ctx_g g) _ (pos + length [if b then c_dot else c_hash]) (TLiteral w) (ctx_g g));
        [|apply wname_nonempty, Hw|apply consume_name3; assumption].
      rewrite app_length. cbn [length sh_toks app]. unfold name_tok. rewrite Nat.add_assoc.
      destruct (toks 0 (ctx_g g) (lastc w) (pos + 1 + length w) rest); reflexivity.
    + cbn [app length]. rewrite consume_sh by (destruct b; [left|right]; reflexivity). destruct b; reflexivity.
  - exists prev. cbn [sh_text app length sh_toks]. rewrite Nat.add_0_r. destruct (toks 0 (ctx_g g) prev pos rest); reflexivity.
Qed.

Lemma run_rep g r rest prev pos :
  rep_okP r -> stop4 rest ->
  exists prev',
  toks 0 (ctx_g g) prev pos (rep_text r ++ rest) =
    match toks 0 (ctx_g g) prev' (pos + length (rep_text r)) rest with
    | TOk l => TOk (rep_toks_at r pos ++ l)
    | TErr p => TErr p
    end.
Proof.
  destruct r as [ds|]; cbn [rep_okP]; intros Hd Hs.
  - exists (lastc (c_star :: ds)). cbn [rep_text rep_toks_at].
    change ((c_star :: ds) ++ rest) with ((c_star :: ds) ++ rest).
    rewrite (toks_step (c_star :: ds) rest (ctx_g g) prev pos (TRepeater (count_of ds) 0 false) (ctx_g g));
      [|discriminate|cbn [app length]; apply consume_rep3; assumption].
    cbn [length app]. destruct (toks 0 (ctx_g g) (lastc (c_star :: ds)) (pos + S (length ds)) rest); reflexivity.
  - exists prev. cbn [rep_text app length rep_toks_at]. rewrite Nat.add_0_r. destruct (toks 0 (ctx_g g) prev pos rest); reflexivity.
Qed.

Lemma stop4_after_rep r rest : stop4 rest -> stop3 (rep_text r ++ rest).
Proof. destruct r as [ds|]; [intros _; cbn; auto|apply stop4_stop3]. Qed.

Lemma stop5_after_name sh r rest : stop4 rest -> stop5 (sh_text sh ++ rep_text r ++ rest).
Proof.
  intros Hs. destruct sh as [[[|] w]|]; [cbn; auto|cbn; tauto|]. cbn [sh_text app]. apply stop3_stop5, stop4_after_rep, Hs.
Qed.

Definition ie_len (n : str) (sh : option (bool * str)) (r : option str) : nat :=
  length n + length (sh_text sh) + length (rep_text r).

Lemma ie_run g n sh r rest prev pos :
  ie_okP n sh r -> stop4 rest ->
  exists prev',
  toks 0 (ctx_g g) prev pos (n ++ sh_text sh ++ rep_text r ++ rest) =
    match toks 0 (ctx_g g) prev' (pos + ie_len n sh r) rest with
    | TOk l => TOk (ie_toks n sh r pos ++ l)
    | TErr p => TErr p
    end.
Proof.
  intros [Hn [Hsh [Hr _]]] Hs.
  destruct (run_name g n (sh_text sh ++ rep_text r ++ rest) prev pos Hn (stop5_after_name sh r rest Hs)) as [p1 E1]. rewrite E1.
  destruct (run_sh g sh (rep_text r ++ rest) p1 (pos + length n) Hsh (stop4_after_rep r rest Hs)) as [p2 E2]. rewrite E2.
  destruct (run_rep g r rest p2 (pos + length n + length (sh_text sh)) Hr Hs) as [p3 E3]. rewrite E3.
  exists p3. unfold ie_len, ie_toks. rewrite !Nat.add_assoc.
  destruct (toks 0 (ctx_g g) p3 (pos + length n + length (sh_text sh) + length (rep_text r)) rest); [|reflexivity].
  rewrite <- !app_assoc. reflexivity.
Qed.

(* ================================================================ parser: the element block *)
Definition cap (s : str) : bool := match s with c :: _ => in_range c_A c_Z c | [] => false end.
(* with JSX on, `Cap.Cap` is a component path (one name), not a name with a class *)
Definition jsx_ok (jsx : bool) (n : str) (sh : option (bool * str)) : bool :=
  negb (jsx && cap n && match sh with Some (true, w) => cap w | _ => false end).

(* what may follow the shorthand's value token: nothing, a repeater, or a unit boundary *)
Definition after_ok (after : list token) : Prop :=
  match after with
  | [] => True
  | t :: _ => is_repeater_tok t = true \/
              op_tok OpChild t \/ op_tok OpSibling t \/ op_tok OpClimb t \/ gclose_tok t
  end.

Lemma literal_one vt w after :
  tk vt = TLiteral w -> after_ok after -> literal false (vt :: after) = 1.
Proof.
  intros Hv Ha. unfold literal. cbn [literal_n truthy Z.eqb negb].
  unfold is_quote_tok, is_operator, is_white_space_tok, is_repeater_tok. rewrite Hv. cbn [orb].
  destruct after as [|t r]; [reflexivity|]. cbn [after_ok] in Ha. cbn [literal_n truthy Z.eqb negb].
  unfold op_tok, gclose_tok in Ha.
  destruct Ha as [H|[H|[H|[H|H]]]].
  - unfold is_repeater_tok in H. destruct (tk t) eqn:Et; try discriminate.
    unfold is_quote_tok, is_operator, is_white_space_tok, is_repeater_tok. rewrite Et. reflexivity.
  - unfold is_quote_tok, is_operator, is_white_space_tok, is_repeater_tok. rewrite H. reflexivity.
  - unfold is_quote_tok, is_operator, is_white_space_tok, is_repeater_tok. rewrite H. reflexivity.
  - unfold is_quote_tok, is_operator, is_white_space_tok, is_repeater_tok. rewrite H. reflexivity.
  - unfold is_quote_tok, is_operator, is_white_space_tok, is_repeater_tok. rewrite H. reflexivity.
Qed.

Lemma short_attribute_sh jsx b ot vt w after :
  tk ot = TOperator (sh_op b) -> tk vt = TLiteral w -> after_ok after ->
  short_attribute jsx (sh_op b) (ot :: vt :: after) = Some (sh_tattr b vt, 2).
Proof.
  intros Ho Hv Ha. unfold short_attribute. cbn [span_tok].
  assert (E1 : is_operator ot (Some (sh_op b)) = true) by (unfold is_operator; rewrite Ho; destruct b; reflexivity).
  assert (E2 : is_operator vt (Some (sh_op b)) = false) by (unfold is_operator; rewrite Hv; reflexivity).
  rewrite E1, E2. cbn [skipn Nat.ltb Nat.leb].
  assert (Et : text (vt :: after) = 0) by (unfold text, is_bracket; rewrite Hv; reflexivity).
  assert (Etx : (if jsx then text (vt :: after) else 0) = 0) by (destruct jsx; [exact Et|reflexivity]).
  rewrite Etx, (literal_one vt w after Hv Ha). cbn [firstn Nat.add]. unfold sh_tattr. destruct b; reflexivity.
Qed.

Lemma short_attribute_id_none jsx ot r : tk ot = TOperator OpClass -> short_attribute jsx OpId (ot :: r) = None.
Proof. intros Ho. unfold short_attribute. cbn [span_tok]. unfold is_operator. rewrite Ho. reflexivity. Qed.

(* one round of element()'s loop at a shorthand *)
Lemma elem_body_sh jsx s b ot vt w after :
  tk ot = TOperator (sh_op b) -> tk vt = TLiteral w -> after_ok after ->
  elem_body jsx s (ot :: vt :: after) = ECont (est_add_attrs s [sh_tattr b vt]) 2.
Proof.
  intros Ho Hv Ha. unfold elem_body.
  assert (Hrep : rep_of ot = None) by (unfold rep_of; rewrite Ho; reflexivity).
  assert (Htx : text (ot :: vt :: after) = 0) by (unfold text, is_bracket; rewrite Ho; reflexivity).
  pose proof (short_attribute_sh jsx b ot vt w after Ho Hv Ha) as S1.
  rewrite Hrep. destruct (e_repeat s); destruct (negb (est_empty s)); destruct (e_value s); rewrite ?Htx;
    (destruct b; cbn [sh_op] in *;
     [rewrite (short_attribute_id_none jsx ot _ Ho), S1|rewrite S1]); reflexivity.
Qed.

Definition with_rep (s : est) (r : option rep) : est :=
  match r with Some rp => mkEst (e_name s) (e_attrs s) (e_value s) (Some rp) (e_self s) | None => s end.

(* the end of the block: an optional repeater, then the boundary *)
Lemma elem_loop_tail jsx s rest : gboundary rest -> est_empty s = false -> elem_loop jsx 0 s rest = POk (s, 0).
Proof.
  intros Hb Hne. destruct rest as [|t r]; [reflexivity|]. cbn [elem_loop]. cbn [gboundary] in Hb.
  rewrite quiet_elem_body_j by assumption. reflexivity.
Qed.

Lemma est_empty_with_rep s rp : est_empty (mkEst (e_name s) (e_attrs s) (e_value s) (Some rp) (e_self s)) = est_empty s.
Proof. reflexivity. Qed.

Lemma elem_loop_rep jsx s r p rest :
  gboundary rest -> est_empty s = false -> e_repeat s = None ->
  elem_loop jsx 0 s (rep_toks_at r p ++ rest) = POk (with_rep s (rep_of_digits r), length (rep_toks_at r p)).
Proof.
  intros Hb Hne Hr. destruct r as [ds|]; cbn [rep_toks_at rep_of_digits with_rep app length].
  - cbn [elem_loop]. unfold elem_body. rewrite Hr, Hne. cbn [negb rep_of tk pred].
    rewrite elem_loop_tail; [reflexivity|exact Hb|]. rewrite est_empty_with_rep. exact Hne.
  - apply elem_loop_tail; assumption.
Qed.

Lemma after_ok_rep r p rest : gboundary rest -> after_ok (rep_toks_at r p ++ rest).
Proof.
  intros Hb. destruct r as [ds|]; cbn [rep_toks_at app after_ok]; [left; reflexivity|].
  destruct rest as [|t q]; [exact I|]. cbn [gboundary] in Hb. right. exact Hb.
Qed.

Definition add_sh (s : est) (sh : option (bool * str)) (p : nat) : est :=
  match sh with Some (b, w) => est_add_attrs s [sh_tattr b (name_tok w (p + 1))] | None => s end.

Lemma elem_loop_sh jsx s sh r p p' rest :
  gboundary rest -> e_repeat s = None -> (est_empty s = false \/ sh <> None) ->
  elem_loop jsx 0 s (sh_toks sh p ++ rep_toks_at r p' ++ rest) =
    POk (with_rep (add_sh s sh p) (rep_of_digits r), length (sh_toks sh p) + length (rep_toks_at r p')).
Proof.
  intros Hb Hr Hne. destruct sh as [[b w]|]; cbn [sh_toks add_sh app length].
  - cbn [elem_loop].
    rewrite (elem_body_sh jsx s b _ (name_tok w (p + 1)) w (rep_toks_at r p' ++ rest)); [|reflexivity|reflexivity|apply after_ok_rep, Hb].
    cbn [pred elem_loop].
    rewrite elem_loop_rep; [reflexivity|exact Hb| |exact Hr].
    unfold est_add_attrs, est_empty. cbn [e_name e_value e_attrs]. destruct (e_name s); destruct (e_value s); reflexivity.
  - destruct Hne as [Hne|Hne]; [|congruence]. apply elem_loop_rep; assumption.
Qed.

(* the name part of element(): one literal token when a name is written, nothing otherwise *)
Lemma element_name_none jsx ot r : (exists o, tk ot = TOperator o) -> element_name jsx (ot :: r) = 0.
Proof.
  intros [o Ho]. unfold element_name. cbn [hd_is]. unfold is_capitalized_literal. rewrite Ho. rewrite andb_false_r.
  cbn [Nat.add skipn span_tok]. unfold is_element_name_tok. rewrite Ho. reflexivity.
Qed.

Lemma element_name_one jsx n sh r pos p' rest :
  n <> [] -> jsx_ok jsx n sh = true -> gboundary rest ->
  element_name jsx (name_tok n pos :: sh_toks sh (pos + length n) ++ rep_toks_at r p' ++ rest) = 1.
Proof.
  intros Hn Hj Hb. unfold element_name. cbn [hd_is tl].
  assert (Hnt : is_element_name_tok (name_tok n pos) = true) by reflexivity.
  assert (Hnext : span_tok is_element_name_tok (sh_toks sh (pos + length n) ++ rep_toks_at r p' ++ rest) = 0).
  { destruct sh as [[b w]|]; [reflexivity|]. destruct r as [ds|]; [reflexivity|]. cbn [sh_toks rep_toks_at app].
    destruct rest as [|t q]; [reflexivity|]. cbn [gboundary] in Hb. cbn [span_tok].
    destruct (quiet_follow t Hb) as [-> _]. reflexivity. }
  destruct (jsx && is_capitalized_literal (name_tok n pos)) eqn:Ej.
  - assert (Hch : jsx_chain (sh_toks sh (pos + length n) ++ rep_toks_at r p' ++ rest) = 0).
    { apply andb_prop in Ej. destruct Ej as [Ej Ec]. subst jsx.
      assert (Hcn : cap n = true).
      { unfold is_capitalized_literal, name_tok in Ec. cbn [tk] in Ec. destruct n; [discriminate|exact Ec]. }
      unfold jsx_ok in Hj. rewrite Hcn in Hj. cbn [andb] in Hj.
      destruct sh as [[[|] w]|]; cbn [sh_toks app].
      - apply negb_true_iff in Hj. cbn [jsx_chain]. unfold is_capitalized_literal, name_tok. cbn [tk sh_op is_operator optype_eqb].
        unfold is_operator. cbn [tk optype_eqb sh_op]. destruct w as [|c w']; [reflexivity|]. cbn [cap] in Hj. rewrite Hj. reflexivity.
      - reflexivity.
      - destruct r as [ds|]; [reflexivity|]. cbn [rep_toks_at app]. destruct rest as [|t q]; [reflexivity|].
        cbn [gboundary] in Hb. cbn [jsx_chain]. destruct (quiet_follow t Hb) as [_ ->]. reflexivity. }
    rewrite Hch. cbn [Nat.add skipn]. rewrite Hnext. reflexivity.
  - cbn [Nat.add skipn span_tok]. rewrite Hnt, Hnext. reflexivity.
Qed.

Theorem ie_block jsx n sh r pos :
  ie_okP n sh r -> jsx_ok jsx n sh = true ->
  gblock_ok jsx (ie_toks n sh r pos) (ie_leaf n sh r pos).
Proof.
  intros [Hn [Hsh [Hr Hpay]]] Hj.
  set (p' := pos + length n + length (sh_text sh)).
  split; [|split].
  - unfold ie_toks. destruct n as [|c n']; [|discriminate]. destruct sh as [[b w]|]; [discriminate|]. exfalso. apply Hpay; reflexivity.
  - unfold ie_toks. destruct n as [|c n']; [|reflexivity]. destruct sh as [[b w]|]; [destruct b; reflexivity|]. exfalso. apply Hpay; reflexivity.
  - intros rest Hb. unfold element, ie_toks. fold p'. rewrite <- !app_assoc.
    destruct n as [|c n'].
    + (* no name *)
      cbn [name_toks app length]. rewrite Nat.add_0_r.
      assert (Hsome : sh <> None) by (apply Hpay; reflexivity).
      assert (En : element_name jsx (sh_toks sh pos ++ rep_toks_at r p' ++ rest) = 0).
      { destruct sh as [[b w]|]; [|congruence]. cbn [sh_toks app]. apply element_name_none. eexists. reflexivity. }
      rewrite En.
      rewrite (elem_loop_sh jsx (mkEst None None None None false) sh r pos p' rest Hb eq_refl (or_intror Hsome)).
      destruct sh as [[b w]|]; [|congruence]. cbn [add_sh est_add_attrs e_attrs e_name e_value e_repeat e_self].
      unfold ie_leaf, leaf_node. cbn [lf_name lf_attrs lf_value lf_repeat lf_self length Nat.add].
      destruct r as [ds|]; cbn [rep_of_digits with_rep est_empty e_name e_value e_attrs e_repeat e_self rep_toks_at length app];
        rewrite ?Nat.add_0_r; reflexivity.
    + (* a name *)
      cbn [name_toks app].
      rewrite (element_name_one jsx (c :: n') sh r pos p' rest) by (discriminate || assumption).
      cbn [firstn elem_loop].
      destruct (sh_toks sh (pos + length (c :: n')) ++ rep_toks_at r p' ++ rest) as [|t0 q0] eqn:Eq.
      * destruct sh as [[b w]|]; [discriminate|]. destruct r as [ds|]; [discriminate|]. cbn [sh_toks rep_toks_at app] in Eq. subst rest.
        cbn [elem_loop est_empty e_name]. unfold ie_leaf, leaf_node.
        cbn [lf_name lf_attrs lf_value lf_repeat lf_self e_name e_attrs e_value e_repeat e_self rep_of_digits sh_toks rep_toks_at app length]. reflexivity.
      * rewrite <- Eq.
        rewrite (elem_loop_sh jsx (mkEst (Some [name_tok (c :: n') pos]) None None None false) sh r (pos + length (c :: n')) p' rest Hb eq_refl (or_introl eq_refl)).
        unfold ie_leaf, leaf_node.
        destruct sh as [[b w]|]; destruct r as [ds|];
          cbn [add_sh est_add_attrs with_rep rep_of_digits est_empty e_name e_attrs e_value e_repeat e_self
               lf_name lf_attrs lf_value lf_repeat lf_self sh_toks rep_toks_at length app Nat.add];
          reflexivity.
Qed.
