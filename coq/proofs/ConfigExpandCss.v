(* C20 -- the expand model with the REAL stylesheet pipeline model in its stylesheet branch.
   (The stylesheet model carries the fuzzy-search threshold as a float, so everything here depends on the
   kernel's PrimFloat/Uint63 primitives -- not axioms of ours; the float-free, extractable part and the
   theorems for ANY stylesheet function are in proofs/ConfigExpand.v.)

   [decode_css] reads the view into the record [sconfig] of model/CssResolve.v: the very options
   harness/style_util.Cfg / gen_style.py transmit, each by LOOKUP in the merged options; the merged snippets
   in canonical order (stylesheet nest() sorts them by key itself). *)
From Coq Require Import PrimFloat Uint63 List Bool NArith ZArith.
From Emmet Require Import lib.Base lib.StyleLib lib.ConfigLib lib.ConfigVal model.Config proofs.ConfigProofs
     proofs.ConfigExpand model.CssSnippets model.CssResolve model.CssFormat.
Import ListNotations.
Local Open Scope N_scope.

Definition float_of_N (n : N) : float := PrimFloat.of_uint63 (Uint63.of_Z (Z.of_N n)).
(* options.get('stylesheet.fuzzySearchMinScore', 0): an int or a float written as a decimal; mant / 10^exp is
   correctly rounded, i.e. the float Python reads from the same decimal (mant, 10^exp < 2^53) *)
Definition get_float (o : option cval) : option float :=
  match o with
  | None => Some (float_of_N 0)
  | Some (CNum n) => Some (float_of_N n)
  | Some (CDec m e) => Some (PrimFloat.div (float_of_N m) (float_of_N (10 ^ N.of_nat e)))
  | _ => None
  end.
Definition expect_bool (o : option cval) : option bool := match o with Some (CBool b) => Some b | _ => None end.
Definition expect_strs (o : option cval) : option (list str) := match o with Some (CStrs l) => Some l | _ => None end.
Definition expect_pairs (o : option cval) : option (list (str * str)) :=
  match o with Some (CPairs l) => Some l | _ => None end.

Notation "'do' x <- a ; b" := (obind a (fun x => b)) (at level 200, x name, a at level 100, b at level 200).

Definition decode_css (v : cview) : option sconfig :=
  do snippets <- strs_of_dict (v_snippets v);
  do _ <- is_absent (oth v k_context);
  do keywords <- expect_strs (opt v k_stylesheet_keywords);
  do unitless <- expect_strs (opt v k_stylesheet_unitless);
  do short_hex <- expect_bool (opt v k_stylesheet_shortHex);
  do between <- expect_str (opt v k_stylesheet_between);
  do after <- expect_str (opt v k_stylesheet_after);
  do int_unit <- expect_str (opt v k_stylesheet_intUnit);
  do float_unit <- expect_str (opt v k_stylesheet_floatUnit);
  do aliases <- expect_pairs (opt v k_stylesheet_unitAliases);
  do json <- expect_bool (opt v k_stylesheet_json);
  do json_dq <- expect_bool (opt v k_stylesheet_jsonDoubleQuotes);
  do skip_unmatched <- expect_bool (opt v k_stylesheet_skipUnmatched);
  do min_score <- get_float (opt v k_stylesheet_fuzzySearchMinScore);
  do format <- expect_bool (opt v k_output_format);
  do newline <- expect_str (opt v k_output_newline);
  do base_indent <- expect_str (opt v k_output_baseIndent);
  do indent <- expect_str (opt v k_output_indent);
  do _ <- expect (fun c => match c with CFieldDefault => true | _ => false end) (opt v k_output_field);
  do _ <- expect (fun c => match c with CTextDefault => true | _ => false end) (opt v k_output_text);
  Some (mkCfg snippets None keywords unitless short_hex between after int_unit float_unit aliases
              json json_dq skip_unmatched min_score format newline base_indent indent FieldPlaceholder).

Definition css_of_view (v : cview) (abbr : str) : option (res str) :=
  do sc <- decode_css v; Some (expand_css sc abbr).

(* emmet.expand(abbr, config, global_config) *)
Definition expand_model : builtin cval -> user_config cval -> cfg_table cval -> str -> option (res str) :=
  expand_model_gen css_of_view.

(* two layer stacks with equal effective lookups give equal expand results *)
Theorem expand_model_layers_congruent : forall b u g u' g' abbr,
    same_effective b u g u' g' -> expand_model b u g abbr = expand_model b u' g' abbr.
Proof. exact (expand_layers_congruent css_of_view). Qed.
Print Assumptions expand_model_layers_congruent.

(* a configuration whose resolved type is not 'stylesheet' never enters the stylesheet branch: the
   extracted markup half (run/CfgexpandRun.v) computes [expand_model] on those *)
Theorem expand_model_markup_branch : forall css b u g abbr,
    str_eqb (resolved_type u) s_stylesheet = false ->
    expand_model b u g abbr = expand_model_gen css b u g abbr.
Proof.
  intros css b u g abbr H. unfold expand_model, expand_model_gen, expand_of_view, view. cbn [v_type].
  destruct (config_lookup b u g s_options [] in_options) as [_ [_ [-> _]]]. now rewrite H.
Qed.
