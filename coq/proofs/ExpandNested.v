(* C04 -- `name{P}` with numbering at any brace depth through the WHOLE pipeline (markup.parse + HTML formatter). *)
From Coq Require Import ZArith List Bool Lia.
From Emmet Require Import lib.Base model.MarkupTokenizer model.MarkupParser model.MarkupConvert model.MarkupResolve
     model.OutStream model.FormatHtml model.FormatIndent model.MarkupExpand
     proofs.TextSpec proofs.TextProofs proofs.TextLiteral proofs.AttrProofs proofs.AttrText proofs.AttrTextParse
     proofs.AttrTextConvert proofs.AttrTextExpand proofs.NumberingProofs proofs.TextNested.
From Emmet Require proofs.ExpandTree proofs.LoremFill.
Local Open Scope nat_scope.

Lemma transform_pre_text cfg pn top (name : str) (V : option (list vtok)) :
  name <> [] -> match_lorem name = LNo ->
  transform_node_pre cfg pn top (ANode (Some name) V None None [] false) = (ANode (Some name) V None None [] false, false).
Proof.
  intros Hne Hlorem.
  destruct name as [|c0 nm] eqn:En; [congruence|].
  unfold transform_node_pre. cbn [nonempty]. rewrite Hlorem.
  replace (opt_str_eqb (Some (c0 :: nm)) s_label && has_input _) with false
    by (cbn [has_input]; rewrite andb_false_r; reflexivity).
  cbn [opt_str_eqb orb].
  rewrite merge_attributes_spec. unfold attrs_opt. cbn [nonempty]. rewrite andb_false_r. reflexivity.
Qed.

Theorem markup_parse_nested cfg name P :
  name_ok name -> payload_ok P = true -> mc_text cfg = WNone ->
  assoc_str name (mc_snippets cfg) = None -> match_lorem name = LNo -> mc_bem cfg = false ->
  markup_parse cfg (name ++ c_lbrace :: payload_text P ++ [c_rbrace]) =
    Ok [ANode (Some name) (nested_value [] P) None None [] false].
Proof.
  intros Hname Hok Htext Hsnip Hlorem Hbem. unfold markup_parse.
  rewrite (text_nested (mc_jsx cfg) (mkCenv (mc_text cfg) (mc_variables cfg) (mc_href cfg)) (mc_max_repeat cfg) name P Hname Hok Htext).
  cbn [bind]. destruct Hname as [Hne _].
  set (node := ANode (Some name) (nested_value [] P) None None [] false).
  assert (Hw : walk_resolve (S (length (mc_snippets cfg))) cfg [] [node] = Ok [node]).
  { unfold node. destruct name as [|c0 nm] eqn:En; [congruence|].
    cbn [walk_resolve]. rewrite Hsnip. reflexivity. }
  rewrite Hw. cbn [bind].
  assert (Hfree : forallb LoremFill.lorem_free [node] = true).
  { unfold node. cbn [forallb]. rewrite LoremFill.lorem_free_eq. unfold lorem_header.
    destruct name as [|c0 nm]; [congruence|]. rewrite Hlorem. reflexivity. }
  rewrite (LoremFill.transform_list_free cfg [node] Hfree). cbn [transform_forest].
  assert (Ht : transform_tree cfg None true false [] node = Ok (node, false, [])).
  { unfold node at 1. rewrite ExpandTree.transform_tree_eq. cbv zeta. cbn [andb].
    fold node. unfold transform_node. unfold node at 1. rewrite (transform_pre_text cfg None true name _ Hne Hlorem). rewrite Hbem.
    cbn [bind]. cbn [ExpandTree.tt_kids bind length firstn]. reflexivity. }
  rewrite Ht. reflexivity.
Qed.

(* ================================================================ expand *)
Lemma value_text_same v : AttrTextExpand.value_text v = TextNested.value_text v.
Proof.
  destruct v as [l|]; [|reflexivity]. cbn [AttrTextExpand.value_text TextNested.value_text].
  reflexivity.
Qed.

Lemma nonempty_nested_value reps P : nonempty (nested_value reps P) = nested_value reps P.
Proof.
  unfold nested_value. destruct (payload_pieces reps P) as [|p ps]; [reflexivity|].
  destruct p as [s|i n]; cbn [join_pieces]; [|reflexivity].
  destruct (join_pieces ps) as [|[s'|i' n'] r']; reflexivity.
Qed.

(* expand_nested.  expand writes  <name>TEXT</name>  with TEXT = the payload, escapes resolved, inner braces kept, every
   counter replaced by its value (1: no repeater), a field by its placeholder -- nothing else between the tags *)
Theorem expand_nested x name P :
  let m := xc_m x in
  let c := xc_o x in
  name_ok name -> payload_ok P = true -> mc_text m = WNone ->
  assoc_str name (mc_snippets m) = None -> match_lorem name = LNo -> mc_bem m = false ->
  html_family (mc_syntax m) -> oc_comment_enabled c = false ->
  oc_format_leaf c = false -> mem_str name (oc_format_force c) = false ->
  value_inline c (nested_value [] P) ->
  expand_markup_str x (name ++ c_lbrace :: payload_text P ++ [c_rbrace]) =
    Ok (c_lt :: tag_name c name ++ [c_gt] ++ payload_out [] P ++ [c_lt; c_slash] ++ tag_name c name ++ [c_gt]).
Proof.
  cbv zeta. intros Hname Hok Htext Hsnip Hlorem Hbem [Hs1 [Hs2 Hs3]] Hcom Hleaf Hforce Hval.
  unfold expand_markup_str, expand_markup.
  rewrite (markup_parse_nested (xc_m x) name P Hname Hok Htext Hsnip Hlorem Hbem). cbn [bind].
  unfold stringify_markup. rewrite Hs1, Hs2, Hs3.
  pose proof Hname as [Hne HF].
  rewrite (html_leaf_value (xc_o x) name (nested_value [] P) None false Hne Hcom Hleaf Hforce (tag_name_nl_free _ _ HF)
             ltac:(constructor) Hval).
  rewrite leaf_tail_open. rewrite nonempty_nested_value, value_text_same, nested_value_text.
  reflexivity.
Qed.
