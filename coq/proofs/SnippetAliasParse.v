(* C14, the parsing side of "alias = definition": a snippet key written over letters, ASCII digits,
   `-`, `_`, `:`, `!` (every key of the built-in html / xsl / pug tables is of this form: `a:link`,
   `link:css`, `cc:ie`, `!`, `!!!:4t`, `input:t` ...; the first character is unrestricted) is read by the tokenizer as ONE
   literal token, by the parser as one element, by the converter (no wrap text) as one bare node.
   Hence markup_parse / expand of the key alone = markup_parse / expand of its definition, for every
   table that is acyclic from that definition (proofs/SnippetAcyclic.v). *)
From Coq Require Import List NArith ZArith Bool Lia.
From Emmet Require Import lib.Base model.MarkupTokenizer model.MarkupParser model.MarkupConvert
     model.MarkupResolve model.OutStream model.FormatHtml model.FormatIndent model.MarkupExpand.
From Emmet Require Import proofs.ParserSpine proofs.TokenizeRender proofs.ExpandRepeat proofs.ExpandGroupsTok
     proofs.AttrProofs proofs.SnippetProofs proofs.SnippetAcyclic.
Import ListNotations.

(* ------------------------------------------------------------------ key texts *)
Definition keyc (c : char) : bool := namec c || (c =? c_excl)%N.
Definition key_text (k : str) : bool := match k with [] => false | _ :: _ => forallb keyc k end.

Lemma keyc_cases c : keyc c = true -> namec c = true \/ c = c_excl.
Proof.
  unfold keyc. intro H. apply orb_true_iff in H. destruct H as [H|H]; [left; exact H|right; apply N.eqb_eq; exact H].
Qed.

Local Open Scope N_scope.
Lemma keyc_not c k : keyc c = true ->
  (k < 33 \/ 33 < k < 45 \/ 45 < k < 48 \/ 58 < k < 65 \/ 90 < k < 95 \/ 95 < k < 97 \/ 122 < k) -> (c =? k) = false.
Proof.
  intros H Hk. apply keyc_cases in H. destruct H as [H|H].
  - apply namec_range in H. apply N.eqb_neq. lia.
  - subst c. unfold c_excl. apply N.eqb_neq. lia.
Qed.
Local Close Scope N_scope.

Lemma keyc_operator c : keyc c = true -> operator_type c = None.
Proof. intro H. apply keyc_cases in H. destruct H as [H|H]; [apply namec_operator; exact H|subst; reflexivity]. Qed.
Lemma keyc_element_name c : keyc c = true -> is_element_name c = true.
Proof. intro H. apply keyc_cases in H. destruct H as [H|H]; [apply namec_element_name; exact H|subst; vm_compute; reflexivity]. Qed.
Lemma keyc_not_space c : keyc c = true -> is_space c = false.
Proof. intro H. apply keyc_cases in H. destruct H as [H|H]; [apply namec_not_space; exact H|subst; reflexivity]. Qed.
Lemma keyc_not_quote c : keyc c = true -> is_quote c = false.
Proof. intro H. apply keyc_cases in H. destruct H as [H|H]; [apply namec_not_quote; exact H|subst; reflexivity]. Qed.
Lemma keyc_not_bracket c : keyc c = true -> bracket_type c = None.
Proof. intro H. apply keyc_cases in H. destruct H as [H|H]; [apply namec_not_bracket; exact H|subst; reflexivity]. Qed.

(* ------------------------------------------------------------------ tokenizer: one literal *)
Lemma lit_key : forall name prev,
  Forall (fun c => keyc c = true) name ->
  lit None 0 0 0 prev false name = (name, length name, 0%Z).
Proof.
  induction name as [|c name IH]; intros prev Hn; [reflexivity|].
  inversion Hn as [|x l Hc Hn']; subst. cbn [length lit].
  rewrite (keyc_not c c_bslash Hc) by (unfold c_bslash; lia).
  rewrite (keyc_not c c_slash Hc) by (unfold c_slash; lia).
  rewrite (keyc_not c c_dollar Hc) by (unfold c_dollar; lia).
  cbn [andb orb]. unfold is_allowed_operator at 1. rewrite (keyc_operator c Hc).
  cbn [truthy Z.eqb negb]. rewrite (keyc_element_name c Hc). cbn [negb andb].
  unfold is_allowed_space, is_allowed_repeater. rewrite (keyc_not_space c Hc).
  rewrite (keyc_not c c_star Hc) by (unfold c_star; lia).
  rewrite (keyc_not_quote c Hc), (keyc_not_bracket c Hc). cbn [andb orb].
  rewrite (IH (Some c) Hn'). reflexivity.
Qed.

Lemma consume_key c name prev :
  Forall (fun c => keyc c = true) (c :: name) ->
  consume ctx0 prev (c :: name) = (CTok (TLiteral (c :: name)) (length (c :: name)), ctx0).
Proof.
  intros Hn. assert (Hc : keyc c = true) by (inversion Hn; assumption).
  unfold consume, ctx0. cbn [cexpr cattr cquote cgroup].
  assert (Hf : field (mkCtx 0 0 0 None) (c :: name) = CNone) by reflexivity.
  rewrite Hf. cbn [orelse].
  assert (Hrp : repeater_placeholder (c :: name) = CNone).
  { unfold repeater_placeholder. destruct name; [reflexivity|].
    rewrite (keyc_not c c_dollar Hc) by (unfold c_dollar; lia). reflexivity. }
  rewrite Hrp. cbn [orelse].
  assert (Hrn : repeater_number (c :: name) = CNone).
  { unfold repeater_number. cbn [span]. rewrite N.eqb_sym.
    rewrite (keyc_not c c_dollar Hc) by (unfold c_dollar; lia). reflexivity. }
  rewrite Hrn. cbn [orelse].
  assert (Hr : repeater (mkCtx 0 0 0 None) (c :: name) = CNone).
  { unfold repeater, is_allowed_repeater.
    rewrite (keyc_not c c_star Hc) by (unfold c_star; lia). reflexivity. }
  rewrite Hr. cbn [orelse].
  assert (Hw : white_space (c :: name) = CNone).
  { unfold white_space. cbn [span]. rewrite (keyc_not_space c Hc). reflexivity. }
  rewrite Hw.
  change (Z.min 0 1) with 0%Z.
  rewrite (lit_key (c :: name) prev Hn). cbn [length]. reflexivity.
Qed.

Definition key_tok (k : str) : token := mkTok (TLiteral k) 0 (length k).

Theorem tokenize_key k : key_text k = true -> tokenize k = TOk [key_tok k].
Proof.
  intro H. destruct k as [|c name]; [discriminate|]. cbn [key_text] in H.
  assert (Hn : Forall (fun c => keyc c = true) (c :: name)).
  { apply Forall_forall. apply forallb_forall. exact H. }
  unfold tokenize.
  pose proof (toks_step (c :: name) [] ctx0 None 0 (TLiteral (c :: name)) ctx0 ltac:(discriminate)) as S.
  rewrite app_nil_r in S. rewrite (S (consume_key c name None Hn)). reflexivity.
Qed.

(* ------------------------------------------------------------------ parser: one element *)
Lemma element_name_key jsx t v : tk t = TLiteral v -> element_name jsx [t] = 1.
Proof.
  intro Ht. unfold element_name. cbn [hd_is tl jsx_chain].
  assert (Hn : is_element_name_tok t = true) by (unfold is_element_name_tok; rewrite Ht; reflexivity).
  destruct (jsx && is_capitalized_literal t).
  - cbn [skipn span_tok Nat.add]. reflexivity.
  - cbn [skipn span_tok Nat.add]. rewrite Hn. reflexivity.
Qed.

Lemma element_key jsx t v : tk t = TLiteral v ->
  element jsx [t] = POk (Some (TElem (Some [t]) None None None false [], 1)).
Proof.
  intro Ht. unfold element. rewrite (element_name_key jsx t v Ht). reflexivity.
Qed.

Lemma parse_key jsx k : parse jsx [key_tok k] = POk [TElem (Some [key_tok k]) None None None false []].
Proof.
  unfold parse. cbn [stmts]. rewrite (element_key jsx (key_tok k) k eq_refl). reflexivity.
Qed.

(* ------------------------------------------------------------------ converter: one bare node *)
Definition bare (k : str) : anode := ANode (Some k) None None None [] false.

Theorem parse_abbr_key jsx env mr k :
  key_text k = true -> ce_text env = WNone ->
  parse_abbr jsx env mr k = Ok [bare k].
Proof.
  intros Hk Ht. unfold parse_abbr. rewrite (tokenize_key k Hk).
  rewrite (parse_key jsx k).
  unfold convert. cbn [conv_list conv_stmt nonempty stringify_name]. unfold stringify, key_tok. cbn [tk bind].
  rewrite app_nil_r. destruct k as [|c name]; [discriminate|]. cbn [bind app]. rewrite Ht. reflexivity.
Qed.

(* ------------------------------------------------------------------ alias = definition, markup_parse / expand *)
(* what markup.parse reads the abbreviation with *)
Definition outer_env (cfg : mconfig) : cenv := mkCenv (mc_text cfg) (mc_variables cfg) (mc_href cfg).

(* the definition text is read the same way when it is written in the abbreviation as when resolve()
   takes it from the table: resolve() parses with jsx off, without wrap text and with
   user_config['max_repeat'] only.  This is the exact condition; [same_reading_plain] gives the
   configuration-level sufficient condition. *)
Definition same_reading (cfg : mconfig) (d : str) : Prop :=
  parse_abbr (mc_jsx cfg) (outer_env cfg) (mc_max_repeat cfg) d = parse_def cfg d.

Lemma same_reading_plain cfg d :
  mc_jsx cfg = false -> mc_text cfg = WNone -> mc_max_repeat cfg = mc_max_repeat_snip cfg -> same_reading cfg d.
Proof.
  intros Hj Ht Hm. unfold same_reading, parse_def, outer_env, snippet_env. rewrite Hj, Ht, Hm. reflexivity.
Qed.

Lemma bind_assoc {A B C} (r : res A) (f : A -> res B) (g : B -> res C) :
  bind (bind r f) g = bind r (fun x => bind (f x) g).
Proof. destruct r; reflexivity. Qed.

Theorem alias_eq_definition : forall cfg k d,
  key_text k = true ->
  def_of cfg (Some k) = Some d -> self_free cfg d = true ->
  mc_text cfg = WNone -> same_reading cfg d ->
  markup_parse cfg k = markup_parse cfg d.
Proof.
  intros cfg k d Hk Hd Hac Ht Hsr. unfold markup_parse. fold (outer_env cfg).
  rewrite (parse_abbr_key (mc_jsx cfg) (outer_env cfg) (mc_max_repeat cfg) k Hk Ht). cbn [bind].
  fold (full_fuel cfg). unfold bare. rewrite (alias_eq_definition_tree cfg k d Hd Hac).
  rewrite Hsr. unfold resolve_def. rewrite bind_assoc. reflexivity.
Qed.

Corollary alias_eq_definition_expand : forall x k d,
  key_text k = true ->
  def_of (xc_m x) (Some k) = Some d -> self_free (xc_m x) d = true ->
  mc_text (xc_m x) = WNone -> same_reading (xc_m x) d ->
  expand_markup_str x k = expand_markup_str x d.
Proof.
  intros x k d Hk Hd Hac Ht Hsr. unfold expand_markup_str, expand_markup.
  rewrite (alias_eq_definition (xc_m x) k d Hk Hd Hac Ht Hsr). reflexivity.
Qed.

(* the semantic form: the definition does not reach itself through the names it mentions *)
Corollary alias_eq_definition_not_reaching : forall cfg k d,
  key_text k = true -> def_of cfg (Some k) = Some d -> ~ reaches cfg d d ->
  mc_text cfg = WNone -> same_reading cfg d ->
  markup_parse cfg k = markup_parse cfg d.
Proof.
  intros cfg k d Hk Hd Hr Ht Hs. apply alias_eq_definition; try assumption. apply self_free_of_not_reaching. exact Hr.
Qed.

(* the whole-table form: every key of an acyclic table *)
Corollary alias_eq_definition_table : forall cfg k d,
  acyclic_table cfg = true ->
  key_text k = true -> def_of cfg (Some k) = Some d ->
  mc_jsx cfg = false -> mc_text cfg = WNone -> mc_max_repeat cfg = mc_max_repeat_snip cfg ->
  markup_parse cfg k = markup_parse cfg d.
Proof.
  intros cfg k d Hac Hk Hd Hj Ht Hm. apply alias_eq_definition; try assumption.
  - apply self_free_of_acyclic_table; [apply (def_of_value cfg (Some k) d Hd)|exact Hac].
  - apply same_reading_plain; assumption.
Qed.

(* ------------------------------------------------------------------ why acyclicity is needed *)
(* two snippets that mention each other: a = `b.x`, b = `a.y`.  The alias `a` stops at the guard one
   level later than its definition written in place: <a class="y x"> against <b class="x y x">.
   Resolution terminates on both sides (C14_resolve_terminates); the outputs differ. *)
Definition cyc_cfg : mconfig :=
  mkMConfig [104;116;109;108]%N [([97]%N, [98;46;120]%N); ([98]%N, [97;46;121]%N)] [] WNone None None false None [] false false
            false [] [] None.

Example cyclic_cut_refuted :
  key_text [97]%N = true /\ def_of cyc_cfg (Some [97]%N) = Some [98;46;120]%N /\
  same_reading cyc_cfg [98;46;120]%N /\ mc_text cyc_cfg = WNone /\
  self_free cyc_cfg [98;46;120]%N = false /\
  (exists t1 t2, markup_parse cyc_cfg [97]%N = Ok t1 /\ markup_parse cyc_cfg [98;46;120]%N = Ok t2 /\ t1 <> t2).
Proof.
  split; [reflexivity|]. split; [reflexivity|]. split; [reflexivity|]. split; [reflexivity|].
  split; [vm_compute; reflexivity|].
  eexists. eexists. split; [vm_compute; reflexivity|]. split; [vm_compute; reflexivity|].
  intro H. discriminate H.
Qed.

(* why `text` must be absent (not merely empty): with text = '' the converter writes the empty text
   on the alias node and that value overrides the definition's text *)
Definition txt_cfg : mconfig :=
  mkMConfig [104;116;109;108]%N [([120]%N, [112;123;104;105;125]%N)] [] (WStr []) None None false None [] false false
            false [] [] None.
Example empty_text_differs :
  self_free txt_cfg [112;123;104;105;125]%N = true /\
  (exists t1 t2, markup_parse txt_cfg [120]%N = Ok t1 /\ markup_parse txt_cfg [112;123;104;105;125]%N = Ok t2 /\ t1 <> t2).
Proof.
  split; [vm_compute; reflexivity|].
  eexists. eexists. split; [vm_compute; reflexivity|]. split; [vm_compute; reflexivity|].
  intro H. discriminate H.
Qed.

(* non-vacuity of the theorem: an acyclic user table with nested aliases, a multi-node definition and
   a key with `:` *)
Definition acy_cfg : mconfig :=
  mkMConfig [104;116;109;108]%N
            [([117;58;120]%N, [118;46;99;43;112]%N);          (* u:x = v.c+p *)
             ([118]%N, [100;105;118;62;119]%N);               (* v = div>w *)
             ([119]%N, [115;112;97;110;123;104;105;125]%N)]   (* w = span{hi} *)
            [] WNone None None false None [] false false false [] [] None.
Example alias_eq_definition_nonvacuous :
  acyclic_table acy_cfg = true /\ key_text [117;58;120]%N = true /\
  def_of acy_cfg (Some [117;58;120]%N) = Some [118;46;99;43;112]%N /\
  exists t, markup_parse acy_cfg [117;58;120]%N = Ok t /\ length t = 2.
Proof.
  split; [vm_compute; reflexivity|]. split; [reflexivity|]. split; [reflexivity|].
  eexists. split; [vm_compute; reflexivity|reflexivity].
Qed.

(* a cycle that does not pass through the definition is harmless: f = `a.x>b`, a = `a[href]` (the shape of
   the built-in `a`, `img`, `link` ...): the table is not acyclic from f's definition, but the
   definition does not reach itself *)
Definition loop_cfg : mconfig :=
  mkMConfig [104;116;109;108]%N
            [([102]%N, [97;46;120;62;98]%N);                 (* f = a.x>b *)
             ([97]%N, [97;91;104;114;101;102;93]%N)]         (* a = a[href] *)
            [] WNone None None false None [] false false false [] [] None.
Example self_free_weaker :
  acyclic_from loop_cfg [97;46;120;62;98]%N = false /\ self_free loop_cfg [97;46;120;62;98]%N = true /\
  exists t, markup_parse loop_cfg [102]%N = Ok t /\ markup_parse loop_cfg [97;46;120;62;98]%N = Ok t /\ length t = 1.
Proof.
  split; [vm_compute; reflexivity|]. split; [vm_compute; reflexivity|].
  eexists. split; [vm_compute; reflexivity|]. split; [vm_compute; reflexivity|reflexivity].
Qed.
