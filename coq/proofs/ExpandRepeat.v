(* C01, end to end, string level, with `*N` repeaters on elements: for every text of letter names,
   each optionally followed by `*digits`, separated by `>`, `+` and runs of `^`, `expand_markup`
   succeeds and the tag chunks of its output stream nest to the unrolled denotation: an element
   written `name*N` stands for N consecutive copies of itself with everything nested beneath it.
   Tokenizer side for `*digits` here; parser block from ParserGroups.gblock_name_rep. *)
From Emmet Require Import lib.Base model.MarkupTokenizer model.MarkupParser model.MarkupConvert
     model.MarkupResolve model.OutStream model.FormatHtml model.FormatIndent model.MarkupExpand.
From Emmet Require Import proofs.ParserSpine proofs.ParserGroups proofs.TokenizeRender proofs.NumberingProofs
     proofs.ConvertProofs proofs.HtmlEvents proofs.ExpandJsx proofs.ExpandTree proofs.ExpandFlat.
Local Open Scope nat_scope.

(* ================================================================ source-level syntax *)
(* a repeat count as written: a non-empty run of digits *)
Definition digits_ok (ds : str) : Prop := ds <> [] /\ Forall (fun c => is_number c = true) ds.
Definition digits_okb (ds : str) : bool := match ds with [] => false | _ => forallb is_number ds end.
Lemma digits_okb_ok ds : digits_okb ds = true -> digits_ok ds.
Proof.
  unfold digits_okb, digits_ok. destruct ds as [|c r]; [discriminate|]. intros H. split; [discriminate|].
  apply Forall_forall. apply forallb_forall. exact H.
Qed.

(* the number a digit run stands for (int(digits); the tokenizer's fallback 1 is never used) *)
Definition count_of (ds : str) : N := opt_default 1%N (int_of_str ds).

Definition ritem := (str * option str)%type.                   (* name, optional repeat digits *)
Definition rep_text (r : option str) : str := match r with Some ds => c_star :: ds | None => [] end.

Fixpoint render2 (xs : list (ritem * sop)) : str :=
  match xs with
  | [] => []
  | [((n, r), _)] => n ++ rep_text r
  | ((n, r), o) :: xs' => n ++ rep_text r ++ op_text o ++ render2 xs'
  end.

(* ================================================================ tokenizer: names before `*` *)
Definition stop2 (rest : str) : Prop :=
  match rest with [] => True | c :: _ => TokenizeRender.op_char c \/ c = c_star end.

Lemma lit_name2 : forall name rest prev,
  Forall (fun c => is_alpha c = true) name -> stop2 rest ->
  lit None 0 0 0 prev false (name ++ rest) = (name, length name, 0%Z).
Proof.
  induction name as [|c name IH]; intros rest prev Hn Hs.
  - cbn [app length]. destruct rest as [|c r]; [reflexivity|].
    cbn [stop2] in Hs. destruct Hs as [[-> | [-> | ->]] | ->]; reflexivity.
  - inversion Hn as [|x l Hc Hn']; subst. cbn [app length lit].
    rewrite (alpha_not c c_bslash Hc) by (unfold c_bslash; lia).
    rewrite (alpha_not c c_slash Hc) by (unfold c_slash; lia).
    rewrite (alpha_not c c_dollar Hc) by (unfold c_dollar; lia).
    cbn [andb orb]. unfold is_allowed_operator at 1. rewrite (alpha_operator c Hc).
    cbn [truthy Z.eqb negb]. rewrite (alpha_element_name c Hc). cbn [negb andb].
    unfold is_allowed_space, is_allowed_repeater. rewrite (alpha_not_space c Hc).
    rewrite (alpha_not c c_star Hc) by (unfold c_star; lia).
    rewrite (alpha_not_quote c Hc), (alpha_not_bracket c Hc). cbn [andb orb].
    rewrite (IH rest (Some c) Hn' Hs). reflexivity.
Qed.

Lemma consume_name2 name rest prev :
  name_ok name -> stop2 rest ->
  consume ctx0 prev (name ++ rest) = (CTok (TLiteral name) (length name), ctx0).
Proof.
  intros [Hne Hn] Hs. destruct name as [|c name]; [contradiction|].
  inversion Hn as [|x l Hc Hn']; subst.
  unfold consume, ctx0. cbn [cexpr cattr cquote cgroup].
  assert (Hf : field (mkCtx 0 0 0 None) ((c :: name) ++ rest) = CNone) by reflexivity.
  rewrite Hf. cbn [orelse].
  assert (Hrp : repeater_placeholder ((c :: name) ++ rest) = CNone).
  { unfold repeater_placeholder. cbn [app]. destruct (name ++ rest); [reflexivity|].
    rewrite (alpha_not c c_dollar Hc) by (unfold c_dollar; lia). reflexivity. }
  rewrite Hrp. cbn [orelse].
  assert (Hrn : repeater_number ((c :: name) ++ rest) = CNone).
  { unfold repeater_number. cbn [app span]. rewrite N.eqb_sym.
    rewrite (alpha_not c c_dollar Hc) by (unfold c_dollar; lia). reflexivity. }
  rewrite Hrn. cbn [orelse].
  assert (Hr : repeater (mkCtx 0 0 0 None) ((c :: name) ++ rest) = CNone).
  { unfold repeater, is_allowed_repeater. cbn [app].
    rewrite (alpha_not c c_star Hc) by (unfold c_star; lia). reflexivity. }
  rewrite Hr. cbn [orelse].
  assert (Hw : white_space ((c :: name) ++ rest) = CNone).
  { unfold white_space. cbn [app span]. rewrite (alpha_not_space c Hc). reflexivity. }
  rewrite Hw.
  change (Z.min 0 1) with 0%Z.
  rewrite (lit_name2 (c :: name) rest prev Hn Hs). cbn [length]. reflexivity.
Qed.

(* ================================================================ tokenizer: `*digits` *)
Lemma span_number_app ds rest :
  Forall (fun c => is_number c = true) ds -> TokenizeRender.stop rest ->
  span is_number (ds ++ rest) = length ds.
Proof.
  intros H Hs. induction H as [|c ds Hc _ IH]; cbn [app span length].
  - destruct rest as [|c r]; [reflexivity|]. cbn [TokenizeRender.stop] in Hs. cbn [span].
    destruct Hs as [-> | [-> | ->]]; reflexivity.
  - rewrite Hc, IH. reflexivity.
Qed.

Lemma consume_rep ds rest prev :
  digits_ok ds -> TokenizeRender.stop rest ->
  consume ctx0 prev (c_star :: ds ++ rest) = (CTok (TRepeater (count_of ds) 0 false) (S (length ds)), ctx0).
Proof.
  intros [Hne Hd] Hs. destruct ds as [|d ds]; [contradiction|].
  unfold consume, ctx0. cbn [cexpr cattr cquote cgroup].
  assert (Hf : field (mkCtx 0 0 0 None) (c_star :: (d :: ds) ++ rest) = CNone) by reflexivity.
  rewrite Hf. cbn [orelse].
  assert (Hrp : repeater_placeholder (c_star :: (d :: ds) ++ rest) = CNone) by reflexivity.
  rewrite Hrp. cbn [orelse].
  assert (Hrn : repeater_number (c_star :: (d :: ds) ++ rest) = CNone) by reflexivity.
  rewrite Hrn. cbn [orelse].
  assert (Hr : repeater (mkCtx 0 0 0 None) (c_star :: (d :: ds) ++ rest) =
               CTok (TRepeater (count_of (d :: ds)) 0 false) (S (length (d :: ds)))).
  { unfold repeater. change (is_allowed_repeater c_star (mkCtx 0 0 0 None)) with true. cbn [andb cquote].
    rewrite (span_number_app (d :: ds) rest Hd Hs). cbn [length].
    change (d :: ds ++ rest) with ((d :: ds) ++ rest).
    replace (firstn (S (length ds)) ((d :: ds) ++ rest)) with (d :: ds); [reflexivity|].
    change (S (length ds)) with (length (d :: ds)). rewrite firstn_app, Nat.sub_diag, firstn_all. cbn [firstn]. rewrite app_nil_r. reflexivity. }
  rewrite Hr. reflexivity.
Qed.

(* ================================================================ laying out a statement *)
Definition rep_of_digits (r : option str) : option rep :=
  match r with Some ds => Some (mkRep (count_of ds) 0 false) | None => None end.
Definition rep_toks_at (r : option str) (pos : nat) : list token :=
  match r with Some ds => [mkTok (TRepeater (count_of ds) 0 false) pos (pos + S (length ds))] | None => [] end.
Definition item_leaf (it : ritem) (pos : nat) : leaf :=
  mkLeaf (Some [name_tok (fst it) pos]) None None (rep_of_digits (snd it)) false.
Definition item_len (it : ritem) : nat := length (fst it) + length (rep_text (snd it)).
Definition item_toks (it : ritem) (pos : nat) : list token :=
  name_tok (fst it) pos :: rep_toks_at (snd it) (pos + length (fst it)).

Fixpoint lay2 (pos : nat) (xs : list (ritem * sop)) : list (leaf * sop) * list token :=
  match xs with
  | [] => ([], [])
  | (it, o) :: xs' =>
      match xs' with
      | [] => ([(item_leaf it pos, SSibling)], item_toks it pos)
      | _ :: _ =>
          let ots := op_toks o (pos + item_len it) in
          let '(ls, ts) := lay2 (pos + item_len it + length (op_text o)) xs' in
          ((item_leaf it pos, o) :: ls, item_toks it pos ++ ots ++ ts)
      end
  end.

Definition item_ok (it : ritem) : Prop :=
  name_ok (fst it) /\ match snd it with Some ds => digits_ok ds | None => True end.

Lemma stop_stop2 rest : TokenizeRender.stop rest -> stop2 rest.
Proof. destruct rest; cbn; auto. Qed.

(* the tokens of one item, followed by an operator or the end of the text *)
Lemma item_run it rest prev pos :
  item_ok it -> TokenizeRender.stop rest ->
  exists prev',
  toks 0 ctx0 prev pos (fst it ++ rep_text (snd it) ++ rest) =
    match toks 0 ctx0 prev' (pos + item_len it) rest with
    | TOk l => TOk (item_toks it pos ++ l)
    | TErr p => TErr p
    end.
Proof.
  destruct it as [n [ds|]]; unfold item_ok, item_len, item_toks; cbn [fst snd rep_text rep_toks_at]; intros [Hn Hd] Hs.
  - exists (lastc (c_star :: ds)).
    rewrite (toks_step n _ ctx0 prev pos (TLiteral n) ctx0); [|apply Hn|].
    + change ((c_star :: ds) ++ rest) with ((c_star :: ds) ++ rest).
      rewrite (toks_step (c_star :: ds) rest ctx0 (lastc n) (pos + length n) (TRepeater (count_of ds) 0 false) ctx0);
        [|discriminate|cbn [app length]; apply consume_rep; assumption].
      cbn [length]. rewrite Nat.add_assoc.
      destruct (toks 0 ctx0 (lastc (c_star :: ds)) (pos + length n + S (length ds)) rest); reflexivity.
    + apply consume_name2; [exact Hn|]. cbn [app stop2]. right. reflexivity.
  - exists (lastc n). cbn [app length]. rewrite Nat.add_0_r.
    rewrite (toks_step n rest ctx0 prev pos (TLiteral n) ctx0); [|apply Hn|apply consume_name2; [exact Hn|apply stop_stop2, Hs]].
    destruct (toks 0 ctx0 (lastc n) (pos + length n) rest); reflexivity.
Qed.

Theorem toks_render2 : forall xs pos prev,
  Forall item_ok (map fst xs) ->
  toks 0 ctx0 prev pos (render2 xs) = TOk (snd (lay2 pos xs)).
Proof.
  induction xs as [|[it o] xs' IH]; intros pos prev H; [reflexivity|].
  cbn [map fst] in H. inversion H as [|x l Hn Hr]; subst.
  destruct xs' as [|y xs''].
  - destruct it as [n r]. cbn [render2 lay2 snd].
    destruct (item_run (n, r) [] prev pos Hn I) as [prev' E]. cbn [fst snd] in E. rewrite !app_nil_r in E.
    rewrite E. cbn [toks]. rewrite app_nil_r. reflexivity.
  - assert (Er : render2 ((it, o) :: y :: xs'') = fst it ++ rep_text (snd it) ++ op_text o ++ render2 (y :: xs''))
      by (destruct it; reflexivity).
    rewrite Er.
    destruct (item_run it (op_text o ++ render2 (y :: xs'')) prev pos Hn (op_text_stop o _)) as [prev1 E1]. rewrite E1.
    destruct (op_toks_run o (render2 (y :: xs'')) prev1 (pos + item_len it)) as [prev2 E2]. rewrite E2.
    rewrite (IH (pos + item_len it + length (op_text o)) prev2 Hr).
    change (lay2 pos ((it, o) :: y :: xs'')) with
      (let '(ls, ts) := lay2 (pos + item_len it + length (op_text o)) (y :: xs'') in
       ((item_leaf it pos, o) :: ls, item_toks it pos ++ op_toks o (pos + item_len it) ++ ts)).
    destruct (lay2 (pos + item_len it + length (op_text o)) (y :: xs'')) as [ls ts]. reflexivity.
Qed.

(* ================================================================ the tokens form a statement of the parser theorem *)
Lemma item_block jsx it pos : gblock_ok jsx (item_toks it pos) (item_leaf it pos).
Proof.
  destruct it as [n [ds|]]; unfold item_toks, item_leaf; cbn [fst snd rep_toks_at rep_of_digits].
  - eapply gblock_name_rep_j; reflexivity.
  - eapply gblock_name_j; reflexivity.
Qed.

Theorem lay2_gflat jsx : forall xs pos, gflat jsx (gs (fst (lay2 pos xs))) (snd (lay2 pos xs)).
Proof.
  induction xs as [|[it o] xs' IH]; intros pos; [apply gf_nil|].
  destruct xs' as [|y xs''].
  - cbn [lay2 fst snd gs map]. apply gf_last. apply ut_elem. apply item_block.
  - change (lay2 pos ((it, o) :: y :: xs'')) with
      (let '(ls, ts) := lay2 (pos + item_len it + length (op_text o)) (y :: xs'') in
       ((item_leaf it pos, o) :: ls, item_toks it pos ++ op_toks o (pos + item_len it) ++ ts)).
    specialize (IH (pos + item_len it + length (op_text o))).
    destruct (lay2 (pos + item_len it + length (op_text o)) (y :: xs'')) as [ls ts]. cbn [fst snd gs map] in *.
    apply gf_cons; [apply ut_elem; apply item_block|apply op_toks_tokens|discriminate|exact IH].
Qed.

(* ================================================================ SPEC: the unrolled denotation *)
(* (depth, name, number of copies) of every written element, by the depth-counter semantics *)
Definition copies_of (r : option str) : N :=
  match r with Some ds => let k := count_of ds in if (k =? 0)%N then 1%N else k | None => 1%N end.
Fixpoint sdenote2 (d : nat) (xs : list (ritem * sop)) : list (nat * str * N) :=
  match xs with
  | [] => []
  | ((n, r), o) :: xs' => (d, n, copies_of r) :: sdenote2 (next_depth d o) xs'
  end.

Fixpoint prefix_len {A} (p : A -> bool) (l : list A) : nat :=
  match l with x :: r => if p x then S (prefix_len p r) else 0 | [] => 0 end.
Definition deeper (d : nat) (x : nat * str * N) : bool := d <? fst (fst x).
Definition ncopies {A} (k : nat) (once : list A) : list A := flat_map (fun _ => once) (nseq k 0%N).

(* an element with count k stands for k consecutive copies of itself followed by everything
   written deeper right after it (its descendants, unrolled the same way); then the rest *)
Fixpoint unrollD (fuel : nat) (l : list (nat * str * N)) : list (nat * str) :=
  match fuel with
  | O => []
  | S f =>
      match l with
      | [] => []
      | (d, n, k) :: rest =>
          let m := prefix_len (deeper d) rest in
          ncopies (N.to_nat k) ((d, n) :: unrollD f (firstn m rest)) ++ unrollD f (skipn m rest)
      end
  end.
Definition unrollS (xs : list (ritem * sop)) : list (nat * str) := unrollD (length xs) (sdenote2 0 xs).

(* ================================================================ token trees of elements only *)
Fixpoint elems (n : tnode) : bool :=
  match n with TElem _ _ _ _ _ els => forallb elems els | TGroup _ _ => false end.

Definition elem_mark (P : str -> bool) (m : mark) : Prop :=
  match m with MElem _ l => named_leaf P l = true | _ => False end.

Lemma elem_node P : forall n d, Forall (elem_mark P) (preM d n) -> named P n = true /\ elems n = true.
Proof.
  induction n as [a b c r s els IH|els r IH] using tnode_ind'; intros d H.
  - rewrite preM_elem in *. inversion H as [|m ms Hm Hms]; subst. cbn [elem_mark] in Hm.
    assert (Hk : forall k, In k els -> named P k = true /\ elems k = true).
    { intros k Hk. rewrite Forall_forall in IH. apply (IH k Hk (S d)). apply (Forall_flat_map_inv _ _ _ Hms k Hk). }
    split.
    + cbn [named]. rewrite Hm. cbn [andb]. apply forallb_forall. intros k Hk'. apply (Hk k Hk').
    + cbn [elems]. apply forallb_forall. intros k Hk'. apply (Hk k Hk').
  - rewrite preM_group in H. inversion H as [|m ms Hm _]; subst. contradiction.
Qed.

Lemma elem_forest P l d : Forall (elem_mark P) (preML d l) -> forallb (named P) l = true /\ forallb elems l = true.
Proof.
  intros H.
  assert (Hk : forall k, In k l -> named P k = true /\ elems k = true).
  { intros k Hk. apply (elem_node P k d). apply (Forall_flat_map_inv _ _ _ H k Hk). }
  split; apply forallb_forall; intros k Hk'; apply (Hk k Hk').
Qed.

(* (depth, name, copies) read off the marks *)
Definition leaf_copies (l : leaf) : N := match lf_repeat l with Some r => written_count r | None => 1%N end.
Definition mrep (m : mark) : list (nat * str * N) :=
  match m with MElem d l => [(d, leaf_name l, leaf_copies l)] | _ => [] end.
Definition dlist (d : nat) (l : list tnode) : list (nat * str * N) := flat_map mrep (preML d l).

Lemma ncopies_one {A} (once : list A) : ncopies 1 once = once.
Proof. unfold ncopies. cbn [nseq flat_map]. apply app_nil_r. Qed.

Lemma nshape_elem d a b c r s els :
  nshape d (TElem a b c r s els) =
  ncopies (N.to_nat (leaf_copies (mkLeaf a b c r s))) ((d, leaf_name (mkLeaf a b c r s)) :: flat_map (nshape (S d)) els).
Proof.
  rewrite nshape_unfold. cbn [node_rep nshape_once]. unfold leaf_copies. cbn [lf_repeat].
  destruct r as [r0|]; [reflexivity|]. change (N.to_nat 1) with 1. rewrite ncopies_one. reflexivity.
Qed.

Lemma dlist_cons d a b c r s els l :
  dlist d (TElem a b c r s els :: l) =
  (d, leaf_name (mkLeaf a b c r s), leaf_copies (mkLeaf a b c r s)) :: dlist (S d) els ++ dlist d l.
Proof.
  unfold dlist. cbn [preML flat_map]. rewrite preM_elem. cbn [app flat_map mrep]. rewrite flat_map_app. reflexivity.
Qed.

Lemma dlist_depth : forall l d, forallb elems l = true -> Forall (fun x => d <= fst (fst x)) (dlist d l).
Proof.
  assert (Hn : forall n, elems n = true -> forall d, Forall (fun x => d <= fst (fst x)) (dlist d [n])).
  { induction n as [a b c r s els IH|els r IH] using tnode_ind'; intros He d; [|discriminate].
    rewrite dlist_cons. cbn [elems] in He. constructor; [cbn; lia|]. apply Forall_app. split; [|constructor].
    unfold dlist, preML. rewrite flat_map_flat_map. apply Forall_flat_map. intros k Hk.
    rewrite Forall_forall in IH. rewrite forallb_forall in He. specialize (IH k Hk (He k Hk) (S d)).
    unfold dlist, preML in IH. cbn [flat_map] in IH. rewrite app_nil_r in IH.
    eapply Forall_impl; [|exact IH]. cbn beta. intros x Hx. lia. }
  intros l d He. unfold dlist, preML. rewrite flat_map_flat_map. apply Forall_flat_map. intros k Hk.
  rewrite forallb_forall in He. specialize (Hn k (He k Hk) d). unfold dlist, preML in Hn. cbn [flat_map] in Hn.
  rewrite app_nil_r in Hn. exact Hn.
Qed.

Lemma prefix_len_app {A} (p : A -> bool) a b :
  Forall (fun x => p x = true) a -> match b with [] => True | x :: _ => p x = false end ->
  prefix_len p (a ++ b) = length a.
Proof.
  intros Ha Hb. induction Ha as [|x a Hx _ IH]; cbn [app prefix_len length].
  - destruct b as [|y b]; [reflexivity|]. cbn [prefix_len]. rewrite Hb. reflexivity.
  - rewrite Hx, IH. reflexivity.
Qed.

Lemma dlist_head l d : forallb elems l = true ->
  match dlist d l with [] => True | x :: _ => deeper d x = false end.
Proof.
  destruct l as [|n l]; [intros; exact I|]. intros He. cbn [forallb] in He. apply andb_prop in He. destruct He as [He _].
  destruct n as [a b c r s els|els r]; [|discriminate]. rewrite dlist_cons. unfold deeper. cbn [fst]. apply Nat.ltb_irrefl.
Qed.

(* unrolling the depth list = unrolling the tree *)
Theorem unrollD_forest : forall fuel l d,
  forallb elems l = true -> length (dlist d l) <= fuel ->
  unrollD fuel (dlist d l) = flat_map (nshape d) l.
Proof.
  induction fuel as [|f IH]; intros l d He Hlen.
  - destruct l as [|n l]; [reflexivity|]. cbn [forallb] in He. apply andb_prop in He. destruct He as [He _].
    destruct n as [a b c r s els|els r]; [|discriminate]. rewrite dlist_cons in Hlen. cbn [length] in Hlen. lia.
  - destruct l as [|n l]; [reflexivity|]. cbn [forallb] in He. apply andb_prop in He. destruct He as [He Hl].
    destruct n as [a b c r s els|els r]; [|discriminate]. cbn [elems] in He.
    rewrite dlist_cons in *. cbn [length] in Hlen. rewrite app_length in Hlen.
    cbn [unrollD flat_map].
    assert (Hm : prefix_len (deeper d) (dlist (S d) els ++ dlist d l) = length (dlist (S d) els)).
    { apply prefix_len_app; [|apply dlist_head; exact Hl].
      eapply Forall_impl; [|apply (dlist_depth els (S d) He)]. cbn beta. intros x Hx. unfold deeper. apply Nat.ltb_lt. lia. }
    rewrite Hm. rewrite firstn_app, Nat.sub_diag, firstn_all. cbn [firstn]. rewrite app_nil_r.
    rewrite skipn_app, Nat.sub_diag, skipn_all. cbn [skipn app].
    rewrite (IH els (S d) He) by lia. rewrite (IH l d Hl) by lia. rewrite nshape_elem. reflexivity.
Qed.

(* the number of completed copies never exceeds the number of elements produced *)
Lemma ncopies_length {A} k (once : list A) : length (ncopies k once) = k * length once.
Proof.
  unfold ncopies. generalize 0%N. induction k as [|k IH]; intros i; [reflexivity|].
  cbn [nseq flat_map]. rewrite app_length, IH. lia.
Qed.

Lemma total_le_size : forall n d, elems n = true -> (total n <= Z.of_nat (length (nshape d n)))%Z.
Proof.
  induction n as [a b c r s els IH|els r IH] using tnode_ind'; intros d He; [|discriminate].
  cbn [elems] in He. rewrite nshape_elem, ncopies_length. cbn [length].
  assert (Hin : (inner_total (TElem a b c r s els) <= Z.of_nat (length (flat_map (nshape (S d)) els)))%Z).
  { unfold inner_total. cbn [elements_of']. clear -IH He. induction els as [|k els IHe]; [cbn; lia|].
    inversion IH as [|x y Hk Hr]; subst. cbn [forallb] in He. apply andb_prop in He. destruct He as [H1 H2].
    cbn [map zsum fold_right flat_map]. fold (zsum (map total els)). rewrite app_length, Nat2Z.inj_add.
    specialize (Hk (S d) H1). specialize (IHe Hr H2). lia. }
  assert (Hnn : (0 <= inner_total (TElem a b c r s els))%Z).
  { unfold inner_total. apply zsum_nonneg. apply Forall_map. apply Forall_forall. intros; apply total_nonneg. }
  rewrite total_unfold. cbn [node_rep]. unfold leaf_copies. cbn [lf_repeat]. destruct r as [r0|].
  - pose proof (written_count_pos r0). rewrite Nat2Z.inj_mul, N_nat_Z. rewrite Nat2Z.inj_succ. nia.
  - change (N.to_nat 1) with 1. lia.
Qed.

Lemma total_list_le_size l d : forallb elems l = true -> (total_list l <= Z.of_nat (length (flat_map (nshape d) l)))%Z.
Proof.
  unfold total_list. induction l as [|n l IH]; intros He; [cbn; lia|].
  cbn [forallb] in He. apply andb_prop in He. destruct He as [H1 H2].
  cbn [map zsum fold_right flat_map]. fold (zsum (map total l)). rewrite app_length, Nat2Z.inj_add.
  pose proof (total_le_size n d H1). specialize (IH H2). lia.
Qed.

(* ================================================================ the marks of a laid-out statement *)
Lemma named_item_leaf P it pos :
  P (fst it) = true ->
  named_leaf P (item_leaf it pos) = true /\ leaf_name (item_leaf it pos) = fst it /\
  leaf_copies (item_leaf it pos) = copies_of (snd it).
Proof.
  intros H. destruct it as [n [ds|]]; unfold named_leaf, leaf_name, leaf_copies, item_leaf, lit_name, name_tok, copies_of;
    cbn [fst snd lf_name lf_attrs lf_value lf_self lf_repeat tk rep_of_digits clean_rep rimplicit negb] in *;
    rewrite H; repeat split; reflexivity.
Qed.

Lemma lay2_marks P : forall xs pos d,
  Forall (fun it => P (fst it) = true) (map fst xs) ->
  Forall (elem_mark P) (map (fun x => MElem (fst x) (snd x)) (denote d (fst (lay2 pos xs)))) /\
  flat_map mrep (map (fun x => MElem (fst x) (snd x)) (denote d (fst (lay2 pos xs)))) = sdenote2 d xs.
Proof.
  induction xs as [|[it o] xs' IH]; intros pos d H; [split; [constructor|reflexivity]|].
  cbn [map fst] in H. inversion H as [|x l Hn Hr]; subst.
  destruct (named_item_leaf P it pos Hn) as [Hl [Hnm Hcp]].
  destruct xs' as [|y xs''].
  - cbn [lay2 fst denote map snd flat_map mrep app]. rewrite Hnm, Hcp. destruct it as [n r]. split; [|reflexivity].
    constructor; [exact Hl|constructor].
  - change (lay2 pos ((it, o) :: y :: xs'')) with
      (let '(ls, ts) := lay2 (pos + item_len it + length (op_text o)) (y :: xs'') in
       ((item_leaf it pos, o) :: ls, item_toks it pos ++ op_toks o (pos + item_len it) ++ ts)).
    specialize (IH (pos + item_len it + length (op_text o)) (next_depth d o) Hr).
    destruct (lay2 (pos + item_len it + length (op_text o)) (y :: xs'')) as [ls ts]. cbn [fst snd] in *.
    destruct IH as [IH1 IH2]. cbn [denote map fst snd flat_map mrep app]. rewrite Hnm, Hcp, IH2.
    destruct it as [n r]. split; [|reflexivity]. constructor; [exact Hl|exact IH1].
Qed.

Lemma sdenote2_length : forall xs d, length (sdenote2 d xs) = length xs.
Proof. induction xs as [|[[n r] o] xs IH]; intros d; [reflexivity|]. cbn [sdenote2 length]. rewrite IH. reflexivity. Qed.

(* ================================================================ C01 with element repeaters, end to end *)
Definition item_fine (x : xconfig) (it : ritem) : bool :=
  name_fine x (fst it) && match snd it with Some ds => digits_okb ds | None => true end.

(* configuration side, every written name fine, every count a digit run, and the number of
   elements of the denoted tree within the repeat budget (maxRepeat, 1000000 when not set) *)
Definition rep_ok (x : xconfig) (xs : list (ritem * sop)) : bool :=
  cfg_ok x && forallb (item_fine x) (map fst xs) &&
  (Z.of_nat (length (unrollS xs)) <=? budget_of (mc_max_repeat (xc_m x)))%Z.

Theorem expand_tree_rep (x : xconfig) (xs : list (ritem * sop)) :
  rep_ok x xs = true ->
  exists st,
    expand_markup x (render2 xs) = Ok st /\
    nestT 0 (tags st) = map (fun p => (fst p, tag_name (xc_o x) (snd p))) (unrollS xs).
Proof.
  intros H. unfold rep_ok in H. apply andb_prop in H. destruct H as [H Hbud]. apply andb_prop in H. destruct H as [Hc Hn].
  apply Z.leb_le in Hbud.
  assert (Hitems : forall it, In it (map fst xs) -> item_fine x it = true) by (apply forallb_forall; exact Hn).
  assert (Hfine : Forall (fun it => name_fine x (fst it) = true) (map fst xs)).
  { apply Forall_forall. intros it Hit. specialize (Hitems it Hit). unfold item_fine in Hitems. apply andb_prop in Hitems. apply Hitems. }
  assert (Hok : Forall item_ok (map fst xs)).
  { apply Forall_forall. intros it Hit. specialize (Hitems it Hit). unfold item_fine in Hitems. apply andb_prop in Hitems.
    destruct Hitems as [Hf Hd]. split.
    - apply good_name_ok. unfold name_fine in Hf. apply andb_prop in Hf. destruct Hf as [Hf _]. apply andb_prop in Hf. apply Hf.
    - destruct (snd it); [apply digits_okb_ok, Hd|exact I]. }
  pose proof (toks_render2 xs 0 None Hok) as Htok. fold (tokenize (render2 xs)) in Htok.
  destruct (parse_gflat (mc_jsx (xc_m x)) _ _ (lay2_gflat (mc_jsx (xc_m x)) xs 0)) as [Hp Hm].
  rewrite denoteG_gs in Hm.
  destruct (lay2_marks (name_fine x) xs 0 0 Hfine) as [Hmarks Hden].
  assert (Hm' : preML 0 (closed (grun (gs (fst (lay2 0 xs))) root0)) =
                map (fun x0 => MElem (fst x0) (snd x0)) (denote 0 (fst (lay2 0 xs)))).
  { rewrite Hm. apply map_ext. intros [d l]. reflexivity. }
  rewrite <- Hm' in Hmarks, Hden.
  set (root := closed (grun (gs (fst (lay2 0 xs))) root0)) in *.
  destruct (elem_forest (name_fine x) root 0 Hmarks) as [Hnamed Helems].
  assert (Hshape : flat_map (nshape 0) root = unrollS xs).
  { unfold unrollS. rewrite <- Hden. fold (dlist 0 root). symmetry. apply unrollD_forest; [exact Helems|].
    unfold dlist. rewrite Hden, sdenote2_length. lia. }
  destruct (expand_tree x (render2 xs) _ _ Hc Htok Hp Hnamed) as [st [He Hnest]].
  { pose proof (total_list_le_size root 0 Helems) as Hle. rewrite Hshape in Hle. lia. }
  exists st. split; [exact He|]. rewrite Hnest, Hshape. reflexivity.
Qed.
