(* C08 -- ONE history state machine over BOTH real pipeline models: markup parts = model/Markup*.v
   ([HistoryMarkup.mk_world_with]), stylesheet parts = the stylesheet model of run/HistoryStyle.v
   (snippets compared entry by entry, convert_snippets, expand_with).  After any history of markup and
   stylesheet calls -- succeeding and failing, any sharing of caller dicts and cache dicts -- a probe
   returns exactly what the stateless, cache-less pipeline model returns:
     markup probe      = expand_markup_str (the caller's configuration)   (subject of C01-C04, C12-C15)
     stylesheet probe  = expand_css                                        (subject of C05, C06)
   (Print Assumptions of the stylesheet half lists the kernel's PrimFloat/Uint63 primitives used by the
   scorer -- not axioms of ours; for that reason this file is kept out of props/C08.v, as
   proofs/HistoryWorlds.v is.  The markup half is closed and is in props/C08.v.) *)
From Coq Require Import PrimFloat List Bool.
From Emmet Require Import lib.Base lib.StyleLib gen.GenCssSnippets model.CssSnippets model.CssResolve
     model.CssFormat run.StyleShow model.History proofs.HistoryProofs proofs.ConfigProofs run.HistoryStyle
     proofs.HistoryWorlds model.MarkupResolve model.MarkupExpand run.HistoryRun proofs.HistoryMarkup.

Definition full_world : world :=
  mk_world_with (sconfig * str) (list (str * str)) (list snippet) snips_eqb
    (fun sn => to_sum (convert_fast sn))
    (fun a tb => to_sum (expand_with (fst a) tb (snd a)))
    (fun _ tb => tb).
Notation FW := full_world.

Definition full_of_res : res str -> outcome FW :=
  HistoryMarkup.of_res (sconfig * str) (list (str * str)) (list snippet) snips_eqb
    (fun sn => to_sum (convert_fast sn)) (fun a tb => to_sum (expand_with (fst a) tb (snd a))) (fun _ tb => tb).

Theorem full_markup_probe :
  forall texts (h : list (call FW)) i (x : xconfig) (abbr : str),
    outcome_in FW (History.run FW h (fresh FW texts)) (CMarkup FW i (x, abbr))
    = full_of_res (expand_markup_str (with_caller_text x (texts i)) abbr).
Proof. intros. apply markup_history_is_expand_markup. Qed.
Print Assumptions full_markup_probe.

Theorem full_css_probe :
  forall texts (h : list (call FW)) cache (cfg : sconfig) (abbr : str),
    outcome_in FW (History.run FW h (fresh FW texts)) (CCss FW cache (c_snippets cfg) (cfg, abbr))
    = full_of_res (expand_css cfg abbr).
Proof.
  intros. rewrite (history_independent FW snips_eqb_spec).
  rewrite (outcome_pure FW snips_eqb_spec) by apply fresh_inv.
  cbn [pure_outcome]. unfold css_pure, expand_css, full_of_res, HistoryMarkup.of_res.
  cbn [full_world mk_world_with w_convert w_css_expand fst snd].
  rewrite convert_fast_eq. destruct (convert_snippets (c_snippets cfg)); cbn; try reflexivity.
  destruct (expand_with cfg a abbr); reflexivity.
Qed.
Print Assumptions full_css_probe.
