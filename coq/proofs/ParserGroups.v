(* C01 with groups: the statements() loop builds exactly the tree the operators denote, for
   statements whose units are elements or parenthesised groups `( ... )` with an optional
   repeater, nested to any depth.

   Canonical form of a tree: its preorder list of marks -- an element with its depth, and a pair
   of brackets (with the group's repeater on the closing one) around the marks of a group's
   contents.  Two token trees with the same mark list are the same tree. *)
From Emmet Require Import lib.Base model.MarkupTokenizer model.MarkupParser proofs.ParserSpine.
Local Open Scope nat_scope.

(* ---------------------------------------------------------------- syntax and spec *)
Inductive gunit :=
| GE (l : leaf)                                       (* an element *)
| GG (body : list (gunit * sop)) (r : option rep).    (* ( body ) with optional *N *)
Definition gstmt := list (gunit * sop).

Inductive mark :=
| MElem (d : nat) (l : leaf)
| MOpen (d : nat)
| MClose (d : nat) (r : option rep).

(* depth-counter semantics of a statement written at depth [off]: [d] = current depth relative to
   [off]; `>` one deeper, `+` same, each `^` one up, stopping at the top of the statement (relative
   depth 0: the top of the enclosing group or of the abbreviation) *)
Definition denote_with (F : nat -> gunit -> list mark) :=
  fix go (off d : nat) (xs : gstmt) : list mark :=
    match xs with
    | [] => []
    | (u, o) :: xs' => F (off + d) u ++ go off (next_depth d o) xs'
    end.

(* a unit written at absolute depth [p]: a group contributes its contents at its own depth,
   between brackets, and is one unit for what follows *)
Fixpoint denoteU (p : nat) (u : gunit) : list mark :=
  match u with
  | GE l => [MElem p l]
  | GG body r => MOpen p :: denote_with denoteU p 0 body ++ [MClose p r]
  end.
Definition denoteG (off d : nat) (xs : gstmt) : list mark := denote_with denoteU off d xs.

(* documented grammar: `>` never directly follows a group *)
Definition is_group (u : gunit) : bool := match u with GG _ _ => true | GE _ => false end.
Definition wf_with (F : gunit -> Prop) :=
  fix go (xs : gstmt) : Prop :=
    match xs with
    | [] => True
    | (u, o) :: xs' => F u /\ (is_group u = true -> o <> SChild) /\ go xs'
    end.
Fixpoint wf_unit (u : gunit) : Prop :=
  match u with GE _ => True | GG body _ => wf_with wf_unit body end.
Definition wf_stmt (xs : gstmt) : Prop := wf_with wf_unit xs.

(* ---------------------------------------------------------------- marks of a token tree *)
Fixpoint preM (d : nat) (n : tnode) : list mark :=
  match n with
  | TElem a b c r s els =>
      MElem d (mkLeaf a b c r s) :: (fix go (l : list tnode) := match l with [] => [] | x :: l' => preM (S d) x ++ go l' end) els
  | TGroup els r =>
      MOpen d :: (fix go (l : list tnode) := match l with [] => [] | x :: l' => preM d x ++ go l' end) els ++ [MClose d r]
  end.
Definition preML (d : nat) (l : list tnode) : list mark := flat_map (preM d) l.

Lemma preM_elem d a b c r s els : preM d (TElem a b c r s els) = MElem d (mkLeaf a b c r s) :: preML (S d) els.
Proof.
  cbn [preM]. apply f_equal.
  induction els as [|x l IH]; [reflexivity|]. cbn [preML flat_map]. rewrite IH. reflexivity.
Qed.
Lemma preM_group d els r : preM d (TGroup els r) = MOpen d :: preML d els ++ [MClose d r].
Proof.
  cbn [preM]. apply f_equal. apply f_equal2; [|reflexivity].
  induction els as [|x l IH]; [reflexivity|]. cbn [preML flat_map]. rewrite IH. reflexivity.
Qed.
Lemma preML_app d a b : preML d (a ++ b) = preML d a ++ preML d b.
Proof. unfold preML. apply flat_map_app. Qed.
Lemma preML_one d n : preML d [n] = preM d n.
Proof. unfold preML. cbn [flat_map]. apply app_nil_r. Qed.
Lemma preM_is_elem d n : is_elem n = true -> preM d n = MElem d (leaf_of n) :: preML (S d) (elements_of n).
Proof. destruct n; [|discriminate]. intros _. apply preM_elem. Qed.

(* ---------------------------------------------------------------- the open spine, with marks *)
(* [off] = depth at which the statement being parsed is written *)
Fixpoint viewM (off : nat) (cur : tnode) (stack : list tnode) : list mark :=
  match stack with
  | [] => preML off (elements_of cur)
  | p :: st => viewM off p st ++ MElem (off + length st) (leaf_of cur) :: preML (S (off + length st)) (elements_of cur)
  end.

Lemma viewM_snoc off stack cur n : viewM off (add_child cur n) stack = viewM off cur stack ++ preM (off + length stack) n.
Proof.
  destruct stack as [|p st]; cbn [viewM length].
  - rewrite elements_add_child, preML_app, preML_one, Nat.add_0_r. reflexivity.
  - rewrite elements_add_child, leaf_add_child, preML_app, preML_one.
    rewrite <- app_assoc. cbn [app]. rewrite Nat.add_succ_r. reflexivity.
Qed.

Lemma viewM_pop off cur p st : is_elem cur = true -> viewM off (add_child p cur) st = viewM off cur (p :: st).
Proof. intros H. rewrite viewM_snoc. cbn [viewM]. rewrite (preM_is_elem _ _ H). reflexivity. Qed.

Lemma spine_ok_add cur n stack : spine_ok cur stack -> spine_ok (add_child cur n) stack.
Proof. destruct stack; cbn [spine_ok]; [trivial|]. rewrite is_elem_add_child. trivial. Qed.

Lemma spine_ok_pop cur p st : spine_ok cur (p :: st) -> spine_ok (add_child p cur) st.
Proof. intros [_ Hp]. apply spine_ok_add. exact Hp. Qed.

Lemma close_all_viewM off : forall stack cur,
  spine_ok cur stack -> preML off (elements_of (close_all cur stack)) = viewM off cur stack.
Proof.
  induction stack as [|p st IH]; intros cur H; cbn [close_all]; [reflexivity|].
  rewrite IH by (apply spine_ok_pop; exact H). apply viewM_pop. apply H.
Qed.

Lemma climb_viewM off : forall k cur stack,
  spine_ok cur stack ->
  let '(c', s') := climb k cur stack in
  viewM off c' s' = viewM off cur stack /\ spine_ok c' s' /\ length s' = length stack - k.
Proof.
  induction k as [|k IH]; intros cur stack H; cbn [climb].
  - repeat split; [assumption|lia].
  - destruct stack as [|p st]; [repeat split; assumption|].
    specialize (IH (add_child p cur) st (spine_ok_pop _ _ _ H)).
    destruct (climb k (add_child p cur) st) as [c' s'].
    destruct IH as [Hv [Hok Hl]]. repeat split; [|assumption|cbn [length]; lia].
    rewrite Hv. apply viewM_pop. apply H.
Qed.

(* ---------------------------------------------------------------- the abstract machine *)
(* what the loop does with a parsed node and the operator that follows it *)
Definition gstep_node (n : tnode) (o : sop) (st : tnode * list tnode) : tnode * list tnode :=
  let '(cur, stack) := st in
  match o with
  | SChild => (n, cur :: stack)
  | SSibling => (add_child cur n, stack)
  | SClimb k => climb (S k) (add_child cur n) stack
  end.

Definition run_with (F : gunit -> tnode) :=
  fix go (xs : gstmt) (st : tnode * list tnode) : tnode * list tnode :=
    match xs with
    | [] => st
    | (u, o) :: xs' => go xs' (gstep_node (F u) o st)
    end.

Definition closed (st : tnode * list tnode) : list tnode := elements_of (close_all (fst st) (snd st)).
Definition root0 : tnode * list tnode := (TGroup [] None, []).

(* the node the parser builds for a unit *)
Fixpoint node_of (u : gunit) : tnode :=
  match u with
  | GE l => leaf_node l
  | GG body r => TGroup (closed (run_with node_of body root0)) r
  end.
Definition grun (xs : gstmt) (st : tnode * list tnode) := run_with node_of xs st.

Lemma gstep_viewM off n o cur stack :
  spine_ok cur stack -> (o = SChild -> is_elem n = true) ->
  let '(c', s') := gstep_node n o (cur, stack) in
  viewM off c' s' = viewM off cur stack ++ preM (off + length stack) n /\ spine_ok c' s' /\
  length s' = next_depth (length stack) o.
Proof.
  intros H Hn. destruct o as [| |k]; cbn [gstep_node next_depth].
  - specialize (Hn eq_refl). cbn [viewM spine_ok length]. rewrite (preM_is_elem _ _ Hn).
    repeat split; assumption.
  - rewrite viewM_snoc. repeat split; [apply spine_ok_add; exact H].
  - pose proof (climb_viewM off (S k) _ _ (spine_ok_add cur n stack H)) as Hc.
    destruct (climb (S k) (add_child cur n) stack) as [c' s'].
    destruct Hc as [Hv [Hok Hl]]. repeat split; try assumption.
    rewrite Hv. apply viewM_snoc.
Qed.

(* ---------------------------------------------------------------- induction over units *)
Section GunitInd.
  Variable P : gunit -> Prop.
  Hypothesis HE : forall l, P (GE l).
  Hypothesis HG : forall body r, Forall (fun x => P (fst x)) body -> P (GG body r).
  Fixpoint gunit_ind' (u : gunit) : P u :=
    match u with
    | GE l => HE l
    | GG body r =>
        HG body r ((fix go (xs : gstmt) : Forall (fun x => P (fst x)) xs :=
                      match xs with
                      | [] => Forall_nil _
                      | x :: xs' => Forall_cons x (gunit_ind' (fst x)) (go xs')
                      end) body)
    end.
End GunitInd.

Lemma is_elem_node_of u : is_group u = false -> is_elem (node_of u) = true.
Proof. destruct u; [reflexivity|discriminate]. Qed.

(* running a statement appends exactly its denotation to the view of the spine *)
Lemma grun_view :
  forall xs,
    Forall (fun x => wf_unit (fst x) -> forall p, preM p (node_of (fst x)) = denoteU p (fst x)) xs ->
    wf_stmt xs ->
    forall off cur stack, spine_ok cur stack ->
      let '(c', s') := grun xs (cur, stack) in
      viewM off c' s' = viewM off cur stack ++ denoteG off (length stack) xs /\ spine_ok c' s'.
Proof.
  induction xs as [|[u o] xs IH]; intros HF Hwf off cur stack Hs.
  - cbn [grun run_with denoteG denote_with]. rewrite app_nil_r. split; [reflexivity|assumption].
  - inversion HF as [|x y Hu HF']; subst. cbn [fst] in Hu.
    cbn [wf_stmt wf_with] in Hwf. destruct Hwf as [Hwu [Hgo Hwxs]].
    cbn [grun run_with denoteG denote_with].
    pose proof (gstep_viewM off (node_of u) o cur stack Hs) as Hstep.
    assert (Hn : o = SChild -> is_elem (node_of u) = true).
    { intros ->. apply is_elem_node_of. destruct (is_group u); [exfalso; apply Hgo; reflexivity|reflexivity]. }
    specialize (Hstep Hn).
    destruct (gstep_node (node_of u) o (cur, stack)) as [c1 s1]. destruct Hstep as [Hv [Hok Hl]].
    specialize (IH HF' Hwxs off c1 s1 Hok).
    fold (grun xs (c1, s1)). destruct (grun xs (c1, s1)) as [c' s']. destruct IH as [Hv' Hok'].
    split; [|assumption]. rewrite Hv', Hv, Hl, <- app_assoc. rewrite (Hu Hwu). reflexivity.
Qed.

Lemma node_of_denote : forall u, wf_unit u -> forall p, preM p (node_of u) = denoteU p u.
Proof.
  induction u as [l|body r IH] using gunit_ind'; intros Hwf p.
  - cbn [node_of denoteU]. unfold leaf_node. rewrite preM_elem. destruct l; reflexivity.
  - cbn [node_of denoteU]. rewrite preM_group. f_equal. f_equal.
    cbn [wf_unit] in Hwf.
    pose proof (grun_view body IH Hwf p (TGroup [] None) [] I) as H.
    unfold closed, root0. fold (grun body (TGroup [] None, [])).
    destruct (grun body (TGroup [] None, [])) as [c' s']. destruct H as [Hv Hok]. cbn [fst snd].
    rewrite close_all_viewM by exact Hok. rewrite Hv. reflexivity.
Qed.

(* C01, tree half with groups: the forest built by the abstract loop for a well-formed statement has
   exactly the marks the operators denote *)
Theorem grun_denote xs :
  wf_stmt xs -> preML 0 (closed (grun xs root0)) = denoteG 0 0 xs.
Proof.
  intros Hwf.
  pose proof (grun_view xs (proj2 (Forall_forall _ _) (fun x _ => node_of_denote (fst x))) Hwf 0 (TGroup [] None) [] I) as H.
  unfold closed, root0. destruct (grun xs (TGroup [] None, [])) as [c' s']. destruct H as [Hv Hok]. cbn [fst snd].
  rewrite close_all_viewM by exact Hok. exact Hv.
Qed.

(* ================================================================ the parser on tokens *)
Definition gopen_tok (t : token) : Prop := tk t = TBracket true BGroup.
Definition gclose_tok (t : token) : Prop := tk t = TBracket false BGroup.

(* what may follow a unit: end of input, an operator, or the `)` of the enclosing group *)
Definition gboundary (rest : list token) : Prop :=
  match rest with
  | [] => True
  | t :: _ => op_tok OpChild t \/ op_tok OpSibling t \/ op_tok OpClimb t \/ gclose_tok t
  end.
(* where a statement stops: end of input or the `)` of the enclosing group *)
Definition stop (rest : list token) : Prop :=
  match rest with [] => True | t :: _ => gclose_tok t end.

(* [b] is the token block of an element with payload [l] *)
Definition gblock_ok (jsx : bool) (b : list token) (l : leaf) : Prop :=
  b <> [] /\ hd_is is_climb_op b = false /\
  forall rest, gboundary rest -> element jsx (b ++ rest) = POk (Some (leaf_node l, length b)).

(* the optional repeater written after `)` *)
Inductive rep_toks : option rep -> list token -> Prop :=
| rt_none : rep_toks None []
| rt_some t r : rep_of t = Some r -> rep_toks (Some r) [t].

Inductive gflat (jsx : bool) : gstmt -> list token -> Prop :=
| gf_nil : gflat jsx [] []
| gf_last u b : unit_toks jsx u b -> gflat jsx [(u, SSibling)] b
| gf_cons u b o ots xs rest :
    unit_toks jsx u b -> op_tokens o ots -> (is_group u = true -> o <> SChild) -> gflat jsx xs rest ->
    gflat jsx ((u, o) :: xs) (b ++ ots ++ rest)
with unit_toks (jsx : bool) : gunit -> list token -> Prop :=
| ut_elem l b : gblock_ok jsx b l -> unit_toks jsx (GE l) b
| ut_group body inner r t_open t_close rtoks :
    gopen_tok t_open -> gclose_tok t_close -> gflat jsx body inner -> rep_toks r rtoks ->
    unit_toks jsx (GG body r) (t_open :: inner ++ t_close :: rtoks).

Scheme gflat_mut := Minimality for gflat Sort Prop
  with unit_toks_mut := Minimality for unit_toks Sort Prop.

(* ---- the loop body, named *)
Definition parsed_of (jsx : bool) (toks : list token) : pres (option (tnode * nat)) :=
  match toks with
  | [] => POk None
  | t :: r =>
      match element jsx toks with
      | PErr p => PErr p
      | POk (Some x) => POk (Some x)
      | POk None =>
          if is_bracket t (Some BGroup) (Some true) then
            match stmts jsx O (TGroup [] None) [] r with
            | PErr p => PErr p
            | POk (els, m) =>
                match skipn m r with
                | [] => POk (Some (TGroup els None, 1 + m))
                | c :: rest =>
                    if is_bracket c (Some BGroup) (Some false) then
                      match rest with
                      | t2 :: _ =>
                          match rep_of t2 with
                          | Some rp => POk (Some (TGroup els (Some rp), 1 + m + 2))
                          | None => POk (Some (TGroup els None, 1 + m + 1))
                          end
                      | [] => POk (Some (TGroup els None, 1 + m + 1))
                      end
                    else POk (Some (TGroup els None, 1 + m + 1))
                end
            end
          else POk None
      end
  end.

Lemma stmts_unfold jsx cur stack t r :
  stmts jsx 0 cur stack (t :: r) =
  match parsed_of jsx (t :: r) with
  | PErr p => PErr p
  | POk None => POk (elements_of (close_all cur stack), O)
  | POk (Some (node, n)) =>
      let after := skipn (pred n) r in
      let '(cur', stack', n') :=
        if hd_is is_child_op after then (node, cur :: stack, S n)
        else if hd_is is_sibling_op after then (add_child cur node, stack, S n)
        else
          let k := span_tok is_climb_op after in
          let '(c', s') := climb k (add_child cur node) stack in (c', s', n + k) in
      match stmts jsx (pred n') cur' stack' r with
      | POk (els, c) => POk (els, S c)
      | PErr p => PErr p
      end
  end.
Proof. reflexivity. Qed.

(* ---- small facts about tokens *)
Lemma element_at_group_bracket jsx t r op : tk t = TBracket op BGroup -> element jsx (t :: r) = POk None.
Proof.
  intros Ht. unfold element, element_name.
  assert (Hcap : is_capitalized_literal t = false) by (unfold is_capitalized_literal; rewrite Ht; reflexivity).
  assert (Hnm : is_element_name_tok t = false) by (unfold is_element_name_tok; rewrite Ht; reflexivity).
  cbn [hd_is]. rewrite Hcap, andb_false_r. cbn [Nat.add skipn span_tok]. rewrite Hnm.
  cbn [elem_loop]. unfold elem_body. cbn [e_repeat est_empty e_name e_value e_attrs negb].
  assert (Htx : text (t :: r) = 0) by (unfold text, is_bracket; rewrite Ht; destruct op; reflexivity).
  rewrite Htx.
  assert (Hid : forall ty, short_attribute jsx ty (t :: r) = None).
  { intros ty. unfold short_attribute. cbn [span_tok]. unfold is_operator. rewrite Ht. reflexivity. }
  rewrite !Hid.
  assert (Has : attribute_set (t :: r) = ASNone) by (unfold attribute_set, is_bracket; rewrite Ht; destruct op; reflexivity).
  rewrite Has. cbn [andb]. destruct (rep_of t); reflexivity.
Qed.

Lemma stmts_stop jsx cur stack rest :
  stop rest -> stmts jsx 0 cur stack rest = POk (elements_of (close_all cur stack), 0).
Proof.
  destruct rest as [|t r]; [reflexivity|]. cbn [stop]. intros Ht. rewrite stmts_unfold.
  unfold parsed_of. rewrite (element_at_group_bracket jsx t r false Ht).
  unfold is_bracket. rewrite Ht. reflexivity.
Qed.

Lemma stop_gboundary rest : stop rest -> gboundary rest.
Proof. destruct rest; cbn [stop gboundary]; auto. Qed.

Lemma gboundary_rep_none rest : gboundary rest -> match rest with t :: _ => rep_of t = None | [] => True end.
Proof.
  destruct rest as [|t r]; [trivial|]. cbn [gboundary]. unfold op_tok, gclose_tok, rep_of.
  intros [H|[H|[H|H]]]; rewrite H; reflexivity.
Qed.

Lemma gboundary_ops o ots rest : op_tokens o ots -> gboundary (ots ++ rest).
Proof.
  intros H. destruct H as [t Ht|t Ht|k ts Hl HF]; cbn [app gboundary]; auto.
  destruct ts as [|t ts]; [discriminate|]. inversion HF; subst. cbn [app gboundary]. auto.
Qed.

Lemma stop_not_climb rest : stop rest -> hd_is is_climb_op rest = false.
Proof.
  destruct rest as [|t r]; [reflexivity|]. cbn [stop hd_is]. unfold gclose_tok, is_climb_op, is_operator.
  intros ->. reflexivity.
Qed.
Lemma stop_not_child rest : stop rest -> hd_is is_child_op rest = false.
Proof.
  destruct rest as [|t r]; [reflexivity|]. cbn [stop hd_is]. unfold gclose_tok, is_child_op, is_operator.
  intros ->. reflexivity.
Qed.
Lemma stop_not_sibling rest : stop rest -> hd_is is_sibling_op rest = false.
Proof.
  destruct rest as [|t r]; [reflexivity|]. cbn [stop hd_is]. unfold gclose_tok, is_sibling_op, is_operator.
  intros ->. reflexivity.
Qed.

(* ---- what the two mutual claims are *)
Definition unit_parsed (jsx : bool) (u : gunit) (b : list token) : Prop :=
  b <> [] /\ hd_is is_climb_op b = false /\
  forall rest, gboundary rest -> parsed_of jsx (b ++ rest) = POk (Some (node_of u, length b)).

Definition stmt_parsed (jsx : bool) (xs : gstmt) (toks : list token) : Prop :=
  (hd_is is_climb_op toks = false) /\
  forall rest, stop rest -> forall cur stack,
    stmts jsx 0 cur stack (toks ++ rest) = POk (closed (grun xs (cur, stack)), length toks).

(* one round of the loop: a parsed unit followed by its operator tokens *)
Lemma stmts_round jsx node b o ots rest cur stack :
  b <> [] ->
  parsed_of jsx (b ++ ots ++ rest) = POk (Some (node, length b)) ->
  op_tokens o ots -> hd_is is_climb_op rest = false ->
  stmts jsx 0 cur stack (b ++ ots ++ rest) =
  shift (length b + length ots) (stmts jsx 0 (fst (gstep_node node o (cur, stack))) (snd (gstep_node node o (cur, stack))) rest).
Proof.
  intros Hne Hp Ho Hrest.
  destruct b as [|t r]; [congruence|]. cbn [app] in *. rewrite stmts_unfold. rewrite Hp. cbn [length pred].
  assert (Hafter : skipn (length r) (r ++ ots ++ rest) = ots ++ rest).
  { rewrite skipn_app, skipn_all, Nat.sub_diag. reflexivity. }
  cbv zeta. rewrite Hafter.
  assert (Hskip : forall n, n = length r + length ots -> skipn n (r ++ ots ++ rest) = rest).
  { intros n ->. rewrite app_assoc. rewrite skipn_app. rewrite skipn_all2 by (rewrite app_length; lia).
    rewrite app_length. replace (length r + length ots - (length r + length ots)) with 0 by lia. reflexivity. }
  destruct Ho as [t1 Ht|t1 Ht|k ts Hl HF].
  - cbn [app] in Hskip. cbn [app hd_is]. unfold is_child_op. rewrite (is_operator_tok _ _ _ Ht). cbn [optype_eqb pred].
    rewrite stmts_skip by (rewrite !app_length; cbn; lia).
    rewrite (Hskip (S (length r))) by (cbn; lia).
    cbn [gstep_node fst snd length].
    destruct (stmts jsx 0 node (cur :: stack) rest) as [[els c]|p]; cbn [shift]; [|reflexivity]. f_equal; f_equal; lia.
  - cbn [app] in Hskip. cbn [app hd_is]. unfold is_child_op, is_sibling_op. rewrite !(is_operator_tok _ _ _ Ht). cbn [optype_eqb pred].
    rewrite stmts_skip by (rewrite !app_length; cbn; lia).
    rewrite (Hskip (S (length r))) by (cbn; lia).
    cbn [gstep_node fst snd length].
    destruct (stmts jsx 0 (add_child cur node) stack rest) as [[els c]|p]; cbn [shift]; [|reflexivity]. f_equal; f_equal; lia.
  - destruct ts as [|t1 ts']; [discriminate|]. inversion HF as [|x y Ht HF']; subst.
    cbn [app hd_is]. unfold is_child_op, is_sibling_op. rewrite !(is_operator_tok _ _ _ Ht). cbn [optype_eqb].
    change (t1 :: ts' ++ rest) with ((t1 :: ts') ++ rest).
    rewrite (span_climb_all (t1 :: ts') rest HF Hrest).
    rewrite Hl. cbn [gstep_node].
    destruct (climb (S k) (add_child cur node) stack) as [c1 s1] eqn:Ec. cbn [fst snd].
    replace (pred (S (length r) + S k)) with (length r + S k) by lia.
    rewrite stmts_skip by (rewrite !app_length, Hl; lia).
    rewrite (Hskip (length r + S k)) by (rewrite Hl; reflexivity).
    destruct (stmts jsx 0 c1 s1 rest) as [[els c]|p]; cbn [shift]; [|reflexivity]. cbn [length]. f_equal; f_equal; lia.
Qed.

(* the last unit of a statement, followed by the end of input or by `)` *)
Lemma stmts_last jsx node b rest cur stack :
  b <> [] -> parsed_of jsx (b ++ rest) = POk (Some (node, length b)) -> stop rest ->
  stmts jsx 0 cur stack (b ++ rest) = POk (elements_of (close_all (add_child cur node) stack), length b).
Proof.
  intros Hne Hp Hs. destruct b as [|t r]; [congruence|]. cbn [app] in *. rewrite stmts_unfold, Hp.
  cbn [length pred]. cbv zeta.
  rewrite skipn_app, skipn_all, Nat.sub_diag. cbn [skipn app].
  rewrite (stop_not_child _ Hs), (stop_not_sibling _ Hs).
  assert (Hk : span_tok is_climb_op rest = 0).
  { destruct rest as [|t' r']; [reflexivity|]. cbn [span_tok]. pose proof (stop_not_climb _ Hs) as H. cbn [hd_is] in H. rewrite H. reflexivity. }
  rewrite Hk. cbn [climb]. rewrite Nat.add_0_r. cbn [pred].
  rewrite stmts_skip by (rewrite app_length; lia).
  rewrite skipn_app, skipn_all, Nat.sub_diag. cbn [skipn app].
  rewrite (stmts_stop jsx _ _ rest Hs). cbn [shift]. rewrite Nat.add_0_r. reflexivity.
Qed.

Lemma hd_is_app_ne (p : token -> bool) (b rest : list token) : b <> [] -> hd_is p (b ++ rest) = hd_is p b.
Proof. destruct b; [congruence|reflexivity]. Qed.

Theorem gflat_parsed jsx : forall xs toks, gflat jsx xs toks -> stmt_parsed jsx xs toks.
Proof.
  apply (gflat_mut jsx (stmt_parsed jsx) (unit_parsed jsx)).
  - (* empty statement *)
    split; [reflexivity|]. intros rest Hs cur stack. cbn [app length].
    rewrite (stmts_stop jsx cur stack rest Hs). reflexivity.
  - (* last unit *)
    intros u b _ [Hne [Hc Hp]]. split; [exact Hc|]. intros rest Hs cur stack.
    rewrite (stmts_last jsx (node_of u) b rest cur stack Hne (Hp rest (stop_gboundary _ Hs)) Hs). reflexivity.
  - (* unit, operator, rest of the statement *)
    intros u b o ots xs rest _ [Hne [Hc Hp]] Ho Hg _ [Hcx Hx]. split.
    + rewrite hd_is_app_ne by exact Hne. exact Hc.
    + intros rest0 Hs cur stack. rewrite <- !app_assoc.
      assert (Hcl : hd_is is_climb_op (rest ++ rest0) = false).
      { destruct rest as [|t r]; [apply stop_not_climb; exact Hs|exact Hcx]. }
      rewrite (stmts_round jsx (node_of u) b o ots (rest ++ rest0) cur stack Hne); [| |exact Ho|exact Hcl].
      * unfold grun. cbn [run_with]. fold (grun xs (gstep_node (node_of u) o (cur, stack))).
        destruct (gstep_node (node_of u) o (cur, stack)) as [c1 s1]. cbn [fst snd].
        rewrite (Hx rest0 Hs c1 s1). cbn [shift]. rewrite !app_length. f_equal. f_equal. lia.
      * apply Hp. apply (gboundary_ops o). exact Ho.
  - (* an element *)
    intros l b [Hne [Hc He]]. split; [exact Hne|]. split; [exact Hc|]. intros rest Hb.
    destruct b as [|t r]; [congruence|]. unfold parsed_of. cbn [app] in *. rewrite (He rest Hb). reflexivity.
  - (* a group *)
    intros body inner r t_open t_close rtoks Hopen Hclose _ [_ Hbody] Hrep.
    split; [discriminate|]. split.
    + cbn [hd_is]. unfold is_climb_op, is_operator. rewrite Hopen. reflexivity.
    + intros rest Hb. cbn [app]. unfold parsed_of.
      rewrite (element_at_group_bracket jsx t_open _ true Hopen).
      assert (Hio : is_bracket t_open (Some BGroup) (Some true) = true) by (unfold is_bracket; rewrite Hopen; reflexivity).
      rewrite Hio. rewrite <- app_assoc. cbn [app].
      rewrite (Hbody (t_close :: rtoks ++ rest) Hclose (TGroup [] None) []).
      rewrite skipn_app, skipn_all, Nat.sub_diag. cbn [skipn app].
      assert (Hic : is_bracket t_close (Some BGroup) (Some false) = true) by (unfold is_bracket; rewrite Hclose; reflexivity).
      rewrite Hic. cbn [node_of]. fold (grun body root0).
      destruct Hrep as [|t r0 Hr].
      * cbn [app]. pose proof (gboundary_rep_none rest Hb) as Hn.
        destruct rest as [|t2 rest']; [|rewrite Hn]; cbn [length]; rewrite app_length; cbn [length];
          f_equal; f_equal; f_equal; lia.
      * cbn [app]. rewrite Hr. cbn [length]. rewrite app_length. cbn [length]. f_equal; f_equal; f_equal; lia.
Qed.

Lemma gflat_wf jsx : forall xs toks, gflat jsx xs toks -> wf_stmt xs.
Proof.
  apply (gflat_mut jsx (fun xs _ => wf_stmt xs) (fun u _ => wf_unit u)).
  - exact I.
  - intros u b _ Hu. cbn [wf_stmt wf_with]. repeat split; [exact Hu|discriminate].
  - intros u b o ots xs rest _ Hu _ Hg _ Hx. cbn [wf_stmt wf_with]. repeat split; assumption.
  - intros; exact I.
  - intros body inner r t_open t_close rtoks _ _ _ Hb _. exact Hb.
Qed.

(* C01, parser half, with groups: for every statement of elements and (nested, optionally repeated)
   groups the parser returns a token tree whose marks are exactly the ones the operators denote *)
Theorem parse_group_denote jsx xs toks :
  gflat jsx xs toks ->
  exists els, parse jsx toks = POk els /\ preML 0 els = denoteG 0 0 xs.
Proof.
  intros H. destruct (gflat_parsed jsx xs toks H) as [_ Hp].
  specialize (Hp [] I (TGroup [] None) []). rewrite app_nil_r in Hp.
  unfold parse. rewrite Hp. rewrite skipn_all. eexists. split; [reflexivity|].
  apply grun_denote. apply (gflat_wf jsx xs toks H).
Qed.

(* ---------------------------------------------------------------- block instance: a bare name *)
Lemma gblock_name (t : token) (v : str) :
  tk t = TLiteral v ->
  gblock_ok false [t] (mkLeaf (Some [t]) None None None false).
Proof.
  intros Ht. split; [discriminate|]. split.
  - cbn [hd_is]. unfold is_climb_op, is_operator. rewrite Ht. reflexivity.
  - intros rest Hb.
    unfold element, element_name. cbn [andb app hd_is tl skipn Nat.add].
    assert (Hn : is_element_name_tok t = true) by (unfold is_element_name_tok; rewrite Ht; reflexivity).
    destruct rest as [|t' r].
    + cbn [span_tok]. rewrite Hn. cbn [span_tok firstn elem_loop est_empty e_name leaf_node]. reflexivity.
    + cbn [gboundary] in Hb. unfold op_tok, gclose_tok in Hb.
      assert (Hn' : is_element_name_tok t' = false).
      { unfold is_element_name_tok. destruct Hb as [H|[H|[H|H]]]; rewrite H; reflexivity. }
      cbn [span_tok]. rewrite Hn, Hn'. cbn [firstn elem_loop].
      assert (Hbody : elem_body false (mkEst (Some [t]) None None None false) (t' :: r)
                      = EBreak (mkEst (Some [t]) None None None false) 0).
      { unfold elem_body. cbn [e_repeat est_empty e_name e_value e_attrs negb].
        assert (Hrep : rep_of t' = None) by (unfold rep_of; destruct Hb as [H|[H|[H|H]]]; rewrite H; reflexivity).
        rewrite Hrep.
        assert (Htx : text (t' :: r) = 0).
        { unfold text, is_bracket. destruct Hb as [H|[H|[H|H]]]; rewrite H; reflexivity. }
        rewrite Htx.
        assert (Hid : short_attribute false OpId (t' :: r) = None).
        { unfold short_attribute. cbn [span_tok]. unfold is_operator. destruct Hb as [H|[H|[H|H]]]; rewrite H; reflexivity. }
        assert (Hcl : short_attribute false OpClass (t' :: r) = None).
        { unfold short_attribute. cbn [span_tok]. unfold is_operator. destruct Hb as [H|[H|[H|H]]]; rewrite H; reflexivity. }
        rewrite Hid, Hcl.
        assert (Has : attribute_set (t' :: r) = ASNone).
        { unfold attribute_set, is_bracket. destruct Hb as [H|[H|[H|H]]]; rewrite H; reflexivity. }
        rewrite Has.
        assert (Hclose : is_operator t' (Some OpClose) = false).
        { unfold is_operator. destruct Hb as [H|[H|[H|H]]]; rewrite H; reflexivity. }
        rewrite Hclose. reflexivity. }
      rewrite Hbody. cbn [est_empty e_name leaf_node lf_name lf_attrs lf_value lf_repeat lf_self e_attrs e_value e_repeat e_self length].
      reflexivity.
Qed.

(* non-vacuity: `a>(b+c)*2^d` *)
Example gflat_example :
  let lit c p := mkTok (TLiteral [c]) p (p + 1) in
  let op o p := mkTok (TOperator o) p (p + 1) in
  let br o p := mkTok (TBracket o BGroup) p (p + 1) in
  let lf t := mkLeaf (Some [t]) None None None false in
  let rp := mkTok (TRepeater 2 0 false) 7 9 in
  gflat false
    [(GE (lf (lit 97%N 0)), SChild);
     (GG [(GE (lf (lit 98%N 3)), SSibling); (GE (lf (lit 99%N 5)), SSibling)] (Some (mkRep 2 0 false)), SClimb 0);
     (GE (lf (lit 100%N 10)), SSibling)]
    ([lit 97%N 0] ++ [op OpChild 1] ++
     (br true 2 :: ([lit 98%N 3] ++ [op OpSibling 4] ++ [lit 99%N 5]) ++ br false 6 :: [rp]) ++ [op OpClimb 9] ++
     [lit 100%N 10]).
Proof.
  cbv zeta.
  apply gf_cons; [apply ut_elem; eapply gblock_name; reflexivity|apply ot_child; reflexivity|discriminate|].
  apply gf_cons; [|apply ot_climb; [reflexivity|repeat constructor]|discriminate|].
  - apply ut_group; [reflexivity|reflexivity| |apply rt_some; reflexivity].
    apply gf_cons; [apply ut_elem; eapply gblock_name; reflexivity|apply ot_sibling; reflexivity|discriminate|].
    apply gf_last. apply ut_elem. eapply gblock_name; reflexivity.
  - apply gf_last. apply ut_elem. eapply gblock_name; reflexivity.
Qed.

(* ---------------------------------------------------------------- block instance: name*N *)
Lemma quiet_elem_body (s : est) (t' : token) (r : list token) :
  (op_tok OpChild t' \/ op_tok OpSibling t' \/ op_tok OpClimb t' \/ gclose_tok t') ->
  est_empty s = false ->
  elem_body false s (t' :: r) = EBreak s 0.
Proof.
  intros Hb Hne. unfold op_tok, gclose_tok in Hb. unfold elem_body.
  assert (Hrep : rep_of t' = None) by (unfold rep_of; destruct Hb as [H|[H|[H|H]]]; rewrite H; reflexivity).
  rewrite Hrep.
  assert (Htx : text (t' :: r) = 0).
  { unfold text, is_bracket. destruct Hb as [H|[H|[H|H]]]; rewrite H; reflexivity. }
  assert (Hid : short_attribute false OpId (t' :: r) = None).
  { unfold short_attribute. cbn [span_tok]. unfold is_operator. destruct Hb as [H|[H|[H|H]]]; rewrite H; reflexivity. }
  assert (Hcl : short_attribute false OpClass (t' :: r) = None).
  { unfold short_attribute. cbn [span_tok]. unfold is_operator. destruct Hb as [H|[H|[H|H]]]; rewrite H; reflexivity. }
  assert (Has : attribute_set (t' :: r) = ASNone).
  { unfold attribute_set, is_bracket. destruct Hb as [H|[H|[H|H]]]; rewrite H; reflexivity. }
  assert (Hclose : is_operator t' (Some OpClose) = false).
  { unfold is_operator. destruct Hb as [H|[H|[H|H]]]; rewrite H; reflexivity. }
  rewrite Hne. cbn [negb].
  destruct (e_repeat s); destruct (e_value s); rewrite ?Htx, Hid, Hcl, Has, Hclose; reflexivity.
Qed.

(* an element written as a bare name followed by a repeater `*N` *)
Lemma gblock_name_rep (t tr : token) (v : str) (rp : rep) :
  tk t = TLiteral v -> rep_of tr = Some rp ->
  gblock_ok false [t; tr] (mkLeaf (Some [t]) None None (Some rp) false).
Proof.
  intros Ht Hr. split; [discriminate|]. split.
  - cbn [hd_is]. unfold is_climb_op, is_operator. rewrite Ht. reflexivity.
  - intros rest Hb.
    assert (Hktr : exists c vl i, tk tr = TRepeater c vl i).
    { unfold rep_of in Hr. destruct (tk tr); try discriminate. eauto. }
    destruct Hktr as [c [vl [i Hktr]]].
    unfold element, element_name. cbn [andb app hd_is tl skipn Nat.add].
    assert (Hn : is_element_name_tok t = true) by (unfold is_element_name_tok; rewrite Ht; reflexivity).
    assert (Hn' : is_element_name_tok tr = false) by (unfold is_element_name_tok; rewrite Hktr; reflexivity).
    cbn [span_tok]. rewrite Hn, Hn'. cbn [firstn elem_loop].
    assert (Hbody : elem_body false (mkEst (Some [t]) None None None false) (tr :: rest)
                    = ECont (mkEst (Some [t]) None None (Some rp) false) 1).
    { unfold elem_body. cbn [e_repeat est_empty e_name e_value e_attrs negb]. rewrite Hr. reflexivity. }
    rewrite Hbody. cbn [pred].
    destruct rest as [|t' r].
    + cbn [elem_loop est_empty e_name leaf_node lf_name lf_attrs lf_value lf_repeat lf_self e_attrs e_value e_repeat e_self length].
      reflexivity.
    + cbn [elem_loop]. rewrite quiet_elem_body; [|exact Hb|reflexivity].
      cbn [est_empty e_name leaf_node lf_name lf_attrs lf_value lf_repeat lf_self e_attrs e_value e_repeat e_self length].
      reflexivity.
Qed.
