(* C01 with groups: the statements() loop builds exactly the tree the operators denote, for
   statements whose units are elements or parenthesised groups `( ... )` with an optional
   repeater, nested to any depth.

   Canonical form of a tree: its preorder list of marks -- an element with its depth, and a pair
   of brackets (with the group's repeater on the closing one) around the marks of a group's
   contents.  Two token trees with the same mark list are the same tree. *)
From Emmet Require Import lib.Base model.MarkupTokenizer model.MarkupParser proofs.ParserSpine.
Local Open Scope nat_scope.

(* ---------------------------------------------------------------- syntax and spec *)
Inductive gunit :=
| GE (l : leaf)                                       (* an element *)
| GG (body : list (gunit * sop)) (r : option rep).    (* ( body ) with optional *N *)
Definition gstmt := list (gunit * sop).

Inductive mark :=
| MElem (d : nat) (l : leaf)
| MOpen (d : nat)
| MClose (d : nat) (r : option rep).

(* depth-counter semantics of a statement written at depth [off]: [d] = current depth relative to
   [off]; `>` one deeper, `+` same, each `^` one up, stopping at the top of the statement (relative
   depth 0: the top of the enclosing group or of the abbreviation) *)
Definition denote_with (F : nat -> gunit -> list mark) :=
  fix go (off d : nat) (xs : gstmt) : list mark :=
    match xs with
    | [] => []
    | (u, o) :: xs' => F (off + d) u ++ go off (next_depth d o) xs'
    end.

(* a unit written at absolute depth [p]: a group contributes its contents at its own depth,
   between brackets, and is one unit for what follows *)
Fixpoint denoteU (p : nat) (u : gunit) : list mark :=
  match u with
  | GE l => [MElem p l]
  | GG body r => MOpen p :: denote_with denoteU p 0 body ++ [MClose p r]
  end.
Definition denoteG (off d : nat) (xs : gstmt) : list mark := denote_with denoteU off d xs.

(* documented grammar: `>` never directly follows a group *)
Definition is_group (u : gunit) : bool := match u with GG _ _ => true | GE _ => false end.
Definition wf_with (F : gunit -> Prop) :=
  fix go (xs : gstmt) : Prop :=
    match xs with
    | [] => True
    | (u, o) :: xs' => F u /\ (is_group u = true -> o <> SChild) /\ go xs'
    end.
Fixpoint wf_unit (u : gunit) : Prop :=
  match u with GE _ => True | GG body _ => wf_with wf_unit body end.
Definition wf_stmt (xs : gstmt) : Prop := wf_with wf_unit xs.

(* ---------------------------------------------------------------- marks of a token tree *)
Fixpoint preM (d : nat) (n : tnode) : list mark :=
  match n with
  | TElem a b c r s els =>
      MElem d (mkLeaf a b c r s) :: (fix go (l : list tnode) := match l with [] => [] | x :: l' => preM (S d) x ++ go l' end) els
  | TGroup els r =>
      MOpen d :: (fix go (l : list tnode) := match l with [] => [] | x :: l' => preM d x ++ go l' end) els ++ [MClose d r]
  end.
Definition preML (d : nat) (l : list tnode) : list mark := flat_map (preM d) l.

Lemma preM_elem d a b c r s els : preM d (TElem a b c r s els) = MElem d (mkLeaf a b c r s) :: preML (S d) els.
Proof.
  cbn [preM]. apply f_equal.
  induction els as [|x l IH]; [reflexivity|]. cbn [preML flat_map]. rewrite IH. reflexivity.
Qed.
Lemma preM_group d els r : preM d (TGroup els r) = MOpen d :: preML d els ++ [MClose d r].
Proof.
  cbn [preM]. apply f_equal. apply f_equal2; [|reflexivity].
  induction els as [|x l IH]; [reflexivity|]. cbn [preML flat_map]. rewrite IH. reflexivity.
Qed.
Lemma preML_app d a b : preML d (a ++ b) = preML d a ++ preML d b.
Proof. unfold preML. apply flat_map_app. Qed.
Lemma preML_one d n : preML d [n] = preM d n.
Proof. unfold preML. cbn [flat_map]. apply app_nil_r. Qed.
Lemma preM_is_elem d n : is_elem n = true -> preM d n = MElem d (leaf_of n) :: preML (S d) (elements_of n).
Proof. destruct n; [|discriminate]. intros _. apply preM_elem. Qed.

(* ---------------------------------------------------------------- the open spine, with marks *)
(* [off] = depth at which the statement being parsed is written *)
Fixpoint viewM (off : nat) (cur : tnode) (stack : list tnode) : list mark :=
  match stack with
  | [] => preML off (elements_of cur)
  | p :: st => viewM off p st ++ MElem (off + length st) (leaf_of cur) :: preML (S (off + length st)) (elements_of cur)
  end.

Lemma viewM_snoc off stack cur n : viewM off (add_child cur n) stack = viewM off cur stack ++ preM (off + length stack) n.
Proof.
  destruct stack as [|p st]; cbn [viewM length].
  - rewrite elements_add_child, preML_app, preML_one, Nat.add_0_r. reflexivity.
  - rewrite elements_add_child, leaf_add_child, preML_app, preML_one.
    rewrite <- app_assoc. cbn [app]. rewrite Nat.add_succ_r. reflexivity.
Qed.

Lemma viewM_pop off cur p st : is_elem cur = true -> viewM off (add_child p cur) st = viewM off cur (p :: st).
Proof. intros H. rewrite viewM_snoc. cbn [viewM]. rewrite (preM_is_elem _ _ H). reflexivity. Qed.

Lemma spine_ok_add cur n stack : spine_ok cur stack -> spine_ok (add_child cur n) stack.
Proof. destruct stack; cbn [spine_ok]; [trivial|]. rewrite is_elem_add_child. trivial. Qed.

Lemma spine_ok_pop cur p st : spine_ok cur (p :: st) -> spine_ok (add_child p cur) st.
Proof. intros [_ Hp]. apply spine_ok_add. exact Hp. Qed.

Lemma close_all_viewM off : forall stack cur,
  spine_ok cur stack -> preML off (elements_of (close_all cur stack)) = viewM off cur stack.
Proof.
  induction stack as [|p st IH]; intros cur H; cbn [close_all]; [reflexivity|].
  rewrite IH by (apply spine_ok_pop; exact H). apply viewM_pop. apply H.
Qed.

Lemma climb_viewM off : forall k cur stack,
  spine_ok cur stack ->
  let '(c', s') := climb k cur stack in
  viewM off c' s' = viewM off cur stack /\ spine_ok c' s' /\ length s' = length stack - k.
Proof.
  induction k as [|k IH]; intros cur stack H; cbn [climb].
  - repeat split; [assumption|lia].
  - destruct stack as [|p st]; [repeat split; assumption|].
    specialize (IH (add_child p cur) st (spine_ok_pop _ _ _ H)).
    destruct (climb k (add_child p cur) st) as [c' s'].
    destruct IH as [Hv [Hok Hl]]. repeat split; [|assumption|cbn [length]; lia].
    rewrite Hv. apply viewM_pop. apply H.
Qed.

(* ---------------------------------------------------------------- the abstract machine *)
(* what the loop does with a parsed node and the operator that follows it *)
Definition gstep_node (n : tnode) (o : sop) (st : tnode * list tnode) : tnode * list tnode :=
  let '(cur, stack) := st in
  match o with
  | SChild => (n, cur :: stack)
  | SSibling => (add_child cur n, stack)
  | SClimb k => climb (S k) (add_child cur n) stack
  end.

Definition run_with (F : gunit -> tnode) :=
  fix go (xs : gstmt) (st : tnode * list tnode) : tnode * list tnode :=
    match xs with
    | [] => st
    | (u, o) :: xs' => go xs' (gstep_node (F u) o st)
    end.

Definition closed (st : tnode * list tnode) : list tnode := elements_of (close_all (fst st) (snd st)).
Definition root0 : tnode * list tnode := (TGroup [] None, []).

(* the node the parser builds for a unit *)
Fixpoint node_of (u : gunit) : tnode :=
  match u with
  | GE l => leaf_node l
  | GG body r => TGroup (closed (run_with node_of body root0)) r
  end.
Definition grun (xs : gstmt) (st : tnode * list tnode) := run_with node_of xs st.

Lemma gstep_viewM off n o cur stack :
  spine_ok cur stack -> (o = SChild -> is_elem n = true) ->
  let '(c', s') := gstep_node n o (cur, stack) in
  viewM off c' s' = viewM off cur stack ++ preM (off + length stack) n /\ spine_ok c' s' /\
  length s' = next_depth (length stack) o.
Proof.
  intros H Hn. destruct o as [| |k]; cbn [gstep_node next_depth].
  - specialize (Hn eq_refl). cbn [viewM spine_ok length]. rewrite (preM_is_elem _ _ Hn).
    repeat split; assumption.
  - rewrite viewM_snoc. repeat split; [apply spine_ok_add; exact H].
  - pose proof (climb_viewM off (S k) _ _ (spine_ok_add cur n stack H)) as Hc.
    destruct (climb (S k) (add_child cur n) stack) as [c' s'].
    destruct Hc as [Hv [Hok Hl]]. repeat split; try assumption.
    rewrite Hv. apply viewM_snoc.
Qed.

(* ---------------------------------------------------------------- induction over units *)
Section GunitInd.
  Variable P : gunit -> Prop.
  Hypothesis HE : forall l, P (GE l).
  Hypothesis HG : forall body r, Forall (fun x => P (fst x)) body -> P (GG body r).
  Fixpoint gunit_ind' (u : gunit) : P u :=
    match u with
    | GE l => HE l
    | GG body r =>
        HG body r ((fix go (xs : gstmt) : Forall (fun x => P (fst x)) xs :=
                      match xs with
                      | [] => Forall_nil _
                      | x :: xs' => Forall_cons x (gunit_ind' (fst x)) (go xs')
                      end) body)
    end.
End GunitInd.

Lemma is_elem_node_of u : is_group u = false -> is_elem (node_of u) = true.
Proof. destruct u; [reflexivity|discriminate]. Qed.

(* running a statement appends exactly its denotation to the view of the spine *)
Lemma grun_view :
  forall xs,
    Forall (fun x => wf_unit (fst x) -> forall p, preM p (node_of (fst x)) = denoteU p (fst x)) xs ->
    wf_stmt xs ->
    forall off cur stack, spine_ok cur stack ->
      let '(c', s') := grun xs (cur, stack) in
      viewM off c' s' = viewM off cur stack ++ denoteG off (length stack) xs /\ spine_ok c' s'.
Proof.
  induction xs as [|[u o] xs IH]; intros HF Hwf off cur stack Hs.
  - cbn [grun run_with denoteG denote_with]. rewrite app_nil_r. split; [reflexivity|assumption].
  - inversion HF as [|x y Hu HF']; subst. cbn [fst] in Hu.
    cbn [wf_stmt wf_with] in Hwf. destruct Hwf as [Hwu [Hgo Hwxs]].
    cbn [grun run_with denoteG denote_with].
    pose proof (gstep_viewM off (node_of u) o cur stack Hs) as Hstep.
    assert (Hn : o = SChild -> is_elem (node_of u) = true).
    { intros ->. apply is_elem_node_of. destruct (is_group u); [exfalso; apply Hgo; reflexivity|reflexivity]. }
    specialize (Hstep Hn).
    destruct (gstep_node (node_of u) o (cur, stack)) as [c1 s1]. destruct Hstep as [Hv [Hok Hl]].
    specialize (IH HF' Hwxs off c1 s1 Hok).
    fold (grun xs (c1, s1)). destruct (grun xs (c1, s1)) as [c' s']. destruct IH as [Hv' Hok'].
    split; [|assumption]. rewrite Hv', Hv, Hl, <- app_assoc. rewrite (Hu Hwu). reflexivity.
Qed.

Lemma node_of_denote : forall u, wf_unit u -> forall p, preM p (node_of u) = denoteU p u.
Proof.
  induction u as [l|body r IH] using gunit_ind'; intros Hwf p.
  - cbn [node_of denoteU]. unfold leaf_node. rewrite preM_elem. destruct l; reflexivity.
  - cbn [node_of denoteU]. rewrite preM_group. f_equal. f_equal.
    cbn [wf_unit] in Hwf.
    pose proof (grun_view body IH Hwf p (TGroup [] None) [] I) as H.
    unfold closed, root0. fold (grun body (TGroup [] None, [])).
    destruct (grun body (TGroup [] None, [])) as [c' s']. destruct H as [Hv Hok]. cbn [fst snd].
    rewrite close_all_viewM by exact Hok. rewrite Hv. reflexivity.
Qed.

(* C01, tree half with groups: the forest built by the abstract loop for a well-formed statement has
   exactly the marks the operators denote *)
Theorem grun_denote xs :
  wf_stmt xs -> preML 0 (closed (grun xs root0)) = denoteG 0 0 xs.
Proof.
  intros Hwf.
  pose proof (grun_view xs (proj2 (Forall_forall _ _) (fun x _ => node_of_denote (fst x))) Hwf 0 (TGroup [] None) [] I) as H.
  unfold closed, root0. destruct (grun xs (TGroup [] None, [])) as [c' s']. destruct H as [Hv Hok]. cbn [fst snd].
  rewrite close_all_viewM by exact Hok. exact Hv.
Qed.
