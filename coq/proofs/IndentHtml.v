(* C15, last clause: the tree read off the indentation of the haml/pug/slim output is the tree of the HTML
   output.  Both formatters walk the same tree in preorder: the indent formatter writes one block of lines per
   visited element at the depth of the visit (IndentProofs.indent_lines_all), and the nesting of the HTML
   formatter's open/close tag chunks gives the same (depth, name) list (HtmlEvents.format_events_all). *)
From Coq Require Import List NArith ZArith Bool Lia.
From Emmet Require Import lib.Base model.MarkupTokenizer model.MarkupParser model.MarkupConvert
     model.OutStream model.FormatHtml model.FormatIndent proofs.IndentStream proofs.IndentProofs proofs.HtmlEvents.
Import ListNotations.

(* the lines one visited element contributes: its own line at depth d, its text lines at depth d+1 *)
Definition element_block (c : oconfig) (o : iopts) (x : nat * anode) : list str :=
  (ind (oc_fmt c) (fst x) ++ head c o (snd x) ++ inline_value o (snd x)) :: text_lines c o (S (fst x)) (snd x).

Lemma flat_map_flat_map {A B C} (g : B -> list C) (h : A -> list B) l :
  flat_map g (flat_map h l) = flat_map (fun x => flat_map g (h x)) l.
Proof.
  induction l as [|x l IH]; [reflexivity|]. cbn [flat_map]. rewrite flat_map_app, IH. reflexivity.
Qed.

Lemma node_lines_preorder c o : forall n d,
  node_lines c o d n = flat_map (element_block c o) (preorder_nodes d n).
Proof.
  induction n as [nm v rp at_ ch sc IHch] using anode_ind2. intros d.
  rewrite node_lines_eq, preorder_nodes_eq. cbn [flat_map]. unfold element_block at 1. cbn [fst snd app].
  f_equal. f_equal. cbn [an_children]. rewrite flat_map_flat_map.
  induction ch as [|x l IHl]; [reflexivity|]. inversion IHch; subst. cbn [flat_map]. rewrite H1, (IHl H2). reflexivity.
Qed.

Theorem same_tree c o forest :
  cfg_clean c = true -> iopts_wf o = true ->
  forallb node_wf forest = true -> forallb node_clean forest = true -> forallb named_tree forest = true ->
  let walk := flat_map (preorder_nodes 0) forest in
  os_value (fs_out (indent_format c o forest)) = join (nlb (oc_fmt c)) (flat_map (element_block c o) walk)
  /\ exists evs, tags (html_format c forest) = map erase evs /\ nest 0 evs = map (dn c) walk.
Proof.
  intros Hc Ho Hwf Hcl Hnamed walk. split.
  - rewrite (indent_lines_all c o Ho forest Hwf). f_equal. unfold walk. rewrite flat_map_flat_map.
    clear. induction forest as [|x l IH]; [reflexivity|]. cbn [flat_map]. rewrite node_lines_preorder, IH. reflexivity.
  - exists (flat_map (tree_events c) forest). split.
    + apply format_events_all; assumption.
    + apply nest_forest, Hnamed.
Qed.
