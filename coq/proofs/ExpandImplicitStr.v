(* C01, implicit names, end to end, string level: statements whose elements are written
     name | name.cls | name#id | .cls | #id      (optionally `*digits`)
   separated by `>`, `+`, runs of `^`, with parenthesised groups (optionally `*digits`) nested to
   any depth.  Spec: the depth-counter mark list of the text ([imarks]: an element with its depth,
   its WRITTEN name -- empty when none was written -- and its number of copies; bracket pairs for
   groups), unrolled by ExpandGroups.unrollM, then read left to right by
   ImplicitSpec.resolve_names: a nameless element receives [implicit_spec] of its parent's final
   name (of the context name at top level). *)
From Emmet Require Import lib.Base model.MarkupTokenizer model.MarkupParser model.MarkupConvert
     model.MarkupResolve model.OutStream model.FormatHtml model.FormatIndent model.MarkupExpand.
From Emmet Require Import proofs.ParserSpine proofs.ParserGroups proofs.TokenizeRender proofs.NumberingProofs
     proofs.ConvertProofs proofs.IndentStream proofs.HtmlEvents proofs.ExpandTree proofs.ExpandFlat proofs.ExpandRepeat
     proofs.ExpandGroupsTok proofs.ExpandGroups proofs.ImplicitSpec proofs.ExpandImplicit proofs.ExpandImplicitTok.
Local Open Scope nat_scope.

(* ================================================================ SPEC *)
Definition imarks_with (F : nat -> iunit -> list smark) :=
  fix go (off d : nat) (xs : istmt) : list smark :=
    match xs with
    | [] => []
    | (u, o) :: xs' => F (off + d) u ++ go off (next_depth d o) xs'
    end.
Fixpoint imarksU (p : nat) (u : iunit) : list smark :=
  match u with
  | IE n _ r => [SE p n (copies_of r)]
  | IG body r => SO p :: imarks_with imarksU p 0 body ++ [SC p (copies_of r)]
  end.
Definition imarks (off d : nat) (xs : istmt) : list smark := imarks_with imarksU off d xs.

(* the unrolled preorder (depth, written name) list; the empty name = written without a name *)
Definition unrollI (xs : istmt) : list (nat * str) := unrollM (imarks 0 0 xs).
(* element copies + group copies of the unrolled statement *)
Definition icost (xs : istmt) : nat := length (unrollX gh1 (length (imarks 0 0 xs)) (imarks 0 0 xs)).

(* the implicit name under a parent (final name), or under the context at top level *)
Definition imp_spec (inline : list str) (ctx : option str) (po : option str) : str :=
  implicit_spec inline (match po with Some p => p | None => match ctx with Some n => n | None => [] end end).
Definition idenote (inline : list str) (ctx : option str) (xs : istmt) : list (nat * str) :=
  resolve_names (imp_spec inline ctx) [] (unrollI xs).

(* ================================================================ trees read off the marks *)
Definition all_imark (P Pv : str -> bool) (m : mark) : Prop :=
  match m with
  | MElem _ l => ileaf P Pv l = true
  | MOpen _ => True
  | MClose _ r => clean_rep r = true
  end.

Lemma inamed_of_marks P Pv : forall n d, Forall (all_imark P Pv) (preM d n) -> inamed P Pv n = true.
Proof.
  induction n as [a b c r s els IH|els r IH] using tnode_ind'; intros d H.
  - rewrite preM_elem in H. inversion H as [|m ms Hm Hms]; subst. cbn [all_imark] in Hm.
    cbn [inamed]. rewrite Hm. cbn [andb]. apply forallb_forall. intros k Hk. rewrite Forall_forall in IH.
    apply (IH k Hk (S d)). apply (Forall_flat_map_inv _ _ _ Hms k Hk).
  - rewrite preM_group in H. inversion H as [|m ms _ Hms]; subst. apply Forall_app in Hms. destruct Hms as [Hels Hc].
    inversion Hc as [|m' ms' Hr _]; subst. cbn [all_imark] in Hr. cbn [inamed]. rewrite Hr. cbn [andb].
    apply forallb_forall. intros k Hk. rewrite Forall_forall in IH.
    apply (IH k Hk d). apply (Forall_flat_map_inv _ _ _ Hels k Hk).
Qed.

Lemma inamed_forest_of_marks P Pv l d : Forall (all_imark P Pv) (preML d l) -> forallb (inamed P Pv) l = true.
Proof.
  intros H. apply forallb_forall. intros k Hk. apply (inamed_of_marks P Pv k d). apply (Forall_flat_map_inv _ _ _ H k Hk).
Qed.

(* every written name of the unrolled tree satisfies P *)
Lemma Forall_ncopies {A} (Q : A -> Prop) k once : Forall Q once -> Forall Q (ncopies k once).
Proof. intros H. unfold ncopies. apply Forall_flat_map. intros i _. exact H. Qed.

Lemma xshape_names P Pv : forall node d, inamed P Pv node = true ->
  Forall (fun x => snd x <> [] -> P (snd x) = true) (xshape [] d node).
Proof.
  induction node as [a b c r s els IH|els r IH] using tnode_ind'; intros d Hn; cbn [inamed] in Hn;
    apply andb_prop in Hn; destruct Hn as [Hl Hels].
  - rewrite xshape_elem. apply Forall_ncopies. constructor.
    + cbn [snd]. destruct (ileaf_inv P Pv _ Hl) as [nv [av [Hnv [_ [_ [_ [H1 _]]]]]]].
      unfold leaf_name. rewrite <- (name_view_leaf _ nv Hnv). destruct nv as [v|]; [intros _; exact H1|intros H; contradiction].
    + apply Forall_flat_map. intros k Hk. rewrite Forall_forall in IH. rewrite forallb_forall in Hels. apply (IH k Hk (S d) (Hels k Hk)).
  - rewrite xshape_group. apply Forall_ncopies. cbn [app]. apply Forall_flat_map. intros k Hk.
    rewrite Forall_forall in IH. rewrite forallb_forall in Hels. apply (IH k Hk d (Hels k Hk)).
Qed.

(* ================================================================ the marks of a laid-out statement *)
(* every written name satisfies P, every written class / id value satisfies Pv *)
Definition ifine_with (F : iunit -> bool) := fix go (xs : istmt) : bool := match xs with [] => true | (u, _) :: xs' => F u && go xs' end.
Fixpoint ifine_unit (P Pv : str -> bool) (u : iunit) : bool :=
  match u with
  | IE n sh _ => match n with [] => true | _ :: _ => P n end && match sh with Some (_, w) => Pv w | None => true end
  | IG body _ => ifine_with (ifine_unit P Pv) body
  end.
Definition ifine (P Pv : str -> bool) (xs : istmt) : bool := ifine_with (ifine_unit P Pv) xs.

Lemma ie_leaf_facts P Pv n sh r pos :
  ifine_unit P Pv (IE n sh r) = true -> (n = [] -> sh <> None) ->
  ileaf P Pv (ie_leaf n sh r pos) = true /\ leaf_name (ie_leaf n sh r pos) = n /\
  leaf_copies (ie_leaf n sh r pos) = copies_of r.
Proof.
  cbn [ifine_unit]. intros H Hpay. apply andb_prop in H. destruct H as [Hn Hw].
  split; [|split].
  - unfold ileaf, ie_leaf. cbn [lf_name lf_attrs lf_value lf_self lf_repeat].
    assert (Er : clean_rep (rep_of_digits r) = true) by (destruct r; reflexivity).
    destruct n as [|c n']; destruct sh as [[b w]|];
      cbn [name_view attrs_view lit_name name_tok tk option_map sh_attr_view sh_tattr ta_name ta_value ta_expression ta_multiple literal_tok
           nv_ok av_ok some_payload];
      rewrite ?Hn, ?Hw, ?Er; try (destruct b; reflexivity); try reflexivity.
    exfalso. apply Hpay; reflexivity.
  - unfold leaf_name, ie_leaf, lit_name. cbn [lf_name]. destruct n; reflexivity.
  - unfold leaf_copies, ie_leaf, copies_of. cbn [lf_repeat]. destruct r; reflexivity.
Qed.

Definition iunit_marks (P Pv : str -> bool) (u : iunit) : Prop :=
  forall pos p,
    (iwf_unit u -> ifine_unit P Pv u = true -> Forall (all_imark P Pv) (denoteU p (fst (lay_iunit pos u)))) /\
    (iwf_unit u -> map mk (denoteU p (fst (lay_iunit pos u))) = imarksU p u).

Lemma istmt_marks P Pv : forall xs, Forall (fun x => iunit_marks P Pv (fst x)) xs ->
  forall pos off d,
    (iwf xs -> ifine P Pv xs = true -> Forall (all_imark P Pv) (denoteG off d (fst (lay_istmt pos xs)))) /\
    (iwf xs -> map mk (denoteG off d (fst (lay_istmt pos xs))) = imarks off d xs).
Proof.
  induction xs as [|[u o] xs' IH]; intros HF pos off d; [split; [constructor|reflexivity]|].
  inversion HF as [|x l Hu Hr]; subst. cbn [fst] in Hu.
  destruct (Hu pos (off + d)) as [Hu1 Hu2].
  destruct xs' as [|y xs''].
  - cbn [lay_istmt lay_istmt_with fst denoteG denote_with imarks imarks_with ifine ifine_with iwf iwf_with].
    rewrite !app_nil_r. split.
    + intros [Hw _] Hf. rewrite andb_true_r in Hf. apply Hu1; assumption.
    + intros [Hw _]. apply Hu2, Hw.
  - rewrite lay_istmt_cons. cbn [fst]. cbn [denoteG denote_with].
    fold (denoteG off (next_depth d o) (fst (lay_istmt (pos + iulen u + length (op_text o)) (y :: xs'')))).
    destruct (IH Hr (pos + iulen u + length (op_text o)) off (next_depth d o)) as [I1 I2]. split.
    + intros Hw Hf. change (iwf ((u, o) :: y :: xs'')) with (iwf_unit u /\ (is_ig u = true -> o <> SChild) /\ iwf (y :: xs'')) in Hw.
      destruct Hw as [Hwu [_ Hwx]].
      change (ifine P Pv ((u, o) :: y :: xs'')) with (ifine_unit P Pv u && ifine P Pv (y :: xs'')) in Hf.
      apply andb_prop in Hf. destruct Hf as [Hf1 Hf2].
      apply Forall_app. split; [apply Hu1; assumption|apply I1; assumption].
    + intros Hw. change (iwf ((u, o) :: y :: xs'')) with (iwf_unit u /\ (is_ig u = true -> o <> SChild) /\ iwf (y :: xs'')) in Hw.
      destruct Hw as [Hwu [_ Hwx]]. rewrite map_app, (Hu2 Hwu), (I2 Hwx). reflexivity.
Qed.

Theorem iunit_marks_all P Pv : forall u, iunit_marks P Pv u.
Proof.
  induction u as [n sh r|body r IH] using iunit_ind'; intros pos p.
  - cbn [lay_iunit fst denoteU map mk imarksU]. split.
    + intros Hw Hf. cbn [iwf_unit] in Hw. destruct Hw as [_ [_ [_ Hpay]]].
      constructor; [|constructor]. cbn [all_imark]. apply (ie_leaf_facts P Pv n sh r pos Hf Hpay).
    + intros Hw. cbn [iwf_unit] in Hw. destruct Hw as [_ [_ [_ Hpay]]].
      unfold ie_leaf, leaf_name, leaf_copies, lit_name, copies_of. cbn [lf_name lf_repeat].
      f_equal. destruct n; destruct r; reflexivity.
  - cbn [lay_iunit fst denoteU imarksU]. fold (lay_istmt (pos + 1) body).
    fold (denoteG p 0 (fst (lay_istmt (pos + 1) body))). fold (imarks p 0 body).
    destruct (istmt_marks P Pv body IH (pos + 1) p 0) as [I1 I2]. split.
    + intros Hw Hf. cbn [iwf_unit] in Hw. destruct Hw as [Hwb _]. cbn [ifine_unit] in Hf.
      constructor; [exact I|]. apply Forall_app. split; [apply I1; assumption|].
      constructor; [|constructor]. cbn [all_imark]. destruct r; reflexivity.
    + intros Hw. cbn [iwf_unit] in Hw. destruct Hw as [Hwb _].
      cbn [map mk]. rewrite map_app, (I2 Hwb). cbn [map mk]. rewrite copies_of_leaf. reflexivity.
Qed.

(* ================================================================ decidable well-formedness *)
Definition name_okb (n : str) : bool := match n with [] => true | _ :: _ => wide_name n end.
Definition sh_okb (sh : option (bool * str)) : bool := match sh with Some (_, w) => wide_name w | None => true end.
Definition payloadb (n : str) (sh : option (bool * str)) : bool :=
  match n, sh with [], None => false | _, _ => true end.
Definition iwfb_with (F : iunit -> bool) :=
  fix go (xs : istmt) : bool :=
    match xs with
    | [] => true
    | (u, o) :: xs' => F u && negb (is_ig u && match o with SChild => true | _ => false end) && go xs'
    end.
Fixpoint iwfb_unit (u : iunit) : bool :=
  match u with
  | IE n sh r => name_okb n && sh_okb sh && rep_okb r && payloadb n sh
  | IG body r => iwfb_with iwfb_unit body && rep_okb r
  end.
Definition iwfb (xs : istmt) : bool := iwfb_with iwfb_unit xs.

Lemma iwfb_stmt : forall xs, Forall (fun x => iwfb_unit (fst x) = true -> iwf_unit (fst x)) xs ->
  iwfb_with iwfb_unit xs = true -> iwf_with iwf_unit xs.
Proof.
  induction xs as [|[u o] xs IH]; intros HF H; [exact I|].
  inversion HF as [|x l Hu Hr]; subst. cbn [fst] in Hu. cbn [iwfb_with] in H.
  apply andb_prop in H. destruct H as [H H3]. apply andb_prop in H. destruct H as [H1 H2].
  cbn [iwf_with]. split; [apply Hu, H1|]. split; [|apply IH; assumption].
  intros Hg Ho. subst o. rewrite Hg in H2. discriminate.
Qed.

Theorem iwfb_unit_ok : forall u, iwfb_unit u = true -> iwf_unit u.
Proof.
  induction u as [n sh r|body r IH] using iunit_ind'; intros H; cbn [iwfb_unit iwf_unit] in *.
  - apply andb_prop in H. destruct H as [H H4]. apply andb_prop in H. destruct H as [H H3]. apply andb_prop in H. destruct H as [H1 H2].
    repeat split.
    + destruct n as [|c n']; [left; reflexivity|right; apply wide_name_ok, H1].
    + destruct sh as [[b w]|]; [apply wide_name_ok, H2|exact I].
    + apply rep_okb_ok, H3.
    + intros -> ->. discriminate.
  - apply andb_prop in H. destruct H as [H1 H2]. split; [apply iwfb_stmt; assumption|apply rep_okb_ok, H2].
Qed.

Theorem iwfb_ok xs : iwfb xs = true -> iwf xs.
Proof. apply iwfb_stmt. apply Forall_forall. intros x _. apply iwfb_unit_ok. Qed.

(* ================================================================ C01 with implicit names, end to end *)
(* a written name: wide, not a snippet key, not `lorem...`, and not one of the undocumented parents *)
Definition iname_fine (x : xconfig) (n : str) : bool := name_fine_w x n && documented_parent n.
(* a written class / id value: a wide name *)
Definition ivalue_fine (w : str) : bool := wide_name w.

Definition ctx_str (m : mconfig) : str := match mc_context_name m with Some n => n | None => [] end.

(* configuration side (clean domain of C01Expand, BEM addon off, the context name not an
   undocumented parent); well-formed statement; no `Cap.Cap` unit under JSX; names and values
   fine; element copies + group copies of the unrolled statement within the repeat budget *)
Definition impl_ok (x : xconfig) (xs : istmt) : bool :=
  cfg_ok x && negb (mc_bem (xc_m x)) && documented_parent (ctx_str (xc_m x)) &&
  iwfb xs && ijsx (mc_jsx (xc_m x)) xs && ifine (iname_fine x) ivalue_fine xs &&
  (Z.of_nat (icost xs) <=? budget_of (mc_max_repeat (xc_m x)))%Z.

Lemma ivalue_sem w : ivalue_fine w = true -> value_sem w = true.
Proof.
  unfold ivalue_fine, value_sem. intros H. destruct (wide_name_clean w H) as [A _]. rewrite A.
  destruct w; [discriminate|reflexivity].
Qed.

Theorem expand_tree_implicit (x : xconfig) (xs : istmt) :
  impl_ok x xs = true ->
  exists st,
    expand_markup x (render4 xs) = Ok st /\
    nestT 0 (tags st) =
      map (fun p => (fst p, tag_name (xc_o x) (snd p)))
          (idenote (mc_inline (xc_m x)) (mc_context_name (xc_m x)) xs).
Proof.
  intros H. unfold impl_ok in H.
  apply andb_prop in H. destruct H as [H Hbud]. apply andb_prop in H. destruct H as [H Hfine].
  apply andb_prop in H. destruct H as [H Hjsx]. apply andb_prop in H. destruct H as [H Hwfb].
  apply andb_prop in H. destruct H as [H Hctx]. apply andb_prop in H. destruct H as [Hc Hbem].
  apply negb_true_iff in Hbem. apply Z.leb_le in Hbud.
  set (m := xc_m x) in *.
  pose proof (iwfb_ok xs Hwfb) as Hwf.
  pose proof (toks_render4 xs Hwf) as Htok.
  destruct (parse_gflat (mc_jsx m) _ _ (lay_istmt_gflat (mc_jsx m) xs Hwf Hjsx 0)) as [Hp Hm].
  set (root := closed (grun (fst (lay_istmt 0 xs)) root0)) in *.
  destruct (istmt_marks (iname_fine x) ivalue_fine xs
              (proj2 (Forall_forall _ _) (fun u _ => iunit_marks_all (iname_fine x) ivalue_fine (fst u))) 0 0 0)
    as [Hall Hsm].
  specialize (Hall Hwf Hfine). specialize (Hsm Hwf). rewrite <- Hm in Hall, Hsm.
  pose proof (inamed_forest_of_marks (iname_fine x) ivalue_fine root 0 Hall) as Hnamed.
  fold (smk 0 root) in Hsm.
  assert (Hshape : flat_map (xshape [] 0) root = unrollI xs).
  { unfold unrollI, unrollM. rewrite <- Hsm. rewrite unrollX_forest by lia. reflexivity. }
  assert (HPsem : forall n, iname_fine x n = true -> name_sem x n = true).
  { intros n Hn. unfold iname_fine in Hn. apply andb_prop in Hn. apply name_fine_w_sem, Hn. }
  destruct (expand_tree_I (iname_fine x) ivalue_fine x (render4 xs) _ _ HPsem ivalue_sem Hc Hbem Htok Hp Hnamed) as [st [He Hnest]].
  { pose proof (total_list_le_cost root 0) as Hle. unfold icost in Hbud. rewrite <- Hsm in Hbud.
    rewrite unrollX_forest in Hbud by lia. unfold m in *. lia. }
  exists st. split; [exact He|]. rewrite Hnest, Hshape. unfold idenote. f_equal.
  apply (resolve_names_ext (fun p => documented_parent p = true)).
  - unfold imp_model, imp_spec. cbn [pn_of]. rewrite implicit_name_of_eq. cbn [parent_str]. fold m.
    apply implicit_spec_ok. exact Hctx.
  - intros p Hd. unfold imp_model, imp_spec. cbn [pn_of]. rewrite implicit_name_of_eq. cbn [parent_str].
    apply implicit_spec_ok. exact Hd.
  - intros po. unfold imp_spec. pose proof spec_values_documented as Hv. rewrite forallb_forall in Hv.
    apply Hv, implicit_spec_value.
  - constructor.
  - rewrite <- Hshape. apply Forall_flat_map. intros k Hk. rewrite forallb_forall in Hnamed.
    eapply Forall_impl; [|apply (xshape_names (iname_fine x) ivalue_fine k 0 (Hnamed k Hk))].
    cbn beta. intros a Ha Hne. specialize (Ha Hne). unfold iname_fine in Ha. apply andb_prop in Ha. apply Ha.
Qed.
