(* C01, end to end, string level, statements with groups and repeaters on elements and groups.
   Spec: the depth-counter mark list of the text ([smarks]: an element with its depth and number
   of copies, a bracket pair around a group's contents with the group's number of copies on the
   closing one), unrolled by [unrollM]: an element stands for k consecutive copies of itself
   followed by everything written deeper right after it; a bracket pair stands for k consecutive
   copies of its contents. *)
From Emmet Require Import lib.Base model.MarkupTokenizer model.MarkupParser model.MarkupConvert
     model.MarkupResolve model.OutStream model.FormatHtml model.FormatIndent model.MarkupExpand.
From Emmet Require Import proofs.ParserSpine proofs.ParserGroups proofs.TokenizeRender proofs.NumberingProofs
     proofs.ConvertProofs proofs.IndentStream proofs.HtmlEvents proofs.ExpandTree proofs.ExpandFlat proofs.ExpandRepeat
     proofs.ExpandGroupsTok.
Local Open Scope nat_scope.

(* ================================================================ SPEC *)
Inductive smark := SE (d : nat) (n : str) (k : N) | SO (d : nat) | SC (d : nat) (k : N).

(* depth-counter semantics of a statement written at depth [off]: `>` one deeper, `+` same, each
   `^` one up, stopping at the top of the statement; a group is one unit for what follows it *)
Definition smarks_with (F : nat -> sunit -> list smark) :=
  fix go (off d : nat) (xs : sstmt) : list smark :=
    match xs with
    | [] => []
    | (u, o) :: xs' => F (off + d) u ++ go off (next_depth d o) xs'
    end.
Fixpoint smarksU (p : nat) (u : sunit) : list smark :=
  match u with
  | UE n r => [SE p n (copies_of r)]
  | UG body r => SO p :: smarks_with smarksU p 0 body ++ [SC p (copies_of r)]
  end.
Definition smarks (off d : nat) (xs : sstmt) : list smark := smarks_with smarksU off d xs.

Definition sdepth (m : smark) : nat := match m with SE d _ _ | SO d | SC d _ => d end.
Definition sdeeper (d : nat) (m : smark) : bool := d <? sdepth m.

(* distance to the closing bracket that matches an already opened one; [n] = brackets opened since *)
Fixpoint match_close (n : nat) (l : list smark) : nat :=
  match l with
  | [] => 0
  | SO _ :: r => S (match_close (S n) r)
  | SC _ _ :: r => match n with 0 => 0 | S n' => S (match_close n' r) end
  | SE _ _ _ :: r => S (match_close n r)
  end.

(* [gh] = what one copy of a group contributes by itself: nothing in the denotation ([unrollM]);
   one entry when copies are counted against the budget ([cost3]) *)
Fixpoint unrollX (gh : list (nat * str)) (fuel : nat) (l : list smark) : list (nat * str) :=
  match fuel with
  | O => []
  | S f =>
      match l with
      | [] => []
      | SE d n k :: rest =>
          let m := prefix_len (sdeeper d) rest in
          ncopies (N.to_nat k) ((d, n) :: unrollX gh f (firstn m rest)) ++ unrollX gh f (skipn m rest)
      | SO d :: rest =>
          let m := match_close 0 rest in
          match skipn m rest with
          | SC _ k :: after => ncopies (N.to_nat k) (gh ++ unrollX gh f (firstn m rest)) ++ unrollX gh f after
          | _ => []
          end
      | SC _ _ :: _ => []
      end
  end.
Definition gh1 : list (nat * str) := [(0, [])].
Definition unrollM (l : list smark) : list (nat * str) := unrollX [] (length l) l.
Definition unrollS3 (xs : sstmt) : list (nat * str) := unrollM (smarks 0 0 xs).
(* element copies + group copies of the unrolled statement *)
Definition cost3 (xs : sstmt) : nat := length (unrollX gh1 (length (smarks 0 0 xs)) (smarks 0 0 xs)).

(* ================================================================ marks of token trees, as spec marks *)
Definition orep_copies (r : option rep) : N := match r with Some r0 => written_count r0 | None => 1%N end.
Definition mk (m : mark) : smark :=
  match m with
  | MElem d l => SE d (leaf_name l) (leaf_copies l)
  | MOpen d => SO d
  | MClose d r => SC d (orep_copies r)
  end.
Definition smk (d : nat) (l : list tnode) : list smark := map mk (preML d l).

Lemma smk_elem d a b c r s els l :
  smk d (TElem a b c r s els :: l) =
  SE d (leaf_name (mkLeaf a b c r s)) (leaf_copies (mkLeaf a b c r s)) :: smk (S d) els ++ smk d l.
Proof. unfold smk. cbn [preML flat_map]. rewrite preM_elem. cbn [app map mk]. rewrite map_app. reflexivity. Qed.

Lemma smk_group d els r l :
  smk d (TGroup els r :: l) = SO d :: smk d els ++ SC d (orep_copies r) :: smk d l.
Proof.
  unfold smk. cbn [preML flat_map]. rewrite preM_group. cbn [app map mk]. rewrite !map_app. cbn [map mk].
  rewrite <- app_assoc. reflexivity.
Qed.

Lemma smk_nil d : smk d [] = [].
Proof. reflexivity. Qed.

(* the generic unrolled shape of a token tree *)
Fixpoint xshape (gh : list (nat * str)) (d : nat) (node : tnode) {struct node} : list (nat * str) :=
  let once :=
    match node with
    | TGroup els _ => gh ++ flat_map (xshape gh d) els
    | TElem a b c r s els => (d, leaf_name (mkLeaf a b c r s)) :: flat_map (xshape gh (S d)) els
    end in
  ncopies (N.to_nat (orep_copies (node_rep node))) once.

Lemma xshape_elem gh d a b c r s els :
  xshape gh d (TElem a b c r s els) =
  ncopies (N.to_nat (leaf_copies (mkLeaf a b c r s))) ((d, leaf_name (mkLeaf a b c r s)) :: flat_map (xshape gh (S d)) els).
Proof. reflexivity. Qed.
Lemma xshape_group gh d els r :
  xshape gh d (TGroup els r) = ncopies (N.to_nat (orep_copies r)) (gh ++ flat_map (xshape gh d) els).
Proof. reflexivity. Qed.

Lemma xshape_nshape : forall n d, xshape [] d n = nshape d n.
Proof.
  induction n as [a b c r s els IH|els r IH] using tnode_ind'; intros d.
  - rewrite xshape_elem, nshape_elem. f_equal. f_equal. apply flat_map_ext_Forall.
    eapply Forall_impl; [|exact IH]. cbn beta. intros k Hk. apply Hk.
  - rewrite xshape_group, nshape_unfold. cbn [node_rep nshape_once app orep_copies].
    assert (E : flat_map (xshape [] d) els = flat_map (nshape d) els).
    { apply flat_map_ext_Forall. eapply Forall_impl; [|exact IH]. cbn beta. intros k Hk. apply Hk. }
    rewrite E. destruct r as [r0|]; [reflexivity|]. change (N.to_nat 1) with 1. apply ncopies_one.
Qed.

(* ---------------------------------------------------------------- depth and bracket structure of tree marks *)
Lemma smk_app d a b : smk d (a ++ b) = smk d a ++ smk d b.
Proof. unfold smk. rewrite preML_app, map_app. reflexivity. Qed.

Lemma smk_flat d l : smk d l = flat_map (fun n => smk d [n]) l.
Proof.
  induction l as [|n l IH]; [reflexivity|]. change (n :: l) with ([n] ++ l). rewrite smk_app, IH. reflexivity.
Qed.

Lemma smk_depth : forall l d, Forall (fun m => d <= sdepth m) (smk d l).
Proof.
  assert (Hn : forall n d, Forall (fun m => d <= sdepth m) (smk d [n])).
  { induction n as [a b c r s els IH|els r IH] using tnode_ind'; intros d.
    - rewrite smk_elem, smk_nil, app_nil_r. constructor; [cbn; lia|].
      rewrite smk_flat. apply Forall_flat_map. intros k Hk. rewrite Forall_forall in IH.
      eapply Forall_impl; [|apply (IH k Hk (S d))]. cbn beta. intros m Hm. lia.
    - rewrite smk_group, smk_nil. constructor; [cbn; lia|]. apply Forall_app. split; [|constructor; [cbn; lia|constructor]].
      rewrite smk_flat. apply Forall_flat_map. intros k Hk. rewrite Forall_forall in IH. apply (IH k Hk d). }
  intros l d. rewrite smk_flat. apply Forall_flat_map. intros k _. apply Hn.
Qed.

Lemma smk_head l d : match smk d l with [] => True | m :: _ => sdeeper d m = false end.
Proof.
  destruct l as [|n l]; [exact I|]. destruct n as [a b c r s els|els r]; [rewrite smk_elem|rewrite smk_group];
    unfold sdeeper; cbn [sdepth]; apply Nat.ltb_irrefl.
Qed.

Lemma mc_list els d :
  Forall (fun x => forall d n R, match_close n (smk d [x] ++ R) = length (smk d [x]) + match_close n R) els ->
  forall n R, match_close n (smk d els ++ R) = length (smk d els) + match_close n R.
Proof.
  induction els as [|k els IHe]; intros IH n R; [reflexivity|].
  inversion IH as [|k' l' Hk Hr]; subst. change (k :: els) with ([k] ++ els). rewrite smk_app, <- app_assoc, app_length.
  rewrite Hk, (IHe Hr). lia.
Qed.

Lemma match_close_forest : forall l d n R, match_close n (smk d l ++ R) = length (smk d l) + match_close n R.
Proof.
  assert (Hn : forall x d n R, match_close n (smk d [x] ++ R) = length (smk d [x]) + match_close n R).
  { induction x as [a b c r s els IH|els r IH] using tnode_ind'; intros d n R.
    - rewrite smk_elem, smk_nil, app_nil_r. cbn [app match_close length]. rewrite (mc_list els (S d) IH). lia.
    - rewrite smk_group, smk_nil. cbn [app match_close length]. rewrite <- app_assoc. cbn [app].
      rewrite (mc_list els d IH). rewrite app_length. cbn [match_close length]. lia. }
  intros l d. apply mc_list. apply Forall_forall. intros x _. apply Hn.
Qed.

(* ---------------------------------------------------------------- unrolling the marks = unrolling the tree *)
Theorem unrollX_forest gh : forall fuel l d,
  length (smk d l) <= fuel -> unrollX gh fuel (smk d l) = flat_map (xshape gh d) l.
Proof.
  induction fuel as [|f IH]; intros l d Hlen.
  - destruct l as [|n l]; [reflexivity|]. destruct n; [rewrite smk_elem in Hlen|rewrite smk_group in Hlen]; cbn [length] in Hlen; lia.
  - destruct l as [|n l]; [reflexivity|]. destruct n as [a b c r s els|els r].
    + rewrite smk_elem in *. cbn [length] in Hlen. rewrite app_length in Hlen. cbn [unrollX flat_map].
      assert (Hm : prefix_len (sdeeper d) (smk (S d) els ++ smk d l) = length (smk (S d) els)).
      { apply prefix_len_app; [|apply smk_head].
        eapply Forall_impl; [|apply (smk_depth els (S d))]. cbn beta. intros m Hm. unfold sdeeper. apply Nat.ltb_lt. lia. }
      rewrite Hm. rewrite firstn_app, Nat.sub_diag, firstn_all. cbn [firstn]. rewrite app_nil_r.
      rewrite skipn_app, Nat.sub_diag, skipn_all. cbn [skipn app].
      rewrite (IH els (S d)) by lia. rewrite (IH l d) by lia. rewrite xshape_elem. reflexivity.
    + rewrite smk_group in *. cbn [length] in Hlen. rewrite app_length in Hlen. cbn [length] in Hlen. cbn [unrollX flat_map].
      assert (Hm : match_close 0 (smk d els ++ SC d (orep_copies r) :: smk d l) = length (smk d els)).
      { rewrite match_close_forest. cbn [match_close]. lia. }
      rewrite Hm. rewrite firstn_app, Nat.sub_diag, firstn_all. cbn [firstn]. rewrite app_nil_r.
      rewrite skipn_app, Nat.sub_diag, skipn_all. cbn [skipn app].
      rewrite (IH els d) by lia. rewrite (IH l d) by lia. rewrite xshape_group. reflexivity.
Qed.

(* completed copies never exceed element copies + group copies *)
Lemma total_le_cost : forall n d, (total n <= Z.of_nat (length (xshape gh1 d n)))%Z.
Proof.
  induction n as [a b c r s els IH|els r IH] using tnode_ind'; intros d.
  - rewrite xshape_elem, ncopies_length. cbn [length].
    assert (Hin : (inner_total (TElem a b c r s els) <= Z.of_nat (length (flat_map (xshape gh1 (S d)) els)))%Z).
    { unfold inner_total. cbn [elements_of']. clear -IH. induction els as [|k els IHe]; [cbn; lia|].
      inversion IH as [|x y Hk Hr]; subst.
      cbn [map zsum fold_right flat_map]. fold (zsum (map total els)). rewrite app_length, Nat2Z.inj_add.
      specialize (Hk (S d)). specialize (IHe Hr). lia. }
    assert (Hnn : (0 <= inner_total (TElem a b c r s els))%Z).
    { unfold inner_total. apply zsum_nonneg. apply Forall_map. apply Forall_forall. intros; apply total_nonneg. }
    rewrite total_unfold. cbn [node_rep]. unfold leaf_copies. cbn [lf_repeat]. destruct r as [r0|].
    + pose proof (written_count_pos r0). rewrite Nat2Z.inj_mul, N_nat_Z. rewrite Nat2Z.inj_succ. nia.
    + change (N.to_nat 1) with 1. lia.
  - rewrite xshape_group, ncopies_length.
    assert (Egh : forall y : list (nat * str), length (gh1 ++ y) = S (length y)) by reflexivity. rewrite Egh.
    assert (Hin : (inner_total (TGroup els r) <= Z.of_nat (length (flat_map (xshape gh1 d) els)))%Z).
    { unfold inner_total. cbn [elements_of']. clear -IH. induction els as [|k els IHe]; [cbn; lia|].
      inversion IH as [|x y Hk Hr]; subst.
      cbn [map zsum fold_right flat_map]. fold (zsum (map total els)). rewrite app_length, Nat2Z.inj_add.
      specialize (Hk d). specialize (IHe Hr). lia. }
    assert (Hnn : (0 <= inner_total (TGroup els r))%Z).
    { unfold inner_total. apply zsum_nonneg. apply Forall_map. apply Forall_forall. intros; apply total_nonneg. }
    rewrite total_unfold. cbn [node_rep]. destruct r as [r0|]; cbn [orep_copies].
    + pose proof (written_count_pos r0). rewrite Nat2Z.inj_mul, N_nat_Z. rewrite Nat2Z.inj_succ. nia.
    + change (N.to_nat 1) with 1. lia.
Qed.

Lemma total_list_le_cost l d : (total_list l <= Z.of_nat (length (flat_map (xshape gh1 d) l)))%Z.
Proof.
  unfold total_list. induction l as [|n l IH]; [cbn; lia|].
  cbn [map zsum fold_right flat_map]. fold (zsum (map total l)). rewrite app_length, Nat2Z.inj_add.
  pose proof (total_le_cost n d). lia.
Qed.

(* ================================================================ trees of named elements, read off the marks *)
Definition all_mark (P : str -> bool) (m : mark) : Prop :=
  match m with
  | MElem _ l => named_leaf P l = true
  | MOpen _ => True
  | MClose _ r => clean_rep r = true
  end.

Lemma named_of_marks P : forall n d, Forall (all_mark P) (preM d n) -> named P n = true.
Proof.
  induction n as [a b c r s els IH|els r IH] using tnode_ind'; intros d H.
  - rewrite preM_elem in H. inversion H as [|m ms Hm Hms]; subst. cbn [all_mark] in Hm.
    cbn [named]. rewrite Hm. cbn [andb]. apply forallb_forall. intros k Hk. rewrite Forall_forall in IH.
    apply (IH k Hk (S d)). apply (Forall_flat_map_inv _ _ _ Hms k Hk).
  - rewrite preM_group in H. inversion H as [|m ms _ Hms]; subst. apply Forall_app in Hms. destruct Hms as [Hels Hc].
    inversion Hc as [|m' ms' Hr _]; subst. cbn [all_mark] in Hr. cbn [named]. rewrite Hr. cbn [andb].
    apply forallb_forall. intros k Hk. rewrite Forall_forall in IH.
    apply (IH k Hk d). apply (Forall_flat_map_inv _ _ _ Hels k Hk).
Qed.

Lemma named_forest_of_marks P l d : Forall (all_mark P) (preML d l) -> forallb (named P) l = true.
Proof.
  intros H. apply forallb_forall. intros k Hk. apply (named_of_marks P k d). apply (Forall_flat_map_inv _ _ _ H k Hk).
Qed.

(* ================================================================ the marks of a laid-out statement *)
Definition snames_with (F : sunit -> list str) :=
  fix go (xs : sstmt) : list str := match xs with [] => [] | (u, _) :: xs' => F u ++ go xs' end.
Fixpoint unames (u : sunit) : list str :=
  match u with UE n _ => [n] | UG body _ => snames_with unames body end.
Definition snames (xs : sstmt) : list str := snames_with unames xs.

Lemma copies_of_leaf r : orep_copies (rep_of_digits r) = copies_of r.
Proof. destruct r as [ds|]; reflexivity. Qed.

Definition unit_marks (P : str -> bool) (u : sunit) : Prop :=
  forall pos p,
    (forallb P (unames u) = true -> Forall (all_mark P) (denoteU p (fst (lay_unit pos u)))) /\
    map mk (denoteU p (fst (lay_unit pos u))) = smarksU p u.

Lemma stmt_marks P : forall xs, Forall (fun x => unit_marks P (fst x)) xs ->
  forall pos off d,
    (forallb P (snames xs) = true -> Forall (all_mark P) (denoteG off d (fst (lay_stmt pos xs)))) /\
    map mk (denoteG off d (fst (lay_stmt pos xs))) = smarks off d xs.
Proof.
  induction xs as [|[u o] xs' IH]; intros HF pos off d; [split; [constructor|reflexivity]|].
  inversion HF as [|x l Hu Hr]; subst. cbn [fst] in Hu.
  destruct (Hu pos (off + d)) as [Hu1 Hu2].
  destruct xs' as [|y xs''].
  - cbn [lay_stmt lay_stmt_with fst denoteG denote_with smarks smarks_with snames snames_with].
    rewrite !app_nil_r. split; [exact Hu1|exact Hu2].
  - rewrite lay_stmt_cons. cbn [fst]. cbn [denoteG denote_with]. fold (denoteG off (next_depth d o) (fst (lay_stmt (pos + ulen u + length (op_text o)) (y :: xs'')))).
    destruct (IH Hr (pos + ulen u + length (op_text o)) off (next_depth d o)) as [I1 I2]. split.
    + intros Hn. change (snames ((u, o) :: y :: xs'')) with (unames u ++ snames (y :: xs'')) in Hn.
      rewrite forallb_app in Hn. apply andb_prop in Hn. destruct Hn as [Hn1 Hn2].
      apply Forall_app. split; [apply Hu1, Hn1|apply I1, Hn2].
    + rewrite map_app, Hu2, I2. reflexivity.
Qed.

Theorem unit_marks_all P : forall u, unit_marks P u.
Proof.
  induction u as [n r|body r IH] using sunit_ind'; intros pos p.
  - cbn [lay_unit fst denoteU unames forallb map mk smarksU]. split.
    + intros Hn. rewrite andb_true_r in Hn. constructor; [|constructor]. cbn [all_mark].
      destruct (named_item_leaf P (n, r) pos Hn) as [Hl _]. exact Hl.
    + f_equal. f_equal. destruct r as [ds|]; reflexivity.
  - cbn [lay_unit fst denoteU unames smarksU]. fold (lay_stmt (pos + 1) body). fold (snames body).
    fold (denoteG p 0 (fst (lay_stmt (pos + 1) body))). fold (smarks p 0 body).
    destruct (stmt_marks P body IH (pos + 1) p 0) as [I1 I2]. split.
    + intros Hn. constructor; [exact I|]. apply Forall_app. split; [apply I1, Hn|].
      constructor; [|constructor]. cbn [all_mark]. destruct r; reflexivity.
    + cbn [map mk]. rewrite map_app, I2. cbn [map mk]. rewrite copies_of_leaf. reflexivity.
Qed.

(* ================================================================ decidable well-formedness *)
Definition rep_okb (r : option str) : bool := match r with Some ds => digits_okb ds | None => true end.
Definition swfb_with (F : sunit -> bool) :=
  fix go (xs : sstmt) : bool :=
    match xs with
    | [] => true
    | (u, o) :: xs' => F u && negb (is_ug u && match o with SChild => true | _ => false end) && go xs'
    end.
Fixpoint swfb_unit (u : sunit) : bool :=
  match u with
  | UE n r => wide_name n && rep_okb r
  | UG body r => swfb_with swfb_unit body && rep_okb r
  end.
Definition swfb (xs : sstmt) : bool := swfb_with swfb_unit xs.

Lemma rep_okb_ok r : rep_okb r = true -> rep_okP r.
Proof. destruct r; [apply digits_okb_ok|intros; exact I]. Qed.

Lemma swfb_stmt : forall xs, Forall (fun x => swfb_unit (fst x) = true -> swf_unit (fst x)) xs ->
  swfb_with swfb_unit xs = true -> swf_with swf_unit xs.
Proof.
  induction xs as [|[u o] xs IH]; intros HF H; [exact I|].
  inversion HF as [|x l Hu Hr]; subst. cbn [fst] in Hu. cbn [swfb_with] in H.
  apply andb_prop in H. destruct H as [H H3]. apply andb_prop in H. destruct H as [H1 H2].
  cbn [swf_with]. split; [apply Hu, H1|]. split; [|apply IH; assumption].
  intros Hg Ho. subst o. rewrite Hg in H2. discriminate.
Qed.

Theorem swfb_unit_ok : forall u, swfb_unit u = true -> swf_unit u.
Proof.
  induction u as [n r|body r IH] using sunit_ind'; intros H; cbn [swfb_unit swf_unit] in *;
    apply andb_prop in H; destruct H as [H1 H2].
  - split; [apply wide_name_ok, H1|apply rep_okb_ok, H2].
  - split; [apply swfb_stmt; assumption|apply rep_okb_ok, H2].
Qed.

Theorem swfb_ok xs : swfb xs = true -> swf xs.
Proof. apply swfb_stmt. apply Forall_forall. intros x _. apply swfb_unit_ok. Qed.

(* ================================================================ wide names are fine for the pipeline *)
Definition name_fine_w (x : xconfig) (n : str) : bool :=
  wide_name n && no_snippet (xc_m x) n && not_lorem n.

Lemma wide_name_clean n : wide_name n = true -> nolt n = true /\ nocrlf n = true /\ name_start n = true.
Proof.
  destruct n as [|c r]; [discriminate|]. cbn [wide_name]. intros H. apply andb_prop in H. destruct H as [Hc Hr].
  assert (Hall : forall y, In y (c :: r) -> namec y = true).
  { intros y [<-|Hy]; [apply alpha_namec, Hc|]. rewrite forallb_forall in Hr. apply Hr, Hy. }
  repeat split.
  - unfold nolt. apply forallb_forall. intros y Hy. rewrite (namec_not y c_lt (Hall y Hy)) by (unfold c_lt; lia). reflexivity.
  - unfold nocrlf. apply forallb_forall. intros y Hy. unfold IndentStream.is_crlf.
    rewrite (namec_not y c_cr (Hall y Hy)) by (unfold c_cr; lia).
    rewrite (namec_not y c_nl (Hall y Hy)) by (unfold c_nl; lia). reflexivity.
  - cbn [name_start]. rewrite (alpha_not c c_slash Hc) by (unfold c_slash; lia).
    rewrite (alpha_not c c_excl Hc) by (unfold c_excl; lia). reflexivity.
Qed.

Lemma name_fine_w_sem x n : name_fine_w x n = true -> name_sem x n = true.
Proof.
  unfold name_fine_w, name_sem. intros H. apply andb_prop in H. destruct H as [H H3]. apply andb_prop in H. destruct H as [H1 H2].
  destruct (wide_name_clean n H1) as [A [B C]]. rewrite A, B, C, H2, H3. destruct n; [discriminate|reflexivity].
Qed.

(* ================================================================ C01 with groups, end to end *)
(* configuration side; well-formed statement; every written name fine; element copies + group
   copies of the unrolled statement within the repeat budget *)
Definition grp_ok (x : xconfig) (xs : sstmt) : bool :=
  cfg_ok x && swfb xs && forallb (name_fine_w x) (snames xs) &&
  (Z.of_nat (cost3 xs) <=? budget_of (mc_max_repeat (xc_m x)))%Z.

Theorem expand_tree_groups (x : xconfig) (xs : sstmt) :
  grp_ok x xs = true ->
  exists st,
    expand_markup x (render3 xs) = Ok st /\
    nestT 0 (tags st) = map (fun p => (fst p, tag_name (xc_o x) (snd p))) (unrollS3 xs).
Proof.
  intros H. unfold grp_ok in H. apply andb_prop in H. destruct H as [H Hbud]. apply andb_prop in H. destruct H as [H Hn].
  apply andb_prop in H. destruct H as [Hc Hwfb]. apply Z.leb_le in Hbud.
  pose proof (swfb_ok xs Hwfb) as Hwf.
  pose proof (toks_render3 xs Hwf) as Htok.
  destruct (parse_gflat (mc_jsx (xc_m x)) _ _ (lay_stmt_gflat (mc_jsx (xc_m x)) xs Hwf 0)) as [Hp Hm].
  set (root := closed (grun (fst (lay_stmt 0 xs)) root0)) in *.
  destruct (stmt_marks (name_fine_w x) xs (proj2 (Forall_forall _ _) (fun u _ => unit_marks_all (name_fine_w x) (fst u))) 0 0 0)
    as [Hall Hsm].
  rewrite <- Hm in Hall, Hsm.
  pose proof (named_forest_of_marks (name_fine_w x) root 0 (Hall Hn)) as Hnamed.
  fold (smk 0 root) in Hsm.
  assert (Hshape : flat_map (nshape 0) root = unrollS3 xs).
  { unfold unrollS3, unrollM. rewrite <- Hsm. rewrite unrollX_forest by lia.
    apply flat_map_ext. intros n. symmetry. apply xshape_nshape. }
  destruct (expand_tree_P (name_fine_w x) x (render3 xs) _ _ (name_fine_w_sem x) Hc Htok Hp Hnamed) as [st [He Hnest]].
  { pose proof (total_list_le_cost root 0) as Hle. unfold cost3 in Hbud. rewrite <- Hsm in Hbud.
    rewrite unrollX_forest in Hbud by lia. lia. }
  exists st. split; [exact He|]. rewrite Hnest, Hshape. reflexivity.
Qed.
