(* C14: alias = definition for ALL snippet tables, under the acyclicity that matters.

   [mentions cfg s] are the definitions a snippet text [s] refers to: every node (at any depth) of the
   parsed definition whose name is a key of the table with a non-empty value.  [reaches] is its
   transitive closure.

   Decidable predicates, from strong to weak (each computed by the depth-first walk the resolver itself
   does, with its guard stack as the path and its fuel bound |snippets|):
     acyclic_table cfg     no snippet value reaches itself                     (acyclic_table_spec)
     acyclic_from cfg d    no value on a cycle is reachable from d             (acyclic_from_spec)
     self_free cfg d       the resolver, run on the definition d in place, never asks the guard about d
                           itself; implied by  ~ reaches cfg d d  (self_free_of_not_reaching): cycles
                           elsewhere -- `a` = `a[href]` below a definition that mentions `a` -- are cut
                           at the same point on both sides and do no harm.

   Main lemmas: [walk_stack_drop] (a guard-stack entry the walk never asks about can be dropped) and
   [walk_stack_indep] (where no guard can fire the stack is irrelevant).  Hence an alias node resolves to
   what its definition resolves to *in its place* (empty stack, full fuel), decorated as [alias_merge] says. *)
From Coq Require Import List NArith ZArith Bool Lia.
From Emmet Require Import lib.Base model.MarkupTokenizer model.MarkupParser model.MarkupConvert
     model.MarkupResolve proofs.AttrProofs proofs.SnippetProofs.
Import ListNotations.

(* ------------------------------------------------------------------ the reference relation *)
(* the definition a name stands for (no guard): snippet_of with the empty stack *)
Definition def_of (cfg : mconfig) (nm : option str) : option str := snippet_of cfg [] nm.

(* definitions referred to by the nodes of a tree, at every depth *)
Fixpoint node_defs (cfg : mconfig) (n : anode) : list str :=
  match n with
  | ANode nm _ _ _ ch _ =>
      (match def_of cfg nm with Some s => [s] | None => [] end) ++ flat_map (node_defs cfg) ch
  end.
Definition forest_defs (cfg : mconfig) (l : list anode) : list str := flat_map (node_defs cfg) l.

(* how resolve() reads a definition *)
Definition parse_def (cfg : mconfig) (s : str) : res (list anode) :=
  parse_abbr false (snippet_env cfg) (mc_max_repeat_snip cfg) s.

Definition mentions (cfg : mconfig) (s : str) : list str :=
  match parse_def cfg s with Ok parsed => forest_defs cfg parsed | _ => [] end.

(* depth-first walk along [mentions] from [s] with the definitions being walked on [path]:
   true iff no definition is met again on its own path within [f] levels *)
Fixpoint safe (f : nat) (cfg : mconfig) (path : list str) (s : str) : bool :=
  match f with
  | O => false
  | S f' => negb (mem_str s path) && forallb (safe f' cfg (s :: path)) (mentions cfg s)
  end.

(* the decidable acyclicity predicates: for one definition, for a forest, for a table *)
Definition acyclic_from (cfg : mconfig) (d : str) : bool := safe (length (mc_snippets cfg)) cfg [] d.
Definition acyclic_forest (cfg : mconfig) (l : list anode) : bool :=
  forallb (acyclic_from cfg) (forest_defs cfg l).
Definition acyclic_table (cfg : mconfig) : bool := forallb (acyclic_from cfg) (snippet_values cfg).

(* ------------------------------------------------------------------ small facts *)
Lemma snippet_of_stack : forall cfg stack nm,
  snippet_of cfg stack nm =
  match def_of cfg nm with
  | Some s => if mem_str s stack then None else Some s
  | None => None
  end.
Proof.
  intros cfg stack nm. unfold def_of, snippet_of.
  destruct nm as [[|c name]|]; try reflexivity.
  destruct (assoc_str (c :: name) (mc_snippets cfg)) as [[|c' s']|]; reflexivity.
Qed.

Lemma def_of_value : forall cfg nm s, def_of cfg nm = Some s -> In s (snippet_values cfg).
Proof. intros cfg nm s H. apply snippet_of_some in H. exact (proj1 H). Qed.

Lemma forest_defs_cons : forall cfg n l, forest_defs cfg (n :: l) = node_defs cfg n ++ forest_defs cfg l.
Proof. reflexivity. Qed.

Lemma node_defs_eq : forall cfg nm v rp at_ ch sc,
  node_defs cfg (ANode nm v rp at_ ch sc) =
  (match def_of cfg nm with Some s => [s] | None => [] end) ++ forest_defs cfg ch.
Proof. reflexivity. Qed.

Lemma safe_S : forall f cfg path s,
  safe (S f) cfg path s = negb (mem_str s path) && forallb (safe f cfg (s :: path)) (mentions cfg s).
Proof. reflexivity. Qed.

(* more fuel / a shorter path keep a walk safe *)
Lemma safe_mono : forall f cfg path s, safe f cfg path s = true ->
  forall f' path', f <= f' -> incl path' path -> safe f' cfg path' s = true.
Proof.
  induction f as [|f IH]; intros cfg path s H f' path' LE INC; [discriminate|].
  destruct f' as [|f']; [lia|]. rewrite safe_S in *.
  apply andb_true_iff in H. destruct H as [H1 H2]. apply andb_true_iff. split.
  - apply negb_true_iff in H1. apply negb_true_iff. apply mem_str_not_In. apply mem_str_not_In in H1.
    intro HI. apply H1. apply INC. exact HI.
  - rewrite forallb_forall in *. intros x Hx. apply (IH cfg (s :: path) x (H2 x Hx)); [lia|].
    intros y [Hy|Hy]; [left; exact Hy|right; apply INC; exact Hy].
Qed.

(* ------------------------------------------------------------------ one level: where the guard answers
   the same on both stacks and the nested calls agree, the level agrees *)
Section Indep.
  Variable rec : list str -> list anode -> res (list anode).
  Variable cfg : mconfig.
  Variable st1 st2 : list str.
  Variable ok : str -> bool.
  Hypothesis Hmem : forall s, ok s = true -> mem_str s st1 = mem_str s st2.
  Hypothesis Hrec : forall s parsed, ok s = true -> mem_str s st2 = false -> parse_def cfg s = Ok parsed ->
    rec (s :: st1) parsed = rec (s :: st2) parsed.

  Lemma wkids_indep : forall ch,
    Forall (fun n => forallb ok (node_defs cfg n) = true -> wnode rec cfg st1 n = wnode rec cfg st2 n) ch ->
    forallb ok (forest_defs cfg ch) = true ->
    wkids rec cfg st1 ch = wkids rec cfg st2 ch.
  Proof.
    induction ch as [|c k IH]; intros F H; [reflexivity|].
    inversion F as [|? ? Fc Fk]; subst. rewrite forest_defs_cons, forallb_app in H.
    apply andb_true_iff in H. destruct H as [Hc Hk]. simpl.
    rewrite (Fc Hc), (IH Fk Hk). reflexivity.
  Qed.

  Lemma wnode_indep : forall n, forallb ok (node_defs cfg n) = true -> wnode rec cfg st1 n = wnode rec cfg st2 n.
  Proof.
    apply (anode_ind' (fun n => forallb ok (node_defs cfg n) = true -> wnode rec cfg st1 n = wnode rec cfg st2 n)).
    intros nm v rp at_ ch sc F H. rewrite node_defs_eq, forallb_app in H.
    apply andb_true_iff in H. destruct H as [Hd Hk].
    rewrite !wnode_eq, !snippet_of_stack.
    rewrite (wkids_indep ch F Hk).
    destruct (def_of cfg nm) as [s|]; [|reflexivity].
    simpl in Hd. rewrite andb_true_r in Hd.
    rewrite (Hmem s Hd). destruct (mem_str s st2) eqn:M; [reflexivity|].
    fold (parse_def cfg s). destruct (parse_def cfg s) as [parsed| | |] eqn:EP; try reflexivity.
    simpl. rewrite (Hrec s parsed Hd M EP). reflexivity.
  Qed.

  Lemma wlist_indep : forall l, forallb ok (forest_defs cfg l) = true -> wlist rec cfg st1 l = wlist rec cfg st2 l.
  Proof.
    induction l as [|c r IH]; intro H; [reflexivity|].
    rewrite forest_defs_cons, forallb_app in H. apply andb_true_iff in H. destruct H as [Hc Hr].
    simpl. rewrite (wnode_indep c Hc), (IH Hr). reflexivity.
  Qed.
End Indep.

(* ------------------------------------------------------------------ the main lemma *)
Lemma safe_off_path : forall f cfg path s st, safe f cfg path s = true -> incl st path -> mem_str s st = false.
Proof.
  intros f cfg path s st Hs I. destruct f as [|f']; [discriminate|]. rewrite safe_S in Hs.
  apply andb_true_iff in Hs. destruct Hs as [Hs _]. apply negb_true_iff in Hs.
  apply mem_str_not_In. apply mem_str_not_In in Hs. intro HI. apply Hs, I, HI.
Qed.

Theorem walk_stack_indep : forall cfg fuel f path st1 st2 l,
  incl st1 path -> incl st2 path ->
  forallb (safe f cfg path) (forest_defs cfg l) = true ->
  walk_resolve fuel cfg st1 l = walk_resolve fuel cfg st2 l.
Proof.
  intros cfg. induction fuel as [|fuel IH]; intros f path st1 st2 l I1 I2 H; [reflexivity|].
  rewrite !walk_resolve_unfold.
  apply (wlist_indep (walk_resolve fuel cfg) cfg st1 st2 (safe f cfg path)); [| |exact H].
  - intros s Hs. rewrite (safe_off_path f cfg path s st1 Hs I1), (safe_off_path f cfg path s st2 Hs I2). reflexivity.
  - intros s parsed Hs _ EP. destruct f as [|f']; [discriminate|]. rewrite safe_S in Hs.
    apply andb_true_iff in Hs. destruct Hs as [_ Hs]. unfold mentions in Hs. rewrite EP in Hs.
    apply (IH f' (s :: path)); [| |exact Hs].
    + intros y [Hy|Hy]; [left; exact Hy|right; apply I1; exact Hy].
    + intros y [Hy|Hy]; [left; exact Hy|right; apply I2; exact Hy].
Qed.

(* the shape used below: every definition the forest refers to is acyclic -> any stack that only
   holds definitions *outside* ... is irrelevant.  With path = stack = [] on one side: *)
Corollary walk_stack_nil : forall cfg fuel f path st l,
  incl st path ->
  forallb (safe f cfg path) (forest_defs cfg l) = true ->
  walk_resolve fuel cfg st l = walk_resolve fuel cfg [] l.
Proof. intros. eapply walk_stack_indep; [eassumption|intros x []|eassumption]. Qed.

(* ------------------------------------------------------------------ the weakest hypothesis: the walk never
   asks the guard about [d].  [nohit f cfg d path s]: the resolver's walk from the definition [s] with the
   guard stack [path] never looks up [d]; a definition already on the path is not entered (the guard
   fires there, on both sides alike) *)
Fixpoint nohit (f : nat) (cfg : mconfig) (d : str) (path : list str) (s : str) : bool :=
  negb (str_eqb s d) &&
  (mem_str s path ||
   match f with
   | O => false
   | S f' => forallb (nohit f' cfg d (s :: path)) (mentions cfg s)
   end).

(* [d] resolved in place of its alias never meets [d] itself *)
Definition self_free (cfg : mconfig) (d : str) : bool :=
  forallb (nohit (length (mc_snippets cfg)) cfg d []) (mentions cfg d).

Lemma nohit_eq : forall f cfg d path s,
  nohit f cfg d path s =
  negb (str_eqb s d) &&
  (mem_str s path || match f with O => false | S f' => forallb (nohit f' cfg d (s :: path)) (mentions cfg s) end).
Proof. intros. destruct f; reflexivity. Qed.

Lemma mem_str_snoc : forall s st d, str_eqb s d = false -> mem_str s (st ++ [d]) = mem_str s st.
Proof.
  intros s st d H. unfold mem_str. rewrite existsb_app. simpl. rewrite H. rewrite !orb_false_r. reflexivity.
Qed.

(* a guard-stack entry the walk never asks about can be dropped *)
Theorem walk_stack_drop : forall cfg d fuel f st l,
  forallb (nohit f cfg d st) (forest_defs cfg l) = true ->
  walk_resolve fuel cfg (st ++ [d]) l = walk_resolve fuel cfg st l.
Proof.
  intros cfg d. induction fuel as [|fuel IH]; intros f st l H; [reflexivity|].
  rewrite !walk_resolve_unfold.
  apply (wlist_indep (walk_resolve fuel cfg) cfg (st ++ [d]) st (nohit f cfg d st)); [| |exact H].
  - intros s Hs. rewrite nohit_eq in Hs. apply andb_true_iff in Hs. destruct Hs as [Hs _].
    apply negb_true_iff in Hs. apply mem_str_snoc. exact Hs.
  - intros s parsed Hs M EP. rewrite nohit_eq in Hs. apply andb_true_iff in Hs. destruct Hs as [_ Hs].
    rewrite M in Hs. cbn [orb] in Hs. destruct f as [|f']; [discriminate|].
    unfold mentions in Hs. rewrite EP in Hs.
    change (s :: st ++ [d]) with ((s :: st) ++ [d]). apply (IH f' (s :: st) parsed Hs).
Qed.

(* ------------------------------------------------------------------ alias = definition in its place, trees *)
Definition full_fuel (cfg : mconfig) : nat := S (length (mc_snippets cfg)).

(* the definition [d], resolved in place of the alias: top level, empty guard stack, full fuel *)
Definition resolve_def (cfg : mconfig) (d : str) : res (list anode) :=
  let* parsed := parse_def cfg d in walk_resolve (full_fuel cfg) cfg [] parsed.

Lemma length_values : forall cfg, length (snippet_values cfg) = length (mc_snippets cfg).
Proof. intro. unfold snippet_values. apply map_length. Qed.

(* resolving the parsed definition below the alias (guard stack [d], one unit of fuel spent) is
   resolving it in place *)
Lemma nested_eq_in_place : forall cfg d parsed,
  In d (snippet_values cfg) -> self_free cfg d = true -> parse_def cfg d = Ok parsed ->
  walk_resolve (length (mc_snippets cfg)) cfg [d] parsed = walk_resolve (full_fuel cfg) cfg [] parsed.
Proof.
  intros cfg d parsed Hin Hsf EP. unfold self_free, mentions in Hsf. rewrite EP in Hsf. unfold full_fuel.
  set (N := length (mc_snippets cfg)) in *.
  assert (NO : walk_resolve N cfg [d] parsed <> OutOfFuel).
  { apply walk_resolve_no_oof.
    - constructor; [intros []|constructor].
    - intros x [Hx|[]]. subst. exact Hin.
    - rewrite length_values. fold N. simpl. lia. }
  rewrite <- (walk_resolve_mono cfg N [d] parsed NO (S N)) by lia.
  exact (walk_stack_drop cfg d (S N) N [] parsed Hsf).
Qed.

(* THE tree theorem: an alias node, whatever is written on it, at top level of any abbreviation:
   the definition's forest resolved in place, every top-level node merged with the alias
   (merge_into: alias attributes appended -- prepended under reverseAttributes --, value / repeater /
   self-closing mark of the alias override), the alias' own resolved children attached under the
   deepest last node (find_deepest: the last-child chain of the last top-level node); an empty
   definition forest drops the alias together with its children. *)
Theorem alias_eq_definition_decorated : forall cfg k d v rp at_ ch sc,
  def_of cfg (Some k) = Some d -> self_free cfg d = true ->
  walk_resolve (full_fuel cfg) cfg [] [ANode (Some k) v rp at_ ch sc] =
  let* resolved := resolve_def cfg d in
  let tops := map (merge_into (mc_reverse_attrs cfg) (ANode (Some k) v rp at_ ch sc)) resolved in
  match tops with
  | [] => Ok []
  | _ :: _ => let* kids := walk_resolve (full_fuel cfg) cfg [] ch in Ok (attach_deepest tops kids)
  end.
Proof.
  intros cfg k d v rp at_ ch sc Hd Hac. unfold full_fuel at 1.
  rewrite (alias_merge _ cfg [] (Some k) v rp at_ ch sc d Hd).
  unfold resolve_def. fold (parse_def cfg d).
  destruct (parse_def cfg d) as [parsed| | |] eqn:EP; try reflexivity.
  cbn [bind]. rewrite (nested_eq_in_place cfg d parsed (def_of_value _ _ _ Hd) Hac EP). reflexivity.
Qed.

(* bare alias *)
Theorem alias_eq_definition_tree : forall cfg k d,
  def_of cfg (Some k) = Some d -> self_free cfg d = true ->
  walk_resolve (full_fuel cfg) cfg [] [ANode (Some k) None None None [] false] = resolve_def cfg d.
Proof.
  intros cfg k d Hd Hac. unfold full_fuel at 1.
  rewrite (alias_bare_eq_definition _ cfg [] (Some k) d Hd).
  unfold resolve_def. fold (parse_def cfg d).
  destruct (parse_def cfg d) as [parsed| | |] eqn:EP; try reflexivity.
  cbn [bind]. apply (nested_eq_in_place cfg d parsed (def_of_value _ _ _ Hd) Hac EP).
Qed.

(* ------------------------------------------------------------------ the single decorations *)
Definition add_attrs (rev_attrs : bool) (extra : list aattr) (top : anode) : anode :=
  match top with
  | ANode nm v rp at_ ch sc =>
      let from_attr := match at_ with Some l => l | None => [] end in
      ANode nm v rp (Some (if rev_attrs then extra ++ from_attr else from_attr ++ extra)) ch sc
  end.
Definition set_repeat (r : rep) (top : anode) : anode :=
  match top with ANode nm v _ at_ ch sc => ANode nm v (Some r) at_ ch sc end.
Definition set_value (x : list vtok) (top : anode) : anode :=
  match top with ANode nm _ rp at_ ch sc => ANode nm (Some x) rp at_ ch sc end.
Definition set_self (top : anode) : anode :=
  match top with ANode nm v rp at_ ch _ => ANode nm v rp at_ ch true end.

Lemma map_ext_all {A B} : forall (f g : A -> B) l, (forall x, f x = g x) -> map f l = map g l.
Proof. intros f g l H. induction l; simpl; [reflexivity|]. rewrite H, IHl. reflexivity. Qed.

Lemma bind_map_nil {A} : forall (r : res (list A)) (g : A -> anode),
  (let* resolved := r in
   match map g resolved with
   | [] => Ok []
   | _ :: _ => let* kids := Ok [] in Ok (attach_deepest (map g resolved) kids)
   end) = (let* resolved := r in Ok (map g resolved)).
Proof.
  intros r g. destruct r as [resolved| | |]; try reflexivity. cbn [bind].
  destruct (map g resolved) eqn:E; [reflexivity|]. rewrite attach_deepest_nil. reflexivity.
Qed.

Lemma walk_resolve_nil : forall f cfg st, walk_resolve (S f) cfg st [] = Ok [].
Proof. reflexivity. Qed.

(* `k[attrs]`, `k.c`, `k#i`: the attributes written on the alias are appended to the attribute list of
   EVERY top-level node of the definition; under reverseAttributes they are put in front *)
Theorem alias_attributes : forall cfg k d a at_,
  def_of cfg (Some k) = Some d -> self_free cfg d = true ->
  walk_resolve (full_fuel cfg) cfg [] [ANode (Some k) None None (Some (a :: at_)) [] false] =
  let* resolved := resolve_def cfg d in Ok (map (add_attrs (mc_reverse_attrs cfg) (a :: at_)) resolved).
Proof.
  intros cfg k d a at_ Hd Hac. rewrite (alias_eq_definition_decorated cfg k d _ _ _ _ _ Hd Hac).
  unfold full_fuel at 1. rewrite walk_resolve_nil. cbv zeta. rewrite bind_map_nil.
  destruct (resolve_def cfg d) as [resolved| | |]; try reflexivity.
  all: cbn [bind]; f_equal; apply map_ext_all; intros [nm v rp at0 ch sc]; reflexivity.
Qed.

(* `k*N` (each copy the converter makes of the alias carries the repeater): every top-level node of the
   definition carries the alias' repeater *)
Theorem alias_repeat : forall cfg k d r,
  def_of cfg (Some k) = Some d -> self_free cfg d = true ->
  walk_resolve (full_fuel cfg) cfg [] [ANode (Some k) None (Some r) None [] false] =
  let* resolved := resolve_def cfg d in Ok (map (set_repeat r) resolved).
Proof.
  intros cfg k d r Hd Hac. rewrite (alias_eq_definition_decorated cfg k d _ _ _ _ _ Hd Hac).
  unfold full_fuel at 1. rewrite walk_resolve_nil. cbv zeta. rewrite bind_map_nil.
  destruct (resolve_def cfg d) as [resolved| | |]; try reflexivity.
  all: cbn [bind]; f_equal; apply map_ext_all; intros [nm v rp at0 ch sc]; reflexivity.
Qed.

(* `k{text}`: the text replaces the value of every top-level node *)
Theorem alias_text : forall cfg k d x,
  def_of cfg (Some k) = Some d -> self_free cfg d = true ->
  walk_resolve (full_fuel cfg) cfg [] [ANode (Some k) (Some x) None None [] false] =
  let* resolved := resolve_def cfg d in Ok (map (set_value x) resolved).
Proof.
  intros cfg k d x Hd Hac. rewrite (alias_eq_definition_decorated cfg k d _ _ _ _ _ Hd Hac).
  unfold full_fuel at 1. rewrite walk_resolve_nil. cbv zeta. rewrite bind_map_nil.
  destruct (resolve_def cfg d) as [resolved| | |]; try reflexivity.
  all: cbn [bind]; f_equal; apply map_ext_all; intros [nm v rp at0 ch sc]; reflexivity.
Qed.

(* `k/`: every top-level node is self-closing *)
Theorem alias_self_closing : forall cfg k d,
  def_of cfg (Some k) = Some d -> self_free cfg d = true ->
  walk_resolve (full_fuel cfg) cfg [] [ANode (Some k) None None None [] true] =
  let* resolved := resolve_def cfg d in Ok (map set_self resolved).
Proof.
  intros cfg k d Hd Hac. rewrite (alias_eq_definition_decorated cfg k d _ _ _ _ _ Hd Hac).
  unfold full_fuel at 1. rewrite walk_resolve_nil. cbv zeta. rewrite bind_map_nil.
  destruct (resolve_def cfg d) as [resolved| | |]; try reflexivity.
  all: cbn [bind]; f_equal; apply map_ext_all; intros [nm v rp at0 ch sc]; reflexivity.
Qed.

(* `k>children`: the definition's forest with the (resolved) children appended to the children of
   the node at the end of the last-child chain of its LAST top-level node (find_deepest).  Exact side
   condition of the code: a definition that resolves to an empty forest drops the children. *)
Theorem alias_children : forall cfg k d ch,
  def_of cfg (Some k) = Some d -> self_free cfg d = true ->
  walk_resolve (full_fuel cfg) cfg [] [ANode (Some k) None None None ch false] =
  let* resolved := resolve_def cfg d in
  match resolved with
  | [] => Ok []
  | _ :: _ => let* kids := walk_resolve (full_fuel cfg) cfg [] ch in Ok (attach_deepest resolved kids)
  end.
Proof.
  intros cfg k d ch Hd Hac. rewrite (alias_eq_definition_decorated cfg k d _ _ _ _ _ Hd Hac).
  destruct (resolve_def cfg d) as [resolved| | |]; try reflexivity. cbn [bind]. cbv zeta.
  rewrite (map_id_ext (merge_into (mc_reverse_attrs cfg) (ANode (Some k) None None None ch false)) resolved).
  - destruct resolved; reflexivity.
  - intros [nm v rp at0 c0 sc]. reflexivity.
Qed.

(* ------------------------------------------------------------------ an alias inside a larger abbreviation *)
(* resolution is node by node: siblings are resolved independently and concatenated *)
Lemma walk_resolve_cons : forall f cfg st n l,
  walk_resolve (S f) cfg st (n :: l) =
  let* here := walk_resolve (S f) cfg st [n] in
  let* others := walk_resolve (S f) cfg st l in Ok (here ++ others).
Proof.
  intros. rewrite !walk_resolve_unfold.
  change (wlist (walk_resolve f cfg) cfg st [n]) with
    (let* here := wnode (walk_resolve f cfg) cfg st n in let* others := Ok [] in Ok (here ++ others)).
  rewrite bind_ok_app_nil. reflexivity.
Qed.

Lemma walk_resolve_app : forall f cfg st l1 l2,
  walk_resolve (S f) cfg st (l1 ++ l2) =
  let* a := walk_resolve (S f) cfg st l1 in
  let* b := walk_resolve (S f) cfg st l2 in Ok (a ++ b).
Proof.
  intros f cfg st l1 l2. induction l1 as [|n l1 IH].
  - cbn [app]. rewrite walk_resolve_nil. cbn [bind app].
    destruct (walk_resolve (S f) cfg st l2); reflexivity.
  - cbn [app]. rewrite (walk_resolve_cons f cfg st n (l1 ++ l2)), (walk_resolve_cons f cfg st n l1), IH.
    destruct (walk_resolve (S f) cfg st [n]) as [here| | |]; try reflexivity. cbn [bind].
    destruct (walk_resolve (S f) cfg st l1) as [a| | |]; try reflexivity. cbn [bind].
    destruct (walk_resolve (S f) cfg st l2) as [b| | |]; try reflexivity. cbn [bind].
    rewrite app_assoc. reflexivity.
Qed.

(* ------------------------------------------------------------------ what the decidable predicate means:
   "no snippet value reaches itself through the names it mentions" *)
Inductive reaches (cfg : mconfig) : str -> str -> Prop :=
| reach_step : forall s t, In t (mentions cfg s) -> reaches cfg s t
| reach_more : forall s t u, In t (mentions cfg s) -> reaches cfg t u -> reaches cfg s u.

Lemma reaches_snoc : forall cfg s t u, reaches cfg s t -> In u (mentions cfg t) -> reaches cfg s u.
Proof.
  intros cfg s t u H. induction H as [s t H|s t w H _ IH]; intro Hu.
  - eapply reach_more; [exact H|apply reach_step; exact Hu].
  - eapply reach_more; [exact H|apply IH; exact Hu].
Qed.

Lemma node_defs_value : forall cfg n t, In t (node_defs cfg n) -> In t (snippet_values cfg).
Proof.
  intros cfg n. apply (anode_ind' (fun n => forall t, In t (node_defs cfg n) -> In t (snippet_values cfg))).
  intros nm v rp at_ ch sc F t H. rewrite node_defs_eq in H. apply in_app_or in H. destruct H as [H|H].
  - destruct (def_of cfg nm) as [s|] eqn:E; [|contradiction]. destruct H as [H|[]]. subst.
    exact (def_of_value cfg nm t E).
  - unfold forest_defs in H. apply in_flat_map in H. destruct H as [c [Hc Ht]].
    rewrite Forall_forall in F. exact (F c Hc t Ht).
Qed.

Lemma mentions_value : forall cfg s t, In t (mentions cfg s) -> In t (snippet_values cfg).
Proof.
  intros cfg s t H. unfold mentions in H. destruct (parse_def cfg s) as [parsed| | |]; try contradiction.
  unfold forest_defs in H. apply in_flat_map in H. destruct H as [c [_ Ht]]. exact (node_defs_value cfg c t Ht).
Qed.

Lemma reaches_value : forall cfg s t, reaches cfg s t -> In t (snippet_values cfg).
Proof. intros cfg s t H. induction H as [s t H|s t u _ _ IH]; [exact (mentions_value cfg s t H)|exact IH]. Qed.

(* soundness: a safe walk certifies every definition it can reach *)
Lemma safe_reaches : forall cfg s t, reaches cfg s t ->
  forall f path, safe f cfg path s = true ->
  exists f' path', safe f' cfg path' t = true /\ incl (s :: path) path'.
Proof.
  intros cfg s t H. induction H as [s t H|s t u H _ IH]; intros f path Hs.
  - destruct f as [|f]; [discriminate|]. rewrite safe_S in Hs. apply andb_true_iff in Hs. destruct Hs as [_ Hs].
    rewrite forallb_forall in Hs. exists f, (s :: path). split; [exact (Hs t H)|apply incl_refl].
  - destruct f as [|f]; [discriminate|]. rewrite safe_S in Hs. apply andb_true_iff in Hs. destruct Hs as [_ Hs].
    rewrite forallb_forall in Hs. destruct (IH f (s :: path) (Hs t H)) as [f' [path' [H1 H2]]].
    exists f', path'. split; [exact H1|]. intros y Hy. apply H2. right. exact Hy.
Qed.

Lemma safe_not_on_path : forall f cfg path s, safe f cfg path s = true -> ~ In s path.
Proof.
  intros f cfg path s H. destruct f as [|f]; [discriminate|]. rewrite safe_S in H.
  apply andb_true_iff in H. destruct H as [H _]. apply negb_true_iff in H. apply mem_str_not_In. exact H.
Qed.

Lemma safe_no_cycle : forall f cfg path s, safe f cfg path s = true -> ~ reaches cfg s s.
Proof.
  intros f cfg path s Hs Hr. destruct (safe_reaches cfg s s Hr f path Hs) as [f' [path' [H1 H2]]].
  apply (safe_not_on_path f' cfg path' s H1). apply H2. left. reflexivity.
Qed.

(* completeness: on the way down the path is a duplicate-free chain of table values (pigeonhole:
   the fuel |snippets| is enough) *)
Lemma safe_complete : forall f cfg path s,
  NoDup path -> incl path (snippet_values cfg) -> In s (snippet_values cfg) ->
  length (snippet_values cfg) <= f + length path ->
  (forall p, In p path -> reaches cfg p s) ->
  (forall t, t = s \/ reaches cfg s t -> ~ reaches cfg t t) ->
  safe f cfg path s = true.
Proof.
  induction f as [|f IH]; intros cfg path s ND INC Hs LEN Hpath Hcyc.
  - exfalso.
    assert (Hn : ~ In s path) by (intro HI; exact (Hcyc s (or_introl eq_refl) (Hpath s HI))).
    assert (ND' : NoDup (s :: path)) by (constructor; assumption).
    assert (INC' : incl (s :: path) (snippet_values cfg)) by (intros y [Hy|Hy]; [subst; exact Hs|apply INC; exact Hy]).
    pose proof (NoDup_incl_length ND' INC') as L. simpl in L, LEN. lia.
  - assert (Hn : ~ In s path) by (intro HI; exact (Hcyc s (or_introl eq_refl) (Hpath s HI))).
    rewrite safe_S. apply andb_true_iff. split.
    + apply negb_true_iff. apply mem_str_not_In. exact Hn.
    + apply forallb_forall. intros t Ht. apply IH.
      * constructor; assumption.
      * intros y [Hy|Hy]; [subst; exact Hs|apply INC; exact Hy].
      * exact (mentions_value cfg s t Ht).
      * simpl. lia.
      * intros p [Hp|Hp]; [subst; apply reach_step; exact Ht|exact (reaches_snoc cfg p s t (Hpath p Hp) Ht)].
      * intros u [Hu|Hu]; apply Hcyc; right.
        -- subst. apply reach_step. exact Ht.
        -- eapply reach_more; [exact Ht|exact Hu].
Qed.

Theorem acyclic_from_spec : forall cfg d, In d (snippet_values cfg) ->
  (acyclic_from cfg d = true <-> forall t, t = d \/ reaches cfg d t -> ~ reaches cfg t t).
Proof.
  intros cfg d Hd. unfold acyclic_from. split.
  - intros H t [Ht|Ht].
    + subst. exact (safe_no_cycle _ cfg [] d H).
    + destruct (safe_reaches cfg d t Ht _ [] H) as [f' [path' [H1 _]]]. exact (safe_no_cycle f' cfg path' t H1).
  - intro H. apply safe_complete; try assumption.
    + constructor.
    + intros y [].
    + rewrite length_values. simpl. lia.
    + intros p [].
Qed.

(* the table predicate: no snippet value reaches itself through the names it mentions *)
Theorem acyclic_table_spec : forall cfg,
  acyclic_table cfg = true <-> forall s, In s (snippet_values cfg) -> ~ reaches cfg s s.
Proof.
  intro cfg. unfold acyclic_table. rewrite forallb_forall. split.
  - intros H s Hs. apply (proj1 (acyclic_from_spec cfg s Hs) (H s Hs)). left. reflexivity.
  - intros H d Hd. apply (acyclic_from_spec cfg d Hd). intros t [Ht|Ht].
    + subst. exact (H d Hd).
    + exact (H t (reaches_value cfg d t Ht)).
Qed.

(* ------------------------------------------------------------------ the three hypotheses, strong to weak *)
Lemma str_neq_eqb : forall a b : str, a <> b -> str_eqb a b = false.
Proof. intros a b H. destruct (str_eqb a b) eqn:E; [|reflexivity]. apply a_str_eqb_eq in E. contradiction. Qed.

(* a walk that cannot reach [d] never asks about it (pigeonhole: the fuel |snippets| is enough) *)
Lemma nohit_complete : forall f cfg d path s,
  NoDup path -> incl path (snippet_values cfg) -> In s (snippet_values cfg) ->
  length (snippet_values cfg) <= f + length path ->
  s <> d -> ~ reaches cfg s d ->
  nohit f cfg d path s = true.
Proof.
  induction f as [|f IH]; intros cfg d path s ND INC Hs LEN Hne Hnr; rewrite nohit_eq;
    rewrite (str_neq_eqb s d Hne); cbn [negb andb]; destruct (mem_str s path) eqn:M; try reflexivity; cbn [orb].
  - exfalso. apply mem_str_not_In in M.
    assert (ND' : NoDup (s :: path)) by (constructor; assumption).
    assert (INC' : incl (s :: path) (snippet_values cfg)) by (intros y [Hy|Hy]; [subst; exact Hs|apply INC; exact Hy]).
    pose proof (NoDup_incl_length ND' INC') as L. simpl in L, LEN. lia.
  - apply mem_str_not_In in M. apply forallb_forall. intros t Ht. apply IH.
    + constructor; assumption.
    + intros y [Hy|Hy]; [subst; exact Hs|apply INC; exact Hy].
    + exact (mentions_value cfg s t Ht).
    + simpl. lia.
    + intro E. subst t. apply Hnr. apply reach_step. exact Ht.
    + intro R. apply Hnr. eapply reach_more; [exact Ht|exact R].
Qed.

(* "d does not reach itself" is enough *)
Theorem self_free_of_not_reaching : forall cfg d, ~ reaches cfg d d -> self_free cfg d = true.
Proof.
  intros cfg d H. unfold self_free. apply forallb_forall. intros t Ht. apply nohit_complete.
  - constructor.
  - intros y [].
  - exact (mentions_value cfg d t Ht).
  - rewrite length_values. simpl. lia.
  - intro E. subst t. apply H. apply reach_step. exact Ht.
  - intro R. apply H. eapply reach_more; [exact Ht|exact R].
Qed.

Theorem self_free_of_acyclic_from : forall cfg d, acyclic_from cfg d = true -> self_free cfg d = true.
Proof. intros cfg d H. apply self_free_of_not_reaching. exact (safe_no_cycle _ cfg [] d H). Qed.

Theorem self_free_of_acyclic_table : forall cfg d,
  In d (snippet_values cfg) -> acyclic_table cfg = true -> self_free cfg d = true.
Proof.
  intros cfg d Hd H. apply self_free_of_acyclic_from. unfold acyclic_table in H.
  rewrite forallb_forall in H. exact (H d Hd).
Qed.

(* ------------------------------------------------------------------ exactness: self_free IS "d does not
   reach itself" (the walk prunes only at definitions on its own path, so it tries every simple path;
   a shortest way from d back to d is simple) *)
Fixpoint chain (cfg : mconfig) (s : str) (l : list str) (t : str) : Prop :=
  match l with
  | [] => In t (mentions cfg s)
  | u :: l' => In u (mentions cfg s) /\ chain cfg u l' t
  end.

Lemma reaches_chain : forall cfg s t, reaches cfg s t -> exists l, chain cfg s l t.
Proof.
  intros cfg s t H. induction H as [s t H|s u t H _ [l IH]].
  - exists []. exact H.
  - exists (u :: l). split; assumption.
Qed.

Lemma chain_split : forall cfg l1 s u l2 t, chain cfg s (l1 ++ u :: l2) t -> chain cfg s l1 u /\ chain cfg u l2 t.
Proof.
  intros cfg. induction l1 as [|x l1 IH]; intros s u l2 t H.
  - cbn in H. destruct H as [H1 H2]. split; [exact H1|exact H2].
  - cbn in H. destruct H as [H1 H2]. destruct (IH x u l2 t H2) as [A B]. split; [split; assumption|exact B].
Qed.

Lemma chain_join : forall cfg l1 s u l2 t, chain cfg s l1 u -> chain cfg u l2 t -> chain cfg s (l1 ++ u :: l2) t.
Proof.
  intros cfg. induction l1 as [|x l1 IH]; intros s u l2 t A B.
  - cbn in A. cbn. split; assumption.
  - cbn in A. destruct A as [A1 A2]. cbn. split; [exact A1|exact (IH x u l2 t A2 B)].
Qed.

Lemma chain_values : forall cfg l s t, chain cfg s l t -> incl l (snippet_values cfg).
Proof.
  intros cfg. induction l as [|u l IH]; intros s t H x Hx; [contradiction|].
  cbn in H. destruct H as [H1 H2]. destruct Hx as [Hx|Hx]; [subst; exact (mentions_value cfg s x H1)|exact (IH u t H2 x Hx)].
Qed.

Definition str_dec : forall a b : str, {a = b} + {a <> b} := list_eq_dec N.eq_dec.

Lemma dup_or_nodup : forall l : list str,
  NoDup l \/ exists u l1 l2 l3, l = l1 ++ u :: l2 ++ u :: l3.
Proof.
  induction l as [|x l IH]; [left; constructor|].
  destruct (in_dec str_dec x l) as [Hin|Hn].
  - right. apply in_split in Hin. destruct Hin as [a [b E]]. exists x, [], a, b. cbn. rewrite E. reflexivity.
  - destruct IH as [ND|[u [l1 [l2 [l3 E]]]]].
    + left. constructor; assumption.
    + right. exists u, (x :: l1), l2, l3. cbn. rewrite E. reflexivity.
Qed.

(* loop removal *)
Lemma simple_chain : forall cfg n l s t, length l <= n -> chain cfg s l t ->
  exists l', chain cfg s l' t /\ NoDup l' /\ ~ In t l'.
Proof.
  intros cfg. induction n as [|n IH]; intros l s t LEN H.
  - destruct l; [|simpl in LEN; lia]. exists []. split; [exact H|]. split; [constructor|intros []].
  - destruct (in_dec str_dec t l) as [Hin|Hn].
    + apply in_split in Hin. destruct Hin as [a [b E]]. subst l. destruct (chain_split cfg a s t b t H) as [A _].
      apply (IH a s t); [|exact A]. rewrite app_length in LEN. simpl in LEN. lia.
    + destruct (dup_or_nodup l) as [ND|[u [l1 [l2 [l3 E]]]]].
      * exists l. split; [exact H|]. split; assumption.
      * subst l. destruct (chain_split cfg l1 s u _ t H) as [A B].
        destruct (chain_split cfg l2 u u l3 t B) as [_ C].
        apply (IH (l1 ++ u :: l3) s t); [|exact (chain_join cfg l1 s u l3 t A C)].
        rewrite !app_length in *. simpl in *. rewrite app_length in LEN. simpl in LEN. lia.
Qed.

Lemma forallb_false_of {A} : forall (p : A -> bool) l x, In x l -> p x = false -> forallb p l = false.
Proof.
  intros p l x Hin Hx. destruct (forallb p l) eqn:E; [|reflexivity].
  rewrite forallb_forall in E. rewrite (E x Hin) in Hx. discriminate.
Qed.

Lemma nohit_self : forall f cfg d path, nohit f cfg d path d = false.
Proof. intros. rewrite nohit_eq, a_str_eqb_refl. reflexivity. Qed.

(* along a simple chain to d that avoids the path, the walk does ask about d *)
Lemma nohit_chain_false : forall cfg d l u path f,
  chain cfg u l d -> NoDup (u :: l) -> ~ In d (u :: l) ->
  (forall x, In x (u :: l) -> ~ In x path) -> length l < f ->
  nohit f cfg d path u = false.
Proof.
  intros cfg d. induction l as [|u' l IH]; intros u path f H ND Hd Hp LEN; rewrite nohit_eq.
  - assert (Hne : u <> d) by (intro E; apply Hd; left; exact E).
    rewrite (str_neq_eqb u d Hne). cbn [negb andb].
    assert (M : mem_str u path = false) by (apply mem_str_not_In; apply Hp; left; reflexivity).
    rewrite M. cbn [orb]. destruct f as [|f']; [reflexivity|].
    cbn in H. apply (forallb_false_of _ _ d H). apply nohit_self.
  - assert (Hne : u <> d) by (intro E; apply Hd; left; exact E).
    rewrite (str_neq_eqb u d Hne). cbn [negb andb].
    assert (M : mem_str u path = false) by (apply mem_str_not_In; apply Hp; left; reflexivity).
    rewrite M. cbn [orb]. destruct f as [|f']; [reflexivity|].
    cbn in H. destruct H as [H1 H2]. apply (forallb_false_of _ _ u' H1).
    inversion ND as [|? ? Hu ND']; subst. apply IH; try assumption.
    + intro HI. apply Hd. right. exact HI.
    + intros x Hx [E|HI].
      * subst x. apply Hu. exact Hx.
      * apply (Hp x); [right; exact Hx|exact HI].
    + simpl in LEN. lia.
Qed.

Theorem self_free_not_reaching : forall cfg d, self_free cfg d = true -> ~ reaches cfg d d.
Proof.
  intros cfg d Hsf Hr. destruct (reaches_chain cfg d d Hr) as [l0 H0].
  destruct (simple_chain cfg (length l0) l0 d d (le_n _) H0) as [l [H [ND Hd]]].
  unfold self_free in Hsf. rewrite forallb_forall in Hsf.
  destruct l as [|u l].
  - cbn in H. specialize (Hsf d H). rewrite nohit_self in Hsf. discriminate.
  - cbn in H. destruct H as [H1 H2]. specialize (Hsf u H1).
    rewrite (nohit_chain_false cfg d l u [] _ H2 ND Hd) in Hsf; [discriminate|intros x _ []|].
    pose proof (NoDup_incl_length ND (chain_values cfg (u :: l) d d (conj H1 H2))) as L.
    rewrite length_values in L. simpl in L. lia.
Qed.

Theorem self_free_spec : forall cfg d, self_free cfg d = true <-> ~ reaches cfg d d.
Proof. intros. split; [apply self_free_not_reaching|apply self_free_of_not_reaching]. Qed.
