(* C07, convert stage: for ALL token trees whose name/value tokens can be stringified (no Repeater
   token, no operator outside the table: [tnode_ok]), ALL wrap texts (none / str / list of lines),
   ALL variables and ALL repeat limits, `convert` returns Ok -- never Internal (IndexError in
   ConvertState.get_text, TypeError/Exception in stringify), never OutOfFuel, never a parse error.

   [tnode_ok] cannot be dropped: the model (like the code) raises 'Unknown token Repeater' when a
   Repeater token sits inside a name/value (theorem convert_needs_tnode_ok below). *)
From Coq Require Import List Bool Lia Arith ZArith.
From Emmet Require Import lib.Base model.MarkupTokenizer model.MarkupParser model.MarkupConvert.
Import ListNotations.

(* ---------------------------------------------------------------- well-formed token trees *)
Definition tok_ok (t : token) : bool :=
  match tk t with
  | TRepeater _ _ _ => false
  | TOperator OpUnknown => false
  | _ => true
  end.
Definition toks_ok (l : list token) : bool := forallb tok_ok l.
Definition otoks_ok (o : option (list token)) : bool := match o with Some l => toks_ok l | None => true end.
Definition tattr_ok (a : tattr) : bool := otoks_ok (ta_name a) && otoks_ok (ta_value a).
Fixpoint tnode_ok (n : tnode) : bool :=
  match n with
  | TElem name attrs value _ _ els =>
      otoks_ok name && match attrs with Some l => forallb tattr_ok l | None => true end
      && otoks_ok value && forallb tnode_ok els
  | TGroup els _ => forallb tnode_ok els
  end.

Lemma tnode_ind' (P : tnode -> Prop) :
  (forall name attrs value rp sc els, Forall P els -> P (TElem name attrs value rp sc els)) ->
  (forall els rp, Forall P els -> P (TGroup els rp)) ->
  forall n, P n.
Proof.
  intros He Hg. fix IH 1. intros [name attrs value rp sc els|els rp].
  - apply He. revert els. fix IHl 1. intros [|x l]; constructor; [apply IH|apply IHl].
  - apply Hg. revert els. fix IHl 1. intros [|x l]; constructor; [apply IH|apply IHl].
Qed.

(* ---------------------------------------------------------------- state invariant *)
(* an implicit repeater on the stack points at an existing line of the wrap text *)
Definition pos_ok (env : cenv) (p : N) : Prop :=
  match ce_text env with
  | WList _ => (N.to_nat p < length (clean_text (ce_text env)))%nat
  | _ => True
  end.
Definition rep_ok (env : cenv) (r : rep) : Prop := rimplicit r = true -> pos_ok env (rvalue r).
Definition st_ok (env : cenv) (st : cst) : Prop := Forall (rep_ok env) (cs_repeaters st).

Definition okres (st : cst) (r : res (list anode * cst)) : Prop :=
  exists items st', r = Ok (items, st') /\ cs_repeaters st' = cs_repeaters st.

Lemma get_text_at_ok : forall env pos st,
  (forall p, pos = Some p -> pos_ok env p) ->
  exists s, get_text_at env pos st = Ok (s, set_text_inserted st).
Proof.
  intros env pos st H. unfold get_text_at.
  destruct (ce_text env) eqn:E; try (eexists; reflexivity).
  destruct pos as [p|]; [|eexists; reflexivity].
  specialize (H p eq_refl). unfold pos_ok in H. rewrite E in H.
  destruct (nth_error (clean_text (WList l)) (N.to_nat p)) eqn:N; [eexists; reflexivity|].
  apply nth_error_None in N. lia.
Qed.

Lemma stringify_ok : forall env t st, tok_ok t = true -> st_ok env st ->
  exists s st', stringify env t st = Ok (s, st') /\ cs_repeaters st' = cs_repeaters st.
Proof.
  intros env t st Ht Hs. unfold stringify, tok_ok in *.
  destruct (tk t) eqn:K; try (eexists; eexists; split; reflexivity); try discriminate.
  - destruct o; simpl; try discriminate; eexists; eexists; split; reflexivity.
  - (* RepeaterPlaceholder *)
    destruct (get_text_at_ok env
                (match find (fun r => rimplicit r) (cs_repeaters st) with Some r' => Some (rvalue r') | None => None end)
                (set_inserted st)) as [s Hg].
    { intros p Hp. destruct (find (fun r => rimplicit r) (cs_repeaters st)) eqn:F; [|discriminate].
      inversion Hp; subst. apply find_some in F. destruct F as [Hin Hi].
      unfold st_ok in Hs. rewrite Forall_forall in Hs. apply (Hs r Hin Hi). }
    rewrite Hg. eexists; eexists; split; reflexivity.
  - destruct index; destruct name; eexists; eexists; split; reflexivity.
Qed.

Lemma st_ok_same : forall env st st', cs_repeaters st' = cs_repeaters st -> st_ok env st -> st_ok env st'.
Proof. unfold st_ok. intros env st st' E H. rewrite E. exact H. Qed.

Lemma stringify_name_ok : forall env toks st, toks_ok toks = true -> st_ok env st ->
  exists s st', stringify_name env toks st = Ok (s, st') /\ cs_repeaters st' = cs_repeaters st.
Proof.
  intros env. induction toks as [|t r IH]; intros st Ht Hs; simpl.
  - eexists; eexists; split; reflexivity.
  - simpl in Ht. apply andb_true_iff in Ht. destruct Ht as [Ht Hr].
    destruct (stringify_ok env t st Ht Hs) as [s [st1 [E1 R1]]]. rewrite E1.
    destruct (IH st1 Hr (st_ok_same _ _ _ R1 Hs)) as [s2 [st2 [E2 R2]]]. rewrite E2.
    eexists; eexists; split; [reflexivity|congruence].
Qed.

Lemma stringify_value_acc_ok : forall env toks accum st, toks_ok toks = true -> st_ok env st ->
  exists v st', stringify_value_acc env toks accum st = Ok (v, st') /\ cs_repeaters st' = cs_repeaters st.
Proof.
  intros env. induction toks as [|t r IH]; intros accum st Ht Hs.
  - simpl. eexists; eexists; split; reflexivity.
  - simpl in Ht. apply andb_true_iff in Ht. destruct Ht as [Ht Hr].
    cbn [stringify_value_acc].
    assert (G : forall acc', exists v st', match stringify env t st with
          | Ok (s, st1) => stringify_value_acc env r (Some (acc' s)) st1
          | ParseErr k p => ParseErr k p | Internal k => Internal k | OutOfFuel => OutOfFuel
          end = Ok (v, st') /\ cs_repeaters st' = cs_repeaters st).
    { intros acc'. destruct (stringify_ok env t st Ht Hs) as [s [st1 [E1 R1]]]. rewrite E1.
      destruct (IH (Some (acc' s)) st1 Hr (st_ok_same _ _ _ R1 Hs)) as [v [st2 [E2 R2]]].
      exists v, st2. split; [exact E2|congruence]. }
    destruct (tk t) eqn:K;
      try (apply (G (fun s => match accum with Some a => a ++ s | None => s end))).
    destruct index as [i|]; [|apply (G (fun s => match accum with Some a => a ++ s | None => s end))].
    destruct (IH None st Hr Hs) as [v [st2 [E2 R2]]]. rewrite E2.
    eexists; eexists; split; [reflexivity|exact R2].
Qed.

Lemma toks_ok_firstn : forall n l, toks_ok l = true -> toks_ok (firstn n l) = true.
Proof.
  induction n; intros [|x l] H; simpl; auto. simpl in H. apply andb_true_iff in H. destruct H.
  apply andb_true_iff. split; auto.
Qed.
Lemma toks_ok_drop_last : forall l, toks_ok l = true -> toks_ok (drop_last l) = true.
Proof. intros. unfold drop_last. apply toks_ok_firstn. assumption. Qed.

Lemma convert_attribute_ok : forall env a st, tattr_ok a = true -> st_ok env st ->
  exists a' st', convert_attribute env a st = Ok (a', st') /\ cs_repeaters st' = cs_repeaters st.
Proof.
  intros env a st Ha Hs. unfold tattr_ok in Ha. apply andb_true_iff in Ha. destruct Ha as [Hn Hv].
  unfold convert_attribute.
  assert (E1 : exists n0 st1,
     match nonempty (ta_name a) with
     | Some toks => match stringify_name env toks st with
                    | Ok (s, st') => Ok (Some s, st')
                    | ParseErr k p => ParseErr k p | Internal k => Internal k | OutOfFuel => OutOfFuel
                    end
     | None => Ok (None, st)
     end = Ok (n0, st1) /\ cs_repeaters st1 = cs_repeaters st).
  { destruct (ta_name a) as [[|x l]|]; unfold nonempty; try (eexists; eexists; split; reflexivity).
    destruct (stringify_name_ok env (x :: l) st Hn Hs) as [s [st1 [E R]]]. rewrite E.
    eexists; eexists; split; [reflexivity|exact R]. }
  destruct E1 as [n0 [st1 [E1 R1]]]. rewrite E1. cbn [bind].
  match goal with |- context [match ?e with pair _ _ => _ end] => destruct e as [[name boolean] implied] end.
  destruct (nonempty (ta_value a)) as [toks|] eqn:NV.
  - assert (Htoks : toks_ok toks = true).
    { destruct (ta_value a) as [[|x l]|]; simpl in NV; try discriminate. inversion NV; subst. exact Hv. }
    match goal with |- context [match ?e with pair _ _ => _ end] =>
      assert (Hp : toks_ok (fst e) = true); [|destruct e as [toks' vtype]] end.
    { destruct toks as [|t0 rest]; [reflexivity|].
      simpl in Htoks. apply andb_true_iff in Htoks. destruct Htoks as [H0 Hrest].
      destruct (tk t0) eqn:K; try (simpl; rewrite H0, Hrest; reflexivity).
      - cbn [fst]. destruct (last_opt rest); [|exact Hrest].
        destruct (is_quote_tok t None); [apply toks_ok_drop_last|]; exact Hrest.
      - destruct open; destruct c; try (simpl; rewrite H0, Hrest; reflexivity).
        cbn [fst]. destruct (last_opt rest); [|exact Hrest].
        destruct (is_bracket t (Some BExpr) (Some false)); [apply toks_ok_drop_last|]; exact Hrest. }
    cbn [fst] in Hp.
    destruct (stringify_value_acc_ok env toks' None st1 Hp (st_ok_same _ _ _ R1 Hs)) as [v [st2 [E2 R2]]].
    unfold stringify_value. rewrite E2. cbn [bind].
    eexists; eexists; split; [reflexivity|congruence].
  - eexists; eexists; split; [reflexivity|exact R1].
Qed.

Lemma convert_attributes_ok : forall env l st, forallb tattr_ok l = true -> st_ok env st ->
  exists l' st', convert_attributes env l st = Ok (l', st') /\ cs_repeaters st' = cs_repeaters st.
Proof.
  intros env. induction l as [|a r IH]; intros st Hl Hs; simpl.
  - eexists; eexists; split; reflexivity.
  - simpl in Hl. apply andb_true_iff in Hl. destruct Hl as [Ha Hr].
    destruct (convert_attribute_ok env a st Ha Hs) as [a' [st1 [E1 R1]]]. rewrite E1. cbn [bind].
    destruct (IH st1 Hr (st_ok_same _ _ _ R1 Hs)) as [r' [st2 [E2 R2]]]. rewrite E2. cbn [bind].
    eexists; eexists; split; [reflexivity|congruence].
Qed.

(* ---------------------------------------------------------------- conv_stmt, unfolded *)
Definition node_rep (node : tnode) : option rep :=
  match node with TElem _ _ _ r _ _ => r | TGroup _ r => r end.

Section ConvList.
  Variable env : cenv.
  Fixpoint conv_list' (l : list tnode) (st : cst) : res (list anode * cst) :=
    match l with
    | [] => Ok ([], st)
    | c :: l' =>
        let* (a, s1) := conv_stmt env c st in
        let* (b, s2) := conv_list' l' s1 in
        Ok (a ++ b, s2)
    end.
End ConvList.

Lemma conv_list_eq : forall env l st, conv_list env l st = conv_list' env l st.
Proof.
  intros env. induction l as [|c r IH]; intros st; [reflexivity|].
  cbn [conv_list conv_list']. destruct (conv_stmt env c st) as [[a s1]| | |]; try reflexivity.
  cbn [bind]. rewrite IH. reflexivity.
Qed.

Definition once_of (env : cenv) (node : tnode) (cur_rep : option rep) (st : cst) : res (list anode * cst) :=
  match node with
  | TGroup els _ =>
      let* (items, st1) := conv_list' env els st in
      Ok (match cur_rep with Some r => attach_repeater items r | None => items end, st1)
  | TElem name attrs value _ self_close els =>
      let* (nm, st1) :=
         match nonempty name with
         | Some toks => let* (s, s') := stringify_name env toks st in Ok (Some s, s')
         | None => Ok (None, st)
         end in
      let* (val, st2) :=
         match nonempty value with
         | Some toks => let* (v, s') := stringify_value env toks st1 in Ok (Some v, s')
         | None => Ok (None, st1)
         end in
      let* (kids, st3) := conv_list' env els st2 in
      let* (ats, st4) :=
         match nonempty attrs with
         | Some l => let* (l', s') := convert_attributes env l st3 in Ok (Some l', s')
         | None => Ok (None, st3)
         end in
      let text_only :=
        match nm, ats, val with
        | None, None, Some ((_ :: _) as v) => negb (existsb is_vfield v)
        | Some [], None, Some ((_ :: _) as v) => negb (existsb is_vfield v)
        | _, _, _ => false
        end in
      if text_only
      then Ok (ANode nm val cur_rep ats [] self_close :: kids, st4)
      else Ok ([ANode nm val cur_rep ats kids self_close], st4)
  end.

Section RepIter.
  Variable env : cenv.
  Variable once : option rep -> cst -> res (list anode * cst).
  Variable count : N.
  Variable impl : bool.
  Fixpoint rep_iter (k : nat) (i : N) (acc : list anode) (st : cst) : res (list anode * cst) :=
    match k with
    | O => Ok (acc, st)
    | S k' =>
        if (i <? count)%N then
          let st1 := set_top_value i st in
          let* (items, st2) := once (Some (mkRep count i impl)) st1 in
          let* (items', st3) :=
             if impl && negb (cs_inserted st2) then
               match last_opt items with
               | Some _ =>
                   let* (txt, s') := get_text_at env (Some i) st2 in
                   Ok (on_last_deepest (fun n => insert_text n txt) items, s')
               | None => Ok (items, st2)
               end
             else Ok (items, st2) in
          let st4 := dec_guard st3 in
          if (cs_guard st4 <=? 0)%Z then Ok (acc ++ items', st4)
          else rep_iter k' (i + 1)%N (acc ++ items') st4
        else Ok (acc, st)
    end.
End RepIter.

Definition rep_count (env : cenv) (r0 : rep) : N :=
  match rimplicit r0, ce_text env with
  | true, WList _ => N.of_nat (length (clean_text (ce_text env)))
  | _, _ => if (rcount r0 =? 0)%N then 1%N else rcount r0
  end.

Lemma conv_stmt_eq : forall env node st,
  conv_stmt env node st =
  match node_rep node with
  | None => once_of env node None st
  | Some r0 =>
      let count := rep_count env r0 in
      let rp := mkRep count (rvalue r0) (rimplicit r0) in
      let st0 := push_rep rp st in
      let rounds := N.to_nat (N.min count (Z.to_N (Z.max (cs_guard st0) 1))) in
      let* (result, st_end) := rep_iter env (once_of env node) count (rimplicit r0) rounds 0%N [] st0 in
      let st' := pop_rep st_end in
      Ok (result, if rimplicit r0 then set_inserted st' else st')
  end.
Proof. intros env [name attrs value rp sc els|els rp] st; reflexivity. Qed.

Lemma conv_list_cons : forall env c l st,
  conv_list' env (c :: l) st =
  (let* (a, s1) := conv_stmt env c st in
   let* (b, s2) := conv_list' env l s1 in
   Ok (a ++ b, s2)).
Proof. reflexivity. Qed.

Definition node_good (env : cenv) (n : tnode) : Prop :=
  tnode_ok n = true -> forall st, st_ok env st -> okres st (conv_stmt env n st).

Lemma conv_list_ok : forall env l, Forall (node_good env) l -> forallb tnode_ok l = true ->
  forall st, st_ok env st -> okres st (conv_list' env l st).
Proof.
  intros env. induction l as [|c r IH]; intros HF Hl st Hs.
  - exists [], st. split; reflexivity.
  - inversion HF as [|? ? Hc Hr]; subst. simpl in Hl. apply andb_true_iff in Hl. destruct Hl as [Hc' Hr'].
    rewrite conv_list_cons.
    destruct (Hc Hc' st Hs) as [a [s1 [E1 R1]]]. rewrite E1. cbn [bind].
    destruct (IH Hr Hr' s1 (st_ok_same _ _ _ R1 Hs)) as [b [s2 [E2 R2]]]. rewrite E2. cbn [bind].
    exists (a ++ b), s2. split; [reflexivity|congruence].
Qed.

Lemma nonempty_toks_ok : forall o toks, otoks_ok o = true -> nonempty o = Some toks -> toks_ok toks = true.
Proof. intros [[|x l]|] toks H E; simpl in E; try discriminate. inversion E; subst. exact H. Qed.

Lemma once_of_ok : forall env node cur st,
  match node with
  | TElem _ _ _ _ _ els => Forall (node_good env) els
  | TGroup els _ => Forall (node_good env) els
  end ->
  tnode_ok node = true -> st_ok env st -> okres st (once_of env node cur st).
Proof.
  intros env [name attrs value rp sc els|els rp] cur st HF Hn Hs; unfold once_of.
  - simpl in Hn. repeat (apply andb_true_iff in Hn; destruct Hn as [Hn ?]).
    rename H into Hels, H0 into Hval, H1 into Hattrs.
    (* name *)
    assert (E1 : exists nm st1,
      match nonempty name with
      | Some toks => let* (s, s') := stringify_name env toks st in Ok (Some s, s')
      | None => Ok (None, st)
      end = Ok (nm, st1) /\ cs_repeaters st1 = cs_repeaters st).
    { destruct (nonempty name) as [toks|] eqn:NN; [|eexists; eexists; split; reflexivity].
      destruct (stringify_name_ok env toks st (nonempty_toks_ok _ _ Hn NN) Hs) as [s [st1 [E R]]].
      rewrite E. cbn [bind]. eexists; eexists; split; [reflexivity|exact R]. }
    destruct E1 as [nm [st1 [E1 R1]]]. rewrite E1. cbn [bind].
    pose proof (st_ok_same _ _ _ R1 Hs) as Hs1.
    (* value *)
    assert (E2 : exists val st2,
      match nonempty value with
      | Some toks => let* (v, s') := stringify_value env toks st1 in Ok (Some v, s')
      | None => Ok (None, st1)
      end = Ok (val, st2) /\ cs_repeaters st2 = cs_repeaters st1).
    { destruct (nonempty value) as [toks|] eqn:NN; [|eexists; eexists; split; reflexivity].
      destruct (stringify_value_acc_ok env toks None st1 (nonempty_toks_ok _ _ Hval NN) Hs1) as [v [st2 [E R]]].
      unfold stringify_value. rewrite E. cbn [bind]. eexists; eexists; split; [reflexivity|exact R]. }
    destruct E2 as [val [st2 [E2 R2]]]. rewrite E2. cbn [bind].
    pose proof (st_ok_same _ _ _ R2 Hs1) as Hs2.
    (* children *)
    destruct (conv_list_ok env els HF Hels st2 Hs2) as [kids [st3 [E3 R3]]]. rewrite E3. cbn [bind].
    pose proof (st_ok_same _ _ _ R3 Hs2) as Hs3.
    (* attributes *)
    assert (E4 : exists ats st4,
      match nonempty attrs with
      | Some l => let* (l', s') := convert_attributes env l st3 in Ok (Some l', s')
      | None => Ok (None, st3)
      end = Ok (ats, st4) /\ cs_repeaters st4 = cs_repeaters st3).
    { destruct (nonempty attrs) as [l|] eqn:NN; [|eexists; eexists; split; reflexivity].
      assert (Hl : forallb tattr_ok l = true).
      { destruct attrs as [[|x l0]|]; simpl in NN; try discriminate. inversion NN; subst. exact Hattrs. }
      destruct (convert_attributes_ok env l st3 Hl Hs3) as [l' [st4 [E R]]].
      rewrite E. cbn [bind]. eexists; eexists; split; [reflexivity|exact R]. }
    destruct E4 as [ats [st4 [E4 R4]]]. rewrite E4. cbn [bind]. cbv zeta.
    match goal with |- okres _ (if ?b then _ else _) => destruct b end;
      eexists; eexists; split; try reflexivity; congruence.
  - simpl in Hn.
    destruct (conv_list_ok env els HF Hn st Hs) as [items [st1 [E1 R1]]]. rewrite E1. cbn [bind].
    eexists; eexists; split; [reflexivity|exact R1].
Qed.

(* one run of the repeat loop: the pushed repeater stays on top, everything below is untouched *)
Lemma rep_iter_ok : forall env once count impl orig,
  Forall (rep_ok env) orig ->
  (impl = true -> forall i, (i < count)%N -> pos_ok env i) ->
  (forall cur st, st_ok env st -> okres st (once cur st)) ->
  forall k i acc st top,
    cs_repeaters st = top :: orig -> rcount top = count -> rimplicit top = impl ->
    exists items st' top', rep_iter env once count impl k i acc st = Ok (items, st')
                           /\ cs_repeaters st' = top' :: orig.
Proof.
  intros env once count impl orig Horig Himpl Honce.
  induction k as [|k IH]; intros i acc st top Hst Hc Hi; cbn [rep_iter].
  - eexists; eexists; eexists; split; [reflexivity|exact Hst].
  - destruct (i <? count)%N eqn:Lt; [|eexists; eexists; eexists; split; [reflexivity|exact Hst]].
    apply N.ltb_lt in Lt. cbv zeta.
    assert (Hst1 : cs_repeaters (set_top_value i st) = mkRep count i impl :: orig).
    { unfold set_top_value. rewrite Hst. simpl. rewrite Hc, Hi. reflexivity. }
    assert (Hs1 : st_ok env (set_top_value i st)).
    { unfold st_ok. rewrite Hst1. constructor; [|exact Horig].
      intros Him. simpl in *. apply Himpl; assumption. }
    destruct (Honce (Some (mkRep count i impl)) _ Hs1) as [items [st2 [E2 R2]]]. rewrite E2. cbn [bind].
    assert (E3 : exists items' st3,
       (if impl && negb (cs_inserted st2) then
             match last_opt items with
             | Some _ =>
                 let* (txt, s') := get_text_at env (Some i) st2 in
                 Ok (on_last_deepest (fun n => insert_text n txt) items, s')
             | None => Ok (items, st2)
             end
           else Ok (items, st2)) = Ok (items', st3) /\ cs_repeaters st3 = cs_repeaters st2).
    { destruct (impl && negb (cs_inserted st2)) eqn:B; [|eexists; eexists; split; reflexivity].
      destruct (last_opt items); [|eexists; eexists; split; reflexivity].
      apply andb_true_iff in B. destruct B as [B _].
      destruct (get_text_at_ok env (Some i) st2) as [s Hg].
      { intros p Hp. inversion Hp; subst. apply Himpl; assumption. }
      rewrite Hg. cbn [bind]. eexists; eexists; split; reflexivity. }
    destruct E3 as [items' [st3 [E3 R3]]]. rewrite E3. cbn [bind].
    assert (Hst4 : cs_repeaters (dec_guard st3) = mkRep count i impl :: orig).
    { unfold dec_guard. simpl. congruence. }
    destruct (cs_guard (dec_guard st3) <=? 0)%Z.
    + eexists; eexists; eexists; split; [reflexivity|exact Hst4].
    + eapply IH; [exact Hst4|reflexivity|reflexivity].
Qed.

Lemma rep_count_pos_ok : forall env r0 i,
  rimplicit r0 = true -> (i < rep_count env r0)%N -> pos_ok env i.
Proof.
  intros env r0 i Hi Hlt. unfold pos_ok, rep_count in *. rewrite Hi in Hlt.
  destruct (ce_text env); auto. lia.
Qed.

Theorem conv_stmt_ok : forall env node, node_good env node.
Proof.
  intros env. apply tnode_ind'.
  - intros name attrs value rp sc els HF Hn st Hs. rewrite conv_stmt_eq.
    destruct (node_rep (TElem name attrs value rp sc els)) as [r0|] eqn:NR.
    + cbv zeta.
      destruct (rep_iter_ok env (once_of env (TElem name attrs value rp sc els)) (rep_count env r0) (rimplicit r0)
                  (cs_repeaters st) Hs
                  (fun Hi i Hlt => rep_count_pos_ok env r0 i Hi Hlt)
                  (fun cur st' Hs' => once_of_ok env (TElem name attrs value rp sc els) cur st' HF Hn Hs')
                  (N.to_nat (N.min (rep_count env r0) (Z.to_N (Z.max (cs_guard (push_rep (mkRep (rep_count env r0) (rvalue r0) (rimplicit r0)) st)) 1))))
                  0%N [] (push_rep (mkRep (rep_count env r0) (rvalue r0) (rimplicit r0)) st)
                  (mkRep (rep_count env r0) (rvalue r0) (rimplicit r0)) eq_refl eq_refl eq_refl)
        as [items [st' [top' [E R]]]].
      rewrite E. cbn [bind].
      eexists; eexists; split; [reflexivity|].
      destruct (rimplicit r0); simpl; rewrite R; reflexivity.
    + apply once_of_ok; assumption.
  - intros els rp HF Hn st Hs. rewrite conv_stmt_eq.
    destruct (node_rep (TGroup els rp)) as [r0|] eqn:NR.
    + cbv zeta.
      destruct (rep_iter_ok env (once_of env (TGroup els rp)) (rep_count env r0) (rimplicit r0)
                  (cs_repeaters st) Hs
                  (fun Hi i Hlt => rep_count_pos_ok env r0 i Hi Hlt)
                  (fun cur st' Hs' => once_of_ok env (TGroup els rp) cur st' HF Hn Hs')
                  (N.to_nat (N.min (rep_count env r0) (Z.to_N (Z.max (cs_guard (push_rep (mkRep (rep_count env r0) (rvalue r0) (rimplicit r0)) st)) 1))))
                  0%N [] (push_rep (mkRep (rep_count env r0) (rvalue r0) (rimplicit r0)) st)
                  (mkRep (rep_count env r0) (rvalue r0) (rimplicit r0)) eq_refl eq_refl eq_refl)
        as [items [st' [top' [E R]]]].
      rewrite E. cbn [bind].
      eexists; eexists; split; [reflexivity|].
      destruct (rimplicit r0); simpl; rewrite R; reflexivity.
    + apply once_of_ok; assumption.
Qed.

(* convert(abbr, params): for ALL token trees (with stringifiable tokens), ALL wrap texts, ALL limits *)
Theorem convert_safe : forall env max_repeat root,
  forallb tnode_ok root = true -> exists r, convert env max_repeat root = Ok r.
Proof.
  intros env mr root H. unfold convert.
  set (st0 := mkCst false (match mr with Some m => Z.of_N m | None => 1000000%Z end) [] false).
  rewrite conv_list_eq.
  destruct (conv_list_ok env root) with (st := st0) as [children [st [E R]]].
  - rewrite Forall_forall. intros n _. apply conv_stmt_ok.
  - exact H.
  - constructor.
  - rewrite E. cbn [bind].
    destruct (ce_text env); [eexists; reflexivity| |];
      destruct (cs_text_inserted st); eexists; reflexivity.
Qed.

(* the hypothesis is needed: a Repeater token inside a text value is the 'Unknown token Repeater' exception *)
Example convert_needs_tnode_ok :
  convert (mkCenv WNone [] false) None
          [TElem None None (Some [mkTok (TRepeater 1 0 true) 1 2]) None false []] = Internal IK_Exception.
Proof. reflexivity. Qed.
