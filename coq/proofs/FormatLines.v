(* C12 indent_is_depth, part 1: the reading of a chunk list as lines, independent of the formatter.
   A chunk list is read from left to right against the list E of open/close events of the tree
   (HtmlEvents.tree_events): every tag chunk consumes one event, so the number of elements open
   after a prefix is [depth_after 0] of the events consumed so far.  A line break is the newline
   chunk followed by its indentation chunk of k units (no chunk when the stream writes none: k = 0).
   [Lines] threads the obligation "k = open elements, one less when the first text on the line is a
   closing tag" through the list: it is discharged by the first non-empty chunk after the break, by
   the next line break (an empty line) or by the end of the list. *)
From Coq Require Import ZArith List Bool Lia ZifyBool.
From Emmet Require Import lib.Base model.MarkupTokenizer model.MarkupParser model.MarkupConvert
     model.OutStream model.FormatHtml proofs.IndentStream proofs.HtmlEvents proofs.OutStreamProofs proofs.FormatSteps
     proofs.FormatReach proofs.FormatProofs proofs.FormatChunks.
Import ListNotations.
Local Open Scope Z_scope.

(* ================================================================ SPEC *)
(* the tag a chunk stands for (none for a field, a comment, text) *)
Definition chunk_tags (x : chunk) : list tagev := match x with CT _ s => text_tag s | CF _ _ => [] end.
Definition ntags (X : list chunk) : nat := length (flat_map chunk_tags X).
Definition is_close (x : chunk) : bool := match chunk_tags x with TClose _ :: _ => true | _ => false end.

(* elements open after a list of tree events; a void (self-closed) element does not nest *)
Fixpoint depth_after (d : Z) (evs : list sev) : Z :=
  match evs with
  | [] => d
  | SOpen _ true :: r => depth_after d r
  | SOpen _ false :: r => depth_after (d + 1) r
  | SClose _ :: r => depth_after (d - 1) r
  end.
(* elements open after the chunks [pre] of a stream whose tag chunks are the events E *)
Definition open_at (E : list sev) (pre : list chunk) : Z := depth_after 0 (firstn (ntags pre) E).

(* is the first text on the line a closing tag?  [more]: the chunks after the indentation.  An
   empty text chunk puts nothing on the line; a tabstop is something on the line; the next line
   break ends the line *)
Fixpoint starts_close (more : list chunk) : bool :=
  match more with
  | [] => false
  | CT true _ :: _ => false
  | CT false [] :: r => starts_close r
  | x :: _ => is_close x
  end.

(* [rest] = the indentation chunk of k units, then [more]; the stream writes no indentation chunk
   for an explicit size 0 *)
Definition indented (f : ofmt) (k : Z) (rest more : list chunk) : Prop :=
  rest = indent_chunk f k :: more \/ (k = 0 /\ rest = more).

(* every line break of X is followed by one indent unit per open element, one less when the line
   starts with a closing tag *)
Definition lines_indented (f : ofmt) (E : list sev) (X : list chunk) : Prop :=
  forall pre s rest, X = pre ++ CT true s :: rest ->
    s = of_newline f ++ of_base_indent f /\
    exists k more, indented f k rest more /\
                   k = open_at E pre - (if starts_close more then 1 else 0).

(* ================================================================ the threaded reading *)
Section Lines.
Variables (f : ofmt) (E : list sev).
Hypothesis Hnl : nlt (nlb f) = true.
Hypothesis Hind : nlt (of_indent f) = true.

Definition Dp (n : nat) : Z := depth_after 0 (firstn n E).

Definition transparent (x : chunk) : bool := match x with CT false [] => true | _ => false end.
Definition is_nl (x : chunk) : bool := match x with CT true _ => true | _ => false end.

(* state: number of tag chunks read, pending line break (its units) *)
Inductive Lines : nat * option Z -> list chunk -> nat * option Z -> Prop :=
| L_nil s : Lines s [] s
| L_nl n p k rest more s' :
    indented f k rest more ->
    (forall k', p = Some k' -> k' = Dp n) ->
    Lines (n, Some k) more s' ->
    Lines (n, p) (nl_chunk f :: rest) s'
| L_empty n p X s' : Lines (n, p) X s' -> Lines (n, p) (CT false [] :: X) s'
| L_ch n p x X s' :
    is_nl x = false -> transparent x = false ->
    (forall k, p = Some k -> k = Dp n - (if is_close x then 1 else 0)) ->
    Lines ((n + length (chunk_tags x))%nat, None) X s' ->
    Lines (n, p) (x :: X) s'.

Lemma indented_app k rest more Y : indented f k rest more -> indented f k (rest ++ Y) (more ++ Y).
Proof. intros [->|[-> ->]]; [left; reflexivity|right; split; reflexivity]. Qed.

Lemma Lines_app s X s' Y s'' : Lines s X s' -> Lines s' Y s'' -> Lines s (X ++ Y) s''.
Proof.
  intros H. revert Y s''. induction H; intros Y s'' HY; cbn [app].
  - exact HY.
  - eapply L_nl; [apply indented_app; eassumption|assumption|]. apply IHLines, HY.
  - apply L_empty. apply IHLines, HY.
  - apply L_ch; try assumption. apply IHLines, HY.
Qed.

Lemma text_tag_repeat n : text_tag (repeat_str (of_indent f) n) = [].
Proof. apply nlt_text_tag, nlt_repeat, Hind. Qed.
Lemma tags_indent k : chunk_tags (indent_chunk f k) = [].
Proof. unfold indent_chunk, chunk_tags. apply text_tag_repeat. Qed.
Lemma tags_nl : chunk_tags (nl_chunk f) = [].
Proof. unfold nl_chunk, chunk_tags. apply nlt_text_tag, Hnl. Qed.

Lemma ntags_app a b : ntags (a ++ b) = (ntags a + ntags b)%nat.
Proof. unfold ntags. rewrite flat_map_app, app_length. reflexivity. Qed.
Lemma ntags_cons x a : ntags (x :: a) = (length (chunk_tags x) + ntags a)%nat.
Proof. unfold ntags. cbn [flat_map]. rewrite app_length. reflexivity. Qed.

Definition final_ok (s : nat * option Z) : Prop := forall k, snd s = Some k -> k = Dp (fst s).

(* a pending line break is discharged by what follows *)
Lemma pending_resolved n k more s' :
  Lines (n, Some k) more s' -> final_ok s' -> k = Dp n - (if starts_close more then 1 else 0).
Proof.
  intros H. remember (n, Some k) as s eqn:Es. revert n k Es.
  induction H as [s|n0 p k0 rest more s' Hi Hp H IH|n0 p X s' H IH|n0 p x X s' Hn Ht Hp H IH]; intros n k Es Hf.
  - subst s. cbn [starts_close]. specialize (Hf k eq_refl). cbn [fst] in Hf. lia.
  - injection Es as -> ->. unfold nl_chunk. cbn [starts_close]. rewrite (Hp k eq_refl). lia.
  - injection Es as -> ->. cbn [starts_close]. apply IH; [reflexivity|exact Hf].
  - injection Es as -> ->. rewrite (Hp k eq_refl).
    destruct x as [[|] [|ch s]|i ph]; cbn [is_nl transparent] in Hn, Ht; try discriminate; reflexivity.
Qed.

(* the statement quantified over every line-break chunk *)
Lemma Lines_every_break X : forall s0 s', Lines s0 X s' -> final_ok s' ->
  forall pre t rest, X = pre ++ CT true t :: rest ->
    t = of_newline f ++ of_base_indent f /\
    exists k more, indented f k rest more /\
                   k = Dp (fst s0 + ntags pre)%nat - (if starts_close more then 1 else 0).
Proof.
  intros s0 s' H. induction H as [s|n p k rest0 more s' Hi Hp H IH|n p X s' H IH|n p x X s' Hn Ht Hp H IH];
    intros Hf pre t rest E0.
  - destruct pre; discriminate.
  - destruct pre as [|y pre].
    + cbn [app] in E0. unfold nl_chunk in E0. injection E0 as <- <-. split; [reflexivity|].
      exists k, more. split; [exact Hi|]. cbn [fst]. unfold ntags. cbn [flat_map length]. rewrite Nat.add_0_r.
      apply (pending_resolved n k more s' H Hf).
    + cbn [app] in E0. injection E0 as <- E0.
      destruct Hi as [->|[-> ->]].
      * destruct pre as [|z pre]; [discriminate|]. cbn [app] in E0. injection E0 as <- E0.
        destruct (IH Hf pre t rest E0) as [Ht [k1 [more1 [Hi1 Hk1]]]]. split; [exact Ht|].
        exists k1, more1. split; [exact Hi1|]. cbn [fst] in *.
        rewrite !ntags_cons, tags_nl, tags_indent. cbn [length]. exact Hk1.
      * destruct (IH Hf pre t rest E0) as [Ht [k1 [more1 [Hi1 Hk1]]]]. split; [exact Ht|].
        exists k1, more1. split; [exact Hi1|]. cbn [fst] in *.
        rewrite ntags_cons, tags_nl. cbn [length]. exact Hk1.
  - destruct pre as [|y pre]; [discriminate|]. cbn [app] in E0. injection E0 as <- E0.
    destruct (IH Hf pre t rest E0) as [Ht [k1 [more1 [Hi1 Hk1]]]]. split; [exact Ht|].
    exists k1, more1. split; [exact Hi1|]. cbn [fst] in *. rewrite ntags_cons. cbn [chunk_tags text_tag length]. exact Hk1.
  - destruct pre as [|y pre].
    + cbn [app] in E0. injection E0 as -> _. discriminate.
    + cbn [app] in E0. injection E0 as <- E0.
      destruct (IH Hf pre t rest E0) as [Ht' [k1 [more1 [Hi1 Hk1]]]]. split; [exact Ht'|].
      exists k1, more1. split; [exact Hi1|]. cbn [fst] in *. rewrite ntags_cons.
      rewrite Nat.add_assoc. exact Hk1.
Qed.

Theorem Lines_lines_indented X s' : Lines (O, None) X s' -> final_ok s' -> lines_indented f E X.
Proof.
  intros H Hf pre t rest E0. destruct (Lines_every_break X _ _ H Hf pre t rest E0) as [Ht [k [more [Hi Hk]]]].
  split; [exact Ht|]. exists k, more. split; [exact Hi|]. exact Hk.
Qed.
End Lines.

(* ---------------------------------------------------------------- single steps, appended at the end *)
Section Steps.
Variables (f : ofmt) (E : list sev).
Notation Lines := (Lines f E).
Notation Dp := (Dp E).
Local Notation Lines_app := (Lines_app f E).

Definition Popen (n : nat) (p : option Z) : Prop := forall k, p = Some k -> k = Dp n.
Definition Pclose (n : nat) (p : option Z) : Prop := forall k, p = Some k -> k = Dp n - 1.

Lemma Popen_none n : Popen n None. Proof. intros k H. discriminate. Qed.
Lemma Pclose_none n : Pclose n None. Proof. intros k H. discriminate. Qed.

(* a line break with indentation [ind] at level L *)
Definition units (L : Z) (ind : option (option Z)) : Z :=
  match ind with None => 0 | Some None => L | Some (Some n) => n end.

Lemma indented_units L ind : indented f (units L ind) (tl (nl_chunks f L ind)) [].
Proof. destruct ind as [[n|]|]; cbn [nl_chunks tl units]; [left|left|right]; auto. Qed.

Lemma Lines_nl s0 X n p L ind :
  Lines s0 X (n, p) -> Popen n p -> Lines s0 (X ++ nl_chunks f L ind) (n, Some (units L ind)).
Proof.
  intros H Hp. eapply Lines_app; [exact H|].
  change (nl_chunks f L ind) with (nl_chunk f :: tl (nl_chunks f L ind)).
  eapply L_nl; [apply indented_units|exact Hp|apply L_nil].
Qed.

Lemma Lines_empty s0 X s : Lines s0 X s -> Lines s0 (X ++ [CT false []]) s.
Proof. intros H. eapply Lines_app; [exact H|]. destruct s. apply L_empty, L_nil. Qed.

(* a chunk of text without a tag *)
Lemma Lines_text s0 X n p x :
  Lines s0 X (n, p) -> Popen n p -> is_nl x = false -> chunk_tags x = [] ->
  exists p', Lines s0 (X ++ [x]) (n, p') /\ Popen n p' /\ (transparent x = false -> p' = None) /\ (p = None -> p' = None).
Proof.
  intros H Hp Hn Ht. destruct (transparent x) eqn:Etr.
  - destruct x as [[|] [|ch s]|i ph]; try discriminate. exists p. repeat split; try assumption; try discriminate.
    + apply Lines_empty, H.
    + exact (fun e => e).
  - exists None. repeat split; try (intros; reflexivity); [|apply Popen_none].
    eapply Lines_app; [exact H|]. apply L_ch; try assumption.
    + intros k Hk. unfold is_close. rewrite Ht. rewrite (Hp k Hk). lia.
    + rewrite Ht. cbn [length]. rewrite Nat.add_0_r. apply L_nil.
Qed.

(* an opening tag chunk *)
Lemma Lines_open s0 X n p name :
  Lines s0 X (n, p) -> Popen n p -> text_tag (c_lt :: name) = [TOpen name] ->
  Lines s0 (X ++ [CT false (c_lt :: name)]) (S n, None).
Proof.
  intros H Hp Ht. eapply Lines_app; [exact H|]. apply L_ch; try reflexivity.
  - intros k Hk. unfold is_close, chunk_tags. rewrite Ht. rewrite (Hp k Hk). lia.
  - unfold chunk_tags. rewrite Ht. cbn [length]. rewrite Nat.add_1_r. apply L_nil.
Qed.

(* a closing tag chunk *)
Lemma Lines_close s0 X n p name :
  Lines s0 X (n, p) -> Pclose n p ->
  Lines s0 (X ++ [CT false ([c_lt; c_slash] ++ name ++ [c_gt])]) (S n, None).
Proof.
  intros H Hp. eapply Lines_app; [exact H|].
  assert (Ht : text_tag ([c_lt; c_slash] ++ name ++ [c_gt]) = [TClose name]).
  { cbn [app text_tag]. rewrite !N.eqb_refl. rewrite removelast_last. reflexivity. }
  apply L_ch; try reflexivity.
  - intros k Hk. unfold is_close, chunk_tags. rewrite Ht. apply (Hp k Hk).
  - unfold chunk_tags. rewrite Ht. cbn [length]. rewrite Nat.add_1_r. apply L_nil.
Qed.
End Steps.
