(* C12 indent_is_depth, part 1: the reading of a chunk list as lines, independent of the formatter.
   A chunk list is read from left to right against the list E of open/close events of the tree
   (HtmlEvents.tree_events): every tag chunk consumes one event, so the number of elements open
   after a prefix is [depth_after 0] of the events consumed so far.  A line break is the newline
   chunk followed by its indentation chunk of k units (no chunk when the stream writes none: k = 0).
   [Lines] threads the obligation "k = open elements, one less when the first text on the line is a
   closing tag" through the list: it is discharged by the first non-empty chunk after the break, by
   the next line break (an empty line) or by the end of the list.  A closing tag that discharges it
   moreover owes [AP P k] to the chunks P before it: instantiated with [aligned_at] (the opening tag
   of the innermost open element stands on a line with the same k units) this gives close_aligned. *)
From Coq Require Import ZArith List Bool Lia ZifyBool.
From Emmet Require Import lib.Base model.MarkupTokenizer model.MarkupParser model.MarkupConvert
     model.OutStream model.FormatHtml proofs.IndentStream proofs.HtmlEvents proofs.OutStreamProofs proofs.FormatSteps
     proofs.FormatReach proofs.FormatProofs proofs.FormatChunks.
Import ListNotations.
Local Open Scope Z_scope.

(* ================================================================ SPEC *)
(* the tag a chunk stands for (none for a field, a comment, text) *)
Definition chunk_tags (x : chunk) : list tagev := match x with CT _ s => text_tag s | CF _ _ => [] end.
Definition ntags (X : list chunk) : nat := length (flat_map chunk_tags X).
Definition is_close (x : chunk) : bool := match chunk_tags x with TClose _ :: _ => true | _ => false end.

(* elements open after a list of tree events; a void (self-closed) element does not nest *)
Fixpoint depth_after (d : Z) (evs : list sev) : Z :=
  match evs with
  | [] => d
  | SOpen _ true :: r => depth_after d r
  | SOpen _ false :: r => depth_after (d + 1) r
  | SClose _ :: r => depth_after (d - 1) r
  end.
(* elements open after the chunks [pre] of a stream whose tag chunks are the events E *)
Definition open_at (E : list sev) (pre : list chunk) : Z := depth_after 0 (firstn (ntags pre) E).

(* is the first text on the line a closing tag?  [more]: the chunks after the indentation.  An
   empty text chunk puts nothing on the line; a tabstop is something on the line; the next line
   break ends the line *)
Fixpoint starts_close (more : list chunk) : bool :=
  match more with
  | [] => false
  | CT true _ :: _ => false
  | CT false [] :: r => starts_close r
  | x :: _ => is_close x
  end.

(* [rest] = the indentation chunk of k units, then [more]; the stream writes no indentation chunk
   for an explicit size 0 *)
Definition indented (f : ofmt) (k : Z) (rest more : list chunk) : Prop :=
  rest = indent_chunk f k :: more \/ (k = 0 /\ rest = more).

(* every line break of X is followed by one indent unit per open element, one less when the line
   starts with a closing tag *)
Definition lines_indented (f : ofmt) (E : list sev) (X : list chunk) : Prop :=
  forall pre s rest, X = pre ++ CT true s :: rest ->
    s = of_newline f ++ of_base_indent f /\
    exists k more, indented f k rest more /\
                   k = open_at E pre - (if starts_close more then 1 else 0).

(* ---------------------------------------------------------------- alignment of a closing tag *)
(* the chunks A end on a line with k indent units: the first line (k = 0), or a line break of k units
   with no further line break after it *)
Definition no_break (X : list chunk) : Prop := forall s, ~ In (CT true s) X.
Definition line_of (f : ofmt) (A : list chunk) (k : Z) : Prop :=
  (no_break A /\ k = 0) \/
  (exists A1 rest more, A = A1 ++ nl_chunk f :: rest /\ indented f k rest more /\ no_break rest).
(* the chunk o, after A and before B, is the opening tag of the innermost element open after A ++ o :: B:
   it raises the number of open elements to its value there, and that number does not fall below it in B *)
Definition opens_innermost (E : list sev) (A : list chunk) (o : chunk) (B : list chunk) : Prop :=
  open_at E (A ++ [o]) = open_at E A + 1 /\
  open_at E (A ++ o :: B) = open_at E A + 1 /\
  forall B1 B2, B = B1 ++ B2 -> open_at E (A ++ o :: B1) >= open_at E A + 1.
(* whatever opening tag is the innermost open one after P stands on a line with k units *)
Definition aligned_at (f : ofmt) (E : list sev) (P : list chunk) (k : Z) : Prop :=
  forall A o B, P = A ++ o :: B -> opens_innermost E A o B -> line_of f A k.

(* every line break of X is indented as in [lines_indented]; moreover, when the line starts with a closing tag,
   the line on which the matching opening tag stands has the same k units *)
Definition lines_aligned (f : ofmt) (E : list sev) (X : list chunk) : Prop :=
  forall pre s rest, X = pre ++ CT true s :: rest ->
    exists k more, indented f k rest more /\
                   k = open_at E pre - (if starts_close more then 1 else 0) /\
                   (starts_close more = true -> aligned_at f E pre k).

(* ================================================================ the threaded reading *)
Definition Dp (E : list sev) (n : nat) : Z := depth_after 0 (firstn n E).
Definition transparent (x : chunk) : bool := match x with CT false [] => true | _ => false end.
Definition is_nl (x : chunk) : bool := match x with CT true _ => true | _ => false end.

Lemma ntags_app a b : ntags (a ++ b) = (ntags a + ntags b)%nat.
Proof. unfold ntags. rewrite flat_map_app, app_length. reflexivity. Qed.
Lemma ntags_cons x a : ntags (x :: a) = (length (chunk_tags x) + ntags a)%nat.
Proof. unfold ntags. cbn [flat_map]. rewrite app_length. reflexivity. Qed.

Section Lines.
Variables (f : ofmt) (E : list sev).
(* what a closing tag that is first on its line (k units) owes to the chunks P before it *)
Variable AP : list chunk -> Z -> Prop.
Notation Dp := (Dp E).

(* Lines P s X s': the chunks X, which follow the chunks P, are read from state s to state s';
   state: number of tag chunks read, pending line break (its units) *)
Inductive Lines : list chunk -> nat * option Z -> list chunk -> nat * option Z -> Prop :=
| L_nil P s : Lines P s [] s
| L_nl P n p k ind more s' :
    (ind = [indent_chunk f k] \/ (k = 0 /\ ind = [])) ->
    (forall k', p = Some k' -> k' = Dp n) ->
    Lines (P ++ nl_chunk f :: ind) (n, Some k) more s' ->
    Lines P (n, p) (nl_chunk f :: ind ++ more) s'
| L_empty P n p X s' : Lines (P ++ [CT false []]) (n, p) X s' -> Lines P (n, p) (CT false [] :: X) s'
| L_ch P n p x X s' :
    is_nl x = false -> transparent x = false ->
    (forall k, p = Some k -> k = Dp n - (if is_close x then 1 else 0)) ->
    (is_close x = true -> forall k, p = Some k -> AP P k) ->
    Lines (P ++ [x]) ((n + length (chunk_tags x))%nat, None) X s' ->
    Lines P (n, p) (x :: X) s'.

Lemma Lines_app P s X s' : Lines P s X s' -> forall Y s'', Lines (P ++ X) s' Y s'' -> Lines P s (X ++ Y) s''.
Proof.
  induction 1 as [P s|P n p k ind more s' Hi Hp H IH|P n p X s' H IH|P n p x X s' Hn Ht Hp Ha H IH]; intros Y s'' HY.
  - rewrite app_nil_r in HY. exact HY.
  - cbn [app]. rewrite <- app_assoc. eapply L_nl; [exact Hi|exact Hp|]. apply IH.
    rewrite <- app_assoc. cbn [app]. cbn [app] in HY. exact HY.
  - cbn [app]. apply L_empty. apply IH. rewrite <- app_assoc. exact HY.
  - cbn [app]. apply L_ch; try assumption. apply IH. rewrite <- app_assoc. exact HY.
Qed.

Definition final_ok (s : nat * option Z) : Prop := forall k, snd s = Some k -> k = Dp (fst s).

Section Extract.
Hypothesis Hnl : nlt (nlb f) = true.
Hypothesis Hind : nlt (of_indent f) = true.
Hypothesis AP_mono : forall P Z k, ntags Z = O -> AP (P ++ Z) k -> AP P k.

Lemma text_tag_repeat n : text_tag (repeat_str (of_indent f) n) = [].
Proof. apply nlt_text_tag, nlt_repeat, Hind. Qed.
Lemma tags_indent k : chunk_tags (indent_chunk f k) = [].
Proof. unfold indent_chunk, chunk_tags. apply text_tag_repeat. Qed.
Lemma tags_nl : chunk_tags (nl_chunk f) = [].
Proof. unfold nl_chunk, chunk_tags. apply nlt_text_tag, Hnl. Qed.

Lemma ntags_break k ind : (ind = [indent_chunk f k] \/ (k = 0 /\ ind = [])) -> ntags (nl_chunk f :: ind) = O.
Proof. intros [->|[_ ->]]; rewrite !ntags_cons, tags_nl; [rewrite tags_indent|]; reflexivity. Qed.

(* the number of tag chunks read *)
Lemma Lines_ntags P s X s' : Lines P s X s' -> fst s' = (fst s + ntags X)%nat.
Proof.
  induction 1 as [P s|P n p k ind more s' Hi Hp H IH|P n p X s' H IH|P n p x X s' Hn Ht Hp Ha H IH]; cbn [fst] in *.
  - unfold ntags. cbn. lia.
  - rewrite IH. change (nl_chunk f :: ind ++ more) with ((nl_chunk f :: ind) ++ more). rewrite ntags_app, (ntags_break k ind Hi). lia.
  - rewrite IH, ntags_cons. cbn [chunk_tags text_tag length]. lia.
  - rewrite IH, ntags_cons. lia.
Qed.

(* a pending line break is discharged by what follows *)
Lemma pending_resolved P n k more s' :
  Lines P (n, Some k) more s' -> final_ok s' ->
  k = Dp n - (if starts_close more then 1 else 0) /\ (starts_close more = true -> AP P k).
Proof.
  intros H. remember (n, Some k) as s eqn:Es. revert n k Es.
  induction H as [P s|P n0 p k0 ind more s' Hi Hp H IH|P n0 p X s' H IH|P n0 p x X s' Hn Ht Hp Ha H IH]; intros n k Es Hf.
  - subst s. cbn [starts_close]. specialize (Hf k eq_refl). cbn [fst] in Hf. split; [lia|discriminate].
  - injection Es as -> ->. unfold nl_chunk. cbn [starts_close]. rewrite (Hp k eq_refl). split; [lia|discriminate].
  - injection Es as -> ->. cbn [starts_close]. destruct (IH n k eq_refl Hf) as [H1 H2]. split; [exact H1|].
    intros Hs. apply (AP_mono P [CT false []] k eq_refl), H2, Hs.
  - injection Es as -> ->. pose proof (Hp k eq_refl) as Ek.
    assert (Esc : starts_close (x :: X) = is_close x).
    { destruct x as [[|] [|ch s]|i ph]; cbn [is_nl transparent] in Hn, Ht; try discriminate; reflexivity. }
    rewrite Esc. split; [exact Ek|]. intros Hc. apply (Ha Hc k eq_refl).
Qed.

(* the statement quantified over every line-break chunk *)
Lemma Lines_every_break X : forall P s0 s', Lines P s0 X s' -> final_ok s' ->
  forall pre t rest, X = pre ++ CT true t :: rest ->
    t = of_newline f ++ of_base_indent f /\
    exists k more, indented f k rest more /\
                   k = Dp (fst s0 + ntags pre)%nat - (if starts_close more then 1 else 0) /\
                   (starts_close more = true -> AP (P ++ pre) k).
Proof.
  intros P s0 s' H.
  induction H as [P s|P n p k ind more s' Hi Hp H IH|P n p X s' H IH|P n p x X s' Hn Ht Hp Ha H IH];
    intros Hf pre t rest E0.
  - destruct pre; discriminate.
  - destruct pre as [|y pre].
    + cbn [app] in E0. unfold nl_chunk in E0. injection E0 as <- <-. split; [reflexivity|].
      exists k, more. split.
      { destruct Hi as [->|[-> ->]]; [left; reflexivity|right; split; reflexivity]. }
      cbn [fst]. unfold ntags. cbn [flat_map length]. rewrite Nat.add_0_r, app_nil_r.
      destruct (pending_resolved _ n k more s' H Hf) as [H1 H2]. split; [exact H1|].
      intros Hs. apply (AP_mono P (nl_chunk f :: ind) k (ntags_break k ind Hi)), H2, Hs.
    + cbn [app] in E0. injection E0 as <- E0.
      assert (Epre : exists pre', pre = ind ++ pre' /\ more = pre' ++ CT true t :: rest).
      { destruct Hi as [->|[_ ->]].
        - destruct pre as [|z pre]; [discriminate|]. cbn [app] in E0. injection E0 as <- E0. exists pre. split; [reflexivity|exact E0].
        - exists pre. split; [reflexivity|exact E0]. }
      destruct Epre as [pre' [-> E1]].
      destruct (IH Hf pre' t rest E1) as [Ht [k1 [more1 [Hi1 [Hk1 Ha1]]]]]. split; [exact Ht|].
      exists k1, more1. split; [exact Hi1|]. cbn [fst] in *.
      change (nl_chunk f :: ind ++ pre') with ((nl_chunk f :: ind) ++ pre'). rewrite ntags_app, (ntags_break k ind Hi).
      split; [exact Hk1|]. intros Hs. specialize (Ha1 Hs). rewrite <- app_assoc in Ha1. exact Ha1.
  - destruct pre as [|y pre]; [discriminate|]. cbn [app] in E0. injection E0 as <- E0.
    destruct (IH Hf pre t rest E0) as [Ht [k1 [more1 [Hi1 [Hk1 Ha1]]]]]. split; [exact Ht|].
    exists k1, more1. split; [exact Hi1|]. cbn [fst] in *. rewrite ntags_cons. cbn [chunk_tags text_tag length].
    split; [exact Hk1|]. intros Hs. specialize (Ha1 Hs). rewrite <- app_assoc in Ha1. exact Ha1.
  - destruct pre as [|y pre].
    + cbn [app] in E0. injection E0 as -> _. discriminate.
    + cbn [app] in E0. injection E0 as <- E0.
      destruct (IH Hf pre t rest E0) as [Ht' [k1 [more1 [Hi1 [Hk1 Ha1]]]]]. split; [exact Ht'|].
      exists k1, more1. split; [exact Hi1|]. cbn [fst] in *. rewrite ntags_cons.
      rewrite Nat.add_assoc. split; [exact Hk1|]. intros Hs. specialize (Ha1 Hs). rewrite <- app_assoc in Ha1. exact Ha1.
Qed.
End Extract.

(* ---------------------------------------------------------------- single steps, appended at the end *)
Definition Popen (n : nat) (p : option Z) : Prop := forall k, p = Some k -> k = Dp n.
Definition Pclose (n : nat) (p : option Z) : Prop := forall k, p = Some k -> k = Dp n - 1.

Lemma Popen_none n : Popen n None. Proof. intros k H. discriminate. Qed.
Lemma Pclose_none n : Pclose n None. Proof. intros k H. discriminate. Qed.

(* a line break with indentation [ind] at level L *)
Definition units (L : Z) (ind : option (option Z)) : Z :=
  match ind with None => 0 | Some None => L | Some (Some n) => n end.

Lemma Lines_nl P s0 X n p L ind :
  Lines P s0 X (n, p) -> Popen n p -> Lines P s0 (X ++ nl_chunks f L ind) (n, Some (units L ind)).
Proof.
  intros H Hp. eapply Lines_app; [exact H|].
  change (nl_chunks f L ind) with (nl_chunk f :: tl (nl_chunks f L ind)).
  rewrite <- (app_nil_r (tl (nl_chunks f L ind))).
  eapply L_nl; [|exact Hp|apply L_nil].
  destruct ind as [[k|]|]; cbn [nl_chunks tl units]; [left|left|right]; auto.
Qed.

Lemma Lines_empty P s0 X s : Lines P s0 X s -> Lines P s0 (X ++ [CT false []]) s.
Proof. intros H. eapply Lines_app; [exact H|]. destruct s. apply L_empty, L_nil. Qed.

(* a chunk of text without a tag *)
Lemma Lines_text P s0 X n p x :
  Lines P s0 X (n, p) -> Popen n p -> is_nl x = false -> chunk_tags x = [] ->
  exists p', Lines P s0 (X ++ [x]) (n, p') /\ Popen n p' /\ (transparent x = false -> p' = None) /\ (p = None -> p' = None).
Proof.
  intros H Hp Hn Ht. destruct (transparent x) eqn:Etr.
  - destruct x as [[|] [|ch s]|i ph]; try discriminate. exists p. split; [apply Lines_empty, H|].
    split; [exact Hp|]. split; [discriminate|exact (fun e => e)].
  - exists None. split; [|split; [apply Popen_none|split; intros; reflexivity]].
    eapply Lines_app; [exact H|]. apply L_ch; [exact Hn|exact Etr| | |].
    + intros k Hk. unfold is_close. rewrite Ht. rewrite (Hp k Hk). lia.
    + unfold is_close. rewrite Ht. discriminate.
    + rewrite Ht. cbn [length]. rewrite Nat.add_0_r. apply L_nil.
Qed.

(* an opening tag chunk *)
Lemma Lines_open P s0 X n p name :
  Lines P s0 X (n, p) -> Popen n p -> text_tag (c_lt :: name) = [TOpen name] ->
  Lines P s0 (X ++ [CT false (c_lt :: name)]) (S n, None).
Proof.
  intros H Hp Ht. eapply Lines_app; [exact H|]. apply L_ch; [reflexivity|reflexivity| | |].
  - intros k Hk. unfold is_close, chunk_tags. rewrite Ht. rewrite (Hp k Hk). lia.
  - unfold is_close, chunk_tags. rewrite Ht. discriminate.
  - unfold chunk_tags. rewrite Ht. cbn [length]. rewrite Nat.add_1_r. apply L_nil.
Qed.

(* a closing tag chunk *)
Lemma Lines_close P s0 X n p name :
  Lines P s0 X (n, p) -> Pclose n p -> (forall k, p = Some k -> AP (P ++ X) k) ->
  Lines P s0 (X ++ [CT false ([c_lt; c_slash] ++ name ++ [c_gt])]) (S n, None).
Proof.
  intros H Hp Ha. eapply Lines_app; [exact H|].
  assert (Ht : text_tag ([c_lt; c_slash] ++ name ++ [c_gt]) = [TClose name]).
  { cbn [app text_tag]. rewrite !N.eqb_refl. rewrite removelast_last. reflexivity. }
  apply L_ch; [reflexivity|reflexivity| | |].
  - intros k Hk. unfold is_close, chunk_tags. rewrite Ht. apply (Hp k Hk).
  - intros _ k Hk. apply (Ha k Hk).
  - unfold chunk_tags. rewrite Ht. cbn [length]. rewrite Nat.add_1_r. apply L_nil.
Qed.
End Lines.

(* ================================================================ alignment: generic facts *)
Lemma open_at_Dp E X : open_at E X = Dp E (ntags X).
Proof. reflexivity. Qed.

Lemma ntags_prefix_le (B1 B2 : list chunk) : (ntags B1 <= ntags (B1 ++ B2))%nat.
Proof. rewrite ntags_app. lia. Qed.

(* chunks without tags at the end do not matter *)
Lemma aligned_at_mono f E P Z0 k : ntags Z0 = O -> aligned_at f E (P ++ Z0) k -> aligned_at f E P k.
Proof.
  intros HZ H A o B HP [H1 [H2 H3]]. apply (H A o (B ++ Z0)).
  - rewrite HP, <- app_assoc. reflexivity.
  - split; [exact H1|]. split.
    + rewrite <- H2, !open_at_Dp. f_equal. change (A ++ o :: B ++ Z0) with (A ++ (o :: B) ++ Z0).
      rewrite app_assoc, ntags_app, HZ. lia.
    + intros B1 B2 HB. apply app_eq_app in HB. destruct HB as [l [[HB1 HB2]|[HB1 HB2]]].
      * apply (H3 B1 l HB1).
      * subst B1. assert (Hl : ntags l = O).
        { pose proof (ntags_prefix_le l B2) as G. rewrite <- HB2, HZ in G. lia. }
        rewrite <- H2, !open_at_Dp.
        replace (ntags (A ++ o :: B ++ l)) with (ntags (A ++ o :: B)); [lia|].
        change (A ++ o :: B ++ l) with (A ++ (o :: B) ++ l). rewrite (app_assoc A), (ntags_app (A ++ o :: B)), Hl. lia.
Qed.

(* the opening tag chunk o of an element whose events are the m-th (open) to the (m+1+nk)-th (close) *)
Lemma aligned_at_actual f E P A o B k m nk :
  P = A ++ o :: B -> ntags A = m -> ntags [o] = 1%nat -> ntags B = nk ->
  Dp E (S m) = Dp E m + 1 -> Dp E (S m + nk) = Dp E m + 1 ->
  (forall t, (t <= nk)%nat -> Dp E (S m + t) >= Dp E m + 1) ->
  line_of f A k -> aligned_at f E P k.
Proof.
  intros HP HA Ho HB D1 D2 D3 Hline A' o' B' HP' [H1 [H2 H3]].
  assert (HPn : open_at E P = Dp E m + 1).
  { rewrite open_at_Dp, HP. change (A ++ o :: B) with (A ++ [o] ++ B). rewrite !ntags_app, HA, Ho, HB.
    replace (m + (1 + nk))%nat with (S m + nk)%nat by lia. exact D2. }
  assert (HAn : open_at E A = Dp E m) by (rewrite open_at_Dp, HA; reflexivity).
  rewrite <- HP' in H2.
  assert (EA : A' = A).
  { rewrite HP in HP'. apply app_eq_app in HP'. destruct HP' as [l [[Ha Hb]|[Ha Hb]]].
    - destruct l as [|x l']; [rewrite app_nil_r in Ha; symmetry; exact Ha|].
      cbn [app] in Hb. injection Hb as -> Hb. exfalso.
      pose proof (H3 l' (o :: B) Hb) as G. rewrite <- Ha, HAn in G. lia.
    - destruct l as [|x l']; [rewrite app_nil_r in Ha; exact Ha|].
      cbn [app] in Hb. injection Hb as <- Hb. exfalso.
      assert (G : open_at E A' >= Dp E m + 1).
      { rewrite Ha, open_at_Dp. change (A ++ o :: l') with (A ++ [o] ++ l'). rewrite !ntags_app, HA, Ho.
        replace (m + (1 + ntags l'))%nat with (S m + ntags l')%nat by lia. apply D3.
        rewrite <- HB, Hb. apply ntags_prefix_le. }
      lia. }
  rewrite EA. exact Hline.
Qed.
