(* The two character classes of re_html_tag (gen/GenHtmlTag.v, probed from the compiled regex) are disjoint: the fact the
   hand-compiled matcher of model/FormatHtml.v (starts_with_block_tag: greedy run of name characters, then ONE end
   character) relies on -- a backtracking regex engine could otherwise give a character of the run back.  Proved for every
   code point from a finite sweep over the generated range tables (re-checked whenever the tables are regenerated). *)
From Coq Require Import List NArith Bool Lia.
From Emmet Require Import lib.Base gen.GenHtmlTag model.FormatHtml.
Import ListNotations.
Local Open Scope N_scope.

Definition ranges_apart (r1 r2 : N * N) : bool := (snd r1 <? fst r2) || (snd r2 <? fst r1).

Definition tables_apart (t1 t2 : list (N * N)) : bool :=
  forallb (fun r1 => forallb (fun r2 => ranges_apart r1 r2) t2) t1.

Lemma tables_apart_sound t1 t2 ch :
  tables_apart t1 t2 = true -> in_ranges ch t1 = true -> in_ranges ch t2 = false.
Proof.
  intros Hap H1.
  destruct (in_ranges ch t2) eqn:H2; [|reflexivity]. exfalso.
  unfold in_ranges in H1, H2.
  apply existsb_exists in H1. destruct H1 as [r1 [Hin1 Hr1]].
  apply existsb_exists in H2. destruct H2 as [r2 [Hin2 Hr2]].
  unfold tables_apart in Hap.
  rewrite forallb_forall in Hap. specialize (Hap r1 Hin1).
  rewrite forallb_forall in Hap. specialize (Hap r2 Hin2).
  unfold ranges_apart in Hap. unfold in_range in Hr1, Hr2.
  apply andb_true_iff in Hr1. destruct Hr1 as [Ha1 Hb1].
  apply andb_true_iff in Hr2. destruct Hr2 as [Ha2 Hb2].
  apply N.leb_le in Ha1. apply N.leb_le in Hb1. apply N.leb_le in Ha2. apply N.leb_le in Hb2.
  apply orb_true_iff in Hap. destruct Hap as [Hlt|Hlt]; apply N.ltb_lt in Hlt; lia.
Qed.

Lemma html_tag_tables_apart : tables_apart html_tag_name_ranges html_tag_end_ranges = true.
Proof. vm_compute. reflexivity. Qed.

(* every code point: a name character of re_html_tag is never one of its end characters *)
Lemma tag_name_char_not_end ch : is_tagname_char ch = true -> is_tag_end_char ch = false.
Proof. unfold is_tagname_char, is_tag_end_char. apply tables_apart_sound. exact html_tag_tables_apart. Qed.

(* hence the greedy run of starts_with_block_tag stops exactly where the regex's `+` may stop: the character after the
   run is not a name character (by maximality of span) and an end character inside the run is impossible *)
Lemma tag_end_char_not_name ch : is_tag_end_char ch = true -> is_tagname_char ch = false.
Proof.
  intros He. destruct (is_tagname_char ch) eqn:Hn; [|reflexivity].
  apply tag_name_char_not_end in Hn. congruence.
Qed.

(* the classes are the Unicode ones: `é` (233) and `日` (26085) are name characters, NBSP (160) and U+2028 end the name,
   `>` ends it, `<` and `/` are in neither class *)
Example tag_classes_unicode :
  is_tagname_char 233 = true /\ is_tagname_char 26085 = true /\ is_tagname_char 45 = true /\ is_tagname_char 58 = true /\
  is_tag_end_char 160 = true /\ is_tag_end_char 8232 = true /\ is_tag_end_char 62 = true /\
  is_tagname_char 60 = false /\ is_tag_end_char 60 = false /\ is_tagname_char 47 = false /\ is_tag_end_char 47 = false.
Proof. vm_compute. repeat split. Qed.
