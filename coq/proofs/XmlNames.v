(* The name alphabet of the HTML matcher IS the name alphabet of XML 1.0.

   SPEC.  XML 1.0 (Fifth Edition), section 2.3:
     [4]  NameStartChar ::= ":" | [A-Z] | "_" | [a-z] | [#xC0-#xD6] | [#xD8-#xF6] | [#xF8-#x2FF] | [#x370-#x37D]
                          | [#x37F-#x1FFF] | [#x200C-#x200D] | [#x2070-#x218F] | [#x2C00-#x2FEF] | [#x3001-#xD7FF]
                          | [#xF900-#xFDCF] | [#xFDF0-#xFFFD] | [#x10000-#xEFFFF]
     [4a] NameChar      ::= NameStartChar | "-" | "." | [0-9] | #xB7 | [#x0300-#x036F] | [#x203F-#x2040]
     [5]  Name          ::= NameStartChar (NameChar)*
   written here as two lists of (lo, hi) pairs swept by [in_ranges].

   THEOREMS (for every code point / every string):
     name_start_char_xml   model.HtmlScan.name_start_char c = in_ranges xml_name_start_ranges c
     name_char_xml         model.HtmlScan.name_char c       = in_ranges xml_name_char_ranges c
                           (the code asks str.isdecimal, wider than [0-9]: every decimal digit of the generated
                            Unicode table other than 0-9 lies in a NameStartChar range -- the table is finite and is
                            swept completely, [decimal_digits_are_name_start])
     name_ok_xml           the names of the Level B grammar of C09 (HtmlRenderLib.name_ok) are exactly the XML Names
     ident_xml_name        [ident] consumes the longest prefix that is an XML Name, and fails exactly when no prefix is
     scan_xml_named_pair / match_xml_named_pair
                           `<n a="v">t</n>` for EVERY XML Name n, a: the scanner reports the open and the close tag
                           at their exact ranges, match() at any position returns what the record says *)
From Coq Require Import List NArith ZArith Bool Lia ZifyBool.
From Emmet Require Import lib.Base gen.GenChars gen.GenHtml model.HtmlScan model.HtmlMatch
  proofs.HtmlScanProofs proofs.HtmlForestProofs proofs.HtmlRenderLib proofs.HtmlRender proofs.HtmlRenderScan
  proofs.HtmlRenderCompose.
Import ListNotations.
Local Open Scope N_scope.

(* ================================================================== SPEC *)
Definition xml_name_start_ranges : list (N * N) :=
  [ (0x3A, 0x3A);        (* ":" *)
    (0x41, 0x5A);        (* [A-Z] *)
    (0x5F, 0x5F);        (* "_" *)
    (0x61, 0x7A);        (* [a-z] *)
    (0xC0, 0xD6); (0xD8, 0xF6); (0xF8, 0x2FF); (0x370, 0x37D); (0x37F, 0x1FFF);
    (0x200C, 0x200D); (0x2070, 0x218F); (0x2C00, 0x2FEF); (0x3001, 0xD7FF);
    (0xF900, 0xFDCF); (0xFDF0, 0xFFFD); (0x10000, 0xEFFFF) ].
Definition xml_name_extra_ranges : list (N * N) :=
  [ (0x2D, 0x2D);        (* "-" *)
    (0x2E, 0x2E);        (* "." *)
    (0x30, 0x39);        (* [0-9] *)
    (0xB7, 0xB7); (0x300, 0x36F); (0x203F, 0x2040) ].
Definition xml_name_char_ranges : list (N * N) := xml_name_start_ranges ++ xml_name_extra_ranges.

Definition in_ranges (rs : list (N * N)) (c : char) : bool :=
  existsb (fun r => in_range (fst r) (snd r) c) rs.

(* [5] Name *)
Definition xml_name (n : str) : bool :=
  match n with
  | c :: r => in_ranges xml_name_start_ranges c && forallb (in_ranges xml_name_char_ranges) r
  | [] => false
  end.

(* ================================================================== the character classes *)
Lemma name_start_char_xml c : name_start_char c = in_ranges xml_name_start_ranges c.
Proof.
  unfold name_start_char, in_ranges, xml_name_start_ranges, is_alpha, in_range, c_colon, c_under, c_a, c_z, c_A, c_Z.
  cbn [existsb fst snd]. lia.
Qed.

(* every decimal digit (str.isdecimal) other than 0-9 is a NameStartChar: the runs of ten digits of the generated
   table lie inside one range each; finite table, swept completely *)
Definition run_inside (z : N) (r : N * N) : bool := (fst r <=? z) && (z + 9 <=? snd r).
Lemma decimal_digits_are_name_start :
  forallb (fun z => (z =? 0x30) || existsb (run_inside z) xml_name_start_ranges) decimal_zeros = true.
Proof. vm_compute. reflexivity. Qed.

Lemma is_number_name c : is_number c = true -> in_range 0x30 0x39 c || in_ranges xml_name_start_ranges c = true.
Proof.
  unfold is_number. intros H. apply existsb_exists in H. destruct H as [z [Hz Hc]].
  pose proof decimal_digits_are_name_start as HD. rewrite forallb_forall in HD. specialize (HD z Hz).
  apply orb_true_iff in HD. destruct HD as [HD|HD].
  - apply N.eqb_eq in HD. subst z. apply orb_true_iff. left. unfold in_range. lia.
  - apply existsb_exists in HD. destruct HD as [r [Hr Hi]].
    apply orb_true_iff. right. unfold in_ranges. apply existsb_exists. exists r. split; [exact Hr|].
    unfold run_inside in Hi. unfold in_range. lia.
Qed.

Lemma ascii_digit_is_number c : in_range 0x30 0x39 c = true -> is_number c = true.
Proof.
  intros H. unfold is_number. apply existsb_exists. exists 0x30. split.
  - assert (E : existsb (N.eqb 0x30) decimal_zeros = true) by (vm_compute; reflexivity).
    apply existsb_exists in E. destruct E as [x [Hx E]]. apply N.eqb_eq in E. subst x. exact Hx.
  - unfold in_range in H. lia.
Qed.

Lemma in_ranges_app a b c : in_ranges (a ++ b) c = in_ranges a c || in_ranges b c.
Proof. unfold in_ranges. apply existsb_app. Qed.

Lemma name_char_xml c : name_char c = in_ranges xml_name_char_ranges c.
Proof.
  unfold xml_name_char_ranges. rewrite in_ranges_app. unfold name_char. rewrite name_start_char_xml.
  destruct (in_ranges xml_name_start_ranges c) eqn:Es; [reflexivity|].
  cbn [orb].
  assert (Hn : is_number c = in_range 0x30 0x39 c).
  { destruct (is_number c) eqn:En.
    - apply is_number_name in En. rewrite Es, orb_false_r in En. symmetry. exact En.
    - destruct (in_range 0x30 0x39 c) eqn:Er; [|reflexivity]. apply ascii_digit_is_number in Er. congruence. }
  rewrite Hn.
  unfold in_ranges, xml_name_extra_ranges, in_range, c_dash, c_dot. cbn [existsb fst snd]. lia.
Qed.

(* the statements as the task words them *)
Corollary name_start_char_iff c : name_start_char c = true <-> in_ranges xml_name_start_ranges c = true.
Proof. rewrite name_start_char_xml. tauto. Qed.
Corollary name_char_iff c : name_char c = true <-> in_ranges xml_name_char_ranges c = true.
Proof. rewrite name_char_xml. tauto. Qed.

(* [in_ranges] says what one expects *)
Lemma in_ranges_spec rs c : in_ranges rs c = true <-> exists lo hi, In (lo, hi) rs /\ lo <= c <= hi.
Proof.
  unfold in_ranges. rewrite existsb_exists. split.
  - intros [[lo hi] [Hi H]]. exists lo, hi. split; [exact Hi|]. unfold in_range in H. cbn [fst snd] in H. lia.
  - intros (lo & hi & Hi & H). exists (lo, hi). split; [exact Hi|]. unfold in_range. cbn [fst snd]. lia.
Qed.

(* ================================================================== names *)
Lemma forallb_ext_eq {A} (f g : A -> bool) l : (forall x, f x = g x) -> forallb f l = forallb g l.
Proof. intros H. induction l as [|x l IH]; [reflexivity|]. cbn [forallb]. rewrite H, IH. reflexivity. Qed.

Lemma name_ok_xml n : name_ok n = xml_name n.
Proof.
  destruct n as [|c r]; [reflexivity|]. cbn [name_ok xml_name].
  rewrite name_start_char_xml. f_equal. apply forallb_ext_eq. exact name_char_xml.
Qed.

Lemma span_firstn_all p : forall s, forallb p (firstn (span p s) s) = true.
Proof.
  induction s as [|c r IH]; [reflexivity|]. cbn [span]. destruct (p c) eqn:E; [|reflexivity].
  cbn [firstn forallb]. rewrite E. exact IH.
Qed.
Lemma span_skipn_stops p : forall s, stops p (skipn (span p s) s).
Proof.
  induction s as [|c r IH]; [exact I|]. cbn [span]. destruct (p c) eqn:E.
  - cbn [skipn]. exact IH.
  - cbn [skipn stops]. exact E.
Qed.

(* ident succeeds with k  <->  the first k characters are an XML Name that the next character cannot continue *)
Theorem ident_xml_name (s : str) (k : nat) :
  ident s = Some k <->
  (k <= length s)%nat /\ xml_name (firstn k s) = true /\ stops (in_ranges xml_name_char_ranges) (skipn k s).
Proof.
  split.
  - destruct s as [|c r]; [discriminate|]. cbn [ident]. destruct (name_start_char c) eqn:Ec; [|discriminate].
    intros H. inversion H; subst k. clear H.
    pose proof (span_le name_char r) as Hle. split; [cbn [length]; lia|]. split.
    + rewrite <- name_ok_xml. cbn [firstn name_ok]. rewrite Ec. apply span_firstn_all.
    + cbn [skipn]. pose proof (span_skipn_stops name_char r) as Hs.
      destruct (skipn (span name_char r) r) as [|x T]; [exact I|]. cbn [stops] in *. rewrite <- name_char_xml. exact Hs.
  - intros (Hk & Hn & Hs).
    rewrite <- (firstn_skipn k s) at 1. rewrite <- name_ok_xml in Hn.
    rewrite (ident_name (firstn k s) (skipn k s) Hn).
    + rewrite firstn_length_le by exact Hk. reflexivity.
    + destruct (skipn k s) as [|x T]; [exact I|]. cbn [stops] in *. rewrite name_char_xml. exact Hs.
Qed.

(* ... and fails exactly when the input does not begin with a NameStartChar (no prefix is a Name) *)
Theorem ident_none_xml (s : str) :
  ident s = None <-> (forall k, xml_name (firstn k s) = false).
Proof.
  split.
  - intros H k. destruct s as [|c r]; [destruct k; reflexivity|].
    cbn [ident] in H. destruct (name_start_char c) eqn:Ec; [discriminate|].
    destruct k; [reflexivity|]. cbn [firstn xml_name]. rewrite <- name_start_char_xml, Ec. reflexivity.
  - intros H. destruct s as [|c r]; [reflexivity|]. cbn [ident].
    destruct (name_start_char c) eqn:Ec; [|reflexivity].
    specialize (H 1%nat). cbn [firstn xml_name forallb] in H. rewrite <- name_start_char_xml, Ec in H. discriminate.
Qed.

(* ================================================================== end to end: an element named by ANY XML Name *)
(* the document `<n a="v">t</n>` *)
Definition xdoc (n a v t : str) : list item :=
  [IPaired n [mkDAttr [c_space] (NIdent a) (VQuoted c_dquote v)] [] [IText t]].

Definition xattr (a v : str) : dattr := mkDAttr [c_space] (NIdent a) (VQuoted c_dquote v).
Definition xdoc_ok (special : list (str * option (list str))) (n a v t : str) : Prop :=
  xml_name n = true /\ xml_name a = true /\ is_raw special n [xattr a v] = false /\
  plain_body c_dquote v = true /\ forallb (fun c => negb (c =? c_lt)) t = true.

Lemma xdoc_text n a v t :
  render (xdoc n a v t) =
  [c_lt] ++ n ++ [c_space] ++ a ++ [c_eq; c_dquote] ++ v ++ [c_dquote; c_gt] ++ t ++ [c_lt; c_slash] ++ n ++ [c_gt].
Proof.
  unfold xdoc, render. cbn [flat_map render_item]. unfold open_tag, close_tag, render_attrs.
  cbn [flat_map]. unfold render_attr, value_part. cbn [da_ws da_name da_val render_aname value_text].
  rewrite !app_nil_r. cbn [app]. repeat (rewrite <- !app_assoc; cbn [app]). reflexivity.
Qed.

(* where the two tags lie *)
Definition x_oe (n a v : str) : N := N.of_nat (length n + length a + length v + 6).
Definition x_cs (n a v t : str) : N := x_oe n a v + N.of_nat (length t).
Definition x_ce (n a v t : str) : N := x_cs n a v t + N.of_nat (length n + 3).

Lemma xdoc_forest n a v t :
  forest_of (xdoc n a v t) = [Pair n 0 (x_oe n a v) (x_cs n a v t) (x_ce n a v t) []].
Proof.
  unfold forest_of, xdoc, x_ce, x_cs, x_oe. cbn [nodes_items nodes_item app].
  unfold open_tag, close_tag, render_attrs. cbn [flat_map]. unfold render_attr, value_part.
  cbn [da_ws da_name da_val render_aname value_text render_item].
  rewrite ?app_nil_r. cbn [length app]. rewrite !app_length. cbn [length]. rewrite ?app_length. cbn [length].
  rewrite ?app_length. cbn [length]. repeat f_equal; lia.
Qed.

Lemma xdoc_events n a v t :
  events (xdoc n a v t) = [mkEv n EOpen 0 (x_oe n a v); mkEv n EClose (x_cs n a v t) (x_ce n a v t)].
Proof. unfold events. rewrite xdoc_forest. reflexivity. Qed.

Lemma xdoc_item_ok special n a v t :
  xdoc_ok special n a v t -> forallb (item_ok special) (xdoc n a v t) = true.
Proof.
  intros (Hn & Ha & Hr & Hv & Ht).
  unfold xdoc. cbn [forallb item_ok]. unfold tag_ok. cbn [forallb]. unfold dattr_ok, xattr in *.
  cbn [da_ws da_name da_val aname_ok aval_ok]. unfold quoted_ok, ws_ok. cbn [forallb].
  rewrite !name_ok_xml, Hn, Ha, Hr, Hv, Ht. reflexivity.
Qed.

(* the scanner reports exactly the open tag and the close tag, whatever XML Names n and a are *)
Theorem scan_xml_named_pair special n a v t :
  xdoc_ok special n a v t ->
  scan special (render (xdoc n a v t)) =
  ([mkEv n EOpen 0 (x_oe n a v); mkEv n EClose (x_cs n a v t) (x_ce n a v t)], None).
Proof. intros H. rewrite <- xdoc_events. apply scan_render. apply xdoc_item_ok. exact H. Qed.

(* match() at every position: strictly inside the element -> the element with its attribute, exact ranges *)
Theorem match_xml_named_pair o n a v t pos :
  xdoc_ok (o_special o) n a v t -> is_self_close o n = false ->
  html_match o (render (xdoc n a v t)) pos =
  Ok (if strictly_in 0 pos (x_ce n a v t)
      then Some (mkMatched n (attr_tokens (N.of_nat (S (length n))) [xattr a v])
                   (0, x_oe n a v) (Some (x_cs n a v t, x_ce n a v t)))
      else None).
Proof.
  intros Hok Hs.
  assert (Hi : forallb (item_ok (o_special o)) (xdoc n a v t) = true) by (apply xdoc_item_ok; exact Hok).
  assert (Hd : doc_ok o (xdoc n a v t) = true).
  { unfold doc_ok. rewrite Hi. unfold xdoc. cbn [forallb item_names]. rewrite Hs. reflexivity. }
  rewrite (match_text o _ pos Hd). rewrite xdoc_forest.
  unfold innermost, enclosing, postorder. cbn [flat_map postorder_node app filter].
  unfold encloses. cbn [node_start node_end].
  destruct (strictly_in 0 pos (x_ce n a v t)); [|reflexivity].
  cbn [map hd_error entry b_name b_open b_close fst snd].
  pose proof (get_attributes_doc (o_special o) (xdoc n a v t) (mkTagRec 0 n [xattr a v] [] false) Hi) as G.
  unfold tr_end, tr_text in G. cbn [tr_start tr_name tr_attrs tr_ws tr_sc] in G.
  assert (E : (0 + N.of_nat (length (open_tag n [xattr a v] [] false)))%N = x_oe n a v).
  { unfold x_oe, open_tag, render_attrs. cbn [flat_map]. unfold render_attr, value_part, xattr.
    cbn [da_ws da_name da_val render_aname value_text]. cbn [length app]. rewrite !app_length. cbn [length].
    rewrite !app_length. cbn [length]. rewrite !app_length. cbn [length]. lia. }
  rewrite E in G. rewrite N.add_0_l in G. rewrite G; [reflexivity|].
  unfold tags_of, xdoc. cbn [tags_items tags_item app]. left. reflexivity.
Qed.

(* non-vacuity: the two documents of the defect report.  `<日本 名前="1">x</日本>` in XML mode *)
Example xml_names_nonvacuous :
  let n := [0x65E5; 0x672C] in let a := [0x540D; 0x524D] in
  xml_name n = true /\ xml_name a = true /\ xml_name [0x20000; 0x203F; 0x200D; 0xEFFFF] = true /\
  xml_name [0x203F] = false /\ xml_name [0x3000] = false /\ xml_name [0xF0000] = false /\
  is_raw default_special n [xattr a [49]] = false /\
  html_match (mkOpts true default_special default_empty) (render (xdoc n a [49] [120])) 4 =
    Ok (Some (mkMatched n [mkAttr a 4 6 (Some ([34; 49; 34], 7, 10))] (0, 11) (Some (12, 17)))) /\
  ident [0x65E5; 0x672C; 62] = Some 2%nat.
Proof. vm_compute. repeat split. Qed.
