(* C12 indent_is_depth, part 2: the chunk list of the HTML formatter read as lines (FormatLines.Lines), for
   ALL trees of the domain [depth_dom] and ALL option records with an empty formatSkip list, comments off. *)
From Coq Require Import ZArith List Bool Lia ZifyBool.
From Emmet Require Import lib.Base model.MarkupTokenizer model.MarkupParser model.MarkupConvert
     model.OutStream model.FormatHtml proofs.IndentStream proofs.HtmlEvents proofs.OutStreamProofs proofs.FormatSteps
     proofs.FormatReach proofs.FormatProofs proofs.FormatChunks proofs.FormatDepth proofs.FormatLines proofs.FormatGrows.
Import ListNotations.
Local Open Scope Z_scope.

(* ================================================================ DOMAIN *)
(* a string that is written as one chunk and is no tag: no '<', no CR, no LF *)
Definition good (s : str) : bool := nolt s && nocrlf s.
Definition tok_good (t : vtok) : bool := match t with VStr s => good s | VField _ _ => true end.
Definition attr_good (a : aattr) : bool :=
  good (match aa_name a with Some x => x | None => [] end)
  && forallb tok_good (match aa_value a with Some v => v | None => [] end).
Definition tbl_good (t : option (list (str * str))) : bool :=
  match t with Some l => forallb (fun kv => good (snd kv)) l | None => true end.

(* no line of the string is read as a tag chunk (`<!-- ...` is none) *)
Definition notag (s : str) : bool := forallb (fun l => match text_tag l with [] => true | _ => false end) (split_crlf s).
Definition tpl_notag (t : tpl) : bool := match t with TStr s => notag s | TPh b a _ => notag b && notag a end.
(* comments: off, or no line of the two templates is read as a tag *)
Definition comment_dom (c : oconfig) : bool :=
  negb (oc_comment_enabled c)
  || (forallb tpl_notag (template (oc_comment_before c)) && forallb tpl_notag (template (oc_comment_after c))).
(* option records: newline+baseIndent and indent do not start with '<', comment templates without tags, attribute tables good *)
Definition cfg_depth (c : oconfig) : bool :=
  nlt (nlb (oc_fmt c)) && nlt (of_indent (oc_fmt c)) && comment_dom c
  && tbl_good (oc_markup_attributes c) && tbl_good (oc_value_prefix c).

(* the last line of a text is not empty *)
Definition str_ends_visible (s : str) : bool := match rev (split_crlf s) with (_ :: _) :: _ => true | _ => false end.
Definition tok_ends_visible (t : vtok) : bool := match t with VField _ _ => true | VStr s => str_ends_visible s end.
Fixpoint ends_visible (toks : list vtok) : bool :=
  match toks with
  | [] => false
  | [t] => tok_ends_visible t
  | _ :: r => ends_visible r
  end.
Definition oval (v : option (list vtok)) : list vtok := match v with Some x => x | None => [] end.
Definition no_children (n : anode) : bool := match an_children n with [] => true | _ => false end.

Definition last_formatted (c : oconfig) (q : anode) : bool :=
  match rev (an_children q) with
  | [] => false
  | x :: _ => should_format c (Some q) x (length (an_children q) - 1) (an_children q)
  end.
Definition no_field (v : list vtok) : bool := match find_field_ix v with None => true | Some _ => false end.
(* the comment after the closing tag of n, if any, ends with text on its line *)
Definition tpl_ends_visible (toks : list tpl) : bool :=
  match rev toks with TStr s :: _ => str_ends_visible s | _ => false end.
Definition comment_quiet (c : oconfig) (n : anode) : bool :=
  negb (should_comment c n) || match oc_comment_after c with [] => true | _ => false end
  || tpl_ends_visible (template (oc_comment_after c)).
(* the node ends with text on the current line: an element (its closing tag, its comment); a text node without children
   whose last line is not empty; a text node (text without field) whose last child is not line-broken and ends with text *)
Fixpoint ends_text (c : oconfig) (n : anode) {struct n} : bool :=
  if truthy_s (an_name n) then comment_quiet c n else
  match an_children n with
  | [] => ends_visible (oval (an_value n))
  | _ :: _ =>
      truthy_l (an_value n) && no_field (oval (an_value n)) && negb (last_formatted c n)
      && (fix lastgo (l : list anode) : bool :=
            match l with
            | [] => false
            | x :: r => match r with [] => ends_text c x | _ :: _ => lastgo r end
            end) (an_children n)
  end.

(* the last child of an element: an element, or line-broken itself, or a text that ends on its line *)
Definition last_ok (c : oconfig) (q : anode) : bool :=
  match rev (an_children q) with
  | [] => true
  | x :: _ => should_format c (Some q) x (length (an_children q) - 1) (an_children q) || ends_text c x
  end.
(* an element whose text has a field and which has children (push_snippet writes the text around the
   children, without the inner formatting of a multi-line text): the text has no line break and, when the
   last child is line-broken, ends with that field.  These are exactly the shapes of the listed finding
   C12:depth-multiline-field-text-with-children (see [snippet_text_not_inner_formatted] in props/C12.v). *)
Definition snippet_ok (c : oconfig) (q : anode) : bool :=
  match an_value q, an_children q with
  | Some ((_ :: _) as value), _ :: _ =>
      match find_field_ix value with
      | Some ix => toks_nocrlf value && (negb (last_formatted c q) || match skipn (S ix) value with [] => true | _ => false end)
      | None => true
      end
  | _, _ => true
  end.

Fixpoint depth_node (c : oconfig) (n : anode) : bool :=
  match n with
  | ANode nm v _ at_ ch _ =>
      let name := match nm with Some x => x | None => [] end in
      good name && name_start name
      && (truthy_s nm || negb (truthy_l at_))
      && oval_nolt v
      && forallb attr_good (match at_ with Some l => l | None => [] end)
      && (negb (truthy_s nm) || (last_ok c n && snippet_ok c n))
      && forallb (depth_node c) ch
  end.
Definition depth_dom (c : oconfig) (forest : list anode) : bool := forallb (depth_node c) forest.


(* ---------------------------------------------------------------- domain of close_aligned *)
(* the closing tag of the element goes on a line of its own: its last child is line-broken, or it has no children
   and its text has a line break / it is an empty leaf under formatLeafNode or formatForce *)
Definition closes_own_line (c : oconfig) (n : anode) : bool :=
  last_formatted c n
  || (no_children n
      && (if truthy_l (an_value n) then existsb has_newline (oval (an_value n))
          else oc_format_leaf c || mem_str (match an_name n with Some x => x | None => [] end) (oc_format_force c))).
(* an element whose closing tag goes on a line of its own is line-broken itself, or is the very first node.
   The excluded shapes are those of the listed finding C12:close-aligned-inline-leaf-inner-format (an inline leaf with
   inner formatting that is not line-broken) and inline elements that are not line-broken although their last child is. *)
Definition align_here (c : oconfig) (parent : option anode) (n : anode) (idx : nat) (items : list anode) : bool :=
  negb (truthy_s (an_name n)) || self_closed n || negb (closes_own_line c n)
  || should_format c parent n idx items
  || (match parent with None => true | Some _ => false end && Nat.eqb idx 0).
Fixpoint align_node (c : oconfig) (parent : option anode) (node : anode) (idx : nat) (items : list anode) {struct node} : bool :=
  align_here c parent node idx items &&
  (fix go (i : nat) (l : list anode) : bool :=
     match l with
     | [] => true
     | ch :: r => align_node c (Some node) ch i (an_children node) && go (S i) r
     end) O (an_children node).
Fixpoint align_walk (c : oconfig) (parent : option anode) (items : list anode) (i : nat) (l : list anode) : bool :=
  match l with
  | [] => true
  | ch :: r => align_node c parent ch i items && align_walk c parent items (S i) r
  end.
Definition align_dom (c : oconfig) (forest : list anode) : bool := align_walk c None forest O forest.

Lemma align_go_walk c parent items : forall l i,
  (fix go (i : nat) (l : list anode) : bool :=
     match l with
     | [] => true
     | ch :: r => align_node c parent ch i items && go (S i) r
     end) i l = align_walk c parent items i l.
Proof. induction l as [|x l IH]; intros i; [reflexivity|]. cbn [align_walk]. rewrite <- IH. reflexivity. Qed.
Lemma align_node_eq c parent node idx items :
  align_node c parent node idx items =
  align_here c parent node idx items && align_walk c (Some node) (an_children node) O (an_children node).
Proof. rewrite <- align_go_walk. destruct node; reflexivity. Qed.

Lemma lastgo_rev (f : anode -> bool) : forall l,
  (fix lastgo (l : list anode) : bool :=
     match l with
     | [] => false
     | x :: r => match r with [] => f x | _ :: _ => lastgo r end
     end) l = match rev l with x :: _ => f x | [] => false end.
Proof.
  induction l as [|x [|y r] IH]; [reflexivity|reflexivity|].
  rewrite IH. cbn [rev]. destruct (rev r ++ [y]) as [|z w] eqn:Ez; [destruct (rev r); discriminate|]. reflexivity.
Qed.
Lemma ends_text_eq c n :
  ends_text c n =
  (if truthy_s (an_name n) then comment_quiet c n else
   match an_children n with
   | [] => ends_visible (oval (an_value n))
   | _ :: _ => truthy_l (an_value n) && no_field (oval (an_value n)) && negb (last_formatted c n)
               && match rev (an_children n) with x :: _ => ends_text c x | [] => false end
   end).
Proof. rewrite <- (lastgo_rev (ends_text c)). destruct n as [nm v rp at_ [|x ch] sc]; reflexivity. Qed.

Lemma depth_node_eq c n :
  depth_node c n =
  good (match an_name n with Some x => x | None => [] end) && name_start (match an_name n with Some x => x | None => [] end)
  && (truthy_s (an_name n) || negb (truthy_l (an_attrs n)))
  && oval_nolt (an_value n)
  && forallb attr_good (match an_attrs n with Some l => l | None => [] end)
  && (negb (truthy_s (an_name n)) || (last_ok c n && snippet_ok c n))
  && forallb (depth_node c) (an_children n).
Proof. destruct n; reflexivity. Qed.

(* ================================================================ strings *)
Lemma good_app a b : good (a ++ b) = good a && good b.
Proof. unfold good. rewrite nolt_app, nocrlf_app. destruct (nolt a), (nolt b), (nocrlf a), (nocrlf b); reflexivity. Qed.
Lemma good_parts s : good s = true -> nolt s = true /\ nocrlf s = true.
Proof. unfold good. intros H. apply andb_true_iff in H. exact H. Qed.
Lemma nocrlf_str_case' s k : nocrlf (str_case s k) = nocrlf s.
Proof.
  unfold str_case. destruct k as [|k0 k]; [reflexivity|].
  destruct (str_eqb (k0 :: k) s_upper); [apply nocrlf_upper|apply nocrlf_lower].
Qed.
Lemma good_str_case s k : good (str_case s k) = good s.
Proof. unfold good. rewrite nolt_str_case, nocrlf_str_case'. reflexivity. Qed.
Lemma good_attr_quote c a b : good (attr_quote c a b) = true.
Proof. unfold attr_quote. destruct (aa_vtype a); destruct b; try destruct (str_eqb _ _); vm_compute; reflexivity. Qed.
Lemma good_cons ch s : good [ch] = true -> good s = true -> good (ch :: s) = true.
Proof. intros H1 H2. change (ch :: s) with ([ch] ++ s). rewrite good_app, H1, H2. reflexivity. Qed.

Lemma forallb_lstrip (P : char -> bool) s : forallb P s = true -> forallb P (lstrip s) = true.
Proof.
  unfold lstrip. induction s as [|ch s IH]; intros H; [reflexivity|]. cbn [lstrip_by].
  destruct (is_py_space ch); [|exact H]. apply IH. cbn [forallb] in H. apply andb_true_iff in H. apply H.
Qed.
Lemma good_lstrip s : good s = true -> good (lstrip s) = true.
Proof.
  intros H. apply good_parts in H. destruct H as [H1 H2]. unfold good, nolt, nocrlf in *.
  rewrite !forallb_lstrip by assumption. reflexivity.
Qed.

Lemma has_newline_nocrlf v : existsb has_newline v = false -> toks_nocrlf v = true.
Proof.
  induction v as [|t v IH]; intros H; [reflexivity|]. cbn [existsb] in H. apply orb_false_iff in H. destruct H as [H1 H2].
  cbn [toks_nocrlf forallb]. fold (toks_nocrlf v). rewrite (IH H2), andb_true_r.
  destruct t as [s|i nm]; [|reflexivity]. cbn [has_newline tok_nocrlf] in *.
  unfold nocrlf. induction s as [|ch s IHs]; [reflexivity|]. cbn [existsb forallb] in *.
  apply orb_false_iff in H1. destruct H1 as [Ha Hb]. rewrite (IHs Hb), andb_true_r. unfold is_crlf. rewrite Ha. reflexivity.
Qed.

Lemma toks_good_split v : forallb tok_good v = true -> toks_nolt v = true /\ toks_nocrlf v = true.
Proof.
  induction v as [|t v IH]; intros H; [split; reflexivity|]. cbn [forallb] in H. apply andb_true_iff in H.
  destruct H as [H1 H2]. destruct (IH H2) as [A B]. cbn [toks_nolt toks_nocrlf forallb]. fold (toks_nolt v). fold (toks_nocrlf v).
  rewrite A, B, !andb_true_r. destruct t as [s|i nm]; [|split; reflexivity]. apply good_parts in H1. exact H1.
Qed.
Lemma toks_good_join v : toks_nolt v = true -> toks_nocrlf v = true -> forallb tok_good v = true.
Proof.
  induction v as [|t v IH]; intros A B; [reflexivity|].
  cbn [toks_nolt toks_nocrlf forallb] in *. fold (toks_nolt v) in A. fold (toks_nocrlf v) in B.
  apply andb_true_iff in A. apply andb_true_iff in B. destruct A as [A1 A2], B as [B1 B2].
  rewrite (IH A2 B2), andb_true_r. destruct t as [s|i nm]; [|reflexivity]. unfold tok_good, good. cbn [tok_nolt tok_nocrlf] in *.
  rewrite A1, B1. reflexivity.
Qed.
Lemma forallb_firstn {A} (P : A -> bool) n l : forallb P l = true -> forallb P (firstn n l) = true.
Proof.
  rewrite !forallb_forall. intros H x Hx. apply H. rewrite <- (firstn_skipn n l). apply in_or_app. left. exact Hx.
Qed.
Lemma forallb_skipn {A} (P : A -> bool) n l : forallb P l = true -> forallb P (skipn n l) = true.
Proof.
  rewrite !forallb_forall. intros H x Hx. apply H. rewrite <- (firstn_skipn n l). apply in_or_app. right. exact Hx.
Qed.

Lemma skipn_nth' {A} (l : list A) : forall n x, nth_error l n = Some x -> skipn n l = x :: skipn (S n) l.
Proof.
  induction l as [|a l IH]; intros [|n] x H; try discriminate.
  - injection H as <-. reflexivity.
  - cbn [nth_error] in H. cbn [skipn]. apply IH, H.
Qed.

(* ================================================================ depth of events *)
Lemma depth_after_app d a b : depth_after d (a ++ b) = depth_after (depth_after d a) b.
Proof.
  revert d. induction a as [|e a IH]; intros d; [reflexivity|]. cbn [app depth_after].
  destruct e as [nm [|]|nm]; apply IH.
Qed.

Lemma depth_tree c : forall n d, depth_after d (tree_events c n) = d.
Proof.
  induction n as [nm v rp at_ ch sc IH] using anode_ind'. intros d.
  assert (G : forall d, depth_after d (flat_map (tree_events c) ch) = d).
  { clear -IH. induction ch as [|x ch IHch]; intros d; [reflexivity|]. inversion IH; subst.
    cbn [flat_map]. rewrite depth_after_app, H1. apply IHch, H2. }
  rewrite tree_events_eq. cbn [an_name an_children an_value].
  destruct nm as [[|n0 nm']|].
  - apply G.
  - destruct (self_closed _); [reflexivity|]. cbn [depth_after]. rewrite depth_after_app, G. cbn [depth_after]. lia.
  - apply G.
Qed.
Lemma depth_forest c l d : depth_after d (flat_map (tree_events c) l) = d.
Proof. induction l as [|x l IH]; [reflexivity|]. cbn [flat_map]. rewrite depth_after_app, depth_tree. exact IH. Qed.


(* the number of open elements never falls below its start value inside the events of a forest *)
Definition nonneg (X : list sev) : Prop := forall d t, depth_after d (firstn t X) >= d.
Lemma nonneg_app a b : nonneg a -> nonneg b -> nonneg (a ++ b).
Proof.
  intros Ha Hb d t. rewrite firstn_app, depth_after_app.
  pose proof (Ha d t). pose proof (Hb (depth_after d (firstn t a)) (t - length a)%nat). lia.
Qed.
Lemma nonneg_nil : nonneg [].
Proof. intros d t. destruct t; cbn; lia. Qed.
Lemma nonneg_tree c : forall n, nonneg (tree_events c n).
Proof.
  induction n as [nm v rp at_ ch sc IH] using anode_ind'.
  assert (G : nonneg (flat_map (tree_events c) ch)).
  { clear -IH. induction ch as [|x ch IHch]; [apply nonneg_nil|]. inversion IH; subst. cbn [flat_map].
    apply nonneg_app; [assumption|apply IHch; assumption]. }
  rewrite tree_events_eq. cbn [an_name an_children an_value].
  destruct nm as [[|n0 nm']|].
  - exact G.
  - destruct (self_closed _).
    + intros d [|[|t]]; cbn; lia.
    + intros d [|t]; [cbn; lia|]. cbn [firstn depth_after]. rewrite firstn_app, depth_after_app.
      pose proof (G (d + 1) t) as G1.
      destruct (t - length (flat_map (tree_events c) ch))%nat as [|u]; [cbn [firstn depth_after]; lia|].
      cbn [firstn depth_after]. destruct u; cbn [firstn depth_after]; lia.
  - exact G.
Qed.
Lemma nonneg_forest c l : nonneg (flat_map (tree_events c) l).
Proof. induction l as [|x l IH]; [apply nonneg_nil|]. cbn [flat_map]. apply nonneg_app; [apply nonneg_tree|exact IH]. Qed.

Lemma Dp_prefix E E0 K E1 t : E = E0 ++ K ++ E1 -> nonneg K -> (t <= length K)%nat ->
  Dp E (length E0 + t) >= Dp E (length E0).
Proof.
  intros -> HK Ht. unfold Dp. rewrite firstn_app_2, depth_after_app.
  replace (firstn (length E0) (E0 ++ K ++ E1)) with E0.
  2:{ rewrite firstn_app, firstn_all, Nat.sub_diag. cbn [firstn]. rewrite app_nil_r. reflexivity. }
  rewrite firstn_app. replace (t - length K)%nat with O by lia. cbn [firstn]. rewrite app_nil_r. apply HK.
Qed.

Lemma Dp_split E E0 X E1 : E = E0 ++ X ++ E1 -> Dp E (length E0 + length X) = depth_after (Dp E (length E0)) X.
Proof.
  intros ->. unfold Dp. rewrite app_assoc, firstn_app.
  rewrite <- app_length, firstn_all, Nat.sub_diag. cbn [firstn]. rewrite app_nil_r, depth_after_app.
  rewrite <- app_assoc, firstn_app, firstn_all, Nat.sub_diag. cbn [firstn]. rewrite app_nil_r. reflexivity.
Qed.

(* ================================================================ the formatter, block by block *)
Section Depth.
Variable c : oconfig.
Variable E : list sev.
Let f := oc_fmt c.
Hypothesis Hskip : oc_format_skip c = [].
Hypothesis Hcfg : cfg_depth c = true.

Lemma Hcfg_parts : nlt (nlb f) = true /\ nlt (of_indent f) = true /\ comment_dom c = true
                   /\ tbl_good (oc_markup_attributes c) = true /\ tbl_good (oc_value_prefix c) = true.
Proof.
  pose proof Hcfg as H. unfold cfg_depth in H.
  apply andb_true_iff in H. destruct H as [H H5]. apply andb_true_iff in H. destruct H as [H H4].
  apply andb_true_iff in H. destruct H as [H H3]. apply andb_true_iff in H. destruct H as [H1 H2].
  repeat split; assumption.
Qed.
Lemma Hnl : nlt (nlb f) = true. Proof. exact (proj1 Hcfg_parts). Qed.
Lemma Hind : nlt (of_indent f) = true. Proof. exact (proj1 (proj2 Hcfg_parts)). Qed.

(* [al]: also keep track of the alignment of closing tags (FormatLines.aligned_at) *)
Variable al : bool.
Definition APa (P : list chunk) (k : Z) : Prop := al = true -> aligned_at f E P k.
Notation LinesE := (Lines f E APa).
Definition LI (st : fstate) (n : nat) (p : option Z) : Prop := LinesE [] (O, None) (fchunks st) (n, p).
Notation PO := (Popen E).
Notation PC := (Pclose E).
Notation D := (Dp E).

(* ---------------------------------------------------------------- plain chunks: no line break, no tag *)
Definition plain (x : chunk) : bool := negb (is_nl x) && match chunk_tags x with [] => true | _ => false end.

Lemma Lines_plain P0 s0 : forall Y X n p,
  LinesE P0 s0 X (n, p) -> PO n p -> forallb plain Y = true ->
  exists p', LinesE P0 s0 (X ++ Y) (n, p') /\ PO n p' /\ (p = None -> p' = None)
             /\ (match rev Y with x :: _ => transparent x = false | [] => False end -> p' = None).
Proof.
  induction Y as [|x Y IH]; intros X n p H Hp HY.
  - exists p. rewrite app_nil_r. repeat split; try assumption; [exact (fun e => e)|intros []].
  - cbn [forallb] in HY. apply andb_true_iff in HY. destruct HY as [Hx HY].
    unfold plain in Hx. apply andb_true_iff in Hx. destruct Hx as [Hx1 Hx2]. apply negb_true_iff in Hx1.
    assert (Ht : chunk_tags x = []) by (destruct (chunk_tags x); [reflexivity|discriminate]).
    destruct (Lines_text f E APa P0 s0 X n p x H Hp Hx1 Ht) as [p1 [H1 [Hp1 [Hv1 Hn1]]]].
    destruct (IH (X ++ [x]) n p1 H1 Hp1 HY) as [p2 [H2 [Hp2 [Hn2 Hv2]]]].
    exists p2. rewrite <- app_assoc in H2. cbn [app] in H2. repeat split; try assumption.
    + intros e. apply Hn2, Hn1, e.
    + cbn [rev]. intros Hl. destruct (rev Y) as [|y r] eqn:Er.
      * cbn [app] in Hl. apply Hn2, Hv1, Hl.
      * apply Hv2. cbn [app] in Hl. exact Hl.
Qed.

(* the chunks of a string without line break *)
Lemma string_chunks_nocrlf L s : nocrlf s = true -> string_chunks f L s = match s with [] => [] | _ => [CT false s] end.
Proof. intros H. unfold string_chunks. rewrite (split_crlf_nocrlf s H). destruct s; reflexivity. Qed.

Lemma plain_good_string L s : good s = true -> forallb plain (string_chunks f L s) = true.
Proof.
  intros H. apply good_parts in H. destruct H as [H1 H2]. rewrite (string_chunks_nocrlf L s H2).
  destruct s as [|ch s]; [reflexivity|]. cbn [forallb]. unfold plain. cbn [is_nl negb chunk_tags].
  rewrite (nlt_text_tag _ (nolt_nlt _ H1)). reflexivity.
Qed.

Lemma plain_good_tokens L F v : forallb tok_good v = true -> forallb plain (token_chunks f L F v) = true.
Proof.
  induction v as [|t v IH]; intros H; [reflexivity|]. cbn [forallb] in H. apply andb_true_iff in H. destruct H as [H1 H2].
  cbn [token_chunks flat_map]. fold (token_chunks f L F v). rewrite forallb_app, (IH H2), andb_true_r.
  destruct t as [s|i nm]; [apply plain_good_string, H1|reflexivity].
Qed.

(* [st'] is [st] followed by plain chunks, at the same level *)
Definition PL (st st' : fstate) : Prop :=
  lvl st' = lvl st /\ exists Y, fchunks st' = fchunks st ++ Y /\ forallb plain Y = true.
Lemma PL_refl st : PL st st.
Proof. split; [reflexivity|]. exists []. rewrite app_nil_r. split; reflexivity. Qed.
Lemma PL_trans a b d : PL a b -> PL b d -> PL a d.
Proof.
  intros [L1 [Y1 [E1 P1]]] [L2 [Y2 [E2 P2]]]. split; [congruence|]. exists (Y1 ++ Y2).
  rewrite E2, E1, <- app_assoc, forallb_app, P1, P2. split; reflexivity.
Qed.
Lemma PL_push_str s st : good s = true -> PL st (push_str c s st).
Proof.
  intros H. split; [apply lvl_push_str|]. exists (string_chunks f (lvl st) s).
  split; [apply ch_push_str|apply plain_good_string, H].
Qed.
Lemma PL_push_tokens v st : forallb tok_good v = true -> PL st (push_tokens c v st).
Proof.
  intros H. split; [apply lvl_push_tokens|]. exists (token_chunks f (lvl st) (fs_field st) v).
  split; [apply (proj1 (push_tokens_spec c v st))|apply plain_good_tokens, H].
Qed.
Lemma PL_fold {A} (g : fstate -> A -> fstate) (l : list A) :
  (forall st a, In a l -> PL st (g st a)) -> forall st, PL st (fold_left g l st).
Proof.
  induction l as [|a l IH]; intros Hg st; cbn [fold_left]; [apply PL_refl|].
  eapply PL_trans; [apply Hg; left; reflexivity|]. apply IH. intros st' a' Hin. apply Hg. right. exact Hin.
Qed.

Lemma LI_PL st st' n p :
  LI st n p -> PO n p -> PL st st' -> exists p', LI st' n p' /\ PO n p' /\ (p = None -> p' = None).
Proof.
  intros H Hp [_ [Y [EY PY]]]. unfold LI. rewrite EY.
  destruct (Lines_plain [] (O, None) Y (fchunks st) n p H Hp PY) as [p' [H1 [H2 [H3 _]]]].
  exists p'. repeat split; assumption.
Qed.

(* ---------------------------------------------------------------- attributes *)
Lemma assoc_str_good {k} {l : list (str * str)} {v} :
  forallb (fun kv => good (snd kv)) l = true -> assoc_str k l = Some v -> good v = true.
Proof.
  induction l as [|[k' v'] l IH]; intros H E0; [discriminate|].
  cbn [forallb snd] in H. apply andb_true_iff in H. destruct H as [H1 H2].
  cbn [assoc_str] in E0. destruct (str_eqb k k'); [injection E0 as <-; exact H1|apply IH; assumption].
Qed.
Lemma gmv_good {key data m v} :
  forallb (fun kv => good (snd kv)) data = true -> get_multi_value key data m = Some v -> good v = true.
Proof.
  intros H E0. unfold get_multi_value in E0.
  destruct (if m then assoc_str (key ++ [c_star]) data else None) as [[|x0 x]|] eqn:Es.
  - exact (assoc_str_good H E0).
  - injection E0 as <-. destruct m; [exact (assoc_str_good H Es)|discriminate].
  - exact (assoc_str_good H E0).
Qed.

Lemma PL_attr_write name v2 lq rq st :
  good name = true -> good lq = true -> good rq = true -> forallb tok_good (oval v2) = true ->
  PL st (attr_write c name v2 lq rq st).
Proof.
  intros Hn Hl Hr Hv. unfold attr_write. cbv zeta.
  assert (H1 : PL st (push_str c (c_space :: name) st)) by (apply PL_push_str, (good_cons c_space); [reflexivity|exact Hn]).
  assert (Hq : good (c_eq :: lq ++ rq) = true) by (apply (good_cons c_eq); [reflexivity|rewrite good_app, Hl, Hr; reflexivity]).
  destruct v2 as [[|t v]|].
  - destruct (negb _); [|exact H1]. eapply PL_trans; [exact H1|]. apply PL_push_str, Hq.
  - eapply PL_trans; [exact H1|]. eapply PL_trans; [apply PL_push_str, (good_cons c_eq); [reflexivity|exact Hl]|].
    eapply PL_trans; [apply PL_push_tokens, Hv|]. apply PL_push_str, Hr.
  - destruct (negb _); [|exact H1]. eapply PL_trans; [exact H1|]. apply PL_push_str, Hq.
Qed.

Lemma PL_push_attribute a st : attr_good a = true -> PL st (push_attribute c a st).
Proof.
  intros Ha. rewrite push_attribute_unfold.
  pose proof Hcfg_parts as HH; destruct HH as [_ [_ [_ [Hma Hvp]]]].
  unfold attr_good in Ha. apply andb_true_iff in Ha. destruct Ha as [Hn Hv].
  destruct (aa_name a) as [[|n0 nm]|]; try apply PL_refl. cbv zeta.
  set (nm0 := n0 :: nm) in *.
  assert (Hname : good (attr_out_name c a nm0) = true).
  { unfold attr_out_name, attr_name. rewrite good_str_case.
    destruct (oc_markup_attributes c) as [[|kv tbl]|]; try exact Hn.
    destruct (get_multi_value nm0 (kv :: tbl) (aa_multiple a)) as [[|m0 m]|] eqn:E0; try exact Hn.
    exact (gmv_good Hma E0). }
  assert (Hpre : match attr_prefix c a nm0 with Some p => good p = true | None => True end).
  { unfold attr_prefix. destruct (oc_value_prefix c) as [[|kv tbl]|]; try exact I.
    destruct (get_multi_value nm0 (kv :: tbl) (aa_multiple a)) eqn:E0; [|exact I]. exact (gmv_good Hvp E0). }
  destruct (attr_v1 c a nm0) as [[value1 lq] rq] eqn:Et.
  assert (Hq : forallb tok_good (oval value1) = true /\ good lq = true /\ good rq = true).
  { unfold attr_v1 in Et.
    assert (Dflt : (aa_value a, attr_quote c a true, attr_quote c a false) = (value1, lq, rq) ->
                   forallb tok_good (oval value1) = true /\ good lq = true /\ good rq = true).
    { intros E0. injection E0 as <- <- <-. repeat split; [exact Hv|apply good_attr_quote|apply good_attr_quote]. }
    destruct (attr_prefix c a nm0) as [[|p0 pf]|]; try (apply Dflt; exact Et).
    destruct (aa_value a) as [[|[val|i fn] [|t2 rest]]|]; try (apply Dflt; exact Et).
    injection Et as <- <- <-. cbn [oval forallb tok_good] in Hv. rewrite andb_true_r in Hv.
    repeat split.
    - cbn [oval forallb tok_good]. rewrite andb_true_r.
      destruct (is_prop_key val).
      + change (p0 :: pf ++ c_dot :: val) with ((p0 :: pf) ++ [c_dot] ++ val).
        rewrite !good_app, Hpre, Hv. reflexivity.
      + change (p0 :: pf ++ c_lbrack :: c_squote :: val ++ [c_squote; c_rbrack])
          with ((p0 :: pf) ++ [c_lbrack; c_squote] ++ val ++ [c_squote; c_rbrack]).
        rewrite !good_app, Hpre, Hv. reflexivity.
    - destruct (oc_jsx c); [reflexivity|apply good_attr_quote].
    - destruct (oc_jsx c); [reflexivity|apply good_attr_quote]. }
  destruct Hq as [Hv1 [Hlq Hrq]].
  apply PL_attr_write; try assumption.
  unfold attr_value2.
  destruct (is_boolean_attribute c a && negb (truthy_l value1)).
  - destruct (negb (oc_compact_boolean c)); [|exact Hv1].
    cbn [oval forallb tok_good]. rewrite Hname. reflexivity.
  - destruct (negb (truthy_l value1)); [reflexivity|exact Hv1].
Qed.

Lemma PL_el_attrs node st :
  forallb attr_good (match an_attrs node with Some l => l | None => [] end) = true -> PL st (el_attrs c node st).
Proof.
  intros Ha. unfold el_attrs. destruct (an_attrs node) as [[|a0 l]|]; try apply PL_refl.
  apply PL_fold. intros st' a Hin. destruct (should_output_attribute a); [|apply PL_refl].
  apply PL_push_attribute. rewrite forallb_forall in Ha. apply Ha, Hin.
Qed.

(* ---------------------------------------------------------------- text with line breaks *)
Lemma notag_lines s : notag s = true -> Forall (fun l => text_tag l = []) (split_crlf s).
Proof.
  unfold notag. rewrite forallb_forall, Forall_forall. intros H l Hl. specialize (H l Hl). destruct (text_tag l); [reflexivity|discriminate].
Qed.
Lemma nolt_notag s : nolt s = true -> notag s = true.
Proof.
  intros H. unfold notag. apply forallb_forall. intros l Hl. pose proof (split_crlf_nolt s H) as G.
  rewrite Forall_forall in G. rewrite (nlt_text_tag l (nolt_nlt l (G l Hl))). reflexivity.
Qed.

Lemma Lines_lines' P0 s0 L n : L = D n -> forall ls X p,
  LinesE P0 s0 X (n, p) -> PO n p -> Forall (fun l => text_tag l = []) ls ->
  exists p', LinesE P0 s0 (X ++ flat_map (line_chunks f L) ls) (n, p') /\ PO n p' /\ (ls = [] -> p' = p)
             /\ (match rev ls with (_ :: _) :: _ => True | _ => False end -> p' = None).
Proof.
  intros HL. subst L. induction ls as [|l ls IH]; intros X p H Hp Hls.
  - exists p. cbn [flat_map]. rewrite app_nil_r. repeat split; try assumption. intros [].
  - pose proof (Forall_inv Hls) as Hl; pose proof (Forall_inv_tail Hls) as Hls'; cbv beta in Hl.
    pose proof (Lines_nl f E APa P0 s0 X n p (D n) (Some None) H Hp) as H1. cbn [units] in H1.
    assert (Hp1 : PO n (Some (D n))) by (intros k Hk; injection Hk as <-; reflexivity).
    destruct (Lines_text f E APa P0 s0 _ n _ (CT false l) H1 Hp1 eq_refl Hl) as [p2 [H2 [Hp2 [Hv2 _]]]].
    destruct (IH _ p2 H2 Hp2 Hls') as [p3 [H3 [Hp3 [He3 Hv3]]]].
    exists p3. cbn [flat_map]. unfold line_chunks at 1. rewrite <- !app_assoc in *. cbn [app] in *.
    repeat split; try assumption; [discriminate|].
    cbn [rev]. intros Hl3. destruct ls as [|l2 ls2].
    + cbn [rev app] in Hl3. rewrite (He3 eq_refl). apply Hv2. destruct l; [destruct Hl3|reflexivity].
    + apply Hv3. destruct (rev (l2 :: ls2)) as [|y r] eqn:Er.
      * apply (f_equal (@length _)) in Er. rewrite rev_length in Er. discriminate.
      * cbn [app] in Hl3. exact Hl3.
Qed.

Lemma Lines_string P0 s0 L n s X p :
  LinesE P0 s0 X (n, p) -> PO n p -> notag s = true -> (L = D n \/ nocrlf s = true) ->
  exists p', LinesE P0 s0 (X ++ string_chunks f L s) (n, p') /\ PO n p'
             /\ (p = None -> nocrlf s = true -> p' = None) /\ (str_ends_visible s = true -> p' = None).
Proof.
  intros H Hp Hs HL. apply notag_lines in Hs. destruct (nocrlf s) eqn:Ec.
  - rewrite (string_chunks_nocrlf L s Ec). unfold str_ends_visible. rewrite (split_crlf_nocrlf s Ec) in *.
    destruct s as [|ch s].
    + exists p. rewrite app_nil_r. repeat split; try assumption; [intros e _; exact e|discriminate].
    + destruct (Lines_text f E APa P0 s0 X n p (CT false (ch :: s)) H Hp eq_refl (Forall_inv Hs))
        as [p1 [H1 [Hp1 [Hv1 Hn1]]]].
      exists p1. repeat split; try assumption; [intros e _; apply Hn1, e|intros _; apply Hv1; reflexivity].
  - destruct HL as [HL|HL]; [|discriminate]. unfold string_chunks, str_ends_visible.
    destruct (split_crlf s) as [|l0 ls]; [|pose proof (Forall_inv Hs) as Hl0; pose proof (Forall_inv_tail Hs) as Hls; cbv beta in Hl0].
    + exists p. rewrite app_nil_r. repeat split; try assumption; discriminate.
    + destruct (Lines_text f E APa P0 s0 X n p (CT false l0) H Hp eq_refl Hl0)
        as [p1 [H1 [Hp1 [Hv1 _]]]].
      destruct (Lines_lines' P0 s0 L n HL ls _ p1 H1 Hp1 Hls) as [p2 [H2 [Hp2 [He2 Hv2]]]].
      exists p2. rewrite <- app_assoc in H2. cbn [app] in H2. repeat split; try assumption; [discriminate|].
      cbn [rev]. intros Hv. destruct ls as [|l2 ls2].
      * cbn [rev app] in Hv. rewrite (He2 eq_refl). apply Hv1. destruct l0; [discriminate|reflexivity].
      * apply Hv2. destruct (rev (l2 :: ls2)) as [|y r] eqn:Er.
        -- apply (f_equal (@length _)) in Er. rewrite rev_length in Er. discriminate.
        -- cbn [app] in Hv. destruct y; [discriminate|exact I].
Qed.

Lemma Lines_tokens P0 s0 L F n : forall toks X p,
  LinesE P0 s0 X (n, p) -> PO n p -> toks_nolt toks = true -> (L = D n \/ toks_nocrlf toks = true) ->
  exists p', LinesE P0 s0 (X ++ token_chunks f L F toks) (n, p') /\ PO n p'
             /\ (p = None -> toks_nocrlf toks = true -> p' = None) /\ (ends_visible toks = true -> p' = None)
             /\ (toks = [] -> p' = p).
Proof.
  induction toks as [|t ts IH]; intros X p H Hp Hn HL.
  - exists p. cbn [token_chunks flat_map]. rewrite app_nil_r. repeat split; try assumption; [intros e _; exact e|discriminate].
  - cbn [toks_nolt forallb] in Hn. fold (toks_nolt ts) in Hn. apply andb_true_iff in Hn. destruct Hn as [Hn1 Hn2].
    assert (HL1 : L = D n \/ tok_nocrlf t = true).
    { destruct HL as [HL|HL]; [left; exact HL|right]. cbn [toks_nocrlf forallb] in HL. apply andb_true_iff in HL. apply HL. }
    assert (HL2 : L = D n \/ toks_nocrlf ts = true).
    { destruct HL as [HL|HL]; [left; exact HL|right]. cbn [toks_nocrlf forallb] in HL. apply andb_true_iff in HL. apply HL. }
    assert (G : exists p1, LinesE P0 s0 (X ++ match t with VStr s => string_chunks f L s | VField i nm => [CF (F + i)%N nm] end) (n, p1)
                           /\ PO n p1 /\ (p = None -> tok_nocrlf t = true -> p1 = None) /\ (tok_ends_visible t = true -> p1 = None)).
    { destruct t as [s|i nm].
      - apply Lines_string; try assumption. apply nolt_notag, Hn1.
      - destruct (Lines_text f E APa P0 s0 X n p (CF (F + i)%N nm) H Hp eq_refl eq_refl) as [p1 [H1 [Hp1 [Hv1 Hnn1]]]].
        exists p1. repeat split; try assumption; [intros e _; apply Hnn1, e|intros _; apply Hv1; reflexivity]. }
    destruct G as [p1 [H1 [Hp1 [Hc1 Hv1]]]].
    destruct (IH _ p1 H1 Hp1 Hn2 HL2) as [p2 [H2 [Hp2 [Hc2 [Hv2 He2]]]]].
    exists p2. cbn [token_chunks flat_map]. fold (token_chunks f L F ts). rewrite app_assoc.
    repeat split; try assumption.
    + intros e Hc. cbn [toks_nocrlf forallb] in Hc. apply andb_true_iff in Hc. destruct Hc as [Ha Hb].
      apply Hc2; [apply Hc1; assumption|exact Hb].
    + destruct ts as [|t2 ts2]; [|exact Hv2].
      intros Hv. cbn [ends_visible] in Hv. rewrite (He2 eq_refl). apply Hv1, Hv.
    + discriminate.
Qed.

(* ---------------------------------------------------------------- stream steps on the invariant *)
Lemma LI_tokens st n p toks :
  LI st n p -> PO n p -> toks_nolt toks = true -> (lvl st = D n \/ toks_nocrlf toks = true) ->
  exists p', LI (push_tokens c toks st) n p' /\ PO n p' /\ (p = None -> toks_nocrlf toks = true -> p' = None)
             /\ (ends_visible toks = true -> p' = None) /\ (toks = [] -> p' = p).
Proof. unfold LI. rewrite (proj1 (push_tokens_spec c toks st)). apply Lines_tokens. Qed.

Lemma LI_string st n p s :
  LI st n p -> PO n p -> notag s = true -> (lvl st = D n \/ nocrlf s = true) ->
  exists p', LI (push_str c s st) n p' /\ PO n p' /\ (p = None -> nocrlf s = true -> p' = None)
             /\ (str_ends_visible s = true -> p' = None).
Proof.
  unfold LI. rewrite ch_push_str. intros H Hp Hs HL.
  apply (Lines_string [] (O, None) (lvl st) n s _ p H Hp Hs HL).
Qed.

Lemma LI_level st n p d : LI st n p -> LI (map_out (fun o => os_add_level o d) st) n p.
Proof. exact (fun H => H). Qed.

Lemma LI_newline st n p ind :
  LI st n p -> PO n p -> LI (map_out (fun o => os_push_newline (oc_fmt c) o ind) st) n (Some (units (lvl st) ind)).
Proof. unfold LI. rewrite ch_map_newline. apply Lines_nl. Qed.

Lemma units_int_ind L x : units L (int_ind x) = x.
Proof. unfold int_ind. destruct (Z.eqb_spec x 0); cbn [units]; lia. Qed.

Lemma LI_level_newline st n p d :
  LI st n p -> PO n p -> LI (level_newline c d st) n (Some (lvl st + d)).
Proof.
  unfold LI. rewrite ch_level_newline. intros H Hp.
  pose proof (Lines_nl f E APa [] (O, None) _ n p (lvl st + d) (int_ind (lvl st + d)) H Hp) as H1.
  rewrite units_int_ind in H1. exact H1.
Qed.

Lemma LI_newline_int st n p (x : Z) :
  LI st n p -> PO n p ->
  LI (map_out (fun o => os_push_newline_int (oc_fmt c) o (os_level o - x)) st) n (Some (lvl st - x)).
Proof.
  unfold LI, fchunks, map_out, os_push_newline_int. cbn [fs_out]. rewrite ch_push_newline. intros H Hp.
  pose proof (Lines_nl f E APa [] (O, None) _ n p (os_level (fs_out st)) (int_ind (os_level (fs_out st) - x)) H Hp) as H1.
  rewrite units_int_ind in H1. exact H1.
Qed.

Lemma PO_some n k : k = D n -> PO n (Some k).
Proof. intros -> k' Hk. injection Hk as <-. reflexivity. Qed.
Lemma PC_some n k : k = D n - 1 -> PC n (Some k).
Proof. intros -> k' Hk. injection Hk as <-. reflexivity. Qed.

(* ---------------------------------------------------------------- parents *)
Definition nwf (q : anode) : bool := truthy_s (an_name q) || negb (truthy_l (an_attrs q)).
Definition pwf (parent : option anode) : Prop := match parent with Some q => nwf q = true | None => True end.
Definition named_opt (parent : option anode) : bool := match parent with Some q => truthy_s (an_name q) | None => false end.

Lemma get_indent_wf parent : pwf parent -> get_indent c parent = if named_opt parent then 1 else 0.
Proof.
  destruct parent as [q|]; [|reflexivity]. cbn [pwf named_opt get_indent]. unfold nwf, is_snippet. intros H.
  destruct (an_name q) as [[|x nm]|]; cbn [truthy_s] in *; cbn [orb negb andb] in *.
  - apply negb_true_iff in H. rewrite H. reflexivity.
  - rewrite Hskip. reflexivity.
  - apply negb_true_iff in H. rewrite H. reflexivity.
Qed.
Lemma is_snippet_wf parent : pwf parent -> match parent with Some _ => is_snippet_opt parent = negb (named_opt parent) | None => True end.
Proof.
  destruct parent as [q|]; [|exact (fun _ => I)]. cbn [pwf named_opt is_snippet_opt]. unfold nwf, is_snippet. intros H.
  destruct (truthy_s (an_name q)); [reflexivity|]. cbn [orb negb andb] in *. exact H.
Qed.

(* ---------------------------------------------------------------- what is known after a node *)
Definition tailb (parent : option anode) (n : anode) (idx : nat) (items : list anode) : bool :=
  tail_newline c (should_format c parent n idx items) parent idx items.

Definition Qn (parent : option anode) (n : anode) (idx : nat) (items : list anode) (n' : nat) (p' : option Z) : Prop :=
  if tailb parent n idx items
  then p' = Some (D n' - (if is_snippet_opt parent then 0 else 1))
  else PO n' p' /\ (ends_text c n = true -> p' = None).

(* the walk over the children of [node] from a state where [m1] events are read *)
Definition next_ok (node : anode) (next : fstate -> fstate) (m1 : nat) : Prop :=
  forall st p, LI st m1 p -> PO m1 p -> D m1 = lvl st + get_indent c (Some node) ->
  exists p', LI (next st) (m1 + length (flat_map (tree_events c) (an_children node))) p' /\
             (an_children node = [] -> p' = p) /\
             (forall l0 x, an_children node = l0 ++ [x] ->
                Qn (Some node) x (length l0) (an_children node) (m1 + length (flat_map (tree_events c) (an_children node))) p').

Lemma block_tag_nolt v : toks_nolt v = true -> starts_with_block_tag c v = false.
Proof.
  destruct v as [|[[|lt r]|i nm] v]; try reflexivity. cbn [toks_nolt forallb tok_nolt nolt]. intros H.
  apply andb_true_iff in H. destruct H as [H _]. apply andb_true_iff in H. destruct H as [H _].
  apply negb_true_iff in H. cbn [starts_with_block_tag]. rewrite H. reflexivity.
Qed.

(* the value of a named element after ">" *)
Lemma LI_el_value node st m1 :
  LI st m1 None -> D m1 = lvl st + 1 -> oval_nolt (an_value node) = true ->
  exists p', LI (el_value c node st) m1 p' /\ (if no_children node then PC m1 p' else PO m1 p')
             /\ (truthy_l (an_value node) = false -> p' = None)
             /\ (existsb has_newline (oval (an_value node)) = false -> p' = None).
Proof.
  intros H HD Hv. unfold el_value, no_children.
  destruct (an_value node) as [[|v0 value]|] eqn:Ev; cbn [oval].
  - exists None. repeat split; try assumption. destruct (an_children node); [apply Pclose_none|apply Popen_none].
  - cbn [oval_nolt] in Hv. rewrite (block_tag_nolt _ Hv), orb_false_r.
    destruct (existsb has_newline (v0 :: value)) eqn:Enl.
    + pose proof (LI_level_newline st m1 None 1 H (Popen_none E m1)) as H1.
      assert (Hp1 : PO m1 (Some (lvl st + 1))) by (apply PO_some; lia).
      destruct (LI_tokens _ m1 _ (v0 :: value) H1 Hp1 Hv) as [p2 [H2 [Hp2 _]]].
      { left. rewrite lvl_level_newline. lia. }
      destruct (an_children node) as [|c0 ch].
      * pose proof (LI_level_newline _ m1 p2 (-1) H2 Hp2) as H3. eexists. split; [exact H3|]. split; [|split; discriminate].
        apply PC_some. rewrite lvl_push_tokens, lvl_level_newline. lia.
      * exists p2. split; [apply LI_level, H2|]. split; [exact Hp2|split; discriminate].
    + destruct (LI_tokens st m1 None (v0 :: value) H (Popen_none E m1) Hv) as [p2 [H2 [Hp2 [Hn2 _]]]].
      { right. apply has_newline_nocrlf, Enl. }
      rewrite (Hn2 eq_refl (has_newline_nocrlf _ Enl)) in *.
      exists None. split; [exact H2|]. split; [|split; [discriminate|reflexivity]].
      destruct (an_children node); [apply Pclose_none|apply Popen_none].
  - exists None. repeat split; try assumption. destruct (an_children node); [apply Pclose_none|apply Popen_none].
Qed.

(* the tabstop of an empty leaf *)
Lemma LI_el_leaf nm node st m1 p :
  LI st m1 p -> D m1 = lvl st + 1 -> PC m1 p -> (truthy_l (an_value node) = false -> no_children node = true -> p = None) ->
  exists p', LI (el_leaf c nm node st) m1 p' /\ PC m1 p'
             /\ (p = None -> truthy_l (an_value node) = true \/ (oc_format_leaf c || mem_str nm (oc_format_force c)) = false -> p' = None).
Proof.
  intros H HD Hp Hnone. unfold el_leaf. fold (no_children node).
  destruct (negb (truthy_l (an_value node)) && no_children node) eqn:Eb;
    [|exists p; split; [assumption|split; [assumption|exact (fun e _ => e)]]].
  apply andb_true_iff in Eb. destruct Eb as [Eb Eb2]. apply negb_true_iff in Eb. rewrite (Hnone Eb Eb2) in *.
  destruct (oc_format_leaf c || mem_str nm (oc_format_force c)).
  - pose proof (LI_level_newline st m1 None 1 H (Popen_none E m1)) as H1.
    assert (Hp1 : PO m1 (Some (lvl st + 1))) by (apply PO_some; lia).
    destruct (LI_tokens _ m1 _ caret H1 Hp1 eq_refl (or_intror eq_refl)) as [p2 [H2 [Hp2 _]]].
    pose proof (LI_level_newline _ m1 p2 (-1) H2 Hp2) as H3. eexists. split; [exact H3|]. split.
    + apply PC_some. rewrite lvl_push_tokens, lvl_level_newline. lia.
    + intros _ [Ht|Hf]; [rewrite Eb in Ht|]; discriminate.
  - destruct (LI_tokens st m1 None caret H (Popen_none E m1) eq_refl (or_intror eq_refl)) as [p2 [H2 [_ [Hn2 _]]]].
    rewrite (Hn2 eq_refl eq_refl) in H2. exists None. split; [exact H2|split; [apply Pclose_none|reflexivity]].
Qed.

(* push_snippet: text, children, rest of the text *)
Lemma LI_el_snippet node next st st' m1 p :
  el_snippet c node next st = Some st' ->
  keeps_lvl next -> next_ok node next m1 ->
  LI st m1 p -> PO m1 p -> D m1 = lvl st + get_indent c (Some node) ->
  toks_nolt (oval (an_value node)) = true ->
  (lvl st = D m1 \/ toks_nocrlf (oval (an_value node)) = true) ->
  let m2 := (m1 + length (flat_map (tree_events c) (an_children node)))%nat in
  D m2 = D m1 ->
  exists ix pw,
    find_field_ix (oval (an_value node)) = Some ix /\ an_children node <> [] /\
    (forall l0 x, an_children node = l0 ++ [x] -> Qn (Some node) x (length l0) (an_children node) m2 pw) /\
    (skipn (S ix) (oval (an_value node)) = [] -> LI st' m2 pw) /\
    (PO m2 pw -> exists p', LI st' m2 p' /\ PO m2 p' /\ (pw = None -> toks_nocrlf (oval (an_value node)) = true -> p' = None)).
Proof.
  intros Es Hk Hnext H Hp HD Hv HL m2 HD2. unfold el_snippet in Es.
  destruct (an_value node) as [[|v0 value]|] eqn:Ev; try discriminate.
  assert (Hne : an_children node <> []) by (intros En; rewrite En in Es; discriminate).
  remember (an_children node) as kids eqn:Ek in Es. destruct kids as [|c0 ch]; try discriminate. clear Ek.
  cbn [oval] in *. set (val := v0 :: value) in *.
  destruct (find_field_ix val) as [ix|] eqn:Ef; try discriminate.
  exists ix.
  set (st1 := push_tokens c (firstn ix val) st) in *.
  assert (Hv1 : toks_nolt (firstn ix val) = true) by (apply forallb_firstn, Hv).
  assert (HL1 : lvl st = D m1 \/ toks_nocrlf (firstn ix val) = true).
  { destruct HL as [HL|HL]; [left; exact HL|right; apply forallb_firstn, HL]. }
  destruct (LI_tokens st m1 p (firstn ix val) H Hp Hv1 HL1) as [p1 [H1 [Hp1 _]]]. fold st1 in H1.
  assert (Hl1 : lvl st1 = lvl st) by apply lvl_push_tokens.
  destruct (Hnext st1 p1 H1 Hp1) as [pw [Hw [_ HQ]]]; [rewrite Hl1; exact HD|].
  fold m2 in Hw, HQ.
  exists pw. split; [reflexivity|]. split; [exact Hne|]. split; [exact HQ|].
  assert (Hl2 : lvl (next st1) = lvl st) by (rewrite Hk; exact Hl1).
  assert (HLr : forall r, (exists k, r = skipn k val) -> lvl st = D m2 \/ toks_nocrlf r = true).
  { intros r [k ->]. destruct HL as [HL|HL]; [left; rewrite HD2; exact HL|right; apply forallb_skipn, HL]. }
  split.
  - intros Er. assert (En : nth_error val (S ix) = None).
    { destruct (nth_error val (S ix)) eqn:En; [|reflexivity]. apply skipn_nth' in En. rewrite En in Er. discriminate. }
    rewrite En in Es. cbv beta iota zeta in Es. injection Es as <-. change (skipn ix value) with (skipn (S ix) val). rewrite Er.
    unfold LI. rewrite (proj1 (push_tokens_spec c [] (next st1))). cbn [token_chunks flat_map]. rewrite app_nil_r. exact Hw.
  - intros Hpw.
    assert (Tail : forall st2 pos p2, LI st2 m2 p2 -> PO m2 p2 -> lvl st2 = lvl st ->
              exists p', LI (push_tokens c (skipn pos val) st2) m2 p' /\ PO m2 p' /\
                         (p2 = None -> toks_nocrlf val = true -> p' = None)).
    { intros st2 pos p2 Ha Hb Hc.
      destruct (LI_tokens st2 m2 p2 (skipn pos val) Ha Hb (forallb_skipn _ _ _ Hv)) as [p3 [H3 [Hp3 [Hn3 _]]]].
      { rewrite Hc. apply HLr. exists pos. reflexivity. }
      exists p3. repeat split; try assumption. intros e Hc'. apply Hn3; [exact e|apply forallb_skipn, Hc']. }
    destruct (nth_error val (S ix)) as [[s|i nm]|] eqn:En.
    + destruct (negb (Nat.eqb (os_line (fs_out (next st1))) (os_line (fs_out st1)))).
      * injection Es as <-.
        assert (Hs : nolt s = true).
        { apply nth_error_In in En. unfold toks_nolt in Hv. rewrite forallb_forall in Hv. apply (Hv _ En). }
        destruct (LI_string (next st1) m2 pw (lstrip s) Hw Hpw (nolt_notag _ (forallb_lstrip _ s Hs))) as [p3 [H3 [Hp3 [Hn3 _]]]].
        { destruct HL as [HL|HL]; [left; rewrite Hl2, HD2; exact HL|right].
          apply nth_error_In in En. unfold toks_nocrlf in HL. rewrite forallb_forall in HL. specialize (HL _ En).
          cbn [tok_nocrlf] in HL. unfold nocrlf in *. apply forallb_lstrip, HL. }
        destruct (Tail _ (S (S ix)) p3 H3 Hp3) as [p4 [H4 [Hp4 Hn4]]]; [rewrite lvl_push_str; exact Hl2|].
        exists p4. repeat split; try assumption. intros e Hc'. apply Hn4; [|exact Hc'].
        apply Hn3; [exact e|]. apply nth_error_In in En. unfold toks_nocrlf in Hc'. rewrite forallb_forall in Hc'.
        specialize (Hc' _ En). cbn [tok_nocrlf] in Hc'. unfold nocrlf in *. apply forallb_lstrip, Hc'.
      * injection Es as <-. apply (Tail _ (S ix) pw Hw Hpw Hl2).
    + injection Es as <-. apply (Tail _ (S ix) pw Hw Hpw Hl2).
    + injection Es as <-. apply (Tail _ (S ix) pw Hw Hpw Hl2).
Qed.

(* ---------------------------------------------------------------- a named element *)
Lemma el_snippet_some_inv node next st st' :
  el_snippet c node next st = Some st' ->
  exists v0 value ix, an_value node = Some (v0 :: value) /\ find_field_ix (v0 :: value) = Some ix /\ an_children node <> [].
Proof.
  unfold el_snippet. destruct (an_value node) as [[|v0 value]|]; try discriminate.
  destruct (an_children node) as [|c0 ch]; try discriminate.
  destruct (find_field_ix (v0 :: value)) as [ix|] eqn:Ef; try discriminate.
  intros _. exists v0, value, ix. split; [reflexivity|]. split; [exact Ef|discriminate].
Qed.

Lemma snippet_ok_inv q v0 value ix :
  snippet_ok c q = true -> an_value q = Some (v0 :: value) -> an_children q <> [] -> find_field_ix (v0 :: value) = Some ix ->
  toks_nocrlf (v0 :: value) = true /\ (last_formatted c q = true -> skipn (S ix) (v0 :: value) = []).
Proof.
  unfold snippet_ok. intros H Ev Hne Ef. rewrite Ev, Ef in H. destruct (an_children q) as [|c0 ch]; [contradiction|].
  apply andb_true_iff in H. destruct H as [H1 H2]. split; [exact H1|]. intros Hl. rewrite Hl in H2. cbn [negb orb] in H2.
  destruct (skipn (S ix) (v0 :: value)); [reflexivity|discriminate].
Qed.

Lemma last_ctx (q : anode) l0 x :
  an_children q = l0 ++ [x] ->
  tailb (Some q) x (length l0) (an_children q) = should_format c (Some q) x (length l0) (an_children q) /\
  last_formatted c q = should_format c (Some q) x (length l0) (an_children q) /\
  last_ok c q = (should_format c (Some q) x (length l0) (an_children q) || ends_text c x).
Proof.
  intros El. unfold tailb, tail_newline, last_formatted, last_ok. rewrite El, rev_app_distr. cbn [rev app].
  rewrite app_length. cbn [length]. replace (length l0 + 1 - 1)%nat with (length l0) by lia.
  rewrite Nat.eqb_refl. replace (Nat.eqb (length l0 + 1) 0) with false by (symmetry; apply Nat.eqb_neq; lia).
  rewrite !andb_true_r. repeat split.
Qed.

Lemma text_tag_open name : name <> [] -> name_start name = true -> text_tag (c_lt :: name) = [TOpen name].
Proof.
  intros Hne Hs. destruct name as [|ch name]; [contradiction|].
  cbn [name_start] in Hs. apply andb_true_iff in Hs. destruct Hs as [H1 H2].
  apply negb_true_iff in H1. apply negb_true_iff in H2.
  unfold text_tag. rewrite N.eqb_refl, H1, H2. reflexivity.
Qed.

Lemma good_self_close : good (self_close c ++ [c_gt]) = true.
Proof. unfold self_close. destruct (str_eqb _ s_xhtml); [reflexivity|]. destruct (str_eqb _ s_xml); reflexivity. Qed.

(* ---------------------------------------------------------------- comments *)
Lemma assoc_str_In {A} k (l : list (str * A)) v : assoc_str k l = Some v -> exists k', In (k', v) l.
Proof.
  induction l as [|[k0 v0] l IH]; intros H; [discriminate|]. cbn [assoc_str] in H.
  destruct (str_eqb k k0); [injection H as <-; exists k0; left; reflexivity|].
  destruct (IH H) as [k' Hk]. exists k'. right. exact Hk.
Qed.

Lemma comment_value_good node nm v :
  forallb attr_good (match an_attrs node with Some l => l | None => [] end) = true ->
  assoc_str nm (rev (flat_map (fun a => match aa_name a, aa_value a with
                                        | Some ((_ :: _) as nm), Some ((_ :: _) as v) => [(upper nm, v)]
                                        | _, _ => []
                                        end)
                              (match an_attrs node with Some l => l | None => [] end))) = Some v ->
  forallb tok_good v = true.
Proof.
  intros Ha Hv. apply assoc_str_In in Hv. destruct Hv as [k' Hin]. apply in_rev, in_flat_map in Hin.
  destruct Hin as [a [Hia Hkv]]. rewrite forallb_forall in Ha. specialize (Ha a Hia).
  unfold attr_good in Ha. apply andb_true_iff in Ha. destruct Ha as [_ Ha].
  destruct (aa_name a) as [[|y nm0]|]; [destruct Hkv| |destruct Hkv].
  destruct (aa_value a) as [[|v0 vr]|]; [destruct Hkv| |destruct Hkv].
  destruct Hkv as [Hkv|[]]. injection Hkv as _ <-. exact Ha.
Qed.

Definition tpl_last_visible (t : tpl) : bool := match t with TStr s => str_ends_visible s | TPh _ _ _ => false end.
Lemma tpl_ends_visible_cons t ts :
  tpl_ends_visible (t :: ts) = match ts with [] => tpl_last_visible t | _ :: _ => tpl_ends_visible ts end.
Proof.
  unfold tpl_ends_visible. cbn [rev]. destruct ts as [|t2 ts]; [destruct t; reflexivity|].
  destruct (rev (t2 :: ts)) as [|y r] eqn:Er; [apply (f_equal (@length _)) in Er; rewrite rev_length in Er; discriminate|].
  reflexivity.
Qed.

Lemma LI_comment_output node m : 
  forallb attr_good (match an_attrs node with Some l => l | None => [] end) = true ->
  forall toks st p, forallb tpl_notag toks = true ->
  LI st m p -> PO m p -> lvl st = D m ->
  exists p', LI (comment_output c node toks st) m p' /\ PO m p' /\ (toks = [] -> p' = p)
             /\ (tpl_ends_visible toks = true -> p' = None).
Proof.
  intros Ha. unfold comment_output. set (attrs := rev _).
  induction toks as [|t toks IH]; intros st p Hn H Hp HL; cbn [fold_left].
  - exists p. repeat split; try assumption. discriminate.
  - cbn [forallb] in Hn. apply andb_true_iff in Hn. destruct Hn as [Hn1 Hn2].
    assert (G : exists p1, LI (match t with
                               | TStr s => push_str c s st
                               | TPh before after name =>
                                   match assoc_str name attrs with
                                   | Some v => push_str c after (push_tokens c v (push_str c before st))
                                   | None => st
                                   end
                               end) m p1 /\ PO m p1 /\ (tpl_last_visible t = true -> p1 = None)).
    { destruct t as [s|bf af nm]; cbn [tpl_notag tpl_last_visible] in *.
      - destruct (LI_string st m p s H Hp Hn1 (or_introl HL)) as [p1 [A1 [B1 [_ C1]]]]. exists p1. repeat split; assumption.
      - apply andb_true_iff in Hn1. destruct Hn1 as [Hb1 Hb2].
        destruct (assoc_str nm attrs) as [v|] eqn:Ev; [|exists p; repeat split; [assumption|assumption|discriminate]].
        pose proof (comment_value_good node nm v Ha Ev) as Hgv. destruct (toks_good_split v Hgv) as [Hv1 Hv2].
        destruct (LI_string st m p bf H Hp Hb1 (or_introl HL)) as [p1 [A1 [B1 _]]].
        destruct (LI_tokens _ m p1 v A1 B1 Hv1 (or_intror Hv2)) as [p2 [A2 [B2 _]]].
        destruct (LI_string _ m p2 af A2 B2 Hb2) as [p3 [A3 [B3 _]]].
        { left. rewrite lvl_push_tokens, lvl_push_str. exact HL. }
        exists p3. repeat split; try assumption. discriminate. }
    destruct G as [p1 [A1 [B1 C1]]].
    match type of A1 with LI ?s1 _ _ => destruct (IH s1 p1 Hn2 A1 B1) as [p2 [A2 [B2 [E2 V2]]]] end.
    { destruct t as [s|bf af nm]; [rewrite lvl_push_str; exact HL|].
      destruct (assoc_str nm attrs); [rewrite lvl_push_str, lvl_push_tokens, lvl_push_str|]; exact HL. }
    exists p2. split; [exact A2|]. split; [exact B2|]. split; [discriminate|].
    rewrite tpl_ends_visible_cons. destruct toks as [|t2 toks]; [|exact V2].
    intros Hv. rewrite (E2 eq_refl). apply C1, Hv.
Qed.

Lemma comment_templates_notag n : should_comment c n = true ->
  forallb tpl_notag (template (oc_comment_before c)) = true /\ forallb tpl_notag (template (oc_comment_after c)) = true.
Proof.
  intros Hs. pose proof Hcfg_parts as HH; destruct HH as [_ [_ [Hcd _]]]. unfold comment_dom in Hcd.
  unfold should_comment in Hs. destruct (oc_comment_enabled c); [|discriminate]. cbn [negb orb] in Hcd.
  apply andb_true_iff in Hcd. exact Hcd.
Qed.

Lemma LI_comment_node text node st m p :
  text = oc_comment_before c \/ text = oc_comment_after c ->
  forallb attr_good (match an_attrs node with Some l => l | None => [] end) = true ->
  LI st m p -> PO m p -> lvl st = D m ->
  exists p', LI (comment_node c text node st) m p' /\ PO m p' /\
             (should_comment c node = false \/ text = [] -> p' = p) /\
             (should_comment c node = true -> text <> [] -> tpl_ends_visible (template text) = true -> p' = None).
Proof.
  intros Ht Ha H Hp HL. unfold comment_node. destruct text as [|t0 text0].
  - exists p. repeat split; try assumption. intros _ Hne. contradiction.
  - destruct (should_comment c node) eqn:Es.
    + destruct (comment_templates_notag node Es) as [Nb Na].
      assert (Hn : forallb tpl_notag (template (t0 :: text0)) = true) by (destruct Ht as [->| ->]; assumption).
      destruct (LI_comment_output node m Ha (template (t0 :: text0)) st p Hn H Hp HL) as [p' [A [B [_ V]]]].
      exists p'. split; [exact A|]. split; [exact B|]. split; [intros [e|e]; discriminate|]. intros _ _ Hv. apply V, Hv.
    + exists p. repeat split; try assumption. discriminate.
Qed.

(* the line on which the stream stands is kept by chunks written at its own indentation *)
Definition keeps_line (k : Z) (Y : list chunk) : Prop := forall A, line_of f A k -> line_of f (A ++ Y) k.
Lemma keeps_line_nil k : keeps_line k [].
Proof. intros A H. rewrite app_nil_r. exact H. Qed.
Lemma keeps_line_app k Y1 Y2 : keeps_line k Y1 -> keeps_line k Y2 -> keeps_line k (Y1 ++ Y2).
Proof. intros H1 H2 A H. rewrite app_assoc. apply H2, H1, H. Qed.
Lemma keeps_line_chunk k x : is_nl x = false -> keeps_line k [x].
Proof.
  intros Hx A [[Hnb Hk]|[A1 [rest [more [HA [Hi Hnb]]]]]].
  - left. split; [|exact Hk]. intros s0 Hin. apply in_app_or in Hin. destruct Hin as [Hin|[Hin|[]]]; [apply (Hnb s0 Hin)|].
    subst x. discriminate.
  - right. exists A1, (rest ++ [x]), (more ++ [x]). split; [rewrite HA, <- app_assoc; reflexivity|]. split.
    + destruct Hi as [->|[-> ->]]; [left; reflexivity|right; split; reflexivity].
    + intros s0 Hin. apply in_app_or in Hin. destruct Hin as [Hin|[Hin|[]]]; [apply (Hnb s0 Hin)|]. subst x. discriminate.
Qed.
Lemma keeps_line_break k : keeps_line k (nl_chunks f k (Some None)).
Proof.
  intros A _. right. exists A, [indent_chunk f k], []. split; [reflexivity|]. split; [left; reflexivity|].
  intros s0 [Hin|[]]. unfold indent_chunk in Hin. discriminate.
Qed.
Lemma keeps_line_string k s : keeps_line k (string_chunks f k s).
Proof.
  unfold string_chunks. destruct (split_crlf s) as [|l0 ls]; [apply keeps_line_nil|].
  change (CT false l0 :: flat_map (line_chunks f k) ls) with ([CT false l0] ++ flat_map (line_chunks f k) ls).
  apply keeps_line_app; [apply keeps_line_chunk; reflexivity|].
  induction ls as [|l ls IH]; [apply keeps_line_nil|]. cbn [flat_map]. apply keeps_line_app; [|exact IH].
  unfold line_chunks. apply keeps_line_app; [apply keeps_line_break|apply keeps_line_chunk; reflexivity].
Qed.
Lemma keeps_line_tokens k F v : keeps_line k (token_chunks f k F v).
Proof.
  induction v as [|t v IH]; [apply keeps_line_nil|]. cbn [token_chunks flat_map]. fold (token_chunks f k F v).
  apply keeps_line_app; [|exact IH]. destruct t as [s|i nm]; [apply keeps_line_string|apply keeps_line_chunk; reflexivity].
Qed.

Lemma line_of_comment_node text node st k :
  line_of f (fchunks st) k -> lvl st = k -> line_of f (fchunks (comment_node c text node st)) k.
Proof.
  intros H HL. unfold comment_node. destruct text as [|t0 text0]; [exact H|]. destruct (should_comment c node); [|exact H].
  unfold comment_output. set (attrs := rev _). generalize (template (t0 :: text0)) as toks. intros toks. revert st H HL.
  induction toks as [|t toks IH]; intros st H HL; cbn [fold_left]; [exact H|]. apply IH.
  - destruct t as [s|bf af nm].
    + rewrite ch_push_str, HL. apply keeps_line_string, H.
    + destruct (assoc_str nm attrs) as [v|]; [|exact H].
      rewrite ch_push_str, (proj1 (push_tokens_spec c v _)), ch_push_str, lvl_push_tokens, !lvl_push_str, HL.
      apply keeps_line_string, keeps_line_tokens, keeps_line_string, H.
  - destruct t as [s|bf af nm]; [rewrite lvl_push_str; exact HL|].
    destruct (assoc_str nm attrs); [rewrite lvl_push_str, lvl_push_tokens, lvl_push_str|]; exact HL.
Qed.

Lemma LI_ntags st n p : LI st n p -> n = ntags (fchunks st).
Proof. intros H. apply (Lines_ntags f E APa Hnl Hind) in H. cbn [fst] in H. lia. Qed.

Lemma LI_el_named x nm node next st m p E0 E1 :
  an_name node = Some (x :: nm) ->
  good (x :: nm) = true -> name_start (x :: nm) = true ->
  oval_nolt (an_value node) = true ->
  forallb attr_good (match an_attrs node with Some l => l | None => [] end) = true ->
  last_ok c node = true -> snippet_ok c node = true ->
  E = E0 ++ tree_events c node ++ E1 -> m = length E0 ->
  LI st m p -> PO m p -> lvl st = D m ->
  keeps_lvl next -> grows_fn next -> (an_children node = [] -> forall s, next s = s) ->
  (self_closed node = false -> next_ok node next (S m)) ->
  (al = true -> self_closed node = false -> closes_own_line c node = true -> line_of f (fchunks st) (D m)) ->
  exists p', LI (el_named c (x :: nm) node next st) (m + length (tree_events c node)) p' /\
             PO (m + length (tree_events c node)) p' /\ (comment_quiet c node = true -> p' = None).
Proof.
  intros En Hgn Hns Hv Ha Hlast Hsn HE Hm H Hp HL Hk Hgr Hnil Hnext Hal.
  apply good_parts in Hgn. destruct Hgn as [Hnolt Hnocrlf].
  set (name := tag_name c (x :: nm)).
  assert (Nb : nocrlf name = true) by (unfold name; rewrite nocrlf_tag_name; exact Hnocrlf).
  assert (Nl : nolt name = true) by (unfold name; rewrite nolt_tag_name; exact Hnolt).
  assert (Ns : name_start name = true) by (unfold name; rewrite name_start_tag_name; exact Hns).
  assert (Nn : name <> []) by (apply tag_name_nonempty; discriminate).
  assert (Nt : text_tag (c_lt :: name) = [TOpen name]) by (apply text_tag_open; assumption).
  unfold el_named. cbv zeta.
  (* the comment before the element *)
  set (stc := comment_node c (oc_comment_before c) node st).
  destruct (LI_comment_node (oc_comment_before c) node st m p (or_introl eq_refl) Ha H Hp HL) as [pc [Hc0 [Hpcm _]]].
  fold stc in Hc0.
  assert (HLc : lvl stc = D m) by (unfold stc; rewrite lvl_comment_node; exact HL).
  assert (Halc : al = true -> self_closed node = false -> closes_own_line c node = true -> line_of f (fchunks stc) (D m)).
  { intros a1 a2 a3. apply line_of_comment_node; [apply Hal; assumption|exact HL]. }
  clear Hal H Hp. rename Halc into Hal.
  (* "<name" and the attributes *)
  assert (Hopen : fchunks (push_str c (c_lt :: name) stc) = fchunks stc ++ [CT false (c_lt :: name)]).
  { rewrite ch_push_str, string_chunks_nocrlf by (cbn [nocrlf forallb]; fold (nocrlf name); rewrite Nb; reflexivity). reflexivity. }
  assert (Ho : LI (el_open c (x :: nm) node st) (S m) None).
  { unfold el_open. fold stc. fold name.
    assert (H1 : LI (push_str c (c_lt :: name) stc) (S m) None).
    { unfold LI. rewrite Hopen. apply (Lines_open f E APa [] (O, None) _ m pc name Hc0 Hpcm Nt). }
    destruct (LI_PL _ _ (S m) None H1 (Popen_none E _) (PL_el_attrs node _ Ha)) as [p' [H2 [_ Hn2]]].
    rewrite (Hn2 eq_refl) in H2. exact H2. }
  assert (Hgo : exists B, fchunks (el_open c (x :: nm) node st) = fchunks stc ++ CT false (c_lt :: name) :: B).
  { unfold el_open. fold stc. fold name. destruct (grows_el_attrs c node (push_str c (c_lt :: name) stc)) as [Y EY].
    exists Y. rewrite EY, Hopen, <- app_assoc. reflexivity. }
  assert (Hlo : lvl (el_open c (x :: nm) node st) = D m) by (rewrite lvl_el_open; exact HL).
  set (st1 := el_open c (x :: nm) node st) in *.
  rewrite tree_events_eq in HE |- *. rewrite En in HE |- *. fold name in HE |- *.
  change (an_self node && match an_children node with [] => true | _ => false end && negb (truthy_l (an_value node)))
    with (self_closed node).
  destruct (self_closed node) eqn:Esc.
  - cbn [length]. rewrite Nat.add_1_r.
    destruct (LI_PL _ _ (S m) None Ho (Popen_none E _) (PL_push_str _ st1 good_self_close)) as [p' [H2 [_ Hn2]]].
    rewrite (Hn2 eq_refl) in H2. exists None. split; [exact H2|]. split; [apply Popen_none|reflexivity].
  - specialize (Hnext eq_refl). specialize (fun a => Hal a eq_refl).
    set (kids := flat_map (tree_events c) (an_children node)) in *.
    assert (HEk : E = (E0 ++ [SOpen name false]) ++ kids ++ ([SClose name] ++ E1)).
    { rewrite HE. cbn [app]. rewrite <- !app_assoc. reflexivity. }
    assert (Hlk : length (E0 ++ [SOpen name false]) = S m) by (rewrite app_length, <- Hm; cbn [length]; apply Nat.add_1_r).
    assert (HD1 : D (S m) = D m + 1).
    { pose proof (Dp_split E E0 [SOpen name false] (kids ++ [SClose name] ++ E1)) as G. cbn [length] in G.
      rewrite <- Hm, Nat.add_1_r in G. rewrite G; [reflexivity|]. rewrite HE. cbn [app]. rewrite <- app_assoc. reflexivity. }
    assert (HD2 : D (S m + length kids) = D (S m)).
    { pose proof (Dp_split E (E0 ++ [SOpen name false]) kids ([SClose name] ++ E1) HEk) as G.
      rewrite Hlk in G. rewrite G. apply depth_forest. }
    assert (HD3 : forall t, (t <= length kids)%nat -> D (S m + t) >= D m + 1).
    { intros t Ht. pose proof (Dp_prefix E (E0 ++ [SOpen name false]) kids ([SClose name] ++ E1) t HEk (nonneg_forest c _) Ht) as G.
      rewrite Hlk in G. clear -G HD1. lia. }
    set (m2 := (S m + length kids)%nat) in *.
    destruct (LI_PL _ _ (S m) None Ho (Popen_none E _) (PL_push_str [c_gt] st1 eq_refl)) as [p0 [Hgt [_ Hn0]]].
    rewrite (Hn0 eq_refl) in Hgt. clear p0 Hn0.
    set (st2 := push_str c [c_gt] st1) in *.
    assert (Hl2 : lvl st2 = D m) by (unfold st2; rewrite lvl_push_str; exact Hlo).
    assert (Hgi : get_indent c (Some node) = 1).
    { rewrite get_indent_wf; [cbn [named_opt]; rewrite En; reflexivity|]. cbn [pwf]. unfold nwf. rewrite En. reflexivity. }
    (* the content leaves a pending break that a closing tag may follow *)
    assert (Hc : exists p', LI (el_content c (x :: nm) node next st2) m2 p' /\ PC m2 p' /\ (closes_own_line c node = false -> p' = None)).
    { unfold el_content. destruct (el_snippet c node next st2) as [st'|] eqn:Es.
      - destruct (el_snippet_some_inv node next st2 st' Es) as [v0 [value [ix [Ev [Ef Hne]]]]].
        destruct (snippet_ok_inv node v0 value ix Hsn Ev Hne Ef) as [Hcr Hfl].
        assert (Hvv : oval (an_value node) = v0 :: value) by (rewrite Ev; reflexivity).
        destruct (LI_el_snippet node next st2 st' (S m) None Es Hk Hnext Hgt (Popen_none E _)) as [ix' [pw [Ef' [_ [HQ [Hend Hmore]]]]]].
        { rewrite Hl2, Hgi. exact HD1. }
        { rewrite Hvv. rewrite Ev in Hv. exact Hv. }
        { right. rewrite Hvv. exact Hcr. }
        { exact HD2. }
        rewrite Hvv in Ef', Hend, Hmore. rewrite Ef in Ef'. injection Ef' as <-. fold kids in HQ, Hend, Hmore. fold m2 in HQ, Hend, Hmore.
        destruct (exists_last Hne) as [l0 [xl El]].
        destruct (last_ctx node l0 xl El) as [Ht [Hlf Hlo']]. specialize (HQ l0 xl El). unfold Qn in HQ. rewrite Ht in HQ.
        destruct (should_format c (Some node) xl (length l0) (an_children node)) eqn:Efmt.
        + exists pw. split; [apply Hend, Hfl, Hlf|]. split.
          * rewrite HQ. apply PC_some.
            cbn [is_snippet_opt]. unfold is_snippet. rewrite En. cbn [truthy_s negb andb]. reflexivity.
          * unfold closes_own_line. rewrite Hlf. discriminate.
        + destruct HQ as [HQ1 HQ2]. rewrite Hlast in Hlo'. cbn [orb] in Hlo'. symmetry in Hlo'. specialize (HQ2 Hlo').
          destruct (Hmore HQ1) as [p' [H3 [_ Hn3]]]. rewrite (Hn3 HQ2 Hcr) in H3. exists None. split; [exact H3|split; [apply Pclose_none|reflexivity]].
      - destruct (LI_el_value node st2 (S m) Hgt) as [pv [Hv1 [Hv2 [Hv3 Hv4]]]]; [rewrite Hl2; exact HD1|exact Hv|].
        assert (Hlv : lvl (el_value c node st2) = D m) by (rewrite lvl_el_value; exact Hl2).
        destruct (no_children node) eqn:Enc.
        + assert (Ech : an_children node = []) by (unfold no_children in Enc; destruct (an_children node); [reflexivity|discriminate]).
          rewrite (Hnil Ech).
          assert (Em2 : m2 = S m) by (unfold m2, kids; rewrite Ech; cbn [flat_map length]; apply Nat.add_0_r). rewrite Em2.
          destruct (LI_el_leaf (x :: nm) node _ (S m) pv Hv1) as [pl [Hl1 [Hl2' Hl3]]];
            [rewrite Hlv; exact HD1|exact Hv2|intros e _; apply Hv3, e|].
          exists pl. split; [exact Hl1|]. split; [exact Hl2'|].
          unfold closes_own_line. rewrite Enc, En. unfold last_formatted. rewrite Ech. cbn [rev orb andb].
          destruct (truthy_l (an_value node)) eqn:Etv.
          * intros Hnn. apply Hl3; [apply Hv4, Hnn|left; reflexivity].
          * intros Hnn. apply Hl3; [apply Hv3; reflexivity|right; exact Hnn].
        + assert (Hne : an_children node <> []) by (intros e; unfold no_children in Enc; rewrite e in Enc; discriminate).
          destruct (Hnext _ pv Hv1 Hv2) as [pw [Hw [_ HQ]]]; [rewrite Hlv, Hgi; exact HD1|].
          fold kids in Hw, HQ. fold m2 in Hw, HQ.
          destruct (exists_last Hne) as [l0 [xl El]].
          destruct (last_ctx node l0 xl El) as [Ht [Hlf Hlo']]. specialize (HQ l0 xl El). unfold Qn in HQ. rewrite Ht in HQ.
          assert (Hpc : PC m2 pw /\ (closes_own_line c node = false -> pw = None)).
          { destruct (should_format c (Some node) xl (length l0) (an_children node)) eqn:Efmt.
            - split; [rewrite HQ; apply PC_some; cbn [is_snippet_opt]; unfold is_snippet; rewrite En; cbn [truthy_s negb andb]; reflexivity|].
              unfold closes_own_line. rewrite Hlf. discriminate.
            - destruct HQ as [HQ1 HQ2]. rewrite Hlast in Hlo'. cbn [orb] in Hlo'. symmetry in Hlo'. rewrite (HQ2 Hlo').
              split; [apply Pclose_none|reflexivity]. }
          destruct Hpc as [Hpc Hpn].
          destruct (LI_el_leaf (x :: nm) node _ m2 pw Hw) as [pl [Hl1 [Hl2' _]]]; [|exact Hpc| |].
          * rewrite Hk, Hlv, HD2. exact HD1.
          * intros _ Hnc. rewrite Enc in Hnc. discriminate.
          * (* el_leaf does nothing when there are children *)
            unfold el_leaf in Hl1 |- *. fold (no_children node) in Hl1 |- *. rewrite Enc, andb_false_r in Hl1 |- *.
            exists pw. split; [exact Hl1 || (unfold LI in *; exact Hw)|]. split; [exact Hpc|exact Hpn]. }
    destruct Hc as [pk [Hc1 [Hc2 Hc3]]].
    unfold el_close. fold name.
    assert (Elen : (m + length (SOpen name false :: kids ++ [SClose name]))%nat = S m2)
      by (cbn [length]; rewrite app_length; cbn [length]; unfold m2; clear; lia).
    rewrite Elen.
    set (stk := el_content c (x :: nm) node next st2) in *.
    assert (Hclose : LI (push_str c ([c_lt; c_slash] ++ name ++ [c_gt]) stk) (S m2) None).
    { unfold LI. rewrite ch_push_str, string_chunks_nocrlf by (rewrite !nocrlf_app, Nb; reflexivity).
      cbn [app]. apply (Lines_close f E APa [] (O, None) _ m2 pk name Hc1 Hc2).
      (* alignment: the opening tag chunk of this element stands where the stream stood at [stc] *)
      intros k Hpk Hal'. cbn [app].
      destruct Hgo as [B0 HB0].
      assert (Hgc : exists B, fchunks stk = fchunks stc ++ CT false (c_lt :: name) :: B).
      { destruct (grows_push_str c [c_gt] st1) as [Y1 EY1]. destruct (grows_el_content c (x :: nm) node next st2 Hgr) as [Y2 EY2].
        exists (B0 ++ Y1 ++ Y2). unfold stk. rewrite EY2. unfold st2. rewrite EY1, HB0, <- !app_assoc. reflexivity. }
      destruct Hgc as [B HB].
      assert (Hcl : closes_own_line c node = true).
      { destruct (closes_own_line c node); [reflexivity|]. rewrite (Hc3 eq_refl) in Hpk. discriminate. }
      assert (Ek : k = D m) by (rewrite (Hc2 k Hpk); fold m2; rewrite HD2, HD1; clear; lia).
      rewrite Ek.
      apply (aligned_at_actual f E _ (fchunks stc) (CT false (c_lt :: name)) B (D m) m (length kids) HB).
      + symmetry. apply (LI_ntags stc m pc Hc0).
      + unfold ntags. cbn [flat_map chunk_tags]. rewrite Nt. reflexivity.
      + pose proof (LI_ntags _ _ _ Hc1) as G. rewrite HB in G.
        change (fchunks stc ++ CT false (c_lt :: name) :: B) with (fchunks stc ++ [CT false (c_lt :: name)] ++ B) in G.
        rewrite !ntags_app, <- (LI_ntags stc m pc Hc0) in G.
        assert (G1 : ntags [CT false (c_lt :: name)] = 1%nat) by (unfold ntags; cbn [flat_map chunk_tags]; rewrite Nt; reflexivity).
        rewrite G1 in G. unfold m2 in G. clear -G. lia.
      + exact HD1.
      + fold m2. rewrite HD2. exact HD1.
      + exact HD3.
      + apply Hal; assumption. }
    (* the comment after the element *)
    assert (HD4 : D (S m2) = D m).
    { rewrite <- Elen, Hm. rewrite (Dp_split E E0 _ E1 HE). cbn [depth_after]. rewrite depth_after_app. unfold kids.
      rewrite depth_forest. cbn [depth_after]. rewrite <- Hm. clear. lia. }
    assert (Hlvk : lvl stk = D m).
    { unfold stk, el_content. destruct (el_snippet c node next st2) as [st'|] eqn:Es.
      - rewrite (lvl_el_snippet c node next st2 st' Hk Es). exact Hl2.
      - rewrite lvl_el_leaf, Hk, lvl_el_value. exact Hl2. }
    destruct (LI_comment_node (oc_comment_after c) node _ (S m2) None (or_intror eq_refl) Ha Hclose (Popen_none E _))
      as [p' [Hf1 [Hf2 [Hf3 Hf4]]]].
    { rewrite lvl_push_str, Hlvk, HD4. reflexivity. }
    exists p'. split; [exact Hf1|]. split; [exact Hf2|].
    unfold comment_quiet. intros Hq. destruct (should_comment c node) eqn:Es; [|apply Hf3; left; reflexivity].
    cbn [negb orb] in Hq. destruct (oc_comment_after c) as [|a0 ar] eqn:Eaf; [apply Hf3; right; reflexivity|].
    cbn [orb] in Hq. apply Hf4; [reflexivity|discriminate|exact Hq].
Qed.

(* ---------------------------------------------------------------- a text node *)
Lemma Dp_forest E0 l E1 : E = E0 ++ flat_map (tree_events c) l ++ E1 ->
  D (length E0 + length (flat_map (tree_events c) l)) = D (length E0).
Proof. intros HE. rewrite (Dp_split E E0 _ E1 HE). apply depth_forest. Qed.

Lemma Qn_last_PO node (l0 : list anode) x n' pw :
  truthy_s (an_name node) = false -> nwf node = true ->
  Qn (Some node) x (length l0) (an_children node) n' pw -> PO n' pw.
Proof.
  intros Hn Hw HQ. unfold Qn in HQ. destruct (tailb _ _ _ _).
  - rewrite HQ. apply PO_some. cbn [is_snippet_opt]. unfold is_snippet. unfold nwf in Hw. rewrite Hn in *.
    cbn [orb negb andb] in *. rewrite Hw. lia.
  - apply HQ.
Qed.

Lemma LI_el_unnamed node next st m p E0 E1 :
  truthy_s (an_name node) = false -> nwf node = true ->
  oval_nolt (an_value node) = true ->
  E = E0 ++ tree_events c node ++ E1 -> m = length E0 ->
  LI st m p -> PO m p -> lvl st = D m ->
  keeps_lvl next -> (an_children node = [] -> forall s, next s = s) ->
  next_ok node next m ->
  exists p', LI (el_unnamed c node next st) (m + length (tree_events c node)) p' /\
             PO (m + length (tree_events c node)) p' /\ (ends_text c node = true -> p' = None).
Proof.
  intros En Hw Hv HE Hm H Hp HL Hk Hnil Hnext.
  assert (Hgi : get_indent c (Some node) = 0).
  { rewrite get_indent_wf; [cbn [named_opt]; rewrite En; reflexivity|exact Hw]. }
  assert (Hev : tree_events c node = flat_map (tree_events c) (an_children node)).
  { rewrite tree_events_eq. destruct (an_name node) as [[|x nm]|]; try reflexivity. discriminate. }
  rewrite Hev in HE |- *. rewrite ends_text_eq, En. unfold el_unnamed.
  set (kids := flat_map (tree_events c) (an_children node)) in *.
  destruct (el_snippet c node next st) as [st'|] eqn:Es.
  - destruct (el_snippet_some_inv node next st st' Es) as [v0 [value [ix [Ev [Ef Hne]]]]].
    rewrite Ev. cbn [truthy_l].
    assert (HD2 : D (m + length kids) = D m) by (rewrite Hm; apply (Dp_forest E0 _ E1 HE)).
    destruct (LI_el_snippet node next st st' m p Es Hk Hnext H Hp) as [ix' [pw [_ [_ [HQ [_ Hmore]]]]]].
    { rewrite Hgi. lia. }
    { rewrite Ev. rewrite Ev in Hv. exact Hv. }
    { left. exact HL. }
    { exact HD2. }
    destruct (exists_last Hne) as [l0 [xl El]]. specialize (HQ l0 xl El).
    destruct (Hmore (Qn_last_PO node l0 xl _ pw En Hw HQ)) as [p' [H3 [Hp3 _]]].
    exists p'. split; [exact H3|]. split; [exact Hp3|].
    destruct (an_children node); [contradiction|]. cbn [oval]. unfold no_field. rewrite Ef, andb_false_r. discriminate.
  - (* the text (when there is one), then the children -- also when the text is empty (repaired) *)
    assert (Hempty : truthy_l (an_value node) = false -> oval (an_value node) = [] ->
              exists p', LI (next st) (m + length kids) p' /\ PO (m + length kids) p' /\
                (match an_children node with
                 | [] => ends_visible (oval (an_value node))
                 | _ :: _ => truthy_l (an_value node) && no_field (oval (an_value node)) && negb (last_formatted c node)
                             && match rev (an_children node) with x :: _ => ends_text c x | [] => false end
                 end = true -> p' = None)).
    { intros Et Eo. rewrite Et, Eo. destruct (no_children node) eqn:Enc.
      * assert (Ech : an_children node = []) by (unfold no_children in Enc; destruct (an_children node); [reflexivity|discriminate]).
        rewrite (Hnil Ech). assert (Ek : length kids = O) by (unfold kids; rewrite Ech; reflexivity).
        rewrite Ek, Nat.add_0_r. exists p. rewrite Ech. repeat split; try assumption. discriminate.
      * assert (Hne : an_children node <> []) by (intros e; unfold no_children in Enc; rewrite e in Enc; discriminate).
        destruct (Hnext st p H Hp) as [pw [Hww [_ HQ]]]; [rewrite Hgi; lia|].
        destruct (exists_last Hne) as [l0 [xl El]]. specialize (HQ l0 xl El).
        exists pw. split; [exact Hww|]. split; [apply (Qn_last_PO node l0 xl _ pw En Hw HQ)|].
        destruct (an_children node); [contradiction|]. cbn [andb]. discriminate. }
    destruct (an_value node) as [[|v0 value]|] eqn:Ev; cbn [truthy_l oval] in *.
    + apply Hempty; reflexivity.
    + destruct (LI_tokens st m p (v0 :: value) H Hp Hv (or_introl HL)) as [p1 [H1 [Hp1 [_ [Hv1 _]]]]].
      destruct (no_children node) eqn:Enc.
      * assert (Ech : an_children node = []) by (unfold no_children in Enc; destruct (an_children node); [reflexivity|discriminate]).
        rewrite (Hnil Ech). assert (Ek : length kids = O) by (unfold kids; rewrite Ech; reflexivity).
        rewrite Ek, Nat.add_0_r. exists p1. rewrite Ech. repeat split; assumption.
      * assert (Hne : an_children node <> []) by (intros e; unfold no_children in Enc; rewrite e in Enc; discriminate).
        destruct (Hnext _ p1 H1 Hp1) as [pw [Hww [_ HQ]]]; [rewrite lvl_push_tokens, Hgi; lia|].
        destruct (exists_last Hne) as [l0 [xl El]]. specialize (HQ l0 xl El).
        exists pw. split; [exact Hww|]. split; [apply (Qn_last_PO node l0 xl _ pw En Hw HQ)|].
        destruct (last_ctx node l0 xl El) as [Ht [Hlf _]]. unfold Qn in HQ. rewrite Ht, <- Hlf in HQ.
        assert (Hm' : forall (A : Type) (u w : A), match an_children node with [] => u | _ :: _ => w end = w)
          by (intros; destruct (an_children node); [contradiction|reflexivity]).
        rewrite Hm'. replace (rev (an_children node)) with (xl :: rev l0) by (rewrite El, rev_app_distr; reflexivity).
        intros Het. apply andb_true_iff in Het. destruct Het as [Het Het2].
        apply andb_true_iff in Het. destruct Het as [_ Het1]. apply negb_true_iff in Het1. rewrite Het1 in HQ.
        apply (proj2 HQ Het2).
    + apply Hempty; reflexivity.
Qed.

(* ---------------------------------------------------------------- element(): own line break, body, closing line break *)
Lemma node_parts n : depth_node c n = true ->
  good (match an_name n with Some x => x | None => [] end) = true /\
  name_start (match an_name n with Some x => x | None => [] end) = true /\
  nwf n = true /\ oval_nolt (an_value n) = true /\
  forallb attr_good (match an_attrs n with Some l => l | None => [] end) = true /\
  (truthy_s (an_name n) = true -> last_ok c n = true /\ snippet_ok c n = true) /\
  forallb (depth_node c) (an_children n) = true.
Proof.
  rewrite depth_node_eq. intros H.
  apply andb_true_iff in H. destruct H as [H H7]. apply andb_true_iff in H. destruct H as [H H6].
  apply andb_true_iff in H. destruct H as [H H5]. apply andb_true_iff in H. destruct H as [H H4].
  apply andb_true_iff in H. destruct H as [H H3]. apply andb_true_iff in H. destruct H as [H1 H2].
  split; [exact H1|]. split; [exact H2|]. split; [exact H3|]. split; [exact H4|]. split; [exact H5|]. split; [|exact H7].
  intros Hn. rewrite Hn in H6. cbn [negb orb] in H6. apply andb_true_iff in H6. exact H6.
Qed.

Lemma line_of_entry parent node index items st :
  should_format c parent node index items = true ->
  line_of f (fchunks (entry c parent node index items st)) (lvl st + get_indent c parent).
Proof.
  intros Hf. right. rewrite (entry_chunks c parent node index items st Hf).
  exists (fchunks st), [indent_chunk f (lvl st + get_indent c parent)], [].
  split; [reflexivity|]. split; [left; reflexivity|].
  intros s0 [Hin|[]]. unfold indent_chunk in Hin. discriminate.
Qed.

Lemma LI_html_step parent node index items next st p E0 E1 :
  depth_node c node = true -> pwf parent ->
  (al = true -> align_here c parent node index items = true) ->
  (parent = None -> index = O -> fchunks st = []) ->
  E = E0 ++ tree_events c node ++ E1 ->
  LI st (length E0) p -> PO (length E0) p -> D (length E0) = lvl st + get_indent c parent ->
  keeps_lvl next -> grows_fn next -> (an_children node = [] -> forall s, next s = s) ->
  (forall m1, (exists Ea Eb, E = Ea ++ flat_map (tree_events c) (an_children node) ++ Eb /\ m1 = length Ea) -> next_ok node next m1) ->
  exists p', LI (html_element_step c parent node index items next st) (length E0 + length (tree_events c node)) p' /\
             Qn parent node index items (length E0 + length (tree_events c node)) p'.
Proof.
  intros Hd Hpw Hah Hfirst HE H Hp HD Hk Hgr Hnil Hnext.
  destruct (node_parts node Hd) as [Hg [Hs [Hw [Hv [Ha [Hnm _]]]]]].
  set (m := length E0) in *. set (m' := (m + length (tree_events c node))%nat).
  assert (HDm : D m' = D m) by (unfold m', m; rewrite (Dp_split E E0 _ E1 HE); apply depth_tree).
  unfold html_element_step. fold (entry c parent node index items st).
  set (st1 := entry c parent node index items st).
  assert (Hl1 : lvl st1 = D m) by (unfold st1; rewrite lvl_entry; lia).
  assert (H1 : exists p1, LI st1 m p1 /\ PO m p1).
  { unfold st1, entry. destruct (should_format c parent node index items).
    - eexists. split; [apply (LI_newline _ m p); [apply LI_level, H|exact Hp]|]. cbn [units]. apply PO_some. rewrite lvl_map_level. lia.
    - exists p. split; [apply LI_level, H|exact Hp]. }
  destruct H1 as [p1 [H1 Hp1]].
  assert (Hb : exists p2, LI (el_body c node next st1) m' p2 /\ PO m' p2 /\ (ends_text c node = true -> p2 = None)).
  { unfold el_body. destruct (an_name node) as [[|x nm]|] eqn:En.
    - apply (LI_el_unnamed node next st1 m p1 E0 E1); try assumption; try reflexivity.
      + unfold truthy_s. rewrite En. reflexivity.
      + apply Hnext. exists E0, E1. split; [|reflexivity].
        rewrite HE, tree_events_eq, En. reflexivity.
    - destruct (Hnm eq_refl) as [Hlast Hsn].
      rewrite ends_text_eq, En. cbn [truthy_s].
      apply (LI_el_named x nm node next st1 m p1 E0 E1); try assumption; try reflexivity.
      + intros Esc. apply Hnext. exists (E0 ++ [SOpen (tag_name c (x :: nm)) false]), ([SClose (tag_name c (x :: nm))] ++ E1).
        split; [|rewrite app_length; cbn [length]; unfold m; lia].
        rewrite HE, tree_events_eq, En, Esc. cbn [app]. rewrite <- !app_assoc. reflexivity.
      + (* the line on which the opening tag stands *)
        intros Hal Esc Hcl. specialize (Hah Hal). unfold align_here in Hah. rewrite En, Esc, Hcl in Hah.
        cbn [truthy_s negb orb] in Hah. apply orb_true_iff in Hah. destruct Hah as [Hf|Hf].
        * rewrite HD. apply line_of_entry, Hf.
        * apply andb_true_iff in Hf. destruct Hf as [Hf1 Hf2]. apply Nat.eqb_eq in Hf2.
          destruct parent as [q|]; [discriminate|]. specialize (Hfirst eq_refl Hf2).
          assert (Em : m = O) by (rewrite (LI_ntags st m p H), Hfirst; reflexivity).
          left. unfold st1, entry.
          assert (Efc : fchunks (if should_format c None node index items
                                 then map_out (fun o => os_push_newline (oc_fmt c) o (Some None)) (map_out (fun o => os_add_level o (get_indent c None)) st)
                                 else map_out (fun o => os_add_level o (get_indent c None)) st) = []).
          { rewrite Hf2. destruct node as [nm0 v0 rp0 at0 ch0 sc0]. cbn [should_format].
            destruct (negb (oc_format c)); cbn [Nat.eqb andb]; exact Hfirst. }
          rewrite Efc. split; [intros s0 []|]. rewrite Em. reflexivity.
    - apply (LI_el_unnamed node next st1 m p1 E0 E1); try assumption; try reflexivity.
      + unfold truthy_s. rewrite En. reflexivity.
      + apply Hnext. exists E0, E1. split; [|reflexivity].
        rewrite HE, tree_events_eq, En. reflexivity. }
  destruct Hb as [p2 [H2 [Hp2 He2]]].
  assert (Hl2 : lvl (el_body c node next st1) = D m') by (rewrite lvl_el_body by exact Hk; rewrite HDm; exact Hl1).
  unfold Qn, tailb, el_tail.
  destruct (tail_newline c (should_format c parent node index items) parent index items).
  - eexists. split; [apply LI_level, (LI_newline_int _ m' p2); [exact H2|exact Hp2]|]. rewrite Hl2. reflexivity.
  - exists p2. split; [apply LI_level, H2|]. split; assumption.
Qed.

Definition elem_spec (n : anode) : Prop :=
  depth_node c n = true ->
  forall parent index items st p E0 E1, pwf parent ->
    (al = true -> align_node c parent n index items = true) ->
    (parent = None -> index = O -> fchunks st = []) ->
    E = E0 ++ tree_events c n ++ E1 ->
    LI st (length E0) p -> PO (length E0) p -> D (length E0) = lvl st + get_indent c parent ->
    exists p', LI (html_element c parent n index items st) (length E0 + length (tree_events c n)) p' /\
               Qn parent n index items (length E0 + length (tree_events c n)) p'.

Lemma tailb_not_last parent x pre r items : items = pre ++ x :: r -> r <> [] -> tailb parent x (length pre) items = false.
Proof.
  intros -> Hr. unfold tailb, tail_newline. rewrite app_length. cbn [length].
  replace (Nat.eqb (length pre) (length pre + S (length r) - 1)) with false.
  - rewrite andb_false_r. reflexivity.
  - symmetry. apply Nat.eqb_neq. destruct r; [contradiction|]. cbn [length]. lia.
Qed.

Lemma grows_nonempty st st' x : grows st st' -> fchunks st = x -> x <> [] -> fchunks st' <> [].
Proof. intros [Y EY] <- Hne. rewrite EY. destruct (fchunks st); [contradiction|discriminate]. Qed.

Lemma LI_html_walk parent items : pwf parent -> forall l pre st p E0 E1,
  items = pre ++ l -> Forall elem_spec l -> forallb (depth_node c) l = true ->
  (al = true -> align_walk c parent items (length pre) l = true) ->
  (parent = None -> pre = [] -> fchunks st = []) ->
  E = E0 ++ flat_map (tree_events c) l ++ E1 ->
  LI st (length E0) p -> PO (length E0) p -> D (length E0) = lvl st + get_indent c parent ->
  exists p', LI (html_walk c parent items (length pre) l st) (length E0 + length (flat_map (tree_events c) l)) p' /\
             (l = [] -> p' = p) /\
             (forall l0 x, l = l0 ++ [x] ->
                Qn parent x (length pre + length l0) items (length E0 + length (flat_map (tree_events c) l)) p').
Proof.
  intros Hpw. induction l as [|a r IH]; intros pre st p E0 E1 Hit HF Hd Hal Hfirst HE H Hp HD.
  - exists p. cbn [html_walk flat_map length]. rewrite Nat.add_0_r. repeat split; try assumption.
    intros l0 x e. destruct l0; discriminate.
  - pose proof (Forall_inv HF) as Ha. pose proof (Forall_inv_tail HF) as HF'. cbn [forallb] in Hd. apply andb_true_iff in Hd. destruct Hd as [Hda Hdr].
    cbn [flat_map] in HE. rewrite <- app_assoc in HE.
    assert (Hal1 : al = true -> align_node c parent a (length pre) items = true).
    { intros e. specialize (Hal e). cbn [align_walk] in Hal. apply andb_true_iff in Hal. apply Hal. }
    assert (Hal2 : al = true -> align_walk c parent items (S (length pre)) r = true).
    { intros e. specialize (Hal e). cbn [align_walk] in Hal. apply andb_true_iff in Hal. apply Hal. }
    assert (Hf1 : parent = None -> length pre = O -> fchunks st = []).
    { intros e1 e2. apply Hfirst; [exact e1|]. destruct pre; [reflexivity|discriminate]. }
    destruct (Ha Hda parent (length pre) items st p E0 (flat_map (tree_events c) r ++ E1) Hpw Hal1 Hf1 HE H Hp HD) as [p1 [H1 HQ1]].
    cbn [html_walk flat_map]. rewrite app_length, Nat.add_assoc.
    destruct r as [|b r'].
    + exists p1. cbn [html_walk flat_map length]. rewrite Nat.add_0_r. split; [exact H1|]. split; [discriminate|].
      intros l0 x e. destruct l0 as [|y [|z l0]]; try discriminate. injection e as <-. cbn [length]. rewrite Nat.add_0_r. exact HQ1.
    + assert (Hnl : tailb parent a (length pre) items = false) by (apply (tailb_not_last parent a pre (b :: r') items Hit); discriminate).
      unfold Qn in HQ1. rewrite Hnl in HQ1. destruct HQ1 as [Hp1 _].
      set (Ea := E0 ++ tree_events c a).
      assert (HEa : E = Ea ++ flat_map (tree_events c) (b :: r') ++ E1) by (unfold Ea; rewrite <- app_assoc; exact HE).
      assert (Hla : length Ea = (length E0 + length (tree_events c a))%nat) by (unfold Ea; apply app_length).
      assert (Hit' : items = (pre ++ [a]) ++ b :: r') by (rewrite <- app_assoc; exact Hit).
      assert (Hlp : length (pre ++ [a]) = S (length pre)) by (rewrite app_length; cbn [length]; lia).
      destruct (IH (pre ++ [a]) (html_element c parent a (length pre) items st) p1 Ea E1 Hit' HF' Hdr) as [p2 [H2 [_ HQ2]]].
      * rewrite Hlp. exact Hal2.
      * intros _ e. destruct pre; discriminate.
      * exact HEa.
      * rewrite Hla. exact H1.
      * rewrite Hla. exact Hp1.
      * rewrite Hla. unfold lvl. rewrite level_restored_lemma. fold (lvl st). rewrite <- HD.
        rewrite (Dp_split E E0 _ _ HE). apply depth_tree.
      * rewrite Hlp, Hla in H2. rewrite Hlp, Hla in HQ2.
        exists p2. split; [exact H2|]. split; [discriminate|].
        intros l0 x e. destruct l0 as [|y l0]; [discriminate|]. cbn [app] in e. injection e as <- e.
        specialize (HQ2 l0 x e). cbn [length]. replace (length pre + S (length l0))%nat with (S (length pre) + length l0)%nat by lia.
        exact HQ2.
Qed.

Theorem LI_html_element : forall n, elem_spec n.
Proof.
  induction n as [nm v rp at_ ch sc IHch] using anode_ind'. intros Hd parent index items st p E0 E1 Hpw Hal Hfirst HE H Hp HD.
  set (node := ANode nm v rp at_ ch sc) in *.
  destruct (node_parts node Hd) as [_ [_ [Hw [_ [_ [_ Hkids]]]]]].
  assert (Hal' : al = true -> align_here c parent node index items = true /\
                               align_walk c (Some node) (an_children node) O (an_children node) = true).
  { intros e. specialize (Hal e). rewrite align_node_eq in Hal. apply andb_true_iff in Hal. exact Hal. }
  rewrite html_element_unfold. apply (LI_html_step parent node index items _ st p E0 E1); try assumption.
  - intros e. apply (Hal' e).
  - intros s. apply lvl_html_children.
  - apply grows_html_children.
  - intros Ech s. rewrite html_children_walk, Ech. reflexivity.
  - intros m1 [Ea [Eb [HEk ->]]] st0 p0 H0 Hp0 HD0. rewrite html_children_walk.
    apply (LI_html_walk (Some node) (an_children node) Hw (an_children node) [] st0 p0 Ea Eb eq_refl IHch Hkids); try assumption.
    + intros e. apply (Hal' e).
    + discriminate.
Qed.

(* ---------------------------------------------------------------- the whole abbreviation *)
Lemma APa_mono P Z0 k : ntags Z0 = O -> APa (P ++ Z0) k -> APa P k.
Proof. intros HZ H e. apply (aligned_at_mono f E P Z0 k HZ), H, e. Qed.

Theorem format_lines_read forest :
  E = flat_map (tree_events c) forest -> depth_dom c forest = true -> (al = true -> align_dom c forest = true) ->
  forall pre t rest, fchunks (html_format c forest) = pre ++ CT true t :: rest ->
    t = of_newline f ++ of_base_indent f /\
    exists k more, indented f k rest more /\
                   k = open_at E pre - (if starts_close more then 1 else 0) /\
                   (starts_close more = true -> APa pre k).
Proof.
  intros HE Hd Hal. rewrite html_format_walk.
  assert (HF : Forall elem_spec forest) by (apply Forall_forall; intros n _; apply LI_html_element).
  assert (HE' : E = [] ++ flat_map (tree_events c) forest ++ []) by (rewrite app_nil_r; exact HE).
  destruct (LI_html_walk None forest I forest [] (mkFs os_empty 1) None [] [] eq_refl HF Hd Hal) as [p' [H1 [Hn HQ]]];
    try reflexivity; try assumption.
  - apply L_nil.
  - apply Popen_none.
  - intros pre t rest EX.
    assert (Hfin : final_ok E (length (@nil sev) + length (flat_map (tree_events c) forest), p')%nat).
    { intros k Hk. cbn [fst snd] in *.
      destruct forest as [|a r] eqn:Ef.
      - rewrite (Hn eq_refl) in Hk. discriminate.
      - assert (Hne : a :: r <> []) by discriminate. destruct (exists_last Hne) as [l0 [x El]].
        specialize (HQ l0 x El). unfold Qn, tailb, tail_newline in HQ. rewrite !andb_false_r in HQ. cbn [andb] in HQ.
        apply (proj1 HQ k Hk). }
    destruct (Lines_every_break f E APa Hnl Hind APa_mono _ _ _ _ H1 Hfin pre t rest EX) as [Ht [k [more [Hi [Hk Ha]]]]].
    split; [exact Ht|]. exists k, more. split; [exact Hi|]. split; [exact Hk|exact Ha].
Qed.
End Depth.

(* ================================================================ the tag chunks are the tree events *)
(* justifies [open_at]: the i-th tag chunk of the stream is the i-th event of the tree *)
Lemma tags_rev_flat evs : tags_rev evs = flat_map event_tag (rev evs).
Proof.
  induction evs as [|e evs IH]; [reflexivity|]. cbn [tags_rev rev]. rewrite flat_map_app, IH. cbn [flat_map]. rewrite app_nil_r. reflexivity.
Qed.
Lemma chunk_tags_of e : chunk_tags (chunk_of e) = event_tag e.
Proof. destruct e; reflexivity. Qed.
Lemma tags_chunks st : flat_map chunk_tags (fchunks st) = tags st.
Proof.
  unfold fchunks, chunks, tags, chron. rewrite tags_rev_flat. induction (rev (os_events (fs_out st))) as [|e l IH]; [reflexivity|].
  cbn [map flat_map]. rewrite IH, chunk_tags_of. reflexivity.
Qed.

Lemma tbl_good_clean t : tbl_good t = true -> tbl_clean t = true.
Proof.
  destruct t as [l|]; [|reflexivity]. cbn [tbl_good tbl_clean]. rewrite !forallb_forall. intros H x Hx.
  apply (proj1 (good_parts _ (H x Hx))).
Qed.
Lemma cfg_depth_clean c : oc_comment_enabled c = false -> cfg_depth c = true -> cfg_clean c = true.
Proof.
  unfold cfg_depth, cfg_clean. intros He H.
  apply andb_true_iff in H. destruct H as [H H5]. apply andb_true_iff in H. destruct H as [H H4].
  apply andb_true_iff in H. destruct H as [H _].
  rewrite H, He, (tbl_good_clean _ H4), (tbl_good_clean _ H5). reflexivity.
Qed.
Lemma toks_good_nolt v : forallb tok_good v = true -> toks_nolt v = true.
Proof. intros H. apply (proj1 (toks_good_split v H)). Qed.
Lemma attr_good_clean a : attr_good a = true -> attr_clean a = true.
Proof.
  unfold attr_good, attr_clean. intros H. apply andb_true_iff in H. destruct H as [H1 H2].
  rewrite (proj1 (good_parts _ H1)). destruct (aa_value a) as [v|]; [|reflexivity]. cbn [oval_nolt]. apply toks_good_nolt, H2.
Qed.
Lemma depth_node_clean c : forall n, depth_node c n = true -> node_clean n = true.
Proof.
  induction n as [nm v rp at_ ch sc IH] using anode_ind'. intros H.
  destruct (node_parts c (ANode nm v rp at_ ch sc) H) as [Hg [Hs [_ [Hv [Ha [_ Hk]]]]]].
  cbn [an_name an_value an_attrs an_children] in *. apply good_parts in Hg. destruct Hg as [G1 G2].
  cbn [node_clean]. rewrite G1, G2, Hs, Hv. cbn [andb].
  apply andb_true_iff. split.
  - rewrite forallb_forall in *. intros a Ha'. apply attr_good_clean, Ha, Ha'.
  - rewrite forallb_forall in *. rewrite Forall_forall in IH. intros x Hx. apply IH; [exact Hx|apply Hk, Hx].
Qed.

Theorem tag_chunks_are_events c forest :
  oc_comment_enabled c = false -> cfg_depth c = true -> depth_dom c forest = true ->
  flat_map chunk_tags (fchunks (html_format c forest)) = map erase (flat_map (tree_events c) forest).
Proof.
  intros He Hc Hd. rewrite tags_chunks. apply format_events_all; [apply cfg_depth_clean; assumption|].
  unfold depth_dom in Hd. rewrite forallb_forall in *. intros n Hn. apply depth_node_clean with (c := c), Hd, Hn.
Qed.

Theorem indent_is_depth_full_lemma c forest :
  oc_format_skip c = [] -> cfg_depth c = true -> depth_dom c forest = true ->
  lines_indented (oc_fmt c) (flat_map (tree_events c) forest) (fchunks (html_format c forest)).
Proof.
  intros Hs Hc Hd pre t rest EX.
  assert (Hal : false = true -> align_dom c forest = true) by discriminate.
  destruct (format_lines_read c _ Hs Hc false forest eq_refl Hd Hal pre t rest EX) as [Ht [k [more [Hi [Hk _]]]]].
  split; [exact Ht|]. exists k, more. split; assumption.
Qed.

Theorem close_aligned_full_lemma c forest :
  oc_format_skip c = [] -> cfg_depth c = true -> depth_dom c forest = true -> align_dom c forest = true ->
  lines_aligned (oc_fmt c) (flat_map (tree_events c) forest) (fchunks (html_format c forest)).
Proof.
  intros Hs Hc Hd Ha pre t rest EX.
  destruct (format_lines_read c _ Hs Hc true forest eq_refl Hd (fun _ => Ha) pre t rest EX) as [_ [k [more [Hi [Hk Hal]]]]].
  exists k, more. split; [exact Hi|]. split; [exact Hk|]. intros Hsc. apply (Hal Hsc eq_refl).
Qed.

(* ================================================================ the excluded shapes deviate on the model *)
Definition dx_cfg : oconfig :=
  mkOconfig (mkOfmt [9] [] [10])%N [] [] [] true false [] [] 3 false [] s_html [[115;112;97;110]]%N
            false [] [] [] false None None.
(* <div><p>a\nb ${1} c</p> with a child <x> of p: the text has a line break and is written around the child *)
Definition dx_multiline : list anode :=
  [ANode (Some [100;105;118]%N) None None None
     [ANode (Some [112]%N) (Some [VStr [97;10;98;32]%N; VField 1 []; VStr [32;99]%N]) None None
        [ANode (Some [120]%N) None None None [] false] false] false].
(* <p>hi ${1} there</p> with a block child <div>: the rest of the text follows the child's closing line break *)
Definition dx_after : list anode :=
  [ANode (Some [112]%N) (Some [VStr [104;105;32]%N; VField 1 []; VStr [32;116;104;101;114;101]%N]) None None
     [ANode (Some [100;105;118]%N) None None None [] false] false].

Lemma depth_multiline_field_text_refuted :
  oc_format_skip dx_cfg = [] /\ cfg_depth dx_cfg = true /\ depth_dom dx_cfg dx_multiline = false /\
  ~ lines_indented (oc_fmt dx_cfg) (flat_map (tree_events dx_cfg) dx_multiline) (fchunks (html_format dx_cfg dx_multiline)).
Proof.
  split; [reflexivity|]. split; [reflexivity|]. split; [reflexivity|]. intros H.
  match type of H with lines_indented _ _ ?X =>
    let X' := eval vm_compute in X in
    specialize (H (firstn 7 X') match nth_error X' 7 with Some (CT _ s) => s | _ => [] end (skipn 8 X'))
  end.
  match type of H with ?A -> _ => assert (G : A) by (vm_compute; reflexivity); specialize (H G); clear G end.
  destruct H as [_ [k [more [Hi Hk]]]]. destruct Hi as [Hi|[Hi0 Hi]].
  - cbv [skipn] in Hi. unfold indent_chunk in Hi. injection Hi as Hi1 Hi2. subst more. vm_compute in Hk. subst k.
    vm_compute in Hi1. discriminate.
  - cbv [skipn] in Hi. subst more. subst k. vm_compute in Hk. discriminate.
Qed.

Lemma depth_text_after_children_refuted :
  oc_format_skip dx_cfg = [] /\ cfg_depth dx_cfg = true /\ depth_dom dx_cfg dx_after = false /\
  ~ lines_indented (oc_fmt dx_cfg) (flat_map (tree_events dx_cfg) dx_after) (fchunks (html_format dx_cfg dx_after)).
Proof.
  split; [reflexivity|]. split; [reflexivity|]. split; [reflexivity|]. intros H.
  match type of H with lines_indented _ _ ?X =>
    let X' := eval vm_compute in X in
    specialize (H (firstn 9 X') match nth_error X' 9 with Some (CT _ s) => s | _ => [] end (skipn 10 X'))
  end.
  match type of H with ?A -> _ => assert (G : A) by (vm_compute; reflexivity); specialize (H G); clear G end.
  destruct H as [_ [k [more [Hi Hk]]]]. destruct Hi as [Hi|[Hi0 Hi]].
  - cbv [skipn] in Hi. unfold indent_chunk in Hi. injection Hi as Hi1 Hi2. subst more. vm_compute in Hk. subst k.
    vm_compute in Hi1. discriminate.
  - cbv [skipn] in Hi. subst more. subst k. vm_compute in Hk. discriminate.
Qed.

(* <b><strong></strong></b> under output.formatLeafNode: the inline leaf <strong> is not line-broken, its tabstop and
   its closing tag go on lines of their own: the closing tag has 1 unit, its opening tag stands on the first line *)
Definition ax_cfg : oconfig :=
  mkOconfig (mkOfmt [9] [] [10])%N [] [] [] true true [] [] 3 false [] s_html [[98]; [115;116;114;111;110;103]]%N
            false [] [] [] false None None.
Definition ax_tree : list anode :=
  [ANode (Some [98]%N) None None None [ANode (Some [115;116;114;111;110;103]%N) None None None [] false] false].

Lemma close_aligned_inline_leaf_refuted :
  oc_format_skip ax_cfg = [] /\ cfg_depth ax_cfg = true /\ depth_dom ax_cfg ax_tree = true /\ align_dom ax_cfg ax_tree = false /\
  ~ lines_aligned (oc_fmt ax_cfg) (flat_map (tree_events ax_cfg) ax_tree) (fchunks (html_format ax_cfg ax_tree)).
Proof.
  split; [reflexivity|]. split; [reflexivity|]. split; [reflexivity|]. split; [reflexivity|]. intros H.
  match type of H with lines_aligned _ _ ?X =>
    let X' := eval vm_compute in X in
    specialize (H (firstn 7 X') match nth_error X' 7 with Some (CT _ s) => s | _ => [] end (skipn 8 X'))
  end.
  match type of H with ?A -> _ => assert (G : A) by (vm_compute; reflexivity); specialize (H G); clear G end.
  destruct H as [k [more [Hi [Hk Ha]]]]. destruct Hi as [Hi|[Hi0 Hi]].
  - cbv [skipn] in Hi. unfold indent_chunk in Hi. injection Hi as Hi1 Hi2. subst more. vm_compute in Hk. subst k.
    specialize (Ha eq_refl). cbv [firstn] in Ha.
    specialize (Ha [CT false [60;98]; CT false [62]]%N (CT false [60;115;116;114;111;110;103]%N)
                   [CT false [62]; CT true [10]; CT false [9;9]; CF 1 []]%N eq_refl).
    assert (Ho : opens_innermost (flat_map (tree_events ax_cfg) ax_tree) [CT false [60;98]; CT false [62]]%N
                   (CT false [60;115;116;114;111;110;103]%N) [CT false [62]; CT true [10]; CT false [9;9]; CF 1 []]%N).
    { split; [vm_compute; reflexivity|]. split; [vm_compute; reflexivity|].
      intros B1 B2 HB.
      destruct B1 as [|x1 B1]; [vm_compute; discriminate|]. cbn [app] in HB. injection HB as <- HB.
      destruct B1 as [|x2 B1]; [vm_compute; discriminate|]. cbn [app] in HB. injection HB as <- HB.
      destruct B1 as [|x3 B1]; [vm_compute; discriminate|]. cbn [app] in HB. injection HB as <- HB.
      destruct B1 as [|x4 B1]; [vm_compute; discriminate|]. cbn [app] in HB. injection HB as <- HB.
      destruct B1 as [|x5 B1]; [vm_compute; discriminate|]. discriminate. }
    destruct (Ha Ho) as [[_ Hk0]|[A1 [rest [more [HA _]]]]]; [discriminate|].
    destruct A1 as [|a1 A1]; [discriminate|]. cbn [app] in HA. injection HA as _ HA.
    destruct A1 as [|a2 A1]; [discriminate|]. cbn [app] in HA. injection HA as _ HA.
    destruct A1; discriminate.
  - cbv [skipn] in Hi. subst more. subst k. vm_compute in Hk. discriminate.
Qed.
