(* C12 indent_is_depth, part 2: the chunk list of the HTML formatter read as lines (FormatLines.Lines), for
   ALL trees of the domain [depth_dom] and ALL option records with an empty formatSkip list, comments off. *)
From Coq Require Import ZArith List Bool Lia ZifyBool.
From Emmet Require Import lib.Base model.MarkupTokenizer model.MarkupParser model.MarkupConvert
     model.OutStream model.FormatHtml proofs.IndentStream proofs.HtmlEvents proofs.OutStreamProofs proofs.FormatSteps
     proofs.FormatReach proofs.FormatProofs proofs.FormatChunks proofs.FormatDepth proofs.FormatLines.
Import ListNotations.
Local Open Scope Z_scope.

(* ================================================================ DOMAIN *)
(* a string that is written as one chunk and is no tag: no '<', no CR, no LF *)
Definition good (s : str) : bool := nolt s && nocrlf s.
Definition tok_good (t : vtok) : bool := match t with VStr s => good s | VField _ _ => true end.
Definition attr_good (a : aattr) : bool :=
  good (match aa_name a with Some x => x | None => [] end)
  && forallb tok_good (match aa_value a with Some v => v | None => [] end).
Definition tbl_good (t : option (list (str * str))) : bool :=
  match t with Some l => forallb (fun kv => good (snd kv)) l | None => true end.

(* option records: newline+baseIndent and indent do not start with '<', comments off, attribute tables good *)
Definition cfg_depth (c : oconfig) : bool :=
  nlt (nlb (oc_fmt c)) && nlt (of_indent (oc_fmt c)) && negb (oc_comment_enabled c)
  && tbl_good (oc_markup_attributes c) && tbl_good (oc_value_prefix c).

(* the last line of a text is not empty *)
Definition str_ends_visible (s : str) : bool := match rev (split_crlf s) with (_ :: _) :: _ => true | _ => false end.
Definition tok_ends_visible (t : vtok) : bool := match t with VField _ _ => true | VStr s => str_ends_visible s end.
Fixpoint ends_visible (toks : list vtok) : bool :=
  match toks with
  | [] => false
  | [t] => tok_ends_visible t
  | _ :: r => ends_visible r
  end.
Definition oval (v : option (list vtok)) : list vtok := match v with Some x => x | None => [] end.
Definition no_children (n : anode) : bool := match an_children n with [] => true | _ => false end.

(* the node ends with text on the current line: an element (its closing tag), or a text node without children
   whose last line is not empty *)
Definition ends_text (n : anode) : bool :=
  truthy_s (an_name n) || (no_children n && ends_visible (oval (an_value n))).

(* the last child of an element: an element, or line-broken itself, or a text that ends on its line *)
Definition last_ok (c : oconfig) (q : anode) : bool :=
  match rev (an_children q) with
  | [] => true
  | x :: _ => should_format c (Some q) x (length (an_children q) - 1) (an_children q) || ends_text x
  end.
Definition last_formatted (c : oconfig) (q : anode) : bool :=
  match rev (an_children q) with
  | [] => false
  | x :: _ => should_format c (Some q) x (length (an_children q) - 1) (an_children q)
  end.
(* an element whose text has a field and which has children (push_snippet writes the text around the
   children, without the inner formatting of a multi-line text): the text has no line break and, when the
   last child is line-broken, ends with that field.  These are exactly the shapes of the listed finding
   C12:depth-multiline-field-text-with-children (see [snippet_text_not_inner_formatted] in props/C12.v). *)
Definition snippet_ok (c : oconfig) (q : anode) : bool :=
  match an_value q, an_children q with
  | Some ((_ :: _) as value), _ :: _ =>
      match find_field_ix value with
      | Some ix => toks_nocrlf value && (negb (last_formatted c q) || match skipn (S ix) value with [] => true | _ => false end)
      | None => true
      end
  | _, _ => true
  end.

Fixpoint depth_node (c : oconfig) (n : anode) : bool :=
  match n with
  | ANode nm v _ at_ ch _ =>
      let name := match nm with Some x => x | None => [] end in
      good name && name_start name
      && (truthy_s nm || negb (truthy_l at_))
      && oval_nolt v
      && forallb attr_good (match at_ with Some l => l | None => [] end)
      && (negb (truthy_s nm) || (last_ok c n && snippet_ok c n))
      && forallb (depth_node c) ch
  end.
Definition depth_dom (c : oconfig) (forest : list anode) : bool := forallb (depth_node c) forest.

Lemma depth_node_eq c n :
  depth_node c n =
  good (match an_name n with Some x => x | None => [] end) && name_start (match an_name n with Some x => x | None => [] end)
  && (truthy_s (an_name n) || negb (truthy_l (an_attrs n)))
  && oval_nolt (an_value n)
  && forallb attr_good (match an_attrs n with Some l => l | None => [] end)
  && (negb (truthy_s (an_name n)) || (last_ok c n && snippet_ok c n))
  && forallb (depth_node c) (an_children n).
Proof. destruct n; reflexivity. Qed.

(* ================================================================ strings *)
Lemma good_app a b : good (a ++ b) = good a && good b.
Proof. unfold good. rewrite nolt_app, nocrlf_app. destruct (nolt a), (nolt b), (nocrlf a), (nocrlf b); reflexivity. Qed.
Lemma good_parts s : good s = true -> nolt s = true /\ nocrlf s = true.
Proof. unfold good. intros H. apply andb_true_iff in H. exact H. Qed.
Lemma nocrlf_str_case' s k : nocrlf (str_case s k) = nocrlf s.
Proof.
  unfold str_case. destruct k as [|k0 k]; [reflexivity|].
  destruct (str_eqb (k0 :: k) s_upper); [apply nocrlf_upper|apply nocrlf_lower].
Qed.
Lemma good_str_case s k : good (str_case s k) = good s.
Proof. unfold good. rewrite nolt_str_case, nocrlf_str_case'. reflexivity. Qed.
Lemma good_attr_quote c a b : good (attr_quote c a b) = true.
Proof. unfold attr_quote. destruct (aa_vtype a); destruct b; try destruct (str_eqb _ _); vm_compute; reflexivity. Qed.
Lemma good_cons ch s : good [ch] = true -> good s = true -> good (ch :: s) = true.
Proof. intros H1 H2. change (ch :: s) with ([ch] ++ s). rewrite good_app, H1, H2. reflexivity. Qed.

Lemma forallb_lstrip (P : char -> bool) s : forallb P s = true -> forallb P (lstrip s) = true.
Proof.
  unfold lstrip. induction s as [|ch s IH]; intros H; [reflexivity|]. cbn [lstrip_by].
  destruct (is_py_space ch); [|exact H]. apply IH. cbn [forallb] in H. apply andb_true_iff in H. apply H.
Qed.
Lemma good_lstrip s : good s = true -> good (lstrip s) = true.
Proof.
  intros H. apply good_parts in H. destruct H as [H1 H2]. unfold good, nolt, nocrlf in *.
  rewrite !forallb_lstrip by assumption. reflexivity.
Qed.

Lemma has_newline_nocrlf v : existsb has_newline v = false -> toks_nocrlf v = true.
Proof.
  induction v as [|t v IH]; intros H; [reflexivity|]. cbn [existsb] in H. apply orb_false_iff in H. destruct H as [H1 H2].
  cbn [toks_nocrlf forallb]. fold (toks_nocrlf v). rewrite (IH H2), andb_true_r.
  destruct t as [s|i nm]; [|reflexivity]. cbn [has_newline tok_nocrlf] in *.
  unfold nocrlf. induction s as [|ch s IHs]; [reflexivity|]. cbn [existsb forallb] in *.
  apply orb_false_iff in H1. destruct H1 as [Ha Hb]. rewrite (IHs Hb), andb_true_r. unfold is_crlf. rewrite Ha. reflexivity.
Qed.

Lemma toks_good_split v : forallb tok_good v = true -> toks_nolt v = true /\ toks_nocrlf v = true.
Proof.
  induction v as [|t v IH]; intros H; [split; reflexivity|]. cbn [forallb] in H. apply andb_true_iff in H.
  destruct H as [H1 H2]. destruct (IH H2) as [A B]. cbn [toks_nolt toks_nocrlf forallb]. fold (toks_nolt v). fold (toks_nocrlf v).
  rewrite A, B, !andb_true_r. destruct t as [s|i nm]; [|split; reflexivity]. apply good_parts in H1. exact H1.
Qed.
Lemma toks_good_join v : toks_nolt v = true -> toks_nocrlf v = true -> forallb tok_good v = true.
Proof.
  induction v as [|t v IH]; intros A B; [reflexivity|].
  cbn [toks_nolt toks_nocrlf forallb] in *. fold (toks_nolt v) in A. fold (toks_nocrlf v) in B.
  apply andb_true_iff in A. apply andb_true_iff in B. destruct A as [A1 A2], B as [B1 B2].
  rewrite (IH A2 B2), andb_true_r. destruct t as [s|i nm]; [|reflexivity]. unfold tok_good, good. cbn [tok_nolt tok_nocrlf] in *.
  rewrite A1, B1. reflexivity.
Qed.
Lemma forallb_firstn {A} (P : A -> bool) n l : forallb P l = true -> forallb P (firstn n l) = true.
Proof.
  rewrite !forallb_forall. intros H x Hx. apply H. rewrite <- (firstn_skipn n l). apply in_or_app. left. exact Hx.
Qed.
Lemma forallb_skipn {A} (P : A -> bool) n l : forallb P l = true -> forallb P (skipn n l) = true.
Proof.
  rewrite !forallb_forall. intros H x Hx. apply H. rewrite <- (firstn_skipn n l). apply in_or_app. right. exact Hx.
Qed.

(* ================================================================ depth of events *)
Lemma depth_after_app d a b : depth_after d (a ++ b) = depth_after (depth_after d a) b.
Proof.
  revert d. induction a as [|e a IH]; intros d; [reflexivity|]. cbn [app depth_after].
  destruct e as [nm [|]|nm]; apply IH.
Qed.

Lemma depth_tree c : forall n d, depth_after d (tree_events c n) = d.
Proof.
  induction n as [nm v rp at_ ch sc IH] using anode_ind'. intros d.
  assert (G : forall d, depth_after d (flat_map (tree_events c) ch) = d).
  { clear -IH. induction ch as [|x ch IHch]; intros d; [reflexivity|]. inversion IH; subst.
    cbn [flat_map]. rewrite depth_after_app, H1. apply IHch, H2. }
  rewrite tree_events_eq. cbn [an_name an_children an_value].
  destruct nm as [[|n0 nm']|].
  - destruct (truthy_l v); [apply G|reflexivity].
  - destruct (self_closed _); [reflexivity|]. cbn [depth_after]. rewrite depth_after_app, G. cbn [depth_after]. lia.
  - destruct (truthy_l v); [apply G|reflexivity].
Qed.
Lemma depth_forest c l d : depth_after d (flat_map (tree_events c) l) = d.
Proof. induction l as [|x l IH]; [reflexivity|]. cbn [flat_map]. rewrite depth_after_app, depth_tree. exact IH. Qed.

Lemma Dp_split E E0 X E1 : E = E0 ++ X ++ E1 -> Dp E (length E0 + length X) = depth_after (Dp E (length E0)) X.
Proof.
  intros ->. unfold Dp. rewrite app_assoc, firstn_app.
  rewrite <- app_length, firstn_all, Nat.sub_diag. cbn [firstn]. rewrite app_nil_r, depth_after_app.
  rewrite <- app_assoc, firstn_app, firstn_all, Nat.sub_diag. cbn [firstn]. rewrite app_nil_r. reflexivity.
Qed.

(* ================================================================ the formatter, block by block *)
Section Depth.
Variable c : oconfig.
Variable E : list sev.
Let f := oc_fmt c.
Hypothesis Hskip : oc_format_skip c = [].
Hypothesis Hcfg : cfg_depth c = true.

Lemma Hcfg_parts : nlt (nlb f) = true /\ nlt (of_indent f) = true /\ oc_comment_enabled c = false
                   /\ tbl_good (oc_markup_attributes c) = true /\ tbl_good (oc_value_prefix c) = true.
Proof.
  pose proof Hcfg as H. unfold cfg_depth in H.
  apply andb_true_iff in H. destruct H as [H H5]. apply andb_true_iff in H. destruct H as [H H4].
  apply andb_true_iff in H. destruct H as [H H3]. apply andb_true_iff in H. destruct H as [H1 H2].
  apply negb_true_iff in H3. repeat split; assumption.
Qed.
Lemma Hnl : nlt (nlb f) = true. Proof. exact (proj1 Hcfg_parts). Qed.
Lemma Hind : nlt (of_indent f) = true. Proof. exact (proj1 (proj2 Hcfg_parts)). Qed.

Notation LinesE := (Lines f E).
Definition LI (st : fstate) (n : nat) (p : option Z) : Prop := LinesE (O, None) (fchunks st) (n, p).
Notation PO := (Popen E).
Notation PC := (Pclose E).
Notation D := (Dp E).

(* ---------------------------------------------------------------- plain chunks: no line break, no tag *)
Definition plain (x : chunk) : bool := negb (is_nl x) && match chunk_tags x with [] => true | _ => false end.

Lemma Lines_plain s0 : forall Y X n p,
  LinesE s0 X (n, p) -> PO n p -> forallb plain Y = true ->
  exists p', LinesE s0 (X ++ Y) (n, p') /\ PO n p' /\ (p = None -> p' = None)
             /\ (match rev Y with x :: _ => transparent x = false | [] => False end -> p' = None).
Proof.
  induction Y as [|x Y IH]; intros X n p H Hp HY.
  - exists p. rewrite app_nil_r. repeat split; try assumption; [exact (fun e => e)|intros []].
  - cbn [forallb] in HY. apply andb_true_iff in HY. destruct HY as [Hx HY].
    unfold plain in Hx. apply andb_true_iff in Hx. destruct Hx as [Hx1 Hx2]. apply negb_true_iff in Hx1.
    assert (Ht : chunk_tags x = []) by (destruct (chunk_tags x); [reflexivity|discriminate]).
    destruct (Lines_text f E s0 X n p x H Hp Hx1 Ht) as [p1 [H1 [Hp1 [Hv1 Hn1]]]].
    destruct (IH (X ++ [x]) n p1 H1 Hp1 HY) as [p2 [H2 [Hp2 [Hn2 Hv2]]]].
    exists p2. rewrite <- app_assoc in H2. cbn [app] in H2. repeat split; try assumption.
    + intros e. apply Hn2, Hn1, e.
    + cbn [rev]. intros Hl. destruct (rev Y) as [|y r] eqn:Er.
      * cbn [app] in Hl. apply Hn2, Hv1, Hl.
      * apply Hv2. cbn [app] in Hl. exact Hl.
Qed.

(* the chunks of a string without line break *)
Lemma string_chunks_nocrlf L s : nocrlf s = true -> string_chunks f L s = match s with [] => [] | _ => [CT false s] end.
Proof. intros H. unfold string_chunks. rewrite (split_crlf_nocrlf s H). destruct s; reflexivity. Qed.

Lemma plain_good_string L s : good s = true -> forallb plain (string_chunks f L s) = true.
Proof.
  intros H. apply good_parts in H. destruct H as [H1 H2]. rewrite (string_chunks_nocrlf L s H2).
  destruct s as [|ch s]; [reflexivity|]. cbn [forallb]. unfold plain. cbn [is_nl negb chunk_tags].
  rewrite (nlt_text_tag _ (nolt_nlt _ H1)). reflexivity.
Qed.

Lemma plain_good_tokens L F v : forallb tok_good v = true -> forallb plain (token_chunks f L F v) = true.
Proof.
  induction v as [|t v IH]; intros H; [reflexivity|]. cbn [forallb] in H. apply andb_true_iff in H. destruct H as [H1 H2].
  cbn [token_chunks flat_map]. fold (token_chunks f L F v). rewrite forallb_app, (IH H2), andb_true_r.
  destruct t as [s|i nm]; [apply plain_good_string, H1|reflexivity].
Qed.

(* [st'] is [st] followed by plain chunks, at the same level *)
Definition PL (st st' : fstate) : Prop :=
  lvl st' = lvl st /\ exists Y, fchunks st' = fchunks st ++ Y /\ forallb plain Y = true.
Lemma PL_refl st : PL st st.
Proof. split; [reflexivity|]. exists []. rewrite app_nil_r. split; reflexivity. Qed.
Lemma PL_trans a b d : PL a b -> PL b d -> PL a d.
Proof.
  intros [L1 [Y1 [E1 P1]]] [L2 [Y2 [E2 P2]]]. split; [congruence|]. exists (Y1 ++ Y2).
  rewrite E2, E1, <- app_assoc, forallb_app, P1, P2. split; reflexivity.
Qed.
Lemma PL_push_str s st : good s = true -> PL st (push_str c s st).
Proof.
  intros H. split; [apply lvl_push_str|]. exists (string_chunks f (lvl st) s).
  split; [apply ch_push_str|apply plain_good_string, H].
Qed.
Lemma PL_push_tokens v st : forallb tok_good v = true -> PL st (push_tokens c v st).
Proof.
  intros H. split; [apply lvl_push_tokens|]. exists (token_chunks f (lvl st) (fs_field st) v).
  split; [apply (proj1 (push_tokens_spec c v st))|apply plain_good_tokens, H].
Qed.
Lemma PL_fold {A} (g : fstate -> A -> fstate) (l : list A) :
  (forall st a, In a l -> PL st (g st a)) -> forall st, PL st (fold_left g l st).
Proof.
  induction l as [|a l IH]; intros Hg st; cbn [fold_left]; [apply PL_refl|].
  eapply PL_trans; [apply Hg; left; reflexivity|]. apply IH. intros st' a' Hin. apply Hg. right. exact Hin.
Qed.

Lemma LI_PL st st' n p :
  LI st n p -> PO n p -> PL st st' -> exists p', LI st' n p' /\ PO n p' /\ (p = None -> p' = None).
Proof.
  intros H Hp [_ [Y [EY PY]]]. unfold LI. rewrite EY.
  destruct (Lines_plain (O, None) Y (fchunks st) n p H Hp PY) as [p' [H1 [H2 [H3 _]]]].
  exists p'. repeat split; assumption.
Qed.

(* ---------------------------------------------------------------- attributes *)
Lemma assoc_str_good {k} {l : list (str * str)} {v} :
  forallb (fun kv => good (snd kv)) l = true -> assoc_str k l = Some v -> good v = true.
Proof.
  induction l as [|[k' v'] l IH]; intros H E0; [discriminate|].
  cbn [forallb snd] in H. apply andb_true_iff in H. destruct H as [H1 H2].
  cbn [assoc_str] in E0. destruct (str_eqb k k'); [injection E0 as <-; exact H1|apply IH; assumption].
Qed.
Lemma gmv_good {key data m v} :
  forallb (fun kv => good (snd kv)) data = true -> get_multi_value key data m = Some v -> good v = true.
Proof.
  intros H E0. unfold get_multi_value in E0.
  destruct (if m then assoc_str (key ++ [c_star]) data else None) as [[|x0 x]|] eqn:Es.
  - exact (assoc_str_good H E0).
  - injection E0 as <-. destruct m; [exact (assoc_str_good H Es)|discriminate].
  - exact (assoc_str_good H E0).
Qed.

Lemma PL_attr_write name v2 lq rq st :
  good name = true -> good lq = true -> good rq = true -> forallb tok_good (oval v2) = true ->
  PL st (attr_write c name v2 lq rq st).
Proof.
  intros Hn Hl Hr Hv. unfold attr_write. cbv zeta.
  assert (H1 : PL st (push_str c (c_space :: name) st)) by (apply PL_push_str, (good_cons c_space); [reflexivity|exact Hn]).
  assert (Hq : good (c_eq :: lq ++ rq) = true) by (apply (good_cons c_eq); [reflexivity|rewrite good_app, Hl, Hr; reflexivity]).
  destruct v2 as [[|t v]|].
  - destruct (negb _); [|exact H1]. eapply PL_trans; [exact H1|]. apply PL_push_str, Hq.
  - eapply PL_trans; [exact H1|]. eapply PL_trans; [apply PL_push_str, (good_cons c_eq); [reflexivity|exact Hl]|].
    eapply PL_trans; [apply PL_push_tokens, Hv|]. apply PL_push_str, Hr.
  - destruct (negb _); [|exact H1]. eapply PL_trans; [exact H1|]. apply PL_push_str, Hq.
Qed.

Lemma PL_push_attribute a st : attr_good a = true -> PL st (push_attribute c a st).
Proof.
  intros Ha. rewrite push_attribute_unfold.
  pose proof Hcfg_parts as HH; destruct HH as [_ [_ [_ [Hma Hvp]]]].
  unfold attr_good in Ha. apply andb_true_iff in Ha. destruct Ha as [Hn Hv].
  destruct (aa_name a) as [[|n0 nm]|]; try apply PL_refl. cbv zeta.
  set (nm0 := n0 :: nm) in *.
  assert (Hname : good (attr_out_name c a nm0) = true).
  { unfold attr_out_name, attr_name. rewrite good_str_case.
    destruct (oc_markup_attributes c) as [[|kv tbl]|]; try exact Hn.
    destruct (get_multi_value nm0 (kv :: tbl) (aa_multiple a)) as [[|m0 m]|] eqn:E0; try exact Hn.
    exact (gmv_good Hma E0). }
  assert (Hpre : match attr_prefix c a nm0 with Some p => good p = true | None => True end).
  { unfold attr_prefix. destruct (oc_value_prefix c) as [[|kv tbl]|]; try exact I.
    destruct (get_multi_value nm0 (kv :: tbl) (aa_multiple a)) eqn:E0; [|exact I]. exact (gmv_good Hvp E0). }
  destruct (attr_v1 c a nm0) as [[value1 lq] rq] eqn:Et.
  assert (Hq : forallb tok_good (oval value1) = true /\ good lq = true /\ good rq = true).
  { unfold attr_v1 in Et.
    assert (Dflt : (aa_value a, attr_quote c a true, attr_quote c a false) = (value1, lq, rq) ->
                   forallb tok_good (oval value1) = true /\ good lq = true /\ good rq = true).
    { intros E0. injection E0 as <- <- <-. repeat split; [exact Hv|apply good_attr_quote|apply good_attr_quote]. }
    destruct (attr_prefix c a nm0) as [[|p0 pf]|]; try (apply Dflt; exact Et).
    destruct (aa_value a) as [[|[val|i fn] [|t2 rest]]|]; try (apply Dflt; exact Et).
    injection Et as <- <- <-. cbn [oval forallb tok_good] in Hv. rewrite andb_true_r in Hv.
    repeat split.
    - cbn [oval forallb tok_good]. rewrite andb_true_r.
      destruct (is_prop_key val).
      + change (p0 :: pf ++ c_dot :: val) with ((p0 :: pf) ++ [c_dot] ++ val).
        rewrite !good_app, Hpre, Hv. reflexivity.
      + change (p0 :: pf ++ c_lbrack :: c_squote :: val ++ [c_squote; c_rbrack])
          with ((p0 :: pf) ++ [c_lbrack; c_squote] ++ val ++ [c_squote; c_rbrack]).
        rewrite !good_app, Hpre, Hv. reflexivity.
    - destruct (oc_jsx c); [reflexivity|apply good_attr_quote].
    - destruct (oc_jsx c); [reflexivity|apply good_attr_quote]. }
  destruct Hq as [Hv1 [Hlq Hrq]].
  apply PL_attr_write; try assumption.
  unfold attr_value2.
  destruct (is_boolean_attribute c a && negb (truthy_l value1)).
  - destruct (negb (oc_compact_boolean c)); [|exact Hv1].
    cbn [oval forallb tok_good]. rewrite Hname. reflexivity.
  - destruct (negb (truthy_l value1)); [reflexivity|exact Hv1].
Qed.

Lemma PL_el_attrs node st :
  forallb attr_good (match an_attrs node with Some l => l | None => [] end) = true -> PL st (el_attrs c node st).
Proof.
  intros Ha. unfold el_attrs. destruct (an_attrs node) as [[|a0 l]|]; try apply PL_refl.
  apply PL_fold. intros st' a Hin. destruct (should_output_attribute a); [|apply PL_refl].
  apply PL_push_attribute. rewrite forallb_forall in Ha. apply Ha, Hin.
Qed.

Lemma comment_off text n st : comment_node c text n st = st.
Proof.
  pose proof Hcfg_parts as HH; destruct HH as [_ [_ [Hce _]]]. unfold comment_node. destruct text; [reflexivity|].
  unfold should_comment. rewrite Hce. reflexivity.
Qed.

(* ---------------------------------------------------------------- text with line breaks *)
Lemma Lines_lines s0 L n : L = D n -> forall ls X p,
  LinesE s0 X (n, p) -> PO n p -> Forall (fun l => nlt l = true) ls ->
  exists p', LinesE s0 (X ++ flat_map (line_chunks f L) ls) (n, p') /\ PO n p' /\ (ls = [] -> p' = p)
             /\ (match rev ls with (_ :: _) :: _ => True | _ => False end -> p' = None).
Proof.
  intros HL. subst L. induction ls as [|l ls IH]; intros X p H Hp Hls.
  - exists p. cbn [flat_map]. rewrite app_nil_r. repeat split; try assumption. intros [].
  - pose proof (Forall_inv Hls) as Hl; pose proof (Forall_inv_tail Hls) as Hls'; cbv beta in Hl.
    pose proof (Lines_nl f E s0 X n p (D n) (Some None) H Hp) as H1. cbn [units] in H1.
    assert (Hp1 : PO n (Some (D n))) by (intros k Hk; injection Hk as <-; reflexivity).
    destruct (Lines_text f E s0 _ n _ (CT false l) H1 Hp1 eq_refl (nlt_text_tag l Hl)) as [p2 [H2 [Hp2 [Hv2 _]]]].
    destruct (IH _ p2 H2 Hp2 Hls') as [p3 [H3 [Hp3 [He3 Hv3]]]].
    exists p3. cbn [flat_map]. unfold line_chunks at 1. rewrite <- !app_assoc in *. cbn [app] in *.
    repeat split; try assumption; [discriminate|].
    cbn [rev]. intros Hl3. destruct ls as [|l2 ls2].
    + cbn [rev app] in Hl3. rewrite (He3 eq_refl). apply Hv2. destruct l; [destruct Hl3|reflexivity].
    + apply Hv3. destruct (rev (l2 :: ls2)) as [|y r] eqn:Er.
      * apply (f_equal (@length _)) in Er. rewrite rev_length in Er. discriminate.
      * cbn [app] in Hl3. exact Hl3.
Qed.

Lemma Lines_string s0 L n s X p :
  LinesE s0 X (n, p) -> PO n p -> nolt s = true -> (L = D n \/ nocrlf s = true) ->
  exists p', LinesE s0 (X ++ string_chunks f L s) (n, p') /\ PO n p'
             /\ (p = None -> nocrlf s = true -> p' = None) /\ (str_ends_visible s = true -> p' = None).
Proof.
  intros H Hp Hs HL. destruct (nocrlf s) eqn:Ec.
  - rewrite (string_chunks_nocrlf L s Ec). unfold str_ends_visible. rewrite (split_crlf_nocrlf s Ec).
    destruct s as [|ch s].
    + exists p. rewrite app_nil_r. repeat split; try assumption; [intros e _; exact e|discriminate].
    + destruct (Lines_text f E s0 X n p (CT false (ch :: s)) H Hp eq_refl (nlt_text_tag _ (nolt_nlt _ Hs)))
        as [p1 [H1 [Hp1 [Hv1 Hn1]]]].
      exists p1. repeat split; try assumption; [intros e _; apply Hn1, e|intros _; apply Hv1; reflexivity].
  - destruct HL as [HL|HL]; [|discriminate]. unfold string_chunks, str_ends_visible.
    pose proof (split_crlf_nolt s Hs) as Hl. destruct (split_crlf s) as [|l0 ls]; [|pose proof (Forall_inv Hl) as Hl0; pose proof (Forall_inv_tail Hl) as Hls; cbv beta in Hl0].
    + exists p. rewrite app_nil_r. repeat split; try assumption; discriminate.
    + destruct (Lines_text f E s0 X n p (CT false l0) H Hp eq_refl (nlt_text_tag _ (nolt_nlt _ Hl0)))
        as [p1 [H1 [Hp1 [Hv1 _]]]].
      assert (Hls' : Forall (fun l => nlt l = true) ls) by (eapply Forall_impl; [|exact Hls]; intros a Ha; apply nolt_nlt, Ha).
      destruct (Lines_lines s0 L n HL ls _ p1 H1 Hp1 Hls') as [p2 [H2 [Hp2 [He2 Hv2]]]].
      exists p2. rewrite <- app_assoc in H2. cbn [app] in H2. repeat split; try assumption; [discriminate|].
      cbn [rev]. intros Hv. destruct ls as [|l2 ls2].
      * cbn [rev app] in Hv. rewrite (He2 eq_refl). apply Hv1. destruct l0; [discriminate|reflexivity].
      * apply Hv2. destruct (rev (l2 :: ls2)) as [|y r] eqn:Er.
        -- apply (f_equal (@length _)) in Er. rewrite rev_length in Er. discriminate.
        -- cbn [app] in Hv. destruct y; [discriminate|exact I].
Qed.

Lemma Lines_tokens s0 L F n : forall toks X p,
  LinesE s0 X (n, p) -> PO n p -> toks_nolt toks = true -> (L = D n \/ toks_nocrlf toks = true) ->
  exists p', LinesE s0 (X ++ token_chunks f L F toks) (n, p') /\ PO n p'
             /\ (p = None -> toks_nocrlf toks = true -> p' = None) /\ (ends_visible toks = true -> p' = None)
             /\ (toks = [] -> p' = p).
Proof.
  induction toks as [|t ts IH]; intros X p H Hp Hn HL.
  - exists p. cbn [token_chunks flat_map]. rewrite app_nil_r. repeat split; try assumption; [intros e _; exact e|discriminate].
  - cbn [toks_nolt forallb] in Hn. fold (toks_nolt ts) in Hn. apply andb_true_iff in Hn. destruct Hn as [Hn1 Hn2].
    assert (HL1 : L = D n \/ tok_nocrlf t = true).
    { destruct HL as [HL|HL]; [left; exact HL|right]. cbn [toks_nocrlf forallb] in HL. apply andb_true_iff in HL. apply HL. }
    assert (HL2 : L = D n \/ toks_nocrlf ts = true).
    { destruct HL as [HL|HL]; [left; exact HL|right]. cbn [toks_nocrlf forallb] in HL. apply andb_true_iff in HL. apply HL. }
    assert (G : exists p1, LinesE s0 (X ++ match t with VStr s => string_chunks f L s | VField i nm => [CF (F + i)%N nm] end) (n, p1)
                           /\ PO n p1 /\ (p = None -> tok_nocrlf t = true -> p1 = None) /\ (tok_ends_visible t = true -> p1 = None)).
    { destruct t as [s|i nm].
      - apply Lines_string; assumption.
      - destruct (Lines_text f E s0 X n p (CF (F + i)%N nm) H Hp eq_refl eq_refl) as [p1 [H1 [Hp1 [Hv1 Hnn1]]]].
        exists p1. repeat split; try assumption; [intros e _; apply Hnn1, e|intros _; apply Hv1; reflexivity]. }
    destruct G as [p1 [H1 [Hp1 [Hc1 Hv1]]]].
    destruct (IH _ p1 H1 Hp1 Hn2 HL2) as [p2 [H2 [Hp2 [Hc2 [Hv2 He2]]]]].
    exists p2. cbn [token_chunks flat_map]. fold (token_chunks f L F ts). rewrite app_assoc.
    repeat split; try assumption.
    + intros e Hc. cbn [toks_nocrlf forallb] in Hc. apply andb_true_iff in Hc. destruct Hc as [Ha Hb].
      apply Hc2; [apply Hc1; assumption|exact Hb].
    + destruct ts as [|t2 ts2]; [|exact Hv2].
      intros Hv. cbn [ends_visible] in Hv. rewrite (He2 eq_refl). apply Hv1, Hv.
    + discriminate.
Qed.
End Depth.
