(* C04 -- text_literal: tokenize + parse + convert of `name{T}`. *)
From Coq Require Import ZArith List Bool Lia.
From Emmet Require Import lib.Base model.MarkupTokenizer model.MarkupParser model.MarkupConvert model.MarkupResolve
     proofs.ParserSpine proofs.TextSpec proofs.TextProofs proofs.TextParse.
Local Open Scope nat_scope.

Lemma parse_single jsx b l : block_ok jsx b l -> parse jsx b = POk [leaf_node l].
Proof.
  intros Hb. unfold parse. rewrite (stmts_flat jsx [(l, SSibling)] b (flat_last jsx b l Hb)).
  cbn [fold_left step close_all elements_of add_child app]. rewrite skipn_all. reflexivity.
Qed.

Lemma text_tokens_plain pos T : Forall not_expr_bracket (text_tokens pos T).
Proof.
  unfold text_tokens. apply Forall_app. split.
  - destruct (ws_part T); repeat constructor.
  - destruct (body_part T); repeat constructor.
Qed.

(* value of a text payload *)
Definition text_value (T : str) : option (list vtok) :=
  match T with [] => None | _ => Some [VStr (unescape T)] end.

Lemma ws_body T : ws_part T ++ body_part T = T.
Proof. apply firstn_skipn. Qed.

Lemma stringify_text env pos T st :
  stringify_value env (text_tokens pos T) st =
    Ok (match T with [] => [] | _ => [VStr (unescape T)] end, st).
Proof.
  unfold text_tokens.
  assert (HW : Forall (fun c => is_space c = true) (ws_part T)) by apply span_all.
  pose proof (ws_body T) as HT.
  pose proof (unescape_ws (ws_part T) (body_part T) HW) as HU. rewrite HT in HU.
  destruct (ws_part T) as [|w W] eqn:EW; destruct (body_part T) as [|b B] eqn:EB.
  - cbn [app] in HT. subst T. reflexivity.
  - cbn [app] in HT. subst T. reflexivity.
  - rewrite app_nil_r in HT. clear EW EB. subst T. cbn [app].
    unfold stringify_value. cbn [stringify_value_acc stringify tk].
    rewrite HU. cbn [unescape]. rewrite app_nil_r. reflexivity.
  - clear EW EB. subst T. cbn [app] in HU |- *.
    unfold stringify_value. cbn [stringify_value_acc stringify tk app]. rewrite HU. reflexivity.
Qed.

Lemma text_tokens_nonempty pos T : T <> [] -> exists t l, text_tokens pos T = t :: l.
Proof.
  intros HT. unfold text_tokens. pose proof (ws_body T) as E.
  destruct (ws_part T) as [|w W]; [|eexists; eexists; reflexivity].
  destruct (body_part T) as [|b B]; [|eexists; eexists; reflexivity].
  cbn [app] in E. congruence.
Qed.

Lemma conv_text env (name : str) T pos nt st :
  name <> [] -> tk nt = TLiteral name ->
  conv_stmt env (TElem (Some [nt]) None (Some (text_tokens pos T)) None false []) st =
    Ok ([ANode (Some name) (text_value T) None None [] false], st).
Proof.
  intros Hne Hn.
  destruct name as [|c name']; [congruence|].
  destruct T as [|t0 T'].
  - cbn. unfold stringify. rewrite Hn. cbn. rewrite app_nil_r. reflexivity.
  - destruct (text_tokens_nonempty pos (t0 :: T') ltac:(discriminate)) as [t [l E]].
    cbn [conv_stmt nonempty]. cbn [stringify_name bind]. unfold stringify at 1. rewrite Hn.
    cbn [bind]. rewrite E. cbn [nonempty]. rewrite <- E. rewrite stringify_text.
    cbn. rewrite app_nil_r. reflexivity.
Qed.

Theorem text_literal jsx env mr name T :
  name_ok name -> bal 0 T = true -> ce_text env = WNone ->
  parse_abbr jsx env mr (name ++ c_lbrace :: T ++ [c_rbrace]) =
    Ok [ANode (Some name) (text_value T) None None [] false].
Proof.
  intros Hname Hb Htext. unfold parse_abbr.
  rewrite (tokenize_text name T Hname Hb). unfold text_abbr_tokens.
  set (n := length name).
  set (nt := mkTok (TLiteral name) 0 n).
  set (open := mkTok (TBracket true BExpr) n (n + 1)).
  set (close := mkTok (TBracket false BExpr) (n + 1 + length T) (n + 1 + length T + 1)).
  set (inner := text_tokens (n + 1) T).
  change ([nt; open] ++ inner ++ [close]) with (nt :: open :: inner ++ [close]).
  rewrite (parse_single jsx _ _ (block_text jsx nt open close name inner eq_refl eq_refl eq_refl
                                  (text_tokens_plain _ _))).
  unfold convert, leaf_node.
  cbn [lf_name lf_attrs lf_value lf_repeat lf_self].
  cbn [conv_list]. unfold inner.
  rewrite (conv_text env name T (n + 1) nt _ (proj1 Hname) eq_refl).
  cbn [bind app]. rewrite Htext. reflexivity.
Qed.
