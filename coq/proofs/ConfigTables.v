(* C20 on the GENERATED tables (gen/GenConfig.v): a complete sweep, by
   computation, of every known (type, syntax) pair x every section x all 2^6
   subsets of layers (built-in defaults + the five overriding layers) in which a
   probe key is planted.  Re-proved whenever the tables or the statement order
   of merged_data change. *)
From Emmet Require Import lib.Base lib.ConfigLib gen.GenLayerOrder gen.GenConfig model.Config proofs.ConfigProofs.
Local Open Scope Z_scope.

Definition builtin_tables : builtin Z :=
  {| b_default := default_config; b_syntax_config := syntax_config; b_default_syntaxes := default_syntaxes |}.

(* every (type, syntax) pair listed in SYNTAXES *)
Definition known_pairs : list (str * str) :=
  flat_map (fun e => map (fun s => (fst e, s)) (snd e)) syntaxes.

(* "zz.c20.probe": a key no built-in table uses (checked below) *)
Definition probe : str := [122; 122; 46; 99; 50; 48; 46; 112; 114; 111; 98; 101]%N.

Definition subset := layer -> bool.
Definition subset_of_bits (b : list bool) : subset :=
  fun l => match b, l with
           | [d; td; sd; to; so; u], Default => d
           | [d; td; sd; to; so; u], TypeDefaults => td
           | [d; td; sd; to; so; u], SyntaxDefaults => sd
           | [d; td; sd; to; so; u], TypeOverride => to
           | [d; td; sd; to; so; u], SyntaxOverride => so
           | [d; td; sd; to; so; u], User => u
           | _, _ => false
           end.
Fixpoint bitvectors (n : nat) : list (list bool) :=
  match n with
  | O => [[]]
  | S m => flat_map (fun v => [false :: v; true :: v]) (bitvectors m)
  end.
Definition all_subsets : list (list bool) := bitvectors 6.

(* each layer plants its own marker value *)
Definition marker (l : layer) : Z := - (1 + Z.of_nat (layer_index l)).

Definition plant_cfg (on : bool) (sec : str) (v : Z) (c : layer_cfg Z) : layer_cfg Z :=
  if on then dset sec (dset probe v (section_of c sec)) c else c.
Definition plant_table (on : bool) (name sec : str) (v : Z) (t : cfg_table Z) : cfg_table Z :=
  if on then dset name (plant_cfg true sec v (table_get t name)) t else t.

Definition planted_env (ty syn sec : str) (s : subset) : env Z :=
  {| e_default := plant_cfg (s Default) sec (marker Default) default_config;
     e_syntax_config :=
       plant_table (s SyntaxDefaults) syn sec (marker SyntaxDefaults)
         (plant_table (s TypeDefaults) ty sec (marker TypeDefaults) syntax_config);
     e_global :=
       plant_table (s SyntaxOverride) syn sec (marker SyntaxOverride)
         (plant_table (s TypeOverride) ty sec (marker TypeOverride) []);
     e_user := plant_cfg (s User) sec (marker User) [] |}.

(* documented precedence, computed directly from the subset *)
Definition expected (s : subset) : option Z :=
  first_some (fun l => if s l then Some (marker l) else None) (rev documented_order).

Definition optZ_eqb (a b : option Z) : bool :=
  match a, b with
  | Some x, Some y => x =? y
  | None, None => true
  | _, _ => false
  end.
Lemma optZ_eqb_eq a b : optZ_eqb a b = true -> a = b.
Proof. destruct a, b; simpl; intros H; try discriminate; try reflexivity. apply Z.eqb_eq in H. subst. reflexivity. Qed.

(* all other keys: the planted result with the probe entry removed is the plain
   result, entry for entry and in the same order *)
Definition remove_key (p : str) (d : dict Z) : dict Z := filter (fun kv => negb (str_eqb (fst kv) p)) d.
Fixpoint dict_eqb (a b : dict Z) : bool :=
  match a, b with
  | [], [] => true
  | (k, v) :: a', (k', v') :: b' => str_eqb k k' && (v =? v') && dict_eqb a' b'
  | _, _ => false
  end.
Lemma dict_eqb_eq : forall a b, dict_eqb a b = true -> a = b.
Proof.
  induction a as [|[k v] a IH]; destruct b as [|[k' v'] b]; simpl; intros H; try discriminate; [reflexivity|].
  apply andb_true_iff in H. destruct H as [H H3]. apply andb_true_iff in H. destruct H as [H1 H2].
  apply str_eqb_eq in H1. apply Z.eqb_eq in H2. apply IH in H3. subst. reflexivity.
Qed.
Lemma dget_remove_key p k d : k <> p -> dget k (remove_key p d) = dget k d.
Proof.
  intros Hne. induction d as [|[k0 v0] d IH]; [reflexivity|]. unfold dget, remove_key in *. simpl.
  destruct (str_eqb k0 p) eqn:E; simpl.
  - apply str_eqb_eq in E. subst k0. rewrite (str_eqb_neq _ _ Hne). exact IH.
  - destruct (str_eqb k k0); [reflexivity|exact IH].
Qed.

(* one cell of the sweep: the probe has the documented value and everything else
   is as in the plain result r0 *)
Definition check_cell (ty syn sec : str) (r0 : dict Z) (bits : list bool) : bool :=
  let s := subset_of_bits bits in
  let r := merged_data (planted_env ty syn sec s) ty syn sec in
  optZ_eqb (dget probe r) (expected s) && dict_eqb (remove_key probe r) r0.

Definition plain_result (ty syn sec : str) : dict Z :=
  merged_data (planted_env ty syn sec (fun _ => false)) ty syn sec.
Definition planted_result (ty syn sec : str) (bits : list bool) : dict Z :=
  merged_data (planted_env ty syn sec (subset_of_bits bits)) ty syn sec.

(* the plain result is computed once per (pair, section) and shared by the 64 cells *)
Definition cell_ok (p : str * str) (sec : str) : list bool -> bool :=
  let r0 := plain_result (fst p) (snd p) sec in
  fun bits => check_cell (fst p) (snd p) sec r0 bits.

(* The statement is spelled out (not hidden behind a constant) so that it is
   syntactically the premise of [forallb3] below: the kernel then never has to
   unfold it, which would mean evaluating the sweep with the lazy machine. *)
Lemma sweep_ok :
  forallb (fun p => forallb (fun sec => forallb (cell_ok p sec) all_subsets) init_sections) known_pairs = true.
Proof. vm_cast_no_check (eq_refl true). Qed.

(* sanity of the sweep itself: type and syntax names never coincide (so the type
   layers and the syntax layers are planted independently) *)
Lemma known_pairs_distinct : forallb (fun p => negb (str_eqb (fst p) (snd p))) known_pairs = true.
Proof. vm_compute. reflexivity. Qed.

(* lifting a nested boolean sweep to a quantified statement (generic and
   syntactically aligned with [sweep], so that no table is unfolded while the
   kernel checks it) *)
Lemma forallb3 {A B C} (P : A -> B -> C -> bool) (la : list A) (lb : list B) (lc : list C) :
  forallb (fun a => forallb (fun b => forallb (P a b) lc) lb) la = true ->
  forall a, In a la -> forall b, In b lb -> forall c, In c lc -> P a b c = true.
Proof.
  intros H a Ha b Hb c Hc.
  rewrite forallb_forall in H. specialize (H a Ha).
  rewrite forallb_forall in H. specialize (H b Hb).
  rewrite forallb_forall in H. exact (H c Hc).
Qed.

Lemma cell_sound (r r0 : dict Z) (exp : option Z) :
  optZ_eqb (dget probe r) exp && dict_eqb (remove_key probe r) r0 = true ->
  dget probe r = exp /\ forall k, k <> probe -> dget k r = dget k r0.
Proof.
  intros H. apply andb_true_iff in H. destruct H as [H1 H2]. split; [apply optZ_eqb_eq; exact H1|].
  intros k Hk. apply dict_eqb_eq in H2. rewrite <- H2. symmetry. apply dget_remove_key. exact Hk.
Qed.

Lemma cell_ok_sound ty syn sec bits :
  cell_ok (ty, syn) sec bits = true ->
  dget probe (planted_result ty syn sec bits) = expected (subset_of_bits bits) /\
  forall k, k <> probe -> dget k (planted_result ty syn sec bits) = dget k (plain_result ty syn sec).
Proof. intros H. apply cell_sound. exact H. Qed.

Theorem tables_for_all_syntaxes :
  forall ty syn, In (ty, syn) known_pairs ->
  forall sec, In sec init_sections ->
  forall bits, In bits all_subsets ->
    dget probe (planted_result ty syn sec bits) = expected (subset_of_bits bits) /\
    forall k, k <> probe -> dget k (planted_result ty syn sec bits) = dget k (plain_result ty syn sec).
Proof.
  intros ty syn Hp sec Hsec bits Hb. apply cell_ok_sound.
  exact (forallb3 cell_ok known_pairs init_sections all_subsets sweep_ok (ty, syn) Hp sec Hsec bits Hb).
Qed.

(* every cell really is in the sweep *)
Lemma bitvectors_complete : forall n v, length v = n -> In v (bitvectors n).
Proof.
  induction n as [|n IH]; intros v H.
  - destruct v; [left; reflexivity|discriminate].
  - destruct v as [|b v]; [discriminate|]. simpl. apply in_flat_map. exists v. split.
    + apply IH. simpl in H. congruence.
    + destruct b; simpl; tauto.
Qed.
Lemma all_subsets_complete : forall d td sd to so u : bool, In [d; td; sd; to; so; u] all_subsets.
Proof. intros. apply bitvectors_complete. reflexivity. Qed.
